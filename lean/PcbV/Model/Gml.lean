import PcbV.Basic
import PcbV.Gen.Errors
import PcbV.Gen.DrawGml
import PcbV.Model.Mml
import PcbV.Model.Draw
/-
  PcbV.Model.Gml — executable model of the DRAW statement
  (pcbasic/basic/display/graphics.py: `Graphics.draw_`, `_draw`, `_draw_step`, the one-argument
  `point_`) on top of the macro-language scanner `PcbV.Model.Mml` (mlparser.py) and the line model
  `PcbV.Draw.drawLine` (C30/C31).

  One pass of the `while True` loop of `_draw` = `parseCmd` (skip blanks and semicolons, read the
  command letter and its arguments, range checks in the order of the code; nothing has a side effect
  before its last possible error) followed by `exec` (state change, emitted line / paint).
  `X` is handled by the loop itself: the substring is executed by a nested `_draw` call, which has its
  OWN `plot`/`goback` flags (a pending B or N prefix of the outer string survives the substring and
  applies to the outer string's next move).

  Rotation: `_draw_step` is exact integer arithmetic for angle 0, 360 (nothing) and 180 (negation);
  the other angles go through host floats and the mode's aspect ratio and are not modelled
  (`Status.unsupported`).  The pixels of `P` (flood fill) belong to C32; here `P` is parsed,
  range-checked and logged as an event.
-/
namespace PcbV.Gml
open PcbV PcbV.Gen PcbV.Mml

/-- the part of `Graphics` DRAW works on -/
structure Pen where
  /-- `_draw_current` (None until the first DRAW after another graphics statement) -/
  cur : Option (Int × Int)
  /-- `_last_point` -/
  last : Int × Int
  /-- `_last_attr` -/
  attr : Int
  /-- `_draw_scale` -/
  scale : Int
  /-- `_draw_angle` (degrees) -/
  angle : Int
  deriving DecidableEq, Repr

/-- what is fixed during a DRAW statement -/
structure Params where
  /-- limit on the nesting of X substrings (0 = none: the unrepaired code) -/
  maxNesting : Nat
  /-- `_num_attr` of the mode -/
  numAttr : Int
  /-- the repaired code clips the attribute of `C` to the mode's range -/
  clampAttr : Bool
  /-- a WINDOW is active: `_last_point` does not follow the DRAW position -/
  windowed : Bool
  /-- `graph_view.get_bounds()`: xmin, ymin, xmax, ymax -/
  bounds : Int × Int × Int × Int
  deriving Repr

/-- the current source, for a mode with `numAttr` attributes and the given viewport bounds -/
def params (numAttr : Int) (bounds : Int × Int × Int × Int) : Params :=
  ⟨DrawGml.maxNesting, numAttr, true, false, bounds⟩

/-- the unrepaired code: no nesting limit, attribute stored as given -/
def oldParams (numAttr : Int) (bounds : Int × Int × Int × Int) : Params :=
  ⟨0, numAttr, false, false, bounds⟩

/-- the commands of the Graphics Macro Language after parsing (numbers already range-checked) -/
inductive Cmd where
  | noPlot                        -- B
  | goBack                        -- N
  | sub (s : Bytes)               -- X
  | colour (k : Int)              -- C n, `C;` = 0
  | scale (k : Int)               -- S n
  | angle (deg : Int)             -- A n (90·n), TA n, `A;` `TA;` = 0
  | move (c : Nat) (k : Int)      -- U D L R E F G H (upper-case letter), count
  | moveTo (x y : Int)            -- M x,y
  | moveBy (x y : Int)            -- M ±x,y
  | paint (fill border : Int)     -- P fill,border
  deriving DecidableEq, Repr

/-- `error.range_check(lo, hi, k)` -/
def rangeChk (lo hi k : Int) : R Int :=
  if lo ≤ k ∧ k ≤ hi then .ok k else .error E.ifc

/-- a number that must be given, with its range check -/
def number (env : Env) (lo hi : Int) (s : Bytes) : R (Int × Bytes) :=
  match parseNumber env none s with
  | .error e => .error e
  | .ok (k, r) => (rangeChk lo hi k).map (fun k => (k, r))

/-- "allow empty spec (default 0), but only if followed by a semicolon"; the semicolon stays -/
def numberOrSemi (env : Env) (lo hi : Int) (s : Bytes) : R (Int × Bytes) :=
  match skipBlank s with
  | 59 :: r => .ok (0, 59 :: r)
  | _ => number env lo hi s

def isMoveLetter (c : Nat) : Bool :=
  c == 85 || c == 68 || c == 76 || c == 82 || c == 69 || c == 70 || c == 71 || c == 72

/-- the command whose (upper-cased) letter `c` has just been read; `r` follows it -/
def parseLetter (env : Env) (c : Nat) (r : Bytes) : R (Cmd × Bytes) :=
  if c == 66 then .ok (.noPlot, r)
  else if c == 78 then .ok (.goBack, r)
  else if c == 88 then (parseString env r).map (fun (s, r') => (.sub s, r'))
  else if c == 67 then (numberOrSemi env (-99999) 99999 r).map (fun (k, r') => (.colour k, r'))
  else if c == 83 then (number env 1 255 r).map (fun (k, r') => (.scale k, r'))
  else if c == 65 then (numberOrSemi env 0 3 r).map (fun (k, r') => (.angle (90 * k), r'))
  else if c == 84 then
    -- `if gmls.read(1).upper() != b'A'`: no blanks are skipped
    match r with
    | [] => .error E.ifc
    | a :: r1 =>
      if upper a == 65 then (numberOrSemi env (-360) 360 r1).map (fun (k, r') => (.angle k, r'))
      else .error E.ifc
  else if isMoveLetter c then
    match parseNumber env (some 1) r with
    | .error e => .error e
    | .ok (k, r') => (rangeChk (-99999) 99999 k).map (fun k => (.move c k, r'))
  else if c == 77 then
    let s0 := skipBlank r
    let relative := match s0 with
      | 43 :: _ => true
      | 45 :: _ => true
      | _ => false
    match number env (-9999) 9999 s0 with
    | .error e => .error e
    | .ok (x, r1) =>
      match skipBlank r1 with
      | 44 :: r2 =>
        (number env (-9999) 9999 r2).map
          (fun (y, r3) => (if relative then .moveBy x y else .moveTo x y, r3))
      | _ => .error E.ifc
  else if c == 80 then
    match number env 0 9999 r with
    | .error e => .error e
    | .ok (f, r1) =>
      match skipBlank r1 with
      | 44 :: r2 => (number env 0 9999 r2).map (fun (b, r3) => (.paint f b, r3))
      | _ => .error E.ifc
  else .error E.ifc

/-- read one command: blanks and any number of semicolons before it are skipped;
    `none` at the end of the string -/
def parseCmd (env : Env) : Bytes → R (Option (Cmd × Bytes))
  | [] => .ok none
  | c :: r => if c == 32 || c == 59 then parseCmd env r else (parseLetter env (upper c) r).map some

/-- the prefix flags of one `_draw` call -/
structure Flags where
  plot : Bool
  goback : Bool
  deriving DecidableEq, Repr

/-- `plot, goback = True, False` -/
def Flags.init : Flags := ⟨true, false⟩

/-- what DRAW does to the screen -/
inductive Ev where
  /-- `_draw_line(x0, y0, x1, y1, attr)` -/
  | seg (x0 y0 x1 y1 attr : Int)
  /-- `_flood_fill((x, y), fill_attr, None, border_attr, None)` -/
  | paint (x y fill border : Int)
  /-- `graph_view[y, x] = attr` (PSET, used in statement histories only) -/
  | pixel (x y attr : Int)
  deriving DecidableEq, Repr

/-- a move as the statement describes it: relative offset (before scaling) or absolute target,
    the scale, angle and colour in force, and the pending prefixes -/
structure Move where
  rel : Bool
  dx : Int
  dy : Int
  scale : Int
  angle : Int
  attr : Int
  plot : Bool
  goback : Bool
  deriving DecidableEq, Repr

/-- unit offsets of the eight directions times the count -/
def offsets (c : Nat) (k : Int) : Int × Int :=
  let dy : Int := if c == 85 || c == 69 || c == 72 then -k
                  else if c == 68 || c == 70 || c == 71 then k else 0
  let dx : Int := if c == 76 || c == 71 || c == 72 then -k
                  else if c == 82 || c == 69 || c == 70 then k else 0
  (dx, dy)

/-- `int(math.trunc(scale*s / 4.))` (exact: |scale·s| < 2^53) -/
def scaled (scale s : Int) : Int := Int.tdiv (scale * s) 4

/-- the rotations `_draw_step` does in integers -/
def rotate (angle x y : Int) : Option (Int × Int) :=
  if angle = 0 ∨ angle = 360 then some (x, y)
  else if angle = 180 then some (-x, -y)
  else none

/-- the point a move leads to from `p` -/
def Move.target (m : Move) (p : Int × Int) : Option (Int × Int) :=
  if m.rel then (rotate m.angle (scaled m.scale m.dx) (scaled m.scale m.dy)).map
    (fun (rx, ry) => (p.1 + rx, p.2 + ry))
  else some (m.dx, m.dy)

/-- current position: `self._draw_current or self._last_point` -/
def Pen.pos (pen : Pen) : Int × Int := pen.cur.getD pen.last

/-- `_get_attr_index` for an index ≥ 0 -/
def clampAttr (numAttr k : Int) : Int := min (numAttr - 1) (max 0 k)

inductive Res where
  | ok (pen : Pen) (fl : Flags) (evs : List Ev) (moves : List Move)
  | err (e : Nat)
  | unsupported
  deriving DecidableEq, Repr

/-- a move: `_draw_step` for relative moves, the `else` branch of `M` for absolute ones -/
def doMove (pen : Pen) (m : Move) : Res :=
  let p0 := pen.pos
  match m.target p0 with
  | none => .unsupported
  | some p1 =>
    .ok { pen with cur := some (if m.goback then p0 else p1) } Flags.init
      (if m.plot then [.seg p0.1 p0.2 p1.1 p1.2 m.attr] else []) [m]

def mkMove (pen : Pen) (fl : Flags) (rel : Bool) (dx dy : Int) : Move :=
  ⟨rel, dx, dy, pen.scale, pen.angle, pen.attr, fl.plot, fl.goback⟩

/-- state change and output of one command (`X` is handled by the loop) -/
def exec (P : Params) (pen : Pen) (fl : Flags) : Cmd → Res
  | .noPlot => .ok pen { fl with plot := false } [] []
  | .goBack => .ok pen { fl with goback := true } [] []
  | .sub _ => .ok pen fl [] []
  | .colour k => .ok { pen with attr := if P.clampAttr then clampAttr P.numAttr k else k } fl [] []
  | .scale k => .ok { pen with scale := k } fl [] []
  | .angle d => .ok { pen with angle := d } fl [] []
  | .move c k => let (dx, dy) := offsets c k; doMove pen (mkMove pen fl true dx dy)
  | .moveBy x y => doMove pen (mkMove pen fl true x y)
  | .moveTo x y => doMove pen (mkMove pen fl false x y)
  | .paint f b =>
    -- `_flood_fill` → `_get_window_physical`: overflow check, then nothing outside the viewport
    let (x, y) := pen.pos
    if x < -32768 ∨ y < -32768 ∨ x > 32767 ∨ y > 32767 then .err E.overflow
    else
      let (bx0, by0, bx1, by1) := P.bounds
      let inside := decide (bx0 ≤ x ∧ x ≤ bx1 ∧ by0 ≤ y ∧ y ≤ by1)
      .ok (if inside then { pen with last := (x, y) } else pen) fl
        (if inside then [.paint x y (clampAttr P.numAttr f) (clampAttr P.numAttr b)] else []) []

inductive Status where
  | ok
  | err (e : Nat)
  /-- the recursion did not end (unrepaired code: Python RecursionError) -/
  | outOfFuel
  /-- a move under an angle other than 0, 180, 360 -/
  | unsupported
  deriving DecidableEq, Repr

structure Out where
  pen : Pen
  evs : List Ev
  moves : List Move
  status : Status
  deriving DecidableEq, Repr

/-- entry of `_draw`: `if not self._draw_current: self._draw_current = self._last_point` -/
def enter (pen : Pen) : Pen := { pen with cur := some pen.pos }

/-- exit of `_draw`: `if self._window_bounds is None: self._last_point = self._draw_current` -/
def leave (P : Params) (pen : Pen) : Pen := if P.windowed then pen else { pen with last := pen.pos }

/-- the `while True` loop of one `_draw` call at nesting `depth`.  Changes made and lines drawn
    before an error stay.  The fuel bounds the total number of commands read on one path. -/
def loop (P : Params) (env : Env) : Nat → Nat → Pen → Flags → Bytes → Out
  | 0, _, pen, _, _ => ⟨pen, [], [], .outOfFuel⟩
  | f + 1, depth, pen, fl, s =>
    match parseCmd env s with
    | .error e => ⟨pen, [], [], .err e⟩
    | .ok none => ⟨pen, [], [], .ok⟩
    | .ok (some (.sub sub, r)) =>
      if P.maxNesting ≠ 0 ∧ depth + 1 > P.maxNesting then ⟨pen, [], [], .err E.out_of_memory⟩
      else
        let o1 := loop P env f (depth + 1) (enter pen) Flags.init sub
        match o1.status with
        | .ok =>
          let o2 := loop P env f depth (leave P o1.pen) fl r
          { o2 with evs := o1.evs ++ o2.evs, moves := o1.moves ++ o2.moves }
        | _ => o1
    | .ok (some (cmd, r)) =>
      match exec P pen fl cmd with
      | .err e => ⟨pen, [], [], .err e⟩
      | .unsupported => ⟨pen, [], [], .unsupported⟩
      | .ok pen' fl' evs ms =>
        let o := loop P env f depth pen' fl' r
        { o with evs := evs ++ o.evs, moves := ms ++ o.moves }

/-- `DRAW s` -/
def draw (P : Params) (env : Env) (fuel : Nat) (pen : Pen) (s : Bytes) : Out :=
  let o := loop P env fuel 0 (enter pen) Flags.init s
  match o.status with
  | .ok => { o with pen := leave P o.pen }
  | _ => o

/-- `POINT(0)`, `POINT(1)` -/
def point (pen : Pen) (fn : Nat) : Int := if fn = 0 then pen.pos.1 else pen.pos.2

/-! ### the statement's own account of a list of moves -/

/-- where the pen is after one move -/
def Move.next (p : Int × Int) (m : Move) : Int × Int :=
  if m.goback then p else (m.target p).getD p

/-- final pen position: the moves applied in order -/
def finalPos (p : Int × Int) (ms : List Move) : Int × Int := ms.foldl Move.next p

/-- the segments of the drawn moves -/
def segsOf (p : Int × Int) : List Move → List Ev
  | [] => []
  | m :: ms =>
    (if m.plot then
      match m.target p with
      | some q => [Ev.seg p.1 p.2 q.1 q.2 m.attr]
      | none => []
     else []) ++ segsOf (m.next p) ms

def Ev.isSeg : Ev → Bool
  | .seg .. => true
  | _ => false

/-! ### the screen -/

/-- the `graph_view[…] = attr` calls of one event under viewport `v`: a segment is the call
    `_draw_line(x0, y0, x1, y1, attr)` that `LINE (x0,y0)-(x1,y1),attr` issues -/
def Ev.ops (v : Viewport.View) : Ev → Draw.Ops
  | .seg x0 y0 x1 y1 _ => Draw.drawLine v x0 y0 x1 y1
  | .pixel x y _ => Draw.pset x y
  | .paint .. => []

def Ev.attr : Ev → Int
  | .seg _ _ _ _ a => a
  | .pixel _ _ a => a
  | .paint _ _ f _ => f

/-- `LINE (x0,y0)-(x1,y1),c` for 0 ≤ c ≤ 255 with no WINDOW: the ops it issues and the attribute -/
def lineStmt (P : Params) (v : Viewport.View) (x0 y0 x1 y1 c : Int) : Draw.Ops × Int :=
  (Draw.drawLine v x0 y0 x1 y1 0xffff, if c = 0 then 0 else clampAttr P.numAttr c)

/-- page after the events, in order -/
def paintEvs (v : Viewport.View) (pg : Draw.Page) (evs : List Ev) : Draw.Page :=
  evs.foldl (fun pg e => Draw.applyOps v e.attr.toNat pg (e.ops v)) pg

/-! ### other statements of a history (integer coordinates, no WINDOW) -/

inductive Stmt where
  | draw (s : Bytes)
  /-- `PSET (x,y),c` -/
  | pset (x y c : Int)
  /-- `LINE -(x,y),c` -/
  | lineTo (x y c : Int)
  deriving DecidableEq, Repr

def stmtAttr (P : Params) (c : Int) : Int := if c = 0 then 0 else clampAttr P.numAttr c

/-- one statement: new pen, events, status -/
def stmt (P : Params) (env : Env) (fuel : Nat) (pen : Pen) : Stmt → Out
  | .draw s => draw P env fuel pen s
  | .pset x y c =>
    let a := stmtAttr P c
    ⟨{ pen with cur := none, last := (x, y), attr := a }, [.pixel x y a], [], .ok⟩
  | .lineTo x y c =>
    let a := stmtAttr P c
    ⟨{ pen with cur := none, last := (x, y), attr := a },
     [.seg pen.last.1 pen.last.2 x y a], [], .ok⟩

end PcbV.Gml
