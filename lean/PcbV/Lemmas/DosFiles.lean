/-
  Lemmas for C28: upper-casing, dos_splitext, dos_normalise_name, dos_is_legal_name, the wildcard matcher.
-/
import PcbV.Lemmas.PathsNames
import PcbV.Model.DosFiles
namespace PcbV.DosFilesLemmas
open PcbV PcbV.Gen PcbV.Gen.DosTables PcbV.DosNames PcbV.DosFiles PcbV.PathLemmas

/-! ### upper -/

theorem upperB_idem (b : Nat) : upperB (upperB b) = upperB b := by
  unfold upperB; split <;> (try split) <;> omega

theorem upper_idem (s : Bytes) : upper (upper s) = upper s := by
  simp [upper, List.map_map, Function.comp_def, upperB_idem]

theorem upperB_ne_dot {a : Nat} : (upperB a != 46) = (a != 46) := by
  by_cases h : a = 46
  · subst h; decide
  · have : upperB a ≠ 46 := fun h' => h (upperB_dot h')
    have h1 : (upperB a != 46) = true := by simpa using this
    have h2 : (a != 46) = true := by simpa using h
    rw [h1, h2]

theorem upper_take (k : Nat) (s : Bytes) : upper (s.take k) = (upper s).take k := by
  simp [upper, List.map_take]

theorem upper_append (a b : Bytes) : upper (a ++ b) = upper a ++ upper b := by simp [upper]

theorem upper_length (s : Bytes) : (upper s).length = s.length := by simp [upper]

theorem mem_upper_dot {s : Bytes} : 46 ∈ upper s ↔ 46 ∈ s := by
  simp only [upper, List.mem_map]
  constructor
  · rintro ⟨a, ha, h⟩; rw [upperB_dot h] at ha; exact ha
  · intro h; exact ⟨46, h, by decide⟩

theorem isSpace_upperB (b : Nat) : isSpace (upperB b) = isSpace b := by
  unfold upperB isSpace
  split
  · rename_i h
    rw [Bool.eq_iff_iff]
    simp only [Bool.or_eq_true, beq_iff_eq, Bool.and_eq_true, decide_eq_true_eq]
    omega
  · rfl

theorem dropWhile_isSpace_upper (s : Bytes) : (upper s).dropWhile isSpace = upper (s.dropWhile isSpace) := by
  induction s with
  | nil => rfl
  | cons a s ih =>
    simp only [upper, List.map_cons, List.dropWhile_cons, isSpace_upperB]
    split
    · simpa [upper] using ih
    · simp

theorem lstrip_upper (s : Bytes) : lstrip (upper s) = upper (lstrip s) := dropWhile_isSpace_upper s

theorem rstrip_upper (s : Bytes) : rstrip (upper s) = upper (rstrip s) := by
  have h : (upper s).reverse = upper s.reverse := by simp [upper]
  simp only [rstrip, h, dropWhile_isSpace_upper]
  simp [upper]

theorem strip_upper (s : Bytes) : strip (upper s) = upper (strip s) := by
  simp [strip, rstrip_upper, lstrip_upper]

/-! ### dos_splitext -/

theorem splitext_upper (s : Bytes) : splitext (upper s) = (upper (splitext s).1, upper (splitext s).2) := by
  induction s with
  | nil => rfl
  | cons a s ih =>
    simp only [splitext, upper, List.map_cons, List.takeWhile_cons, List.dropWhile_cons, upperB_ne_dot] at ih ⊢
    by_cases h : a = 46
    · subst h; simp
    · simp only [bne_iff_ne, ne_eq, h, not_false_eq_true, ↓reduceIte, List.map_cons, Prod.mk.injEq,
        List.cons.injEq, true_and]
      exact ⟨(Prod.mk.inj ih).1, (Prod.mk.inj ih).2⟩

theorem splitext_nodot {t : Bytes} (h : 46 ∉ t) : splitext t = (t, []) := by
  induction t with
  | nil => rfl
  | cons a t ih =>
    have ha : a ≠ 46 := fun e => h (e ▸ List.mem_cons_self)
    have ht : 46 ∉ t := fun m => h (List.mem_cons_of_mem _ m)
    have := ih ht
    simp only [splitext, Prod.mk.injEq] at this ⊢
    simp [ha, this.1, this.2]

theorem splitext_join {t : Bytes} (e : Bytes) (h : 46 ∉ t) : splitext (t ++ 46 :: e) = (t, e) := by
  induction t with
  | nil => simp [splitext]
  | cons a t ih =>
    have ha : a ≠ 46 := fun e => h (e ▸ List.mem_cons_self)
    have ht : 46 ∉ t := fun m => h (List.mem_cons_of_mem _ m)
    have := ih ht
    simp only [splitext, Prod.mk.injEq] at this ⊢
    simp [ha, this.1, this.2]

/-- a name is its trunk, and when it has a dot, the dot and the extension -/
theorem splitext_rebuild (s : Bytes) :
    s = if 46 ∈ s then (splitext s).1 ++ 46 :: (splitext s).2 else (splitext s).1 := by
  induction s with
  | nil => simp [splitext]
  | cons a s ih =>
    by_cases ha : a = 46
    · subst ha; simp [splitext]
    · have h1 : (46 ∈ a :: s) = (46 ∈ s) := by simp [Ne.symm ha]
      simp only [h1]
      simp only [splitext] at ih ⊢
      simp only [List.takeWhile_cons, bne_iff_ne, ne_eq, ha, not_false_eq_true, ↓reduceIte,
        List.dropWhile_cons]
      split
      · rename_i h; rw [if_pos h] at ih; simp only [List.cons_append, List.cons.injEq, true_and]; exact ih
      · rename_i h; rw [if_neg h] at ih; simp only [List.cons.injEq, true_and]; exact ih

/-! ### dos_normalise_name -/

/-- the two parts of the normalised name -/
def normT (s : Bytes) : Bytes := (upper (splitext s).1).take 8
def normE (s : Bytes) : Bytes := (upper (splitext s).2).take 3

theorem normalise_eq {s : Bytes} (h : isDots s = false) :
    normalise s = if (normE s).isEmpty then normT s else normT s ++ 46 :: normE s := by
  simp [normalise, h, splitext_upper, normT, normE]

theorem normT_nodot (s : Bytes) : 46 ∉ normT s := by
  intro h
  have := List.mem_of_mem_take h
  rw [mem_upper_dot] at this
  exact no_dot_trunk s this

theorem upper_normT (s : Bytes) : upper (normT s) = normT s := by
  simp [normT, ← upper_take, upper_idem]

theorem upper_normE (s : Bytes) : upper (normE s) = normE s := by
  simp [normE, ← upper_take, upper_idem]

theorem splitext_normalise {s : Bytes} (h : isDots s = false) :
    splitext (normalise s) = (normT s, normE s) := by
  rw [normalise_eq h]
  split
  · rename_i he
    rw [splitext_nodot (normT_nodot s)]
    simp at he; rw [he]
  · exact splitext_join _ (normT_nodot s)

theorem normalise_idem (s : Bytes) : normalise (normalise s) = normalise s := by
  cases h : isDots s with
  | true => simp [normalise, h]
  | false =>
    have hd := normalise_not_dots h
    have hs := splitext_normalise h
    rw [normalise_eq hd]
    have hT : normT (normalise s) = normT s := by
      show (upper (splitext (normalise s)).1).take 8 = normT s
      rw [hs]; simp only [upper_normT]
      simp [normT, List.take_take]
    have hE : normE (normalise s) = normE s := by
      show (upper (splitext (normalise s)).2).take 3 = normE s
      rw [hs]; simp only [upper_normE]
      simp [normE, List.take_take]
    rw [hT, hE, normalise_eq h]

/-! ### wildcard matcher -/

theorem wmatch_nil (n : Bytes) : wmatch [] n = n.isEmpty := by simp [wmatch]

theorem wmatch_q (ms n : Bytes) :
    wmatch (63 :: ms) n = match n with | [] => false | c :: n' => c != 10 && wmatch ms n' := by
  cases n <;> simp [wmatch]

theorem wmatch_star_eq (ms n : Bytes) :
    wmatch (42 :: ms) n = (wmatch ms n || match n with | [] => false | c :: n' => c != 10 && wmatch (42 :: ms) n') := by
  cases n <;> simp [wmatch, starAux]

theorem wmatch_lit {m : Nat} (ms n : Bytes) (h1 : m ≠ 63) (h2 : m ≠ 42) :
    wmatch (m :: ms) n = match n with | [] => false | c :: n' => c == m && wmatch ms n' := by
  cases n <;> simp [wmatch, h1, h2]

theorem wmatch_star (ms : Bytes) : ∀ n : Bytes, wmatch (42 :: ms) n = true ↔
    ∃ k, k ≤ n.length ∧ (∀ c ∈ n.take k, c ≠ 10) ∧ wmatch ms (n.drop k) = true
  | [] => by
    rw [wmatch_star_eq]
    constructor
    · intro h; exact ⟨0, by simp, by simp, by simpa using h⟩
    · rintro ⟨k, hk, _, h⟩
      have : k = 0 := by simpa using hk
      subst this; simpa using h
  | c :: n' => by
    rw [wmatch_star_eq]
    have ih := wmatch_star ms n'
    constructor
    · intro h
      rcases Bool.or_eq_true _ _ |>.mp h with h | h
      · exact ⟨0, by simp, by simp, by simpa using h⟩
      · simp only [Bool.and_eq_true, bne_iff_ne, ne_eq] at h
        obtain ⟨k, hk, hall, hm⟩ := ih.mp h.2
        refine ⟨k + 1, by simp; omega, ?_, by simpa using hm⟩
        intro x hx
        simp only [List.take_succ_cons, List.mem_cons] at hx
        rcases hx with hx | hx
        · rw [hx]; exact h.1
        · exact hall x hx
    · rintro ⟨k, hk, hall, hm⟩
      cases k with
      | zero => simp at hm; simp [hm]
      | succ k =>
        simp only [List.take_succ_cons, List.mem_cons, forall_eq_or_imp] at hall
        simp only [List.drop_succ_cons] at hm
        have : wmatch (42 :: ms) n' = true :=
          ih.mpr ⟨k, by simp at hk; omega, hall.2, hm⟩
        simp [this, hall.1]

end PcbV.DosFilesLemmas
