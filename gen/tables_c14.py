"""Generate lean/PcbV/Gen/RenumTokens.lean: the token constants Program.renum depends on."""
from gen_tables import generator, HEADER


@generator('RenumTokens')
def gen_renum_tokens():
    from pcbasic.basic.base import tokens as tk
    out = [HEADER, 'namespace PcbV.Gen.RenumTokens\n']
    out.append('/-- tk.T_UINT: lead byte of a line-number reference (jump number) -/')
    out.append('def tUint : Nat := %d' % ord(tk.T_UINT))
    out.append('/-- tk.GOTO -/')
    out.append('def tGoto : Nat := %d' % ord(tk.GOTO))
    out.append('/-- tk.ERROR -/')
    out.append('def tError : Nat := %d' % ord(tk.ERROR))
    out.append('\nend PcbV.Gen.RenumTokens\n')
    return '\n'.join(out)
