import PcbV.Lemmas.KeyBuf
import PcbV.Gen.Translated
import PcbV.Lemmas.PyIntLemmas
/-
  C37 — The keyboard buffer is a 15-key FIFO mirrored in BIOS memory.

  Subject: `PcbV.KeyBuf` (transcription of keyboard.py:KeyboardBuffer with the repaired
  `ring_set_boundaries`, and of machine.py low memory 1050..1085).  A history is an arbitrary `List Op`
  (key presses under the buffer-full check, injections that ignore the limit, INKEY$ reads, PEEKs, POKEs,
  the clearing idiom); `run init ops` is what the driver executes in the correspondence check.

  Definitions used in the statements (PcbV.Lemmas.KeyBuf): `Inv s` = `1 ≤ _start ≤ len(_buffer) ∧ 16 ≤ len(_buffer)`,
  `Bounded s` = `len(_buffer) ≤ _start + 15`, `NoInject op` = op is not a limit-ignoring injection,
  `FifoOp op` = op is not a raw POKE (the clearing idiom is its own op).

  DBCS: `getFullchar`/`readAll` model Keyboard.get_fullchar / read_byte; `fullchar_preserves_bytes`,
  `reads_preserve_bytes`, `dbcs_fifo`: no reading path loses, repeats or reorders a byte, whatever the pairing.

  Main theorems: `fifo_refinement`, `waiting_le_15`, `ring_mirror`, `pointer_poke_keeps_slots`,
  `clear_poke_empties`, `clear_poke_pointers`; `old_*_counterexample` are about the code before the repair.
-/
namespace PcbV.C37
open PcbV PcbV.KeyBuf

/-- the regenerated constants of /repo are the literals the model is written with -/
theorem constants_match :
    Gen.KeyBuf.ringLength = 16 ∧ Gen.KeyBuf.initStart = 16 ∧ Gen.KeyBuf.initLen = 16 ∧
    Gen.KeyBuf.keyBufferOffset = 30 ∧ Gen.KeyBuf.zeroKey = ([0, 0], 0) := by decide

/-- `_start ≤ len(_buffer)` etc. hold after every history (justifies the truncated subtraction of the model) -/
theorem inv_run (ops : List Op) : Inv (run init ops).2 := run_inv ops init init_inv.1

/-! ### the clearing idiom -/

/-- `POKE 1050, PEEK(1052)` empties the buffer — in every state, reachable or not. -/
theorem clear_poke_empties (s : KB) : waiting (pokeMem s 1050 (peekMem s 1052)) = [] := by
  have h := stopP_lt s
  rw [peek_tail]
  have e : pokeMem s 1050 (stopP s * 2 + 30) =
      setBoundaries s ((((stopP s * 2 + 30 : Nat) : Int) - 30) / 2) (stopP s) := by
    simp [pokeMem]
  rw [e]
  apply List.eq_nil_of_length_eq_zero
  rw [(setBoundaries_pointers _ _ _).2.2]
  omega

/-- after the clearing idiom both pointers show the old tail, and the slots have not moved -/
theorem clear_poke_pointers (s : KB) (hi : Inv s) (hb : Bounded s) :
    let s' := pokeMem s 1050 (peekMem s 1052)
    peekMem s' 1050 = peekMem s 1052 ∧ peekMem s' 1052 = peekMem s 1052 ∧
    ∀ i : Nat, i < 16 → ringRead s' (i : Int) = ringRead s (i : Int) := by
  have h := stopP_lt s
  have e : pokeMem s 1050 (peekMem s 1052) =
      setBoundaries s ((((stopP s * 2 + 30 : Nat) : Int) - 30) / 2) (stopP s) := by
    rw [peek_tail]; simp [pokeMem]
  simp only [e]
  obtain ⟨p1, p2, _⟩ := setBoundaries_pointers s ((((stopP s * 2 + 30 : Nat) : Int) - 30) / 2) (stopP s)
  refine ⟨?_, ?_, fun i hi' => setBoundaries_keeps_slots s _ _ hi hb i hi'⟩
  · rw [peek_tail, peek_head, p1]; omega
  · rw [peek_tail s, peek_tail, p2]; omega

/-! ### FIFO refinement -/

/-- the specification: a plain queue of keystrokes; typed keys are dropped while 15 wait -/
def specStep (q : List Bytes) : Op → List Bytes × Option Bytes
  | .press c _ => (if c = [] then q else if q.length ≥ 15 then q else q ++ [c], none)
  | .inject c => (if c = [] then q else q ++ [c], none)
  | .read => match q with
    | [] => ([], some [])
    | c :: t => (t, some c)
  | .peek _ => (q, none)
  | .poke _ _ => (q, none)
  | .clear => ([], none)

/-- (what the reads deliver, what is still waiting) -/
def specRun (q : List Bytes) : List Op → List (Bytes) × List Bytes
  | [] => ([], q)
  | op :: rest =>
    let r := specStep q op
    let t := specRun r.1 rest
    (match r.2 with | some c => c :: t.1 | none => t.1, t.2)

def reads : List Out → List Bytes
  | [] => []
  | .key c :: t => c :: reads t
  | .byte _ :: t => reads t

def outKey : Option Out → Option Bytes
  | some (.key c) => some c
  | _ => none

/-- the characters of the waiting keystrokes, oldest first -/
def keys (s : KB) : List Bytes := (waiting s).map Prod.fst

theorem step_refines (s : KB) (op : Op) (hf : FifoOp op) (hi : Inv s) :
    keys (step s op).1 = (specStep (keys s) op).1 ∧ outKey (step s op).2 = (specStep (keys s) op).2 := by
  cases op with
  | press c scan =>
    refine ⟨?_, rfl⟩
    show keys (append s c scan true) = _
    unfold keys specStep
    rw [append_waiting s c scan true hi]
    simp only [List.length_map, true_and]
    split
    · rfl
    · split <;> simp
  | inject c =>
    refine ⟨?_, rfl⟩
    show keys (append s c 0 false) = _
    unfold keys
    rw [append_waiting s c 0 false hi]
    simp only [specStep]
    split <;> simp [*]
  | read =>
    show keys (getc s).2 = _ ∧ outKey (some (.key (getc s).1)) = _
    cases hw : waiting s with
    | nil =>
      rw [(getc_spec s hi).1 hw]
      simp [keys, hw, specStep, outKey]
    | cons k t =>
      obtain ⟨e1, e2, _⟩ := (getc_spec s hi).2 k t hw
      simp [keys, hw, specStep, outKey, e1, e2]
  | peek a => exact ⟨rfl, rfl⟩
  | poke a v => exact absurd hf (by simp [FifoOp])
  | clear =>
    refine ⟨?_, rfl⟩
    show keys (pokeMem s 1050 (peekMem s 1052)) = _
    simp [keys, clear_poke_empties, specStep]

theorem fifo_refinement_from (ops : List Op) (s : KB) (hf : ∀ op ∈ ops, FifoOp op) (hi : Inv s) :
    reads (run s ops).1 = (specRun (keys s) ops).1 ∧ keys (run s ops).2 = (specRun (keys s) ops).2 := by
  induction ops generalizing s with
  | nil => exact ⟨rfl, rfl⟩
  | cons op rest ih =>
    obtain ⟨r1, r2⟩ := step_refines s op (hf op List.mem_cons_self) hi
    obtain ⟨i1, i2⟩ := ih (step s op).1 (fun o ho => hf o (List.mem_cons_of_mem _ ho)) (step_inv s op hi)
    simp only [run, specRun]
    rw [← r2, ← r1, ← i1, ← i2]
    refine ⟨?_, rfl⟩
    cases (step s op).2 with
    | none => rfl
    | some o => cases o <;> rfl

theorem keys_init : keys init = [] := by decide

/-- **FIFO refinement.**  For every history of key presses (with and without a character), injections, INKEY$
    reads, PEEKs and clearing POKEs, INKEY$ delivers exactly what a plain queue delivers in which a typed key is
    dropped when 15 are waiting: keys come out in the order typed, none lost or repeated; and the keys still
    waiting at the end are the queue's. -/
theorem fifo_refinement (ops : List Op) (hf : ∀ op ∈ ops, FifoOp op) :
    reads (run init ops).1 = (specRun [] ops).1 ∧ keys (run init ops).2 = (specRun [] ops).2 := by
  have := fifo_refinement_from ops init hf init_inv.1
  rwa [keys_init] at this

/-- never more than 15 keys wait, whatever is typed, read, PEEKed or POKEd (raw POKEs included) -/
theorem waiting_le_15 (ops : List Op) (hn : ∀ op ∈ ops, NoInject op) :
    (waiting (run init ops).2).length ≤ 15 := by
  have hb := run_bounded ops init hn init_inv.1 init_inv.2
  have hi := inv_run ops
  rw [waiting_length]; unfold Bounded at hb; omega

/-! ### the ring seen through PEEK -/

theorem ring_mirror_state (s : KB) (hi : Inv s) (hb : Bounded s) :
    let n := (waiting s).length
    let head := startP s
    n ≤ 15 ∧ head < 16 ∧
    peekMem s 1050 = 30 + 2 * head ∧ peekMem s 1051 = 0 ∧
    peekMem s 1052 = 30 + 2 * ((head + n) % 16) ∧ peekMem s 1053 = 0 ∧
    ∀ k (hk : k < n),
      peekMem s (1054 + 2 * ((head + k) % 16)) = firstByte ((waiting s)[k]).1 ∧
      peekMem s (1055 + 2 * ((head + k) % 16)) = ((waiting s)[k]).2 := by
  obtain ⟨h1, h2, h3⟩ := hi
  unfold Bounded at hb
  have hl := waiting_length s
  have hs := startP_lt s
  have ht := stopP_lt s
  have hstop : stopP s = (startP s + (waiting s).length) % 16 := by
    unfold stopP startP length; rw [hl]; omega
  refine ⟨by omega, hs, ?_, ?_, ?_, ?_, ?_⟩
  · simp [peekMem]; omega
  · simp [peekMem]; omega
  · rw [peek_tail, hstop]; omega
  · simp [peekMem]; omega
  · intro k hk
    have hk' : s.start + k < s.buf.length := by omega
    have e : (startP s + k) % 16 = (s.start + k) % 16 := by unfold startP; omega
    have hr := ringRead_window s (s.start + k) (by omega) hk'
    have hw : (waiting s)[k] = s.buf[s.start + k] := by simp [waiting]
    obtain ⟨p1, p2⟩ := peek_slot s ((startP s + k) % 16) (by omega)
    rw [p1, p2, e, hr, hw]
    exact ⟨rfl, rfl⟩

/-- **Ring mirror.**  After every history without limit-ignoring injections — raw pointer and slot POKEs
    included — the BIOS picture is consistent: at most 15 keys wait; PEEK(1050/1051) is the head pointer
    `30 + 2*head`, PEEK(1052/1053) the tail pointer `30 + 2*((head + n) mod 16)`; and the two bytes of slot
    `(head + k) mod 16` are the first character byte and the scancode of the k-th waiting keystroke
    (the one the (k+1)-th INKEY$ from now delivers, by `fifo_refinement_from`). -/
theorem ring_mirror (ops : List Op) (hn : ∀ op ∈ ops, NoInject op) :
    let s := (run init ops).2
    let n := (waiting s).length
    let head := startP s
    n ≤ 15 ∧ head < 16 ∧
    peekMem s 1050 = 30 + 2 * head ∧ peekMem s 1051 = 0 ∧
    peekMem s 1052 = 30 + 2 * ((head + n) % 16) ∧ peekMem s 1053 = 0 ∧
    ∀ k (hk : k < n),
      peekMem s (1054 + 2 * ((head + k) % 16)) = firstByte ((waiting s)[k]).1 ∧
      peekMem s (1055 + 2 * ((head + k) % 16)) = ((waiting s)[k]).2 :=
  ring_mirror_state _ (inv_run ops) (run_bounded ops init hn init_inv.1 init_inv.2)

/-- **Pointer POKEs do not move the slots.**  In every state reached without injections, POKE 1050 / 1052 with any
    byte value leaves all 16 slots as they were and sets the pointers to the (floored, mod 16) slot number. -/
theorem pointer_poke_keeps_slots (ops : List Op) (hn : ∀ op ∈ ops, NoInject op) (v : Nat) (i : Nat) (h : i < 16) :
    let s := (run init ops).2
    ringRead (pokeMem s 1050 v) (i : Int) = ringRead s (i : Int) ∧
    ringRead (pokeMem s 1052 v) (i : Int) = ringRead s (i : Int) ∧
    startP (pokeMem s 1050 v) = ((((v : Int) - 30) / 2) % 16).toNat ∧
    stopP (pokeMem s 1050 v) = stopP s ∧
    startP (pokeMem s 1052 v) = startP s ∧
    stopP (pokeMem s 1052 v) = ((((v : Int) - 30) / 2) % 16).toNat := by
  have hi := inv_run ops
  have hb := run_bounded ops init hn init_inv.1 init_inv.2
  have hs := startP_lt (run init ops).2
  have ht := stopP_lt (run init ops).2
  simp only [pokeMem, if_true, show (1052 : Nat) ≠ 1050 by decide, if_false]
  refine ⟨setBoundaries_keeps_slots _ _ _ hi hb i h, setBoundaries_keeps_slots _ _ _ hi hb i h, ?_, ?_, ?_, ?_⟩
  · exact (setBoundaries_pointers _ _ _).1
  · rw [(setBoundaries_pointers _ _ _).2.1]; omega
  · rw [(setBoundaries_pointers _ _ _).1]; omega
  · exact (setBoundaries_pointers _ _ _).2.1

/-! ### the code before the repair -/

/-- typing `abc` -/
def abc : List Op := [.press [97] 30, .press [98] 48, .press [99] 46]

/-- D13: with the unrepaired `ring_set_boundaries`, `POKE 1050, PEEK(1052)` after typing `abc` leaves a FULL
    buffer: 16 keystrokes wait and the first INKEY$ delivers `a` again (replayed on the implementation). -/
theorem old_clear_poke_counterexample :
    (Old.pokeMem 64 (run init abc).2 1050 (peekMem (run init abc).2 1052)).map
      (fun s' => ((waiting s').length, (getc s').1)) = some (16, [97]) := by decide

/-- even on a fresh, empty buffer the old clearing idiom produced 16 phantom keystrokes -/
theorem old_clear_poke_fresh_counterexample :
    (Old.pokeMem 64 init 1050 (peekMem init 1052)).map (fun s' => ((waiting s').length, (getc s').1))
      = some (16, [0, 0]) := by decide

/-- the old head POKE also moved the slots: after typing `abcde`, `POKE 1050, 34` (skip two keys) left `a` to be
    delivered next instead of `c` -/
theorem old_pointer_poke_counterexample :
    (Old.pokeMem 64 (run init (abc ++ [.press [100] 32, .press [101] 18])).2 1050 34).map
      (fun s' => (getc s').1) = some [97] ∧
    (getc (pokeMem (run init (abc ++ [.press [100] 32, .press [101] 18])).2 1050 34)).1 = [99] := by decide

/-- the old padding loop never terminates for a pointer outside the ring: `POKE 1050, 0` (and any value
    outside 30..61) hung the interpreter — no amount of fuel suffices -/
theorem old_pointer_poke_hangs_counterexample (fuel : Nat) (s : KB) (v : Nat) (h : v < 30 ∨ 62 ≤ v) :
    Old.pokeMem fuel s 1050 v = none := by
  have : Old.pokeMem fuel s 1050 v = Old.setBoundaries fuel s (((v : Int) - 30) / 2) (stopP s) := by
    simp [Old.pokeMem]
  rw [this]
  unfold Old.setBoundaries
  simp only
  rw [old_padLoop_none _ _ _ _ (by omega)]

/-! ### non-vacuity -/

example : Inv init ∧ Bounded init := init_inv
example : ∀ op ∈ abc ++ [.read, .peek 1050, .clear, .read], FifoOp op ∧ NoInject op := by decide
/-- typing `abc`, reading once, PEEKing the head pointer and a slot, clearing, typing `d`, reading twice -/
example : (run init (abc ++ [.read, .peek 1050, .peek 1056, .clear, .peek 1050, .peek 1052, .press [100] 32, .read, .read])).1
    = [.key [97], .byte 32, .byte 98, .byte 36, .byte 36, .key [100], .key []] := by decide
/-- the 16th typed key is dropped -/
example : (specRun [] ((List.replicate 16 (.press [120] 45)) ++ List.replicate 17 .read)).1
    = List.replicate 15 [120] ++ [[], []] := by decide
example : reads (run init ((List.replicate 16 (.press [120] 45)) ++ List.replicate 17 .read)).1
    = List.replicate 15 [120] ++ [[], []] := by decide +kernel

/-! ### every reading path delivers every byte once, in order — whatever the DBCS pairing -/

/-- all bytes of the waiting keystrokes, in order -/
def bytesOf (s : KB) : Bytes := (keys s).flatten

theorem getc_bytes (s : KB) (hi : Inv s) :
    (getc s).1 ++ bytesOf (getc s).2 = bytesOf s ∧ Inv (getc s).2 := by
  cases hw : waiting s with
  | nil => rw [(getc_spec s hi).1 hw]; exact ⟨by simp, hi⟩
  | cons k t =>
    obtain ⟨e1, e2, e3, _⟩ := (getc_spec s hi).2 k t hw
    refine ⟨?_, e3⟩
    simp [bytesOf, keys, hw, e1, e2]

/-- **`get_fullchar` loses nothing**: for ANY lead/trail byte sets, what it delivers followed by the bytes still
    waiting is exactly the bytes that were waiting (a lead byte whose successor is not a trail byte leaves
    that successor in the buffer). -/
theorem fullchar_preserves_bytes (lead trail : Nat → Bool) (s : KB) (hi : Inv s) :
    (getFullchar lead trail s).1 ++ bytesOf (getFullchar lead trail s).2 = bytesOf s ∧
    Inv (getFullchar lead trail s).2 := by
  obtain ⟨a1, a2⟩ := getc_bytes s hi
  unfold getFullchar
  simp only
  split
  · obtain ⟨b1, b2⟩ := getc_bytes (getc s).2 a2
    refine ⟨?_, b2⟩
    rw [List.append_assoc, b1, a1]
  · exact ⟨a1, a2⟩

/-- `get_fullchar` consumes at least one and at most two waiting keystrokes (none only when none waits) -/
theorem fullchar_progress (lead trail : Nat → Bool) (s : KB) (hi : Inv s) :
    let n := (waiting s).length
    let n' := (waiting (getFullchar lead trail s).2).length
    n' ≤ n ∧ n ≤ n' + 2 ∧ (0 < n → n' < n) := by
  have hg : ∀ s : KB, Inv s → (waiting (getc s).2).length ≤ (waiting s).length ∧
      (waiting s).length ≤ (waiting (getc s).2).length + 1 ∧
      (0 < (waiting s).length → (waiting (getc s).2).length < (waiting s).length) := by
    intro s hi
    cases hw : waiting s with
    | nil => rw [(getc_spec s hi).1 hw, hw]; simp
    | cons k t =>
      obtain ⟨_, e2, _⟩ := (getc_spec s hi).2 k t hw
      rw [e2]; simp
  obtain ⟨g1, g2, g3⟩ := hg s hi
  have hi' := (getc_bytes s hi).2
  obtain ⟨k1, k2, k3⟩ := hg (getc s).2 hi'
  unfold getFullchar
  simp only
  split
  · simp only; omega
  · exact ⟨g1, by omega, g3⟩

/-- **Every reading path, any mixture.**  Reading with any sequence of `read_byte` (INKEY$, INPUT$) and
    `get_fullchar` (INPUT, LINE INPUT, the editor) calls, under any double-byte codepage: the bytes delivered,
    concatenated, followed by the bytes still waiting, are exactly the bytes that were waiting. -/
theorem reads_preserve_bytes (lead trail : Nat → Bool) (rds : List Rd) (s : KB) (hi : Inv s) :
    (readAll lead trail s rds).1.flatten ++ bytesOf (readAll lead trail s rds).2 = bytesOf s := by
  induction rds generalizing s with
  | nil => simp [readAll]
  | cons r rest ih =>
    have h : (readStep lead trail s r).1 ++ bytesOf (readStep lead trail s r).2 = bytesOf s ∧
        Inv (readStep lead trail s r).2 := by
      cases r with
      | byte => exact getc_bytes s hi
      | full => exact fullchar_preserves_bytes lead trail s hi
    simp only [readAll, List.flatten_cons]
    rw [List.append_assoc, ih _ h.2, h.1]

/-- **FIFO for typed keys under any codepage**: after any history of presses, injections, reads, PEEKs and
    clearing POKEs, any mixture of byte-wise and full-character reads delivers — in order, exactly once — the
    bytes of the keystrokes that the bounded queue of `fifo_refinement` holds. -/
theorem dbcs_fifo (lead trail : Nat → Bool) (ops : List Op) (hf : ∀ op ∈ ops, FifoOp op) (rds : List Rd) :
    (readAll lead trail (run init ops).2 rds).1.flatten ++ bytesOf (readAll lead trail (run init ops).2 rds).2
      = (specRun [] ops).2.flatten := by
  rw [reads_preserve_bytes lead trail rds _ (inv_run ops)]
  unfold bytesOf
  rw [(fifo_refinement ops hf).2]

/-- cp936-like sets: a lone lead byte 0x81 followed by `1` is NOT combined and `1` stays in the buffer;
    followed by `A` (a trail byte) the two are delivered as one character -/
example : (readAll (fun x => decide (129 ≤ x ∧ x ≤ 254)) (fun x => decide (64 ≤ x ∧ x ≤ 254))
      (run init [.press [129] 0, .press [49] 2, .press [129] 0, .press [65] 30, .press [13] 28]).2
      [.full, .full, .full, .full, .full]).1 = [[129], [49], [129, 65], [13], []] := by decide

/-! ### tie to the source: the ring arithmetic of `KeyboardBuffer`

`PcbV.Gen.Translated.kbRingIndex / kbLength / kbStart / kbStop / kbFull` are regenerated from the Python
AST of `KeyboardBuffer._ring_index`, the properties `length`, `start`, `stop` and the "ring is full" test
of `append` (gen/tables_py2lean.py; parameters `buflen = len(self._buffer)`, `start = self._start`,
`ring = self._ring_length`).  The theorems say that the hand-written model is that code at ring length 16,
under the invariant `_start ≤ len(_buffer)` of the real object where the code subtracts. -/

theorem translated_kb_supported :
    Gen.Translated.kbRingIndex_supported = true ∧ Gen.Translated.kbLength_supported = true ∧
    Gen.Translated.kbStart_supported = true ∧ Gen.Translated.kbStop_supported = true ∧
    Gen.Translated.kbFull_supported = true := by decide

/-- the ring length the keyboard is created with is the 16 of the model -/
theorem translated_kb_ring_length : Gen.KeyBuf.ringLength = 16 := by decide

theorem translated_kbRingIndex_eq (len : Nat) (index : Int) :
    ringIndex len index = Gen.Translated.kbRingIndex (len : Int) 16 index := by
  unfold ringIndex Gen.Translated.kbRingIndex
  have e : Int.fmod (len : Int) 16 = ((len % 16 : Nat) : Int) := PyIntLemmas.fmod_natCast len 16
  simp [e]

theorem translated_kbLength_eq (s : KB) (h : s.start ≤ s.buf.length) :
    ((length s : Nat) : Int) = Gen.Translated.kbLength (s.buf.length : Int) (s.start : Int) 16 := by
  unfold length Gen.Translated.kbLength
  omega

theorem translated_kbStart_eq (s : KB) :
    ((startP s : Nat) : Int) = Gen.Translated.kbStart (s.start : Int) 16 := by
  unfold startP Gen.Translated.kbStart
  exact (PyIntLemmas.fmod_natCast s.start 16).symm

theorem translated_kbStop_eq (s : KB) (h : s.start ≤ s.buf.length) :
    ((stopP s : Nat) : Int) = Gen.Translated.kbStop (s.buf.length : Int) (s.start : Int) 16 := by
  unfold stopP Gen.Translated.kbStop
  rw [← translated_kbLength_eq s h]
  exact (PyIntLemmas.fmod_natCast (s.start + length s) 16).symm

theorem translated_kbFull_eq (s : KB) (h : s.start ≤ s.buf.length) :
    decide (s.buf.length - s.start ≥ 16 - 1) = Gen.Translated.kbFull (s.buf.length : Int) (s.start : Int) 16 := by
  unfold Gen.Translated.kbFull
  rw [decide_eq_decide]; omega

end PcbV.C37
