import PcbV.Basic
import PcbV.Gen.Translated
namespace PcbV.Drv.Translated
open PcbV

/-
  Driver for the mechanically translated definitions (`PcbV.Gen.Translated`, regenerated from the
  current Python AST by gen/py2lean.py) and for the `PcbV.PyInt` operators they are built from.
  Prefix `TR` (not a property: used by vlib/translated.py from the checks of C02, C15, C39).
  Requests (signed decimal Python ints), reply `ok <int>`:
    cycle s | prot c i | unprot c i | pnext i | unext i | idiv a b | imod a b | xor a b | and a b | or a b
    pstream <hex> / ustream <hex>   the step iterated over a byte string from index 0 with
                                    protNextIndex / unprotNextIndex; reply `ok <decimal,decimal,…>`
                                    (decimal, not hex: a wrong step may leave the byte range)
    supported                       the `_supported` flags, in the order cycle, unext, pnext, unprot, prot, idiv, imod
    ineg a0 a1 | iadd a0 a1 b0 b1 | igt a0 a1 b0 b1 (reply ok 0/1)          numbers.Integer byte code
    kbri buflen ring index | kblen buflen start ring | kbstart start ring | kbstop buflen start ring |
    kbfull buflen start ring (ok 0/1)                                          KeyboardBuffer
    cga addr seg pageSize bankSize bytesPerRow bpp interleave | ega addr seg pageSize bytesPerRow |
    tandy6 addr seg pageSize bankSize bytesPerRow   (reply ok page,x,y) | cok page x y np w h (ok 0/1)
    vpwh r0..r3 (ok w,h) | vpbounds abs r0..r3 (ok 4 ints) | vpconv abs r0..r3 x y | vpcontains abs r0..r3 x y |
    vpmid abs r0..r3 | vpcut abs r0..r3 maxW maxH x y        (abs = 0/1)     GraphicsViewPort
    srec nameLen | arec nameLen ndims                                         record sizes
    rfeof recpos reclen lof (ok 0/1) | rfseek pos reclen (ok offset,recpos) | rfput recpos reclen   RandomFile
    supported2                      flags of the functions above, in the order of `flags2`
-/

def showI (n : Int) : String := "ok " ++ toString n

def stream (step : Int → Int → Int) (next : Int → Int) : Int → Bytes → List Int
  | _, [] => []
  | i, b :: bs => step (b : Int) i :: stream step next (next i) bs

def showInts (l : List Int) : String := if l.isEmpty then "-" else ",".intercalate (l.map toString)

def showB (b : Bool) : String := if b then "ok 1" else "ok 0"
def showL (l : List Int) : String := "ok " ++ ",".intercalate (l.map toString)

open PcbV.Gen.Translated in
def flags2 : List Bool := [inegCore_supported, iaddCore_supported, igtCore_supported,
  kbRingIndex_supported, kbLength_supported, kbStart_supported, kbStop_supported, kbFull_supported,
  cgaCoordsPage_supported && cgaCoordsX_supported && cgaCoordsY_supported,
  egaCoordsPage_supported && egaCoordsX_supported && egaCoordsY_supported,
  tandy6CoordsPage_supported && tandy6CoordsX_supported && tandy6CoordsY_supported,
  coordOk_supported,
  vpWidth_supported && vpHeight_supported,
  vpBounds0_supported && vpBounds1_supported && vpBounds2_supported && vpBounds3_supported,
  vpConvert0_supported && vpConvert1_supported, vpContains_supported,
  vpMid0_supported && vpMid1_supported, vpCutoff0_supported && vpCutoff1_supported,
  scalarRecordSize_supported, arrayRecordSize_supported,
  rfEof_supported, rfSeekOffset_supported && rfSeekRecpos_supported, rfPutOffset_supported]

open PcbV.Gen.Translated in
/-- the ops added with the second batch of translated functions: all arguments are ints -/
def handle2 (op : String) (a : List Int) : Option String :=
  match op, a with
  | "ineg", [a0, a1] => some (showI (inegCore a0 a1))
  | "iadd", [a0, a1, b0, b1] => some (showI (iaddCore a0 a1 b0 b1))
  | "igt", [a0, a1, b0, b1] => some (showB (igtCore a0 a1 b0 b1))
  | "kbri", [n, r, i] => some (showI (kbRingIndex n r i))
  | "kblen", [n, s, r] => some (showI (kbLength n s r))
  | "kbstart", [s, r] => some (showI (kbStart s r))
  | "kbstop", [n, s, r] => some (showI (kbStop n s r))
  | "kbfull", [n, s, r] => some (showB (kbFull n s r))
  | "cga", [ad, sg, ps, bk, br, bp, il] =>
    some (showL [cgaCoordsPage ad sg ps bk br bp il, cgaCoordsX ad sg ps bk br bp il, cgaCoordsY ad sg ps bk br bp il])
  | "ega", [ad, sg, ps, br] => some (showL [egaCoordsPage ad sg ps br, egaCoordsX ad sg ps br, egaCoordsY ad sg ps br])
  | "tandy6", [ad, sg, ps, bk, br] =>
    some (showL [tandy6CoordsPage ad sg ps bk br, tandy6CoordsX ad sg ps bk br, tandy6CoordsY ad sg ps bk br])
  | "cok", [pg, x, y, np, w, h] => some (showB (coordOk pg x y np w h))
  | "vpwh", [r0, r1, r2, r3] => some (showL [vpWidth r0 r1 r2 r3, vpHeight r0 r1 r2 r3])
  | "vpbounds", [ab, r0, r1, r2, r3] =>
    let b := ab != 0
    some (showL [vpBounds0 b r0 r1 r2 r3, vpBounds1 b r0 r1 r2 r3, vpBounds2 b r0 r1 r2 r3, vpBounds3 b r0 r1 r2 r3])
  | "vpconv", [ab, r0, r1, r2, r3, x, y] =>
    let b := ab != 0
    some (showL [vpConvert0 b r0 r1 r2 r3 x y, vpConvert1 b r0 r1 r2 r3 x y])
  | "vpcontains", [ab, r0, r1, r2, r3, x, y] => some (showB (vpContains (ab != 0) r0 r1 r2 r3 x y))
  | "vpmid", [ab, r0, r1, r2, r3] =>
    let b := ab != 0
    some (showL [vpMid0 b r0 r1 r2 r3, vpMid1 b r0 r1 r2 r3])
  | "vpcut", [ab, r0, r1, r2, r3, mw, mh, x, y] =>
    let b := ab != 0
    some (showL [vpCutoff0 b r0 r1 r2 r3 mw mh x y, vpCutoff1 b r0 r1 r2 r3 mw mh x y])
  | "srec", [n] => some (showI (scalarRecordSize n))
  | "arec", [n, d] => some (showI (arrayRecordSize n d))
  | "rfeof", [rp, rl, lf] => some (showB (rfEof rp rl lf))
  | "rfseek", [p, rl] => some (showL [rfSeekOffset p rl, rfSeekRecpos p])
  | "rfput", [rp, rl] => some (showI (rfPutOffset rp rl))
  | _, _ => none

def handle1 : List String → String
  | [op, a] =>
    match op with
    | "pstream" | "ustream" =>
      (match (if a == "-" then some [] else ofHex a) with
      | some bs =>
        "ok " ++ showInts (if op == "pstream"
          then stream Gen.Translated.protStep Gen.Translated.protNextIndex 0 bs
          else stream Gen.Translated.unprotStep Gen.Translated.unprotNextIndex 0 bs)
      | none => "bad-op")
    | _ =>
      match a.toInt? with
      | some a =>
        (match op with
        | "cycle" => showI (Gen.Translated.cycle a)
        | "pnext" => showI (Gen.Translated.protNextIndex a)
        | "unext" => showI (Gen.Translated.unprotNextIndex a)
        | _ => "bad-op")
      | none => "bad-op"
  | [op, a, b] =>
    match a.toInt?, b.toInt? with
    | some a, some b =>
      (match op with
      | "prot" => showI (Gen.Translated.protStep a b)
      | "unprot" => showI (Gen.Translated.unprotStep a b)
      | "idiv" => showI (Gen.Translated.idivCore a b)
      | "imod" => showI (Gen.Translated.imodCore a b)
      | "xor" => showI (PyInt.xor a b)
      | "and" => showI (PyInt.land a b)
      | "or" => showI (PyInt.lor a b)
      | _ => "bad-op")
    | _, _ => "bad-op"
  | ["supported"] =>
    "ok " ++ String.ofList ([Gen.Translated.cycle_supported, Gen.Translated.unprotNextIndex_supported,
      Gen.Translated.protNextIndex_supported, Gen.Translated.unprotStep_supported,
      Gen.Translated.protStep_supported, Gen.Translated.idivCore_supported,
      Gen.Translated.imodCore_supported].map fun b => if b then '1' else '0')
  | _ => "bad-op"

def handle : List String → String
  | ["supported2"] => "ok " ++ String.ofList (flags2.map fun b => if b then '1' else '0')
  | op :: args =>
    match args.mapM String.toInt? with
    | some a =>
      (match handle2 op a with
      | some r => r
      | none => handle1 (op :: args))
    | none => handle1 (op :: args)
  | l => handle1 l

end PcbV.Drv.Translated
