import PcbV.Model.Screen
import Mathlib.Tactic.SplitIfs
import Mathlib.Tactic.Tauto
import Mathlib.Tactic.ByContra
/-
  Lemmas for property C35 (`PcbV.Props.C35`): each page operation keeps the reference consumer's
  canvas equal to the page it displays.
-/
namespace PcbV.ScreenLemmas
open PcbV PcbV.Screen

/-- the consumer decoded the geometry of the mode the pages live in -/
def GeomOk (e : Env) (cv : Canvas) : Prop :=
  cv.ch = e.g.H ∧ cv.cw = e.g.W ∧ cv.th = e.g.th ∧ cv.tw = e.g.tw ∧ cv.fh = e.g.fh ∧ cv.fw = e.g.fw

/-- the canvas shows the page: every pixel and every character cell -/
def Agree (e : Env) (p : Page) (cv : Canvas) : Prop :=
  (∀ y x, y < e.g.H → x < e.g.W → cv.px y x = p.px y x) ∧
  (∀ r c, r < e.g.th → c < e.g.tw → cv.tx r c = p.utext r c)

def Tracks (e : Env) (p : Page) (cv : Canvas) : Prop := GeomOk e cv ∧ Agree e p cv

/-- cell `(r, c)` (0-based) lies in the dirty range recorded for its row -/
def Cov (p : Page) (r c : Nat) : Prop := ∃ l rr, p.dirty (r + 1) = some (l, rr) ∧ l ≤ c + 1 ∧ c + 1 ≤ rr

/-- the canvas shows the page, except that character cells still waiting in a dirty range (inside
    `collect_updates`) may lag behind; `done` rows have already been resubmitted by `force_submit` -/
def TracksD (e : Env) (p : Page) (cv : Canvas) (done : Nat → Prop) : Prop :=
  GeomOk e cv ∧ (∀ y x, y < e.g.H → x < e.g.W → cv.px y x = p.px y x) ∧
  (∀ r c, r < e.g.th → c < e.g.tw → cv.tx r c ≠ p.utext r c → Cov p r c ∧ ¬ done (r + 1))

def noneDone : Nat → Prop := fun _ => False

theorem Tracks.toD {e : Env} {p : Page} {cv : Canvas} (h : Tracks e p cv) : TracksD e p cv noneDone :=
  ⟨h.1, h.2.1, fun r c hr hc hne => absurd (h.2.2 r c hr hc) hne⟩

theorem TracksD.clean {e : Env} {p : Page} {cv : Canvas} {d : Nat → Prop} (h : TracksD e p cv d)
    (hd : ∀ r, p.dirty r = none) : Tracks e p cv := by
  refine ⟨h.1, h.2.1, fun r c hr hc => ?_⟩
  by_contra hne
  obtain ⟨⟨l, rr, hcov, _⟩, _⟩ := h.2.2 r c hr hc hne
  rw [hd] at hcov; cases hcov

theorem mul_pred (a f : Nat) (h : 1 ≤ a) : a * f = (a - 1) * f + f := by
  obtain ⟨k, rfl⟩ : ∃ k, a = k + 1 := ⟨a - 1, by omega⟩
  simp [Nat.add_mul]

theorem cell_bounds (fw x start stop : Nat) (hfw : 0 < fw)
    (h1 : start ≤ x / fw + 1) (h2 : x / fw + 1 ≤ stop) : (start - 1) * fw ≤ x ∧ x < stop * fw := by
  have h3 : start - 1 ≤ x / fw := by
    generalize x / fw = q at h1; omega
  constructor
  · calc (start - 1) * fw ≤ (x / fw) * fw := Nat.mul_le_mul_right _ h3
      _ ≤ x := Nat.div_mul_le_self x fw
  · calc x < fw * (x / fw + 1) := Nat.lt_mul_div_succ x hfw
      _ = (x / fw + 1) * fw := Nat.mul_comm _ _
      _ ≤ stop * fw := Nat.mul_le_mul_right _ h2

theorem firstDiff_le (old new : Nat → Nat) (d n c : Nat) (hc : c < n) (hne : old c ≠ new c) :
    firstDiff old new d n ≤ c + 1 := by
  induction n with
  | zero => omega
  | succ n ih =>
    unfold firstDiff
    by_cases hcn : c = n
    · subst hcn
      have : (old c != new c) = true := by simpa using hne
      simp only [this, if_true]; omega
    · have := ih (by omega)
      split <;> omega

theorem lastDiff_ge (old new : Nat → Nat) (n c : Nat) (hc : c < n) (hne : old c ≠ new c) :
    c + 1 ≤ lastDiff old new n := by
  induction n with
  | zero => omega
  | succ n ih =>
    unfold lastDiff
    by_cases hcn : c = n
    · subst hcn
      have : (old c != new c) = true := by simpa using hne
      simp only [this, if_true]; omega
    · have := ih (by omega)
      split <;> omega

theorem consume_append (cv : Canvas) (a b : List Signal) :
    consume cv (a ++ b) = consume (consume cv a) b := by
  simp [consume, List.foldl_append]

/-- `_submit` repairs every difference that lies inside the submitted rectangle -/
theorem submit_tracks (e : Env) (p : Page) (cv : Canvas) (top left bottom right : Nat)
    (hv : p.visible = true) (hg : GeomOk e cv)
    (hpx : ∀ y x, y < e.g.H → x < e.g.W →
      ¬ ((top - 1) * e.g.fh ≤ y ∧ y < bottom * e.g.fh ∧ (left - 1) * e.g.fw ≤ x ∧ x < right * e.g.fw) →
      cv.px y x = p.px y x)
    (htx : ∀ r c, r < e.g.th → c < e.g.tw →
      ¬ (top - 1 ≤ r ∧ r < bottom ∧ left - 1 ≤ c ∧ c < right) → cv.tx r c = p.utext r c) :
    Tracks e p (consume cv (submit e p top left bottom right)) := by
  obtain ⟨h1, h2, h3, h4, h5, h6⟩ := hg
  simp only [submit, hv, if_true, consume, List.foldl, consume1]
  refine ⟨⟨h1, h2, h3, h4, h5, h6⟩, ?_, ?_⟩
  · intro y x hy hx
    simp only [setRect, getRect, h1, h2]
    split_ifs with hc
    · congr 1 <;> omega
    · apply hpx y x hy hx
      intro hin; apply hc; omega
  · intro r c hr hc'
    simp only [setRect]
    split_ifs with hc
    · congr 1 <;> omega
    · apply htx r c hr hc'
      intro hin; apply hc; omega

/-- `_submit` with character cells outside the rectangle possibly still dirty -/
theorem submit_tracksD (e : Env) (p : Page) (cv : Canvas) (top left bottom right : Nat) (done : Nat → Prop)
    (hv : p.visible = true) (hg : GeomOk e cv)
    (hpx : ∀ y x, y < e.g.H → x < e.g.W →
      ¬ ((top - 1) * e.g.fh ≤ y ∧ y < bottom * e.g.fh ∧ (left - 1) * e.g.fw ≤ x ∧ x < right * e.g.fw) →
      cv.px y x = p.px y x)
    (htx : ∀ r c, r < e.g.th → c < e.g.tw →
      ¬ (top - 1 ≤ r ∧ r < bottom ∧ left - 1 ≤ c ∧ c < right) → cv.tx r c ≠ p.utext r c →
      Cov p r c ∧ ¬ done (r + 1)) :
    TracksD e p (consume cv (submit e p top left bottom right)) done := by
  obtain ⟨h1, h2, h3, h4, h5, h6⟩ := hg
  simp only [submit, hv, if_true, consume, List.foldl, consume1]
  refine ⟨⟨h1, h2, h3, h4, h5, h6⟩, ?_, ?_⟩
  · intro y x hy hx
    simp only [setRect, getRect, h1, h2]
    split_ifs with hc
    · congr 1 <;> omega
    · apply hpx y x hy hx
      intro hin; apply hc; omega
  · intro r c hr hc'
    simp only [setRect]
    split_ifs with hc
    · intro hne; exfalso; apply hne; congr 1 <;> omega
    · apply htx r c hr hc'
      intro hin; apply hc; omega

theorem submit_silent (e : Env) (p : Page) (a b c d : Nat) (hv : p.visible = false) :
    submit e p a b c d = [] := by
  simp [submit, hv]


/-! ### force_submit -/

theorem submitRow_visible (e : Env) (p : Page) (row l r : Nat) :
    (submitRow e p row l r).1.visible = p.visible := rfl

theorem submitRow_dirty (e : Env) (p : Page) (row l r : Nat) :
    (submitRow e p row l r).1.dirty = p.dirty := rfl

theorem submitRow_silent (e : Env) (p : Page) (row l r : Nat) (hv : p.visible = false) :
    (submitRow e p row l r).2 = [] := by
  simp only [submitRow]; exact submit_silent _ _ _ _ _ _ hv

/-- one dirty row is refreshed, drawn and submitted: afterwards that row is up to date -/
theorem submitRow_tracks (e : Env) (p : Page) (cv : Canvas) (row l r : Nat) (done : Nat → Prop)
    (hrow : 1 ≤ row) (hdirty : p.dirty row = some (l, r))
    (hv : p.visible = true) (ht : TracksD e p cv done) :
    TracksD e (submitRow e p row l r).1 (consume cv (submitRow e p row l r).2)
      (fun k => done k ∨ k = row) := by
  obtain ⟨hg, hpx, htx⟩ := ht
  simp only [submitRow]
  refine submit_tracksD e _ cv _ _ _ _ _ ?_ hg ?_ ?_
  · exact hv
  · intro y x hy hx hout
    rw [hpx y x hy hx]
    simp only [drawText]
    split_ifs with hc
    · exfalso; apply hout
      have hfw : 0 < e.g.fw := by
        rcases Nat.eq_zero_or_pos e.g.fw with h0 | h0
        · simp [Geom.W, h0] at hx
        · exact h0
      have := cell_bounds e.g.fw x _ _ hfw hc.2.2.1 hc.2.2.2
      have := mul_pred row e.g.fh hrow
      omega
    · rfl
  · intro rr c hr hc hout
    show cv.tx rr c ≠ (if rr = row - 1 then e.conv (fun c => p.chars (row - 1) c) c else p.utext rr c) → _
    split_ifs with hrr
    · subst hrr
      intro hne
      exfalso
      -- the cell is outside [start, stop]: neither a stale dirty cell nor a changed character
      by_cases h1 : cv.tx (row - 1) c = p.utext (row - 1) c
      · have hne' : p.utext (row - 1) c ≠ e.conv (fun c => p.chars (row - 1) c) c := by rw [← h1]; exact hne
        have a1 := firstDiff_le (fun c => p.utext (row - 1) c) (e.conv (fun c => p.chars (row - 1) c)) e.g.tw e.g.tw c hc hne'
        have a2 := lastDiff_ge (fun c => p.utext (row - 1) c) (e.conv (fun c => p.chars (row - 1) c)) e.g.tw c hc hne'
        apply hout; omega
      · obtain ⟨⟨l', r', hcov, hl, hr'⟩, _⟩ := htx (row - 1) c hr hc h1
        have hrow' : row - 1 + 1 = row := by omega
        rw [hrow', hdirty] at hcov
        cases hcov
        apply hout; omega
    · intro hne
      obtain ⟨hcov, hnd⟩ := htx rr c hr hc hne
      refine ⟨hcov, ?_⟩
      rintro (h | h)
      · exact hnd h
      · omega

theorem forceSubmitRows_visible (e : Env) (rows : List Nat) (p : Page) :
    (forceSubmitRows e rows p).1.visible = p.visible := by
  induction rows generalizing p with
  | nil => rfl
  | cons row rest ih =>
    simp only [forceSubmitRows]
    split
    · exact ih p
    · rw [ih]; rfl

theorem forceSubmitRows_locked (e : Env) (rows : List Nat) (p : Page) :
    (forceSubmitRows e rows p).1.locked = p.locked := by
  induction rows generalizing p with
  | nil => rfl
  | cons row rest ih =>
    simp only [forceSubmitRows]
    split
    · exact ih p
    · rw [ih]; rfl

theorem forceSubmitRows_dirty (e : Env) (rows : List Nat) (p : Page) :
    (forceSubmitRows e rows p).1.dirty = p.dirty := by
  induction rows generalizing p with
  | nil => rfl
  | cons row rest ih =>
    simp only [forceSubmitRows]
    split
    · exact ih p
    · rw [ih]; rfl

theorem forceSubmitRows_silent (e : Env) (rows : List Nat) (p : Page) (hv : p.visible = false) :
    (forceSubmitRows e rows p).2 = [] := by
  induction rows generalizing p with
  | nil => rfl
  | cons row rest ih =>
    simp only [forceSubmitRows]
    split
    · exact ih p hv
    · simp only []
      rw [submitRow_silent _ _ _ _ _ hv, ih _ (by rw [submitRow_visible]; exact hv)]; rfl

theorem forceSubmitRows_tracks (e : Env) (rows : List Nat) (p : Page) (cv : Canvas) (done : Nat → Prop)
    (hrows : ∀ r ∈ rows, 1 ≤ r) (hv : p.visible = true) (ht : TracksD e p cv done) :
    TracksD e (forceSubmitRows e rows p).1 (consume cv (forceSubmitRows e rows p).2)
      (fun k => done k ∨ k ∈ rows) := by
  induction rows generalizing p cv done with
  | nil =>
    obtain ⟨a, b, c⟩ := ht
    exact ⟨a, b, fun r c' hr hc hne => ⟨(c r c' hr hc hne).1, by simp; exact (c r c' hr hc hne).2⟩⟩
  | cons row rest ih =>
    simp only [forceSubmitRows]
    split
    · rename_i hnone
      have := ih p cv (fun k => done k ∨ k = row) (fun r hr => hrows r (List.mem_cons_of_mem _ hr)) hv
        ⟨ht.1, ht.2.1, fun r c hr hc hne => by
          obtain ⟨hcov, hnd⟩ := ht.2.2 r c hr hc hne
          refine ⟨hcov, ?_⟩
          rintro (h | h)
          · exact hnd h
          · obtain ⟨l, rr, hc1, _⟩ := hcov
            rw [h, hnone] at hc1; cases hc1⟩
      obtain ⟨a, b, c⟩ := this
      refine ⟨a, b, fun r c' hr hc hne => ⟨(c r c' hr hc hne).1, ?_⟩⟩
      have := (c r c' hr hc hne).2
      simp only [List.mem_cons]; tauto
    · rename_i l r hsome
      simp only []
      rw [consume_append]
      have h1 := submitRow_tracks e p cv row l r done (hrows row (List.mem_cons_self ..)) hsome hv ht
      have := ih (submitRow e p row l r).1 (consume cv (submitRow e p row l r).2) (fun k => done k ∨ k = row)
        (fun r hr => hrows r (List.mem_cons_of_mem _ hr)) (by rw [submitRow_visible]; exact hv) h1
      obtain ⟨a, b, c⟩ := this
      refine ⟨a, b, fun r c' hr hc hne => ⟨(c r c' hr hc hne).1, ?_⟩⟩
      have := (c r c' hr hc hne).2
      simp only [List.mem_cons]; tauto

theorem forceSubmit_visible (e : Env) (p : Page) : (forceSubmit e p).1.visible = p.visible := by
  simp only [forceSubmit]; exact forceSubmitRows_visible _ _ _

theorem forceSubmit_locked (e : Env) (p : Page) : (forceSubmit e p).1.locked = p.locked := by
  simp only [forceSubmit]; exact forceSubmitRows_locked _ _ _

theorem forceSubmit_silent (e : Env) (p : Page) (hv : p.visible = false) : (forceSubmit e p).2 = [] := by
  simp only [forceSubmit]; exact forceSubmitRows_silent _ _ _ hv

theorem forceSubmit_dirty (e : Env) (p : Page) (r : Nat) : (forceSubmit e p).1.dirty r = none := rfl

/-- after `force_submit` the canvas shows the page completely -/
theorem forceSubmit_tracks (e : Env) (p : Page) (cv : Canvas) (hv : p.visible = true)
    (ht : TracksD e p cv noneDone) :
    Tracks e (forceSubmit e p).1 (consume cv (forceSubmit e p).2) := by
  simp only [forceSubmit]
  have := forceSubmitRows_tracks e ((List.range e.g.th).map (· + 1)) p cv noneDone
    (by intro r hr; simp only [List.mem_map] at hr; obtain ⟨a, _, rfl⟩ := hr; omega) hv ht
  refine ⟨this.1, this.2.1, fun r c hr hc => ?_⟩
  by_contra hne
  apply (this.2.2 r c hr hc hne).2
  right
  simp only [List.mem_map, List.mem_range]
  exact ⟨r, hr, rfl⟩

/-- no dirty rows: `force_submit` changes nothing and sends nothing -/
theorem forceSubmitRows_clean (e : Env) (rows : List Nat) (p : Page) (hd : ∀ r, p.dirty r = none) :
    forceSubmitRows e rows p = (p, []) := by
  induction rows with
  | nil => rfl
  | cons row rest ih => simp only [forceSubmitRows, hd row]; exact ih

theorem forceSubmit_clean (e : Env) (p : Page) (hd : ∀ r, p.dirty r = none) :
    forceSubmit e p = ({ p with dirty := fun _ => none }, []) := by
  simp only [forceSubmit, forceSubmitRows_clean e _ p hd]


/-! ### text operations -/

abbrev TD (e : Env) (p : Page) (cv : Canvas) : Prop := TracksD e p cv noneDone

theorem markDirty_visible (e : Env) (p : Page) (row a b : Nat) :
    (markDirty e p row a b).1.visible = p.visible := by
  simp only [markDirty]; split
  · rfl
  · rw [forceSubmit_visible]

theorem markDirty_silent (e : Env) (p : Page) (row a b : Nat) (hv : p.visible = false) :
    (markDirty e p row a b).2 = [] := by
  simp only [markDirty]; split
  · rfl
  · exact forceSubmit_silent _ _ hv

theorem markDirty_tracks (e : Env) (p : Page) (cv : Canvas) (row a b : Nat)
    (hv : p.visible = true) (hg : GeomOk e cv)
    (hpx : ∀ y x, y < e.g.H → x < e.g.W → cv.px y x = p.px y x)
    (htx : ∀ r c, r < e.g.th → c < e.g.tw → cv.tx r c ≠ p.utext r c →
      Cov p r c ∨ (r + 1 = row ∧ a ≤ c + 1 ∧ c + 1 ≤ b)) :
    TD e (markDirty e p row a b).1 (consume cv (markDirty e p row a b).2) := by
  have h1 : TD e { p with dirty := fun r => if r = row then some (match p.dirty row with
      | some (l, r) => (min a l, max b r) | none => (a, b)) else p.dirty r } cv := by
    refine ⟨hg, hpx, fun r c hr hc hne => ⟨?_, fun h => h⟩⟩
    rcases htx r c hr hc hne with ⟨l, rr, hd, h1, h2⟩ | ⟨hrow, h1, h2⟩
    · by_cases hrr : r + 1 = row
      · refine ⟨min a l, max b rr, ?_, by omega, by omega⟩
        simp only [hrr, if_true]; rw [← hrr, hd]
      · exact ⟨l, rr, by simp only [hrr, if_false]; exact hd, h1, h2⟩
    · cases hd : p.dirty row with
      | none => exact ⟨a, b, by simp only [hrow, if_true], h1, h2⟩
      | some lr => exact ⟨min a lr.1, max b lr.2, by simp only [hrow, if_true], by omega, by omega⟩
  simp only [markDirty]; split
  · exact h1
  · exact (forceSubmit_tracks e _ cv (by exact hv) h1).toD

theorem putChar_visible (e : Env) (p : Page) (row col ch attr : Nat) :
    (putChar e p row col ch attr).1.visible = p.visible := by
  simp only [putChar]; rw [markDirty_visible]

theorem putChar_silent (e : Env) (p : Page) (row col ch attr : Nat) (hv : p.visible = false) :
    (putChar e p row col ch attr).2 = [] := by
  simp only [putChar]; exact markDirty_silent _ _ _ _ _ hv

theorem putChar_tracks (e : Env) (p : Page) (cv : Canvas) (row col ch attr : Nat)
    (hv : p.visible = true) (ht : TD e p cv) :
    TD e (putChar e p row col ch attr).1 (consume cv (putChar e p row col ch attr).2) := by
  simp only [putChar]
  exact markDirty_tracks e _ cv _ _ _ hv ht.1 ht.2.1 (fun r c hr hc hne => Or.inl (ht.2.2 r c hr hc hne).1)

/-! ### clearing -/

theorem clearRows_visible (e : Env) (p : Page) (a b c : Nat) :
    (clearRows e p a b c).1.visible = p.visible := by
  simp only [clearRows]; rw [forceSubmit_visible]; rfl

theorem clearRows_silent (e : Env) (p : Page) (a b c : Nat) (hv : p.visible = false) :
    (clearRows e p a b c).2 = [] := by
  simp only [clearRows]
  rw [forceSubmit_silent _ _ (by exact hv), forceSubmit_visible]
  simp [clearTextArea, hv]

theorem clearRows_tracks (e : Env) (p : Page) (cv : Canvas) (start stop attr : Nat)
    (hd : ∀ r, p.dirty r = none)
    (hv : p.visible = true) (ht : Tracks e p cv) :
    Tracks e (clearRows e p start stop attr).1 (consume cv (clearRows e p start stop attr).2) := by
  obtain ⟨hg, hpx, htx⟩ := ht
  obtain ⟨h1, h2, h3, h4, h5, h6⟩ := hg
  have hfull : (e.dbcs && decide (e.g.tw - 1 + 1 < e.g.tw)) = false := by
    have : ¬ (e.g.tw - 1 + 1 < e.g.tw) := by omega
    simp [this]
  simp only [clearRows, clearTextArea, hfull]
  simp (disch := intro r; exact hd r) only [forceSubmit_clean]
  simp only [hv, if_true, List.nil_append, consume, List.foldl, consume1]
  refine ⟨⟨h1, h2, h3, h4, h5, h6⟩, ?_, ?_⟩
  · intro y x hy hx
    simp only [fillRect, h2, h5, Geom.W] at *
    rw [hpx y x hy hx]
  · intro r c hr hc
    simp only [fillRect, h4]
    rw [htx r c hr hc]
    simp only [decide_eq_true_eq, Bool.false_eq_true, if_false]

theorem clearRowFrom_visible (e : Env) (p : Page) (a b c : Nat) :
    (clearRowFrom e p a b c).1.visible = p.visible := by
  simp only [clearRowFrom]; split
  · exact clearRows_visible _ _ _ _ _
  · rw [markDirty_visible]; rfl

theorem clearRowFrom_silent (e : Env) (p : Page) (a b c : Nat) (hv : p.visible = false) :
    (clearRowFrom e p a b c).2 = [] := by
  simp only [clearRowFrom]; split
  · exact clearRows_silent _ _ _ _ _ hv
  · exact markDirty_silent _ _ _ _ _ (by exact hv)

theorem clearRowFrom_tracks (e : Env) (p : Page) (cv : Canvas) (row col attr : Nat)
    (hrow : 1 ≤ row) (hd : ∀ r, p.dirty r = none) (hv : p.visible = true) (ht : TD e p cv) :
    TD e (clearRowFrom e p row col attr).1 (consume cv (clearRowFrom e p row col attr).2) := by
  simp only [clearRowFrom]; split
  · exact (clearRows_tracks e p cv row row attr hd hv (ht.clean hd)).toD
  · refine markDirty_tracks e _ cv _ _ _ (by exact hv) ht.1 ht.2.1 ?_
    intro r c hr hc hne
    have hag := (ht.clean hd).2.2 r c hr hc
    by_cases hrr : r + 1 = row
    · right; omega
    · left
      exfalso
      apply hne
      rw [hag]
      have hnr : ¬ (row - 1 ≤ r ∧ r < row) := by omega
      simp only [clearTextArea, decide_eq_true_eq]
      cases hb : (e.dbcs && decide (e.g.tw - col + 1 < e.g.tw)) with
      | true => simp only [if_true, hnr, if_false]
      | false =>
        simp only [Bool.false_eq_true, if_false]
        rw [if_neg (fun h => hnr ⟨h.1, h.2.1⟩)]


/-! ### scrolling -/

theorem scrollUpOld_visible (e : Env) (p : Page) (a b c : Nat) :
    (scrollUpOld e p a b c).1.visible = p.visible := by
  simp only [scrollUpOld]; exact forceSubmit_visible _ _

theorem scrollUp_visible (e : Env) (p : Page) (a b c : Nat) :
    (scrollUp e p a b c).1.visible = p.visible := by
  simp only [scrollUp]; exact scrollUpOld_visible _ _ _ _ _

theorem scrollUp_silent (e : Env) (p : Page) (a b c : Nat) (hv : p.visible = false) :
    (scrollUp e p a b c).2 = [] := by
  simp only [scrollUp, scrollUpOld]
  rw [forceSubmit_silent _ _ hv, forceSubmit_visible, hv]; rfl

theorem scrollDownOld_visible (e : Env) (p : Page) (a b c : Nat) :
    (scrollDownOld e p a b c).1.visible = p.visible := by
  simp only [scrollDownOld]; exact forceSubmit_visible _ _

theorem scrollDown_visible (e : Env) (p : Page) (a b c : Nat) :
    (scrollDown e p a b c).1.visible = p.visible := by
  simp only [scrollDown]; exact scrollDownOld_visible _ _ _ _ _

theorem scrollDown_silent (e : Env) (p : Page) (a b c : Nat) (hv : p.visible = false) :
    (scrollDown e p a b c).2 = [] := by
  simp only [scrollDown, scrollDownOld]
  rw [forceSubmit_silent _ _ hv, forceSubmit_visible, hv]; rfl

/-- the scroll step proper, on a page that is completely shown -/
theorem scrollUp_step (e : Env) (q : Page) (cv : Canvas) (frm to attr : Nat)
    (h1 : 1 ≤ frm) (h2 : frm ≤ to) (h3 : to ≤ e.g.th) (ht : Tracks e q cv) :
    Tracks e
      { q with
        chars := rowsUp q.chars frm to 32, attrs := rowsUp q.attrs frm to attr, utext := rowsUp q.utext frm to 32,
        px := fillRect (move e.g.H e.g.W q.px (frm * e.g.fh) (to * e.g.fh) 0 (e.g.tw * e.g.fw) ((frm - 1) * e.g.fh) 0)
                ((to - 1) * e.g.fh) (to * e.g.fh) 0 (e.g.tw * e.g.fw) (e.backOf attr) }
      (consume1 cv (Signal.scroll true frm to (e.backOf attr))) := by
  obtain ⟨⟨g1, g2, g3, g4, g5, g6⟩, hpx, htx⟩ := ht
  have hC := mul_pred frm e.g.fh h1
  have hB := mul_pred to e.g.fh (by omega)
  have hAD : (frm - 1) * e.g.fh ≤ (to - 1) * e.g.fh := Nat.mul_le_mul_right _ (by omega)
  have hBH : to * e.g.fh ≤ e.g.th * e.g.fh := Nat.mul_le_mul_right _ h3
  refine ⟨⟨g1, g2, g3, g4, g5, g6⟩, ?_, ?_⟩
  · intro y x hy hx
    simp only [consume1, if_true, fillRect, setRect, getRect, move, g1, g2, g5, Geom.H, Geom.W] at *
    generalize (frm - 1) * e.g.fh = A at *
    generalize (to - 1) * e.g.fh = D at *
    generalize frm * e.g.fh = C at *
    generalize to * e.g.fh = B at *
    generalize e.g.th * e.g.fh = H at *
    generalize e.g.tw * e.g.fw = W at *
    split_ifs <;> first
      | rfl
      | omega
      | (rw [hpx _ _ (by omega) (by omega)]; congr 1 <;> omega)
      | (rw [hpx _ _ (by omega) (by omega)])
  · intro r c hr hc
    simp only [consume1, if_true, rowsUp]
    split_ifs <;> first
      | rfl
      | omega
      | exact htx _ _ (by omega) hc

theorem scrollDown_step (e : Env) (q : Page) (cv : Canvas) (frm to attr : Nat)
    (h1 : 1 ≤ frm) (h2 : frm ≤ to) (h3 : to ≤ e.g.th) (ht : Tracks e q cv) :
    Tracks e
      { q with
        chars := rowsDown q.chars frm to 32, attrs := rowsDown q.attrs frm to attr, utext := rowsDown q.utext frm to 32,
        px := fillRect (move e.g.H e.g.W q.px ((frm - 1) * e.g.fh) ((to - 1) * e.g.fh) 0 (e.g.tw * e.g.fw) (frm * e.g.fh) 0)
                ((frm - 1) * e.g.fh) (frm * e.g.fh) 0 (e.g.tw * e.g.fw) (e.backOf attr) }
      (consume1 cv (Signal.scroll false frm to (e.backOf attr))) := by
  obtain ⟨⟨g1, g2, g3, g4, g5, g6⟩, hpx, htx⟩ := ht
  have hC := mul_pred frm e.g.fh h1
  have hB := mul_pred to e.g.fh (by omega)
  have hAD : (frm - 1) * e.g.fh ≤ (to - 1) * e.g.fh := Nat.mul_le_mul_right _ (by omega)
  have hBH : to * e.g.fh ≤ e.g.th * e.g.fh := Nat.mul_le_mul_right _ h3
  refine ⟨⟨g1, g2, g3, g4, g5, g6⟩, ?_, ?_⟩
  · intro y x hy hx
    simp only [consume1, Bool.false_eq_true, if_false, fillRect, setRect, getRect, move, g1, g2, g5, Geom.H, Geom.W] at *
    generalize (frm - 1) * e.g.fh = A at *
    generalize (to - 1) * e.g.fh = D at *
    generalize frm * e.g.fh = C at *
    generalize to * e.g.fh = B at *
    generalize e.g.th * e.g.fh = H at *
    generalize e.g.tw * e.g.fw = W at *
    split_ifs <;> first
      | rfl
      | omega
      | (rw [hpx _ _ (by omega) (by omega)]; congr 1 <;> omega)
      | (rw [hpx _ _ (by omega) (by omega)])
  · intro r c hr hc
    simp only [consume1, Bool.false_eq_true, if_false, rowsDown]
    split_ifs <;> first
      | rfl
      | omega
      | exact htx _ _ (by omega) hc


theorem scrollUp_tracks (e : Env) (p : Page) (cv : Canvas) (frm to attr : Nat)
    (h1 : 1 ≤ frm) (h2 : frm ≤ to) (h3 : to ≤ e.g.th) (hv : p.visible = true) (ht : TD e p cv) :
    Tracks e (scrollUp e p frm to attr).1 (consume cv (scrollUp e p frm to attr).2) := by
  have hf := forceSubmit_tracks e p cv hv ht
  have hvis : (forceSubmit e p).1.visible = true := by rw [forceSubmit_visible]; exact hv
  simp only [scrollUp, scrollUpOld, hvis, if_true, consume_append]
  exact scrollUp_step e _ _ frm to attr h1 h2 h3 hf

theorem scrollDown_tracks (e : Env) (p : Page) (cv : Canvas) (frm to attr : Nat)
    (h1 : 1 ≤ frm) (h2 : frm ≤ to) (h3 : to ≤ e.g.th) (hv : p.visible = true) (ht : TD e p cv) :
    Tracks e (scrollDown e p frm to attr).1 (consume cv (scrollDown e p frm to attr).2) := by
  have hf := forceSubmit_tracks e p cv hv ht
  have hvis : (forceSubmit e p).1.visible = true := by rw [forceSubmit_visible]; exact hv
  simp only [scrollDown, scrollDownOld, hvis, if_true, consume_append]
  exact scrollDown_step e _ _ frm to attr h1 h2 h3 hf

/-! ### pixel writes -/

theorem cellOf_lo (n f v y : Nat) (_hf : 0 < f) (h : v ≤ y) : (cellOf n f v - 1) * f ≤ y := by
  have h1 : cellOf n f v - 1 ≤ v / f := by
    simp only [cellOf]; generalize v / f = q; omega
  calc (cellOf n f v - 1) * f ≤ (v / f) * f := Nat.mul_le_mul_right _ h1
    _ ≤ v := Nat.div_mul_le_self v f
    _ ≤ y := h

theorem cellOf_hi (n f v y : Nat) (hf : 0 < f) (h : y ≤ v) (hy : y < n * f) : y < cellOf n f v * f := by
  by_cases hc : n ≤ 1 + v / f
  · have : cellOf n f v = n := by
      simp only [cellOf]; generalize v / f = q at hc ⊢; omega
    rw [this]; exact hy
  · have : cellOf n f v = 1 + v / f := by
      simp only [cellOf]; generalize v / f = q at hc ⊢; omega
    rw [this]
    calc y ≤ v := h
      _ < f * (v / f + 1) := Nat.lt_mul_div_succ v hf
      _ = (1 + v / f) * f := by rw [Nat.mul_comm, Nat.add_comm]

theorem setPixels_visible (e : Env) (p : Page) (a b c d : Nat) (m : Mat) :
    (setPixels e p a b c d m).1.visible = p.visible := rfl

theorem setPixels_silent (e : Env) (p : Page) (a b c d : Nat) (m : Mat) (hv : p.visible = false) :
    (setPixels e p a b c d m).2 = [] := by
  simp only [setPixels]; exact submit_silent _ _ _ _ _ _ hv

theorem setPixels_tracks (e : Env) (p : Page) (cv : Canvas) (y0 y1 x0 x1 : Nat) (m : Mat)
    (hy : y0 < y1) (hx : x0 < x1) (hdb : e.dbcs = false)
    (hv : p.visible = true) (ht : TD e p cv) :
    TD e (setPixels e p y0 y1 x0 x1 m).1 (consume cv (setPixels e p y0 y1 x0 x1 m).2) := by
  obtain ⟨hg, hpx, htx⟩ := ht
  simp only [setPixels]
  refine submit_tracksD e _ cv _ _ _ _ _ ?_ hg ?_ ?_
  · exact hv
  · intro y x hyH hxW hout
    rw [hpx y x hyH hxW]
    show p.px y x = setRect p.px y0 x0 { h := y1 - y0, w := x1 - x0, f := m } y x
    simp only [setRect]
    split_ifs with hc
    · exfalso; apply hout
      have hfh : 0 < e.g.fh := by
        rcases Nat.eq_zero_or_pos e.g.fh with h0 | h0
        · simp [Geom.H, h0] at hyH
        · exact h0
      have hfw : 0 < e.g.fw := by
        rcases Nat.eq_zero_or_pos e.g.fw with h0 | h0
        · simp [Geom.W, h0] at hxW
        · exact h0
      exact ⟨cellOf_lo _ _ _ _ hfh hc.1, cellOf_hi _ _ _ _ hfh (by omega) hyH,
             cellOf_lo _ _ _ _ hfw hc.2.2.1, cellOf_hi _ _ _ _ hfw (by omega) hxW⟩
    · rfl
  · intro r c hr hc hout hne
    have : (clearTextArea e { p with px := setRect p.px y0 x0 { h := y1 - y0, w := x1 - x0, f := m } }
        (cellOf e.g.th e.g.fh y0) (cellOf e.g.tw e.g.fw x0) (cellOf e.g.th e.g.fh (y1 - 1))
        (cellOf e.g.tw e.g.fw (x1 - 1)) 0).utext r c = p.utext r c := by
      simp only [clearTextArea, decide_eq_true_eq, hdb, Bool.false_and, Bool.false_eq_true, if_false]
      rw [if_neg hout]
    rw [this] at hne
    exact htx r c hr hc hne

/-! ### page visibility and copies -/

theorem resubmit_tracks (e : Env) (p : Page) (cv : Canvas) (hv : p.visible = true) (hg : GeomOk e cv) :
    Tracks e p (consume cv (resubmit e p)) := by
  apply submit_tracks e p cv 1 1 e.g.th e.g.tw hv hg
  · intro y x hy hx hout; exfalso; apply hout
    simp only [Geom.H, Geom.W] at hy hx; omega
  · intro r c hr hc hout; exfalso; apply hout; omega


theorem setVisible_on (e : Env) (p : Page) (cv : Canvas) (hv : p.visible = false) (hg : GeomOk e cv) :
    (setVisible e p true).1.visible = true ∧
    Tracks e (setVisible e p true).1 (consume cv (setVisible e p true).2) := by
  have hb : (p.visible != true) = true := by rw [hv]; rfl
  simp only [setVisible, hb, if_true]
  exact ⟨trivial, resubmit_tracks e _ cv rfl hg⟩

theorem setVisible_off (e : Env) (p : Page) :
    (setVisible e p false).1.visible = false ∧ (setVisible e p false).2 = [] := by
  simp only [setVisible]
  cases hv : p.visible with
  | false => exact ⟨hv, rfl⟩
  | true => exact ⟨rfl, rfl⟩

theorem setVisible_state (e : Env) (p : Page) (v : Bool) :
    (setVisible e p v).1.locked = p.locked ∧ (setVisible e p v).1.dirty = p.dirty := by
  simp only [setVisible]; split_ifs <;> exact ⟨rfl, rfl⟩

theorem copyFrom_visible (e : Env) (dst src : Page) : (copyFrom e dst src).1.visible = dst.visible := rfl

theorem copyFrom_silent (e : Env) (dst src : Page) (hv : dst.visible = false) : (copyFrom e dst src).2 = [] := by
  simp only [copyFrom, resubmit]; exact submit_silent _ _ _ _ _ _ hv

theorem copyFrom_tracks (e : Env) (dst src : Page) (cv : Canvas) (hv : dst.visible = true) (hg : GeomOk e cv) :
    Tracks e (copyFrom e dst src).1 (consume cv (copyFrom e dst src).2) := by
  simp only [copyFrom]; exact resubmit_tracks e _ cv hv hg

/-! ### page operations, collected -/

/-- outside `collect_updates` no row is waiting to be redrawn -/
def Clean (p : Page) : Prop := p.locked = false → ∀ r, p.dirty r = none

theorem pop_visible (e : Env) (p : Page) (o : POp) : (o.run e p).1.visible = p.visible := by
  cases o with
  | putChar a b c d => exact putChar_visible _ _ _ _ _ _
  | lock => rfl
  | unlock => simp only [POp.run]; rw [forceSubmit_visible]
  | clearRows a b c => exact clearRows_visible _ _ _ _ _
  | clearRowFrom a b c => exact clearRowFrom_visible _ _ _ _ _
  | scrollUp a b c => exact scrollUp_visible _ _ _ _ _
  | scrollDown a b c => exact scrollDown_visible _ _ _ _ _
  | setPixels a b c d m => rfl

theorem pop_silent (e : Env) (p : Page) (o : POp) (hv : p.visible = false) : (o.run e p).2 = [] := by
  cases o with
  | putChar a b c d => exact putChar_silent _ _ _ _ _ _ hv
  | lock => rfl
  | unlock => exact forceSubmit_silent _ _ (by exact hv)
  | clearRows a b c => exact clearRows_silent _ _ _ _ _ hv
  | clearRowFrom a b c => exact clearRowFrom_silent _ _ _ _ _ hv
  | scrollUp a b c => exact scrollUp_silent _ _ _ _ _ hv
  | scrollDown a b c => exact scrollDown_silent _ _ _ _ _ hv
  | setPixels a b c d m => exact setPixels_silent _ _ _ _ _ _ _ hv

theorem markDirty_clean (e : Env) (p : Page) (row a b : Nat) : Clean (markDirty e p row a b).1 := by
  simp only [markDirty]; split
  · rename_i h; intro h'; simp only [] at h h'; rw [h] at h'; cases h'
  · intro _ r; rfl

theorem pop_clean (e : Env) (p : Page) (o : POp) (hc : Clean p) : Clean (o.run e p).1 := by
  cases o with
  | putChar a b c d => exact markDirty_clean _ _ _ _ _
  | lock => intro h; cases h
  | unlock => intro _ r; rfl
  | clearRows a b c => intro _ r; rfl
  | clearRowFrom a b c =>
    simp only [POp.run, clearRowFrom]; split
    · intro _ r; rfl
    · exact markDirty_clean _ _ _ _ _
  | scrollUp a b c => intro _ r; rfl
  | scrollDown a b c => intro _ r; rfl
  | setPixels a b c d m => exact hc

theorem pop_tracks (e : Env) (p : Page) (cv : Canvas) (o : POp) (hval : o.valid e p) (hc : Clean p)
    (hv : p.visible = true) (ht : TD e p cv) : TD e (o.run e p).1 (consume cv (o.run e p).2) := by
  cases o with
  | putChar a b c d => exact putChar_tracks _ _ _ _ _ _ _ hv ht
  | lock => exact ht
  | unlock =>
    have := (forceSubmit_tracks e { p with locked := false } cv hv ⟨ht.1, ht.2.1, ht.2.2⟩).toD
    exact this
  | clearRows a b c =>
    exact (clearRows_tracks e p cv a b c (hc hval.2.2.2) hv (ht.clean (hc hval.2.2.2))).toD
  | clearRowFrom a b c =>
    exact clearRowFrom_tracks e p cv a b c hval.1 (hc hval.2.2.2.2) hv ht
  | scrollUp a b c => exact (scrollUp_tracks e p cv a b c hval.1 hval.2.1 hval.2.2 hv ht).toD
  | scrollDown a b c => exact (scrollDown_tracks e p cv a b c hval.1 hval.2.1 hval.2.2 hv ht).toD
  | setPixels a b c d m => exact setPixels_tracks e p cv a b c d m hval.1 hval.2.2.1 hval.2.2.2.2 hv ht


/-! ### validity is decidable (used for the non-vacuity examples) -/

instance (e : Env) (p : Page) (o : POp) : Decidable (o.valid e p) := by
  cases o <;> simp only [POp.valid] <;> infer_instance

instance (e : Env) (d : Disp) (o : Op) : Decidable (o.valid e d) := by
  cases o <;> simp only [Op.valid] <;> infer_instance

instance decValidOps (e : Env) : (d : Disp) → (ops : List Op) → Decidable (validOps e d ops)
  | _, [] => isTrue trivial
  | d, o :: rest =>
    have := decValidOps e (o.run e d).1 rest
    by simp only [validOps]; infer_instance


/-! ### the display: invariant of arbitrary histories -/

/-- invariant of the display and the consumer's canvas -/
structure Inv (e : Env) (d : Disp) (cv : Canvas) : Prop where
  geom : GeomOk e cv
  only : ∀ i, (d.pages i).visible = true → i = d.vnum
  shows : (d.pages d.vnum).visible = true → TD e (d.pages d.vnum) cv
  clean : ∀ i, Clean (d.pages i)

theorem td_geom {e : Env} {p : Page} {cv : Canvas} (h : TD e p cv) : GeomOk e cv := h.1

theorem step_inv (e : Env) (d : Disp) (cv : Canvas) (o : Op) (hi : Inv e d cv) (hval : o.valid e d) :
    Inv e (o.run e d).1 (consume cv (o.run e d).2) ∧
    ((d.pages d.vnum).visible = true → ((o.run e d).1.pages (o.run e d).1.vnum).visible = true) := by
  cases o with
  | page i po =>
    simp only [Op.run, setPageAt]
    by_cases hvis : (d.pages i).visible = true
    · have hiv := hi.only i hvis
      subst hiv
      have ht := pop_tracks e _ cv po hval.2 (hi.clean _) hvis (hi.shows hvis)
      refine ⟨⟨td_geom ht, ?_, ?_, ?_⟩, ?_⟩
      · intro j hj
        by_cases hji : j = d.vnum
        · exact hji
        · simp only [hji, if_false] at hj; exact hi.only j hj
      · intro _; simpa using ht
      · intro j
        by_cases hji : j = d.vnum
        · simp only [hji, if_true]; exact pop_clean e _ po (hi.clean _)
        · simp only [hji, if_false]; exact hi.clean j
      · intro _; simp only [if_true]; rw [pop_visible]; exact hvis
    · have hvf : (d.pages i).visible = false := by simpa using hvis
      have hs := pop_silent e _ po hvf
      have hv' : ((po.run e (d.pages i)).1).visible = false := by rw [pop_visible]; exact hvf
      rw [hs]
      refine ⟨⟨hi.geom, ?_, ?_, ?_⟩, ?_⟩
      · intro j hj
        by_cases hji : j = i
        · simp only [hji, if_true] at hj; rw [hv'] at hj; cases hj
        · simp only [hji, if_false] at hj; exact hi.only j hj
      · intro hvv
        by_cases hji : d.vnum = i
        · simp only [hji, if_true] at hvv; rw [hv'] at hvv; cases hvv
        · simp only [hji, if_false] at hvv ⊢; exact hi.shows hvv
      · intro j
        by_cases hji : j = i
        · simp only [hji, if_true]; exact pop_clean e _ po (hi.clean _)
        · simp only [hji, if_false]; exact hi.clean j
      · intro hvv
        by_cases hji : d.vnum = i
        · rw [hji] at hvv; rw [hvf] at hvv; cases hvv
        · simp only [hji, if_false]; exact hvv
  | setPage v =>
    simp only [Op.run]
    split_ifs with hvn
    · -- old visible page switched off (silent), new one switched on (resubmits)
      have hoff := setVisible_off e (d.pages d.vnum)
      have hst0 := setVisible_state e (d.pages d.vnum) false
      simp only [hoff.2, List.nil_append, setPageAt]
      -- the page about to be shown is invisible at that moment
      have hinv : (if v = d.vnum then (setVisible e (d.pages d.vnum) false).1 else d.pages v).visible = false := by
        by_cases hvv : v = d.vnum
        · simp only [hvv, if_true]; exact hoff.1
        · simp only [hvv, if_false]
          cases hx : (d.pages v).visible with
          | false => rfl
          | true => exact absurd (hi.only v hx) hvv
      have hon := setVisible_on e _ cv hinv hi.geom
      have hst1 := setVisible_state e (if v = d.vnum then (setVisible e (d.pages d.vnum) false).1 else d.pages v) true
      refine ⟨⟨hon.2.1, ?_, ?_, ?_⟩, ?_⟩
      · intro j hj
        by_cases hjv : j = v
        · exact hjv
        · simp only [hjv, if_false] at hj
          by_cases hjo : j = d.vnum
          · simp only [hjo, if_true] at hj; rw [hoff.1] at hj; cases hj
          · simp only [hjo, if_false] at hj; exact absurd (hi.only j hj) hjo
      · intro _; simp only [if_true]; exact hon.2.toD
      · intro j
        by_cases hjv : j = v
        · simp only [hjv, if_true]
          intro hl r
          rw [hst1.1] at hl; rw [hst1.2]
          by_cases hvv : v = d.vnum
          · simp only [hvv, if_true] at hl ⊢; rw [hst0.1] at hl; rw [hst0.2]; exact hi.clean _ hl r
          · simp only [hvv, if_false] at hl ⊢; exact hi.clean _ hl r
        · simp only [hjv, if_false]
          by_cases hjo : j = d.vnum
          · simp only [hjo, if_true]; intro hl r; rw [hst0.1] at hl; rw [hst0.2]; exact hi.clean _ hl r
          · simp only [hjo, if_false]; exact hi.clean j
      · intro _; simp only [if_true]; exact hon.1
    · exact ⟨by simpa [consume] using hi, fun h => h⟩
  | pcopy src dst =>
    simp only [Op.run, setPageAt]
    by_cases hvis : (d.pages dst).visible = true
    · have hiv := hi.only dst hvis
      subst hiv
      have ht := copyFrom_tracks e (d.pages d.vnum) (d.pages src) cv hvis hi.geom
      refine ⟨⟨ht.1, ?_, ?_, ?_⟩, ?_⟩
      · intro j hj
        by_cases hji : j = d.vnum
        · exact hji
        · simp only [hji, if_false] at hj; exact hi.only j hj
      · intro _; simp only [if_true]; exact ht.toD
      · intro j
        by_cases hji : j = d.vnum
        · simp only [hji, if_true]; exact hi.clean _
        · simp only [hji, if_false]; exact hi.clean j
      · intro _; simp only [if_true]; exact hvis
    · have hvf : (d.pages dst).visible = false := by simpa using hvis
      rw [copyFrom_silent e _ _ hvf]
      refine ⟨⟨hi.geom, ?_, ?_, ?_⟩, ?_⟩
      · intro j hj
        by_cases hji : j = dst
        · simp only [hji, if_true] at hj; rw [copyFrom_visible, hvf] at hj; cases hj
        · simp only [hji, if_false] at hj; exact hi.only j hj
      · intro hvv
        by_cases hji : d.vnum = dst
        · simp only [hji, if_true] at hvv; rw [copyFrom_visible, hvf] at hvv; cases hvv
        · simp only [hji, if_false] at hvv ⊢; exact hi.shows hvv
      · intro j
        by_cases hji : j = dst
        · simp only [hji, if_true]; exact hi.clean _
        · simp only [hji, if_false]; exact hi.clean j
      · intro hvv
        by_cases hji : d.vnum = dst
        · rw [hji] at hvv; rw [hvf] at hvv; cases hvv
        · simp only [hji, if_false]; exact hvv

theorem run_inv (e : Env) (ops : List Op) (d : Disp) (cv : Canvas) (hi : Inv e d cv)
    (hval : validOps e d ops) :
    Inv e (runOps e d ops).1 (consume cv (runOps e d ops).2) ∧
    ((d.pages d.vnum).visible = true →
      ((runOps e d ops).1.pages (runOps e d ops).1.vnum).visible = true) := by
  induction ops generalizing d cv with
  | nil => exact ⟨hi, fun h => h⟩
  | cons o rest ih =>
    simp only [runOps, consume_append]
    have h1 := step_inv e d cv o hi hval.1
    have h2 := ih (o.run e d).1 _ h1.1 hval.2
    exact ⟨h2.1, fun h => h2.2 (h1.2 h)⟩

theorem mode_geom (e : Env) (cv : Canvas) (hth : 0 < e.g.th) (htw : 0 < e.g.tw) :
    GeomOk e (consume1 cv (modeSignal e)) := by
  refine ⟨rfl, rfl, rfl, rfl, ?_, ?_⟩
  · show (e.g.th * e.g.fh + e.g.th - 1) / e.g.th = e.g.fh
    have : e.g.th * e.g.fh + e.g.th - 1 = e.g.th * e.g.fh + (e.g.th - 1) := by omega
    rw [this, Nat.mul_add_div hth, Nat.div_eq_of_lt (by omega)]; rfl
  · show e.g.tw * e.g.fw / e.g.tw = e.g.fw
    exact Nat.mul_div_cancel_left _ htw

theorem rebuild_fold (e : Env) (d : Disp) (L : List Nat) (cv : Canvas) (hg : GeomOk e cv)
    (honly : ∀ i, (d.pages i).visible = true → i = d.vnum) (hvis : (d.pages d.vnum).visible = true)
    (h : d.vnum ∈ L ∨ Tracks e (d.pages d.vnum) cv) :
    Tracks e (d.pages d.vnum) (consume cv (L.map (fun i => resubmit e (d.pages i))).flatten) := by
  induction L generalizing cv with
  | nil =>
    rcases h with h | h
    · cases h
    · exact h
  | cons i rest ih =>
    simp only [List.map_cons, List.flatten_cons, consume_append]
    by_cases hi : i = d.vnum
    · subst hi
      have ht := resubmit_tracks e _ cv hvis hg
      exact ih _ ht.1 (Or.inr ht)
    · have hinv : (d.pages i).visible = false := by
        cases hx : (d.pages i).visible with
        | false => rfl
        | true => exact absurd (honly i hx) hi
      have : resubmit e (d.pages i) = [] := submit_silent _ _ _ _ _ _ hinv
      rw [this]
      apply ih cv hg
      rcases h with h | h
      · left
        rcases List.mem_cons.mp h with h | h
        · exact absurd h.symm hi
        · exact h
      · exact Or.inr h

theorem step_vnum (e : Env) (o : Op) (d : Disp) (h : d.vnum < d.npages) :
    (o.run e d).1.vnum < (o.run e d).1.npages := by
  cases o with
  | page i po => exact h
  | setPage v =>
    simp only [Op.run]
    split_ifs with hv
    · exact hv
    · exact h
  | pcopy a b => exact h

theorem run_vnum (e : Env) (ops : List Op) (d : Disp) (h : d.vnum < d.npages) :
    (runOps e d ops).1.vnum < (runOps e d ops).1.npages := by
  induction ops generalizing d with
  | nil => exact h
  | cons o rest ih => simp only [runOps]; exact ih _ (step_vnum e o d h)


end PcbV.ScreenLemmas
