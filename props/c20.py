"""C20 — User-defined functions never disturb the caller's variables."""
import os
import re
import shutil
import tempfile
from fractions import Fraction

from vlib import basic

LEVEL = 'proof'
RULE = ('one case = one generated program (1..4 DEF FN definitions with 0..4 parameters of all four types, '
        'duplicate/shadowing names, bodies over parameters, globals, literals, +, temporaries, forced collections, '
        'a failing subexpression and nested/self/mutually recursive FN calls; 3..9 LET/PRINT statements whose '
        'arguments convert, overflow or mismatch), run through a real Session; after EVERY statement all variables '
        'of the name pool are dumped; plus statement HISTORIES interleaving DEF FN (re)definitions whose parameters '
        'are written with and without type characters (several sharing a letter), DEFINT/DEFSNG/DEFDBL/DEFSTR over '
        'letter ranges before the DEF, between DEF and first call and between calls, assignments and nested/failing '
        'calls, run once as a program under ON ERROR and once statement by statement from direct mode without error '
        'trap (and with CLEAR); there ALL four typed variables of every involved letter are dumped after every '
        'statement; storage histories: string/numeric parameters named like caller variables, arguments that are '
        'other variables holding the SAME text/value (or the variable itself, temporaries), the caller variable '
        'optionally a FIELD variable, snapshots of the stored bytes (PEEK at VARPTR) around every finishing or failing '
        'call, then MID$=/LSET/RSET on the argument variable and GET of another record; '
        'non-trivial = the program contains at least one FN call; distinct = distinct program text')
EXPLANATION = ('theorems (PcbV.Props.C20 over PcbV.Model.UserFn on the C10 heap model): fn_frame_framed / fn_frame for every '
               'outcome with collections anywhere inside framed bodies, the framed class (gc, alloc, read, fail, bind), '
               'params_bound_during_body, arg_entry_is_converted_value, result_is_body_value, recursion_oom with '
               'direct/mutual corollaries, counterexamples for D17 and the two view-aliasing defects on models of the old '
               'code; correspondence: statement outcome and the dump of all pool variables after each statement compared '
               'with the Lean model (modelled sublanguage, default memory, forced collections inside bodies); oracle: an '
               'independent Python reference evaluator (dict environment, exact Fractions) predicts every printed value / '
               'error number and the complete variable dump after every statement, also for richer bodies (LEFT$, MID$, '
               'SPACE$, STRING$, LEN, -, conversions) in small string spaces (CLEAR ,n) where collections happen inside '
               'bodies; DEFtype histories (names completed at the time of USE) against model and reference; D17 program '
               'over the critical CLEAR sizes; DEFtype-after-DEF cases; storage oracle: descriptor bytes of every tracked '
               'variable equal before and after the call(s), FIELD variable still follows GET, in-place edits of the '
               'argument never reach the caller variable; leak probe CLEAR:PRINT FRE("") '
               'and no String left in temp_values at the end')
TRUSTED_BASE = ['model PcbV.Model.UserFn is a hand transcription of userfunctions.py UserFunction.evaluate/_evaluate, '
                'UserFunctionManager.define/get and DataSegment.complete_name/deftype_ '
                '(views on the evaluation stack are modelled as rooted pointer copies)',
                'PcbV.Model.Heap (C10) for the string heap and its collector']
ASSUMPTIONS = ['numeric values used by the generator are dyadic with small magnitude, exactly representable in '
               'Integer/Single/Double, so that PRINT output parses back exactly']

POOL = ['X%', 'X!', 'X#', 'X$', 'Y%', 'Y!', 'Y$', 'Z#', 'Z$', 'P!', 'Q$', 'T!', 'T$', 'T%']
TARGETS = {'i': 'T%', 's': 'T!', '$': 'T$', 'd': 'Z#'}
SIG = {'%': 'i', '!': 's', '#': 'd', '$': '$'}
FNLETTER = 'ABCD'
ERRNAMES = {6: 'overflow', 7: 'oom', 11: 'div0', 13: 'mismatch', 14: 'oss', 15: 'toolong', 18: 'undefined'}


class BErr(Exception):
    def __init__(self, code):
        Exception.__init__(self, code)
        self.code = code


def ty(name):
    return SIG[name[-1]]


SIGCH = {'i': '%', 's': '!', 'd': '#', '$': '$'}
LETTERS = 'ABCDEFGHIJKLMNOPQRSTUVWXYZ'


def complete(dt, name):
    """a name written without a type character gets the default type of its first letter"""
    return name if name[-1] in SIG else name + SIGCH[dt.get(name[0], 's')]


# ---------------------------------------------------------------------------------------------
# expressions: nested lists (JSON-able); numbers are integers in quarter units
#   ['n', t, q] ['s', text] ['v', name] ['+', a, b] ['gcE'] ['gcZ'] ['fail'] ['rep', n, ch]
#   ['call', name as written, [args]]      (modelled by Lean; the generators of whole programs use an index,
#                                           replaced by lower())
# history statements: ['L', name, e] ['P', e] ['T', type, first letter, last letter] ['D', fname, [params], body]
#   (names as written: with or without type character) and ['CLEAR'] (direct-mode histories only)
#   ['-', a, b] ['left', s, k] ['mid', s, i, k] ['space', n] ['len', s]   (oracle only)

def num_text(t, q):
    fr = Fraction(q, 4)
    neg = fr < 0
    a = -fr if neg else fr
    if a.denominator == 1:
        body = '%d' % a.numerator
    else:
        whole, rest = divmod(a.numerator * 100 // a.denominator, 100)
        body = ('%d.%02d' % (whole, rest)).rstrip('0')
    suffix = {'i': '', 's': '!', 'd': '#'}[t]
    if t == 's' and a.denominator != 1:
        suffix = ''
    text = body + suffix
    return '(-%s)' % text if neg else text


def to_basic(e):
    k = e[0]
    if k == 'n':
        return num_text(e[1], e[2])
    if k == 's':
        return '"%s"' % e[1]
    if k == 'v':
        return e[1]
    if k in '+-':
        return '(%s%s%s)' % (to_basic(e[1]), k, to_basic(e[2]))
    if k == 'gcE':
        return 'SPACE$(0*FRE(""))'
    if k == 'gcZ':
        return '0*FRE("")'
    if k == 'fail':
        return '(1\\0)'
    if k == 'rep':
        return 'STRING$(%d,"%s")' % (e[1], e[2])
    if k == 'call':
        if not e[2]:
            return 'FN' + e[1]
        return 'FN%s(%s)' % (e[1], ','.join(to_basic(a) for a in e[2]))
    if k == 'left':
        return 'LEFT$(%s,%d)' % (to_basic(e[1]), e[2])
    if k == 'mid':
        return 'MID$(%s,%d,%d)' % (to_basic(e[1]), e[2], e[3])
    if k == 'space':
        return 'SPACE$(%d)' % e[1]
    if k == 'len':
        return 'LEN(%s)' % to_basic(e[1])
    raise ValueError(k)


DEFWORD = {'i': 'DEFINT', 's': 'DEFSNG', 'd': 'DEFDBL', '$': 'DEFSTR'}


def stmt_text(st):
    """a history statement as BASIC text (PRINT goes to the output file)"""
    if st[0] == 'P':
        return 'PRINT#1,"[";%s;"]"' % to_basic(st[1])
    if st[0] == 'L':
        return '%s=%s' % (st[1], to_basic(st[2]))
    if st[0] == 'T':
        return '%s %s' % (DEFWORD[st[1]], st[2] if st[2] == st[3] else '%s-%s' % (st[2], st[3]))
    if st[0] == 'D':
        return 'DEF FN%s%s=%s' % (st[1], '(%s)' % ','.join(st[2]) if st[2] else '', to_basic(st[3]))
    if st[0] == 'CLEAR':
        return 'CLEAR'
    if st[0] == 'MID':
        return 'MID$(%s,%d)=%s' % (st[1], st[2], to_basic(st[3]))
    if st[0] in ('LSET', 'RSET'):
        return '%s %s=%s' % (st[0], st[1], to_basic(st[2]))
    if st[0] == 'FS':
        # a random-access file whose record is one FIELD variable; records 1..n written
        text = 'OPEN "R",#2,"F.DAT",%d:FIELD #2,%d AS %s' % (st[2], st[2], st[1])
        for i, t in enumerate(st[3]):
            text += ':LSET %s="%s":PUT #2,%d' % (st[1], t, i + 1)
        return text
    if st[0] == 'GET':
        return 'GET #2,%d' % st[1]
    if st[0] == 'S':
        # snapshot of the stored bytes of the variables (string descriptor: length + address; number: value bytes)
        parts = ['PRINT#1,"(";']
        for name in st[1]:
            nb = {'$': 3, '%': 2, '!': 4, '#': 8}[name[-1]]
            parts.append('V=VARPTR(%s):PRINT#1,%s;' % (name, ';'.join(['PEEK(V)'] + ['PEEK(V+%d)' % i for i in range(1, nb)])))
        parts.append('PRINT#1,")"')
        return ':'.join(parts)
    raise ValueError(st[0])


def lower(fns, stmts):
    """(function table, statements with calls by index) -> one history: DEF FN statements first, calls by name"""
    names = ['%s%s' % (FNLETTER[i], SIGCH[f['sigil']]) for i, f in enumerate(fns)]

    def ex(e):
        if e[0] == 'call':
            return ['call', names[e[1]] if e[1] < len(names) else 'Q!', [ex(a) for a in e[2]]]
        return [ex(x) if isinstance(x, list) and x and isinstance(x[0], str) and x[0] in KINDS else x for x in e]
    hist = [['D', names[i], list(f['params']), ex(f['body'])] for i, f in enumerate(fns)]
    for st in stmts:
        hist.append([st[0]] + list(st[1:-1]) + [ex(st[-1])])
    return hist


KINDS = ('n', 's', 'v', '+', '-', 'gcE', 'gcZ', 'fail', 'rep', 'call', 'left', 'mid', 'space', 'len')


def hexname(name):
    return ''.join('%02x' % ord(c) for c in name)


class Proto(object):
    """protocol text of an expression for the Lean driver; program literals get fake code addresses"""

    def __init__(self):
        self.code = []

    def expr(self, e):
        k = e[0]
        if k == 'n':
            return ['N%s%d' % (e[1], e[2])]
        if k == 's':
            addr = 1000 + 300 * len(self.code)
            self.code.append((addr, e[1]))
            return ['K%d.%d' % (addr, len(e[1]))]
        if k == 'v':
            return ['V' + hexname(e[1])]
        if k == '+':
            return ['+'] + self.expr(e[1]) + self.expr(e[2])
        if k == 'gcE':
            return ['GE']
        if k == 'gcZ':
            return ['GZ']
        if k == 'fail':
            return ['F']
        if k == 'rep':
            return ['R%d.%d' % (e[1], ord(e[2]))]
        if k == 'call':
            out = ['C%s.%d' % (hexname(e[1]), len(e[2]))]
            for a in e[2]:
                out += self.expr(a)
            return out
        raise ValueError(k)

    def stmt(self, st):
        if st[0] == 'P':
            return 'P:' + ','.join(self.expr(st[1]))
        if st[0] == 'L':
            return 'L:%s:%s' % (hexname(st[1]), ','.join(self.expr(st[2])))
        if st[0] == 'T':
            return 'T:%s:%d:%d' % (st[1], LETTERS.index(st[2]), LETTERS.index(st[3]))
        if st[0] == 'D':
            return 'D:%s:%s:%s' % (hexname(st[1]), ','.join(hexname(x) for x in st[2]) or '-', ','.join(self.expr(st[3])))
        raise ValueError(st[0])


# ---------------------------------------------------------------------------------------------
# the independent reference: dict environment, exact arithmetic, written from the property statement

def round_half_away(fr):
    n = int(abs(fr) * 2 + 1) // 2
    return -n if fr < 0 else n


def convert(t, v):
    if t == '$':
        if not isinstance(v, str):
            raise BErr(13)
        return v
    if isinstance(v, str):
        raise BErr(13)
    if t == 'i':
        n = round_half_away(v)
        if not -32768 <= n <= 32767:
            raise BErr(6)
        return Fraction(n)
    return v


def default(name):
    return '' if name[-1] == '$' else Fraction(0)


class Ref(object):
    def __init__(self):
        self.fns = {}           # complete function name -> (object id, parameters as written, body)
        self.nobj = 0
        self.dt = {}            # letter -> default type (missing: single)
        self.env = {}           # complete variable name -> value
        self.active = set()
        self.calls = 0
        self.depth = 0
        self.maxdepth = 0

    def get(self, name):
        return self.env.get(name, default(name))

    def ev(self, e):
        k = e[0]
        if k == 'n':
            return Fraction(e[2], 4)
        if k == 's':
            return e[1]
        if k == 'v':
            return self.get(complete(self.dt, e[1]))
        if k in '+-':
            a = self.ev(e[1])
            b = self.ev(e[2])
            if isinstance(a, str) != isinstance(b, str):
                raise BErr(13)
            if isinstance(a, str):
                if k == '-':
                    raise BErr(13)
                if len(a) + len(b) > 255:
                    raise BErr(15)
                return a + b
            return a + b if k == '+' else a - b
        if k == 'gcE':
            return ''
        if k == 'gcZ':
            return Fraction(0)
        if k == 'fail':
            raise BErr(11)
        if k == 'rep':
            return e[2] * e[1]
        if k == 'space':
            return ' ' * e[1]
        if k == 'left':
            s = self.ev(e[1])
            if not isinstance(s, str):
                raise BErr(13)
            return s[:e[2]]
        if k == 'mid':
            s = self.ev(e[1])
            if not isinstance(s, str):
                raise BErr(13)
            return s[e[2] - 1:e[2] - 1 + e[3]]
        if k == 'len':
            s = self.ev(e[1])
            if not isinstance(s, str):
                raise BErr(13)
            return Fraction(len(s))
        if k == 'call':
            return self.call(e[1], e[2])
        raise ValueError(k)

    def call(self, fname, args):
        full = complete(self.dt, fname)
        if full not in self.fns:
            raise BErr(18)
        obj, params, body = self.fns[full]
        self.calls += 1
        names = [complete(self.dt, p) for p in params]
        vals = []
        for name, a in zip(names, args):
            vals.append(convert(ty(name), self.ev(a)))
        if obj in self.active:
            raise BErr(7)
        before = dict(self.env)
        for name, v in zip(names, vals):
            self.env[name] = v
        self.active.add(obj)
        self.depth += 1
        self.maxdepth = max(self.maxdepth, self.depth)
        try:
            return convert(ty(full), self.ev(body))
        finally:
            self.depth -= 1
            self.active.discard(obj)
            # the property: every variable has the value it had before the call
            self.env = before

    def stmt(self, st):
        """returns ('k',) / ('n', Fraction) / ('s', str) / ('e', code)"""
        try:
            if st[0] == 'P':
                v = self.ev(st[1])
                return ('s', v) if isinstance(v, str) else ('n', v)
            if st[0] == 'T':
                for c in LETTERS[LETTERS.index(st[2]):LETTERS.index(st[3]) + 1]:
                    self.dt[c] = st[1]
                return ('k',)
            if st[0] == 'D':
                self.nobj += 1
                self.fns[complete(self.dt, st[1])] = (self.nobj, st[2], st[3])
                return ('k',)
            if st[0] == 'CLEAR':
                self.fns, self.dt, self.env = {}, {}, {}
                return ('k',)
            if st[0] == 'S':
                return ('d', None)
            if st[0] == 'FS':
                w = st[2]
                self.field = complete(self.dt, st[1])
                self.recs = dict((i + 1, t.ljust(w)[:w]) for i, t in enumerate(st[3]))
                self.env[self.field] = self.recs[len(st[3])]
                return ('k',)
            if st[0] == 'GET':
                self.env[self.field] = self.recs[st[1]]
                return ('k',)
            if st[0] in ('MID', 'LSET', 'RSET'):
                name = complete(self.dt, st[1])
                new = self.ev(st[-1])
                old = self.get(name)
                if not isinstance(new, str) or not isinstance(old, str):
                    raise BErr(13)
                if st[0] == 'MID':
                    if not 1 <= st[2] <= len(old):
                        raise BErr(5)
                    k = st[2] - 1
                    new = new[:len(old) - k]
                    self.env[name] = old[:k] + new + old[k + len(new):]
                elif old:
                    self.env[name] = new.ljust(len(old))[:len(old)] if st[0] == 'LSET' else new[:len(old)].rjust(len(old))
                return ('k',)
            name = complete(self.dt, st[1])
            v = convert(ty(name), self.ev(st[2]))
            self.env[name] = v
            return ('k',)
        except BErr as e:
            return ('e', e.code)


# ---------------------------------------------------------------------------------------------
# generator

SMALL_NUMS = [0, 4, -4, 8, 10, -10, 12, 1, -3, 28, 40, 400, 6, -6, 2, 14]
EDGE_NUMS = [131068, -131072, 131070, 131069, -131074, -131073, 160000, -160000, 131071]
WORDS = ['a', 'bc', 'def', 'caller', 'value', 'zz', 'q', 'mnopq', '']


class Gen(object):
    def __init__(self, rng, rich):
        self.rng = rng
        self.rich = rich          # oracle-only node kinds allowed
        self.fns = []
        self.nfn = 0

    def pick_num_lit(self):
        r = self.rng
        t = r.choice('issd')
        q = r.choice(SMALL_NUMS)
        if t == 'i':
            q = (q // 4) * 4
        return ['n', t, q]

    def sexpr(self, depth, params):
        r = self.rng
        c = r.random()
        if depth <= 0 or c < 0.25:
            c2 = r.random()
            if c2 < 0.45 and params:
                cand = [p for p in params if p[-1] == '$']
                if cand:
                    return ['v', r.choice(cand)]
            if c2 < 0.7:
                return ['v', r.choice([n for n in POOL if n[-1] == '$'])]
            return ['s', r.choice(WORDS)]
        if c < 0.55:
            return ['+', self.sexpr(depth - 1, params), self.sexpr(depth - 1, params)]
        if c < 0.65:
            return ['+', self.sexpr(depth - 1, params), ['gcE']]
        if c < 0.75:
            return ['rep', r.choice([0, 1, 3, 20, 60, 100]), r.choice('xyz')]
        if c < 0.87 and self.nfn:
            return self.call(depth - 1, params, want='$')
        if self.rich:
            c3 = r.random()
            if c3 < 0.4:
                return ['left', self.sexpr(depth - 1, params), r.choice([0, 1, 2, 5, 12, 40])]
            if c3 < 0.7:
                return ['mid', self.sexpr(depth - 1, params), r.choice([1, 2, 3]), r.choice([0, 1, 4, 30])]
            return ['+', self.sexpr(depth - 1, params), ['left', ['space', r.choice([50, 100, 120])], r.choice([0, 1])]]
        return ['+', ['s', r.choice(WORDS)], self.sexpr(depth - 1, params)]

    def nexpr(self, depth, params):
        r = self.rng
        c = r.random()
        if depth <= 0 or c < 0.3:
            c2 = r.random()
            if c2 < 0.45 and params:
                cand = [p for p in params if p[-1] != '$']
                if cand:
                    return ['v', r.choice(cand)]
            if c2 < 0.7:
                return ['v', r.choice([n for n in POOL if n[-1] != '$'])]
            return self.pick_num_lit()
        if c < 0.55:
            return ['+', self.nexpr(depth - 1, params), self.nexpr(depth - 1, params)]
        if c < 0.65:
            return ['+', self.nexpr(depth - 1, params), ['gcZ']]
        if c < 0.70:
            return ['+', self.nexpr(depth - 1, params), ['fail']] if r.random() < 0.5 else ['fail']
        if c < 0.88 and self.nfn:
            return self.call(depth - 1, params, want='n')
        if self.rich:
            if r.random() < 0.5:
                return ['len', self.sexpr(depth - 1, params)]
            return ['-', self.nexpr(depth - 1, params), self.nexpr(depth - 1, params)]
        return ['+', self.pick_num_lit(), self.nexpr(depth - 1, params)]

    def arg_for(self, pname, depth, params):
        """an argument expression for a parameter: usually the right kind, sometimes not"""
        r = self.rng
        c = r.random()
        if pname[-1] == '$':
            if c < 0.06:
                return self.nexpr(0, params)           # Type mismatch
            return self.sexpr(depth, params)
        if c < 0.05:
            return self.sexpr(0, params)               # Type mismatch
        if c < 0.17:
            return ['n', r.choice('sd'), r.choice(EDGE_NUMS)]    # around the Integer limits
        if c < 0.25:
            return ['n', r.choice('sd'), r.choice([10, -10, 6, -6, 2, -2, 1, -1, 3, 14])]   # halves: rounding
        return self.nexpr(depth, params)

    def call(self, depth, params, want):
        r = self.rng
        cand = [i for i in range(self.nfn) if (self.sigils[i] == '$') == (want == '$')]
        if not cand or r.random() < 0.08:
            cand = list(range(self.nfn))
        idx = r.choice(cand)
        if r.random() < 0.02:
            idx = self.nfn                              # Undefined user function
            return ['call', idx, []]
        return ['call', idx, [self.arg_for(p, depth, params) for p in self.plist[idx]]]

    def program(self):
        r = self.rng
        self.nfn = r.choice([1, 2, 2, 3, 3, 4])
        self.sigils = [r.choice('is$$d$s') for _ in range(self.nfn)]
        self.plist = []
        for i in range(self.nfn):
            n = r.choice([0, 1, 1, 2, 2, 3, 4])
            ps = [r.choice(POOL[:10]) for _ in range(n)]
            if n >= 2 and r.random() < 0.15:
                ps[-1] = ps[0]                          # duplicate parameter name
            self.plist.append(ps)
        fns = []
        for i in range(self.nfn):
            depth = r.choice([0, 1, 2, 2, 3])
            if r.random() < 0.25 and self.plist[i]:
                body = ['v', r.choice(self.plist[i])]   # the bare parameter
            elif (self.sigils[i] == '$') != (r.random() < 0.05):
                body = self.sexpr(depth, self.plist[i])
            else:
                body = self.nexpr(depth, self.plist[i])
            fns.append({'sigil': self.sigils[i], 'params': self.plist[i], 'body': body})
        self.fns = fns
        stmts = []
        # set up some of the variables, leave others non-existent
        for name in POOL:
            if r.random() < 0.55:
                if name[-1] == '$':
                    e = ['+', ['s', r.choice(WORDS)], ['s', r.choice(WORDS)]] if r.random() < 0.7 else ['s', r.choice(WORDS)]
                else:
                    e = self.pick_num_lit()
                    if name[-1] == '%':
                        e = ['n', 'i', (e[2] // 4) * 4]
                stmts.append(['L', name, e])
        r.shuffle(stmts)
        ncall = r.choice([3, 4, 5, 6, 9])
        for _ in range(ncall):
            idx = r.randrange(self.nfn)
            want = '$' if self.sigils[idx] == '$' else 'n'
            e = ['call', idx, [self.arg_for(p, 2, []) for p in self.plist[idx]]]
            c = r.random()
            if c < 0.2:
                e = ['+', (self.sexpr(0, []) if want == '$' else self.nexpr(0, [])), e]   # an operand kept on the stack
            if r.random() < 0.5:
                stmts.append(['P', e])
            else:
                tgt = TARGETS[self.sigils[idx]] if r.random() < 0.85 else r.choice(POOL)
                stmts.append(['L', tgt, e])
        return fns, stmts


# ---------------------------------------------------------------------------------------------
# running a program on the real interpreter

def build_lines(hist, pool, pre=(), trap=True):
    """the program of a history.  trap: one run under ON ERROR GOTO, a dump of the pool after every statement;
    otherwise every statement is its own stop point (driven from direct mode, see run_steps)"""
    # the output goes to a file on a temporary drive (three times faster than the text screen)
    dump = 'PRINT#1,"{";%s;"}@B"' % ';"|";'.join(pool)
    if not trap:
        lines = []
        for k, st in enumerate(hist):
            lines.append('%d %s' % (100 + 2 * k, stmt_text(st)))
            lines.append('%d STOP' % (101 + 2 * k))
        return lines
    lines = ['1 ON ERROR GOTO 9500', '2 OPEN "OUT.TXT" FOR OUTPUT AS 1']
    lines += list(pre)
    lines.append('90 PRINT#1,"@B"')
    n = 100
    for st in hist:
        lines.append('%d %s' % (n, stmt_text(st)))
        lines.append('%d GOSUB 9000' % (n + 1))
        n += 2
    lines.append('8000 CLOSE:END')
    lines.append('9000 %s:RETURN' % dump)
    lines.append('9500 PRINT#1,"@E";ERR:RESUME NEXT')
    return lines


class Box(object):
    """a real Session with a temporary drive C: for the output file"""

    def __init__(self):
        self.dir = tempfile.mkdtemp(prefix='pcbv-c20-')
        self.session = basic.new_session(devices={'C': self.dir}, current_device='C')

    def execute(self, text):
        return self.session.execute(text)

    def output(self):
        path = os.path.join(self.dir, 'OUT.TXT')
        try:
            with open(path, 'rb') as f:
                return f.read().replace(b'\x1a', b'')
        except EnvironmentError:
            return b''

    def close(self):
        try:
            self.session.close()
        finally:
            shutil.rmtree(self.dir, ignore_errors=True)


NUM_RX = re.compile(r'^-?\d*\.?\d*(?:[ED][-+]?\d+)?$')


def parse_num(text):
    t = text.strip().replace('D', 'E')
    if not t or not NUM_RX.match(t):
        return None
    try:
        return Fraction(t)
    except (ValueError, ZeroDivisionError):
        return None


def parse_output(out, pool):
    """-> list of (outcome, dump) per statement; outcome as in Ref.stmt, dump = dict name -> value;
    None where the output could not be understood"""
    text = out.decode('latin-1').replace('\r', '').replace('\n', '').replace('\xff', '')
    text, _, screen = text.partition('@SCREEN')
    chunks = text.split('@B')[1:-1]
    res = []
    for ch in chunks:
        m = re.search(r'\{([^{}]*)\}', ch)
        dump = None
        head = ch
        if m:
            head = ch[:m.start()]
            parts = m.group(1).split('|')
            if len(parts) == len(pool):
                dump = {}
                for name, p in zip(pool, parts):
                    dump[name] = p if name[-1] == '$' else parse_num(p)
        me = re.search(r'@E\s*(\d+)', head)
        ms = re.match(r'^\(([\d\s]*)\)$', head.strip())
        if me:
            outcome = ('e', int(me.group(1)))
        elif ms:
            outcome = ('d', tuple(int(x) for x in ms.group(1).split()))
        else:
            mv = re.search(r'\[(.*)\]', head)
            if mv is None:
                outcome = ('k',) if head.strip() == '' else ('?', head)
            else:
                body = mv.group(1)
                if body[:1] in (' ', '-') and parse_num(body) is not None:
                    outcome = ('n', parse_num(body))
                else:
                    outcome = ('s', body)
        res.append((outcome, dump))
    return res


def show_outcome(o):
    if o[0] == 'n':
        q = o[1] * 4
        return 'n%d' % q.numerator if q.denominator == 1 else 'n?%s' % o[1]
    if o[0] == 's':
        return 's' + (hexname(o[1]) or '-')
    if o[0] == 'e':
        return 'e%d' % o[1]
    if o[0] == 'd':
        return 'd%s' % ('.'.join(map(str, o[1])) if o[1] is not None else '')
    return o[0] if o[0] == 'k' else '?%r' % (o[1],)


def show_dump(d, pool):
    if d is None:
        return '?'
    parts = []
    for name in pool:
        v = d[name]
        if name[-1] == '$':
            parts.append(hexname(v) or '-')
        elif v is None:
            parts.append('?')
        else:
            q = v * 4
            parts.append('%d' % q.numerator if q.denominator == 1 else '?%s' % v)
    return ','.join(parts)


def run_program(box, lines, clear=None):
    """returns (output bytes or None, host exception text or None, leak probe output)"""
    try:
        box.execute(b'NEW')
        if clear is not None:
            box.execute(b'CLEAR ,%d' % clear)
        for l in lines:
            box.execute(l.encode('latin-1'))
        scr = box.execute(b'RUN')
        out = box.output() + b'@SCREEN' + scr
    except Exception as e:            # a host exception escaping the interpreter
        return None, '%s: %s' % (type(e).__name__, e), None
    probe = None
    try:
        probe = box.execute(b'CLEAR:PRINT "F";FRE("")')
    except Exception as e:
        return out, None, 'EXC %s: %s' % (type(e).__name__, e)
    return out, None, probe


def run_steps(box, case, lines):
    """the history statement by statement from direct mode, no ON ERROR: DEF FN lines (and a random part of the
    others) are executed with GOTO <line> up to the STOP behind them, the rest is typed in directly; an error ends
    the statement with a message, which is recorded in the output file like the trap handler does"""
    messages = {k.decode('latin-1'): v for k, v in basic.error_table().items()}
    hist, pool = case['hist'], case['pool']
    dump = 'PRINT#1,"{";%s;"}@B"' % ';"|";'.join(pool)
    try:
        box.execute(b'NEW')
        for l in lines:
            box.execute(l.encode('latin-1'))
        box.execute(b'OPEN "OUT.TXT" FOR OUTPUT AS 1')
        box.execute(b'PRINT#1,"@B"')
        for k, st in enumerate(hist):
            if st[0] == 'D' or case['direct'][k] == 0:
                scr = box.execute(b'GOTO %d' % (100 + 2 * k))
            else:
                scr = box.execute(stmt_text(st).encode('latin-1'))
            text = scr.decode('latin-1').replace('\xff', '')
            for ln in text.replace('\r', '').split('\n'):
                msg = re.sub(r' in \d+$', '', ln.strip())
                if msg in messages and not msg.startswith('Break'):
                    box.execute(b'PRINT#1,"@E";%d' % messages[msg])
                    break
            box.execute(dump.encode('latin-1'))
        box.execute(b'CLOSE')
        out = box.output() + b'@SCREEN'
    except Exception as e:            # a host exception escaping the interpreter
        return None, '%s: %s' % (type(e).__name__, e), None
    try:
        probe = box.execute(b'CLEAR:PRINT "F";FRE("")')
    except Exception as e:
        return out, None, 'EXC %s: %s' % (type(e).__name__, e)
    return out, None, probe


def internals_clean(session):
    """no String value stays registered as a collector root, no evaluation stack survives a finished
    program (skipped when the attributes do not exist; other leftovers that the collector ignores,
    like the bytes object STRING$ leaves behind on Out of string space, are not counted)"""
    try:
        from pcbasic.basic.values import strings
        mem = session.session._impl.memory
        tv = [v for v in (getattr(mem, 'temp_values', None) or ()) if isinstance(v, strings.String)]
        st = getattr(mem, '_stack', None)
        bad = []
        if tv:
            bad.append('temp_values=%d' % len(tv))
        if st:
            bad.append('_stack=%d' % len(st))
        return bad
    except Exception:
        return []


def classify(stmts):
    ncalls = [0]

    def walk(e):
        if e[0] == 'call':
            ncalls[0] += 1
            for a in e[2]:
                walk(a)
        else:
            for x in e[1:]:
                if isinstance(x, list):
                    walk(x)
    for st in stmts:
        walk(st[-1])
    return ncalls[0]


def check_case(ctx, session, case, modelled):
    """Run one history: oracle against the reference, and (modelled) produce the strings for the Lean comparison.
    Returns (impl_reply or None, protocol line or None)."""
    stmts, pool, clear = case['hist'], case['pool'], case.get('clear')
    trap = case.get('mode', 'trap') == 'trap'
    lines = build_lines(stmts, pool, case.get('pre', ()), trap)
    if trap:
        out, exc, probe = run_program(session, lines, clear)
    else:
        out, exc, probe = run_steps(session, case, lines)
    label = case.get('label', 'gen')
    ctx.case('\n'.join(lines) + '/%s/%s' % (clear, case.get('direct')))
    if exc is not None:
        ctx.count('host-exception')
        ctx.fail('host-exception:' + exc.split(':')[0], case, 'host exception escaped Session.execute: %s\nprogram:\n%s'
                 % (exc, '\n'.join(lines)))
        return None, None
    got = parse_output(out, pool)
    ref = Ref()
    tolerate_mem = clear is not None
    impl_parts = []
    prev = {n: default(n) for n in pool}
    ok = True
    snap, snap_clean = None, False
    if len(got) != len(stmts):
        ctx.fail('output-shape', case, 'expected %d statement blocks, got %d: %r\nprogram:\n%s'
                 % (len(stmts), len(got), out, '\n'.join(lines)))
        return None, None
    for k, (st, (outcome, dump)) in enumerate(zip(stmts, got)):
        target = complete(ref.dt, st[1]) if st[0] in ('L', 'MID', 'LSET', 'RSET', 'FS') else None
        if st[0] == 'GET':
            target = getattr(ref, 'field', None)
        exp = ref.stmt(st)
        if st[0] == 'S':
            # 0. STORAGE: across DEF FN calls (finished or failed; nothing else in between, no collection in this
            #    memory) the stored bytes of every variable - string descriptors (length, address) and numeric
            #    value bytes - are what they were: the restore puts back the saved descriptor itself
            exp = outcome if outcome[0] == 'd' else ('d', None)
            if outcome[0] == 'd' and snap is not None and snap_clean and outcome[1] != snap:
                names = []
                pos = 0
                for nm in st[1]:
                    nb = {'$': 3, '%': 2, '!': 4, '#': 8}[nm[-1]]
                    if outcome[1][pos:pos + nb] != snap[pos:pos + nb]:
                        names.append(nm)
                    pos += nb
                ctx.fail('storage:descriptor-changed:%s' % ','.join(sorted(set(n[-1] for n in names))), case,
                         'statement %d: the stored bytes of %s changed across the DEF FN call(s) since the previous '
                         'snapshot: before %s after %s\nprogram:\n%s' % (k, names, snap, outcome[1], '\n'.join(lines)))
                ok = False
            snap = outcome[1] if outcome[0] == 'd' else None
            snap_clean = True
        elif st[0] != 'P':
            snap_clean = False
        expdump = {n: ref.get(n) for n in pool}
        impl_parts.append('%s/%s' % (show_outcome(outcome), show_dump(dump, pool)))
        stext = stmt_text(st)
        ctx.count('stmt:' + {'P': 'print', 'L': 'let', 'T': 'deftype', 'D': 'def-fn', 'CLEAR': 'clear', 'S': 'snapshot',
                             'MID': 'mid$=', 'LSET': 'lset', 'RSET': 'rset', 'FS': 'field', 'GET': 'get'}[st[0]])
        if outcome[0] == 'e':
            ctx.count('err:' + ERRNAMES.get(outcome[1], str(outcome[1])))
        else:
            ctx.count('outcome:value')
        # 1. the frame: every variable reads what it read before the statement (except a LET target on success)
        if dump is None:
            ctx.fail('dump-unreadable', case, 'statement %d (%s): dump not readable in %r' % (k, stext, out))
            ok = False
            break
        changed = [n for n in pool if dump[n] != prev[n] and not (n == target and outcome[0] != 'e')]
        if st[0] == 'CLEAR':
            changed = []
        if changed:
            kind = 'error' if outcome[0] == 'e' else 'ok'
            ctx.fail('frame:%s:%s' % (kind, ','.join(sorted(set(c[-1] for c in changed)))), case,
                     'statement %d (%s) ended with %s and changed the caller\'s variables %s: before %s after %s\nprogram:\n%s'
                     % (k, stext, show_outcome(outcome), changed, [prev[c] for c in changed],
                        [dump[c] for c in changed], '\n'.join(lines)))
            ok = False
        # 2. the value / error predicted by the reference (parameters carry the converted arguments,
        #    recursion raises Out of memory, conversions raise Type mismatch / Overflow)
        mem_err = outcome[0] == 'e' and outcome[1] in (7, 14) and exp != outcome
        if mem_err and tolerate_mem:
            ctx.count('small-memory:resource-error')
            # the reference must follow the implementation: the statement failed
            ref.env = dict(prev)
            expdump = dict(prev)
        elif exp != outcome:
            if exp[0] == 'e' and outcome[0] == 'e':
                key = 'result:error-%d-instead-of-%d' % (outcome[1], exp[1])
            elif exp[0] == 'e':
                key = 'result:missing-error-%d' % exp[1]
            elif outcome[0] == 'e':
                key = 'result:unexpected-error-%d' % outcome[1]
            else:
                key = 'result:wrong-value:%s' % ('$' if exp[0] == 's' else 'n')
            ctx.fail(key,
                     case, 'statement %d (%s): expected %s, implementation gave %s\nprogram:\n%s'
                     % (k, stext, show_outcome(exp), show_outcome(outcome), '\n'.join(lines)))
            ok = False
            ref.env = {n: v for n, v in dump.items() if v is not None}
            expdump = dict(dump)
        # 3. the complete dump equals the reference environment
        if ok and dump != expdump:
            diff = [n for n in pool if dump[n] != expdump[n]]
            ctx.fail('dump:%s' % ','.join(sorted(set(c[-1] for c in diff))), case,
                     'statement %d (%s): variables %s read %s, expected %s\nprogram:\n%s'
                     % (k, stext, diff, [dump[c] for c in diff], [expdump[c] for c in diff], '\n'.join(lines)))
            ok = False
            ref.env = {n: v for n, v in dump.items() if v is not None}
        prev = dict(dump)
    ctx.count('ref-calls', ref.calls)
    ctx.count('nesting-depth:%d' % min(ref.maxdepth, 4))
    # 4. nothing stays referenced after the program
    if probe is not None and (probe.startswith('EXC') if isinstance(probe, str) else not re.search(br'F\s*\d+', probe)):
        ctx.fail('leak-probe', case, 'CLEAR:PRINT FRE("") after the program: %r\nprogram:\n%s' % (probe, '\n'.join(lines)))
    bad = internals_clean(session)
    if bad:
        ctx.fail('leak:' + ','.join(b.split('=')[0] for b in bad), case,
                 'after the program: %s\nprogram:\n%s' % (bad, '\n'.join(lines)))
    if ctx.samples is not None and len(ctx.samples) < 6 and label == 'gen':
        ctx.sample({'program': lines, 'clear': clear, 'reply': impl_parts})
    if not modelled:
        return None, None
    p = Proto()
    sparts = [p.stmt(st) for st in stmts]
    if len(p.code) > 90:
        return None, None
    code = ','.join('%d=%s' % (a, hexname(t)) for a, t in p.code) or '-'
    line = 'run 1000 30000 65534 512 %s %s %s' % (code, ','.join(hexname(n) for n in pool), ';'.join(sparts))
    return 'ok ' + ';'.join(x + '/0.0' for x in impl_parts), line


# ---------------------------------------------------------------------------------------------
# histories with default-type statements: names written without a type character are completed when USED

class HistGen(object):
    """DEF FN (re)definitions with parameters written with and without type characters, DEFINT/DEFSNG/DEFDBL/
    DEFSTR over letter ranges before the DEF, between DEF and first call and between calls, assignments to all
    four typed variables of the involved letters, nested and failing calls"""

    def __init__(self, rng, nofail):
        self.rng = rng
        self.nofail = nofail
        r = rng
        self.letters = r.choice(['XYZ', 'XY', 'PQ', 'XZ', 'PQT', 'X', 'YZ'])
        self.pool = [l + c for l in self.letters for c in '%!#$']
        self.dt = {}
        self.fns = {}            # complete name -> parameters as written (what the call will find)
        self.written = []        # function names as written in some DEF FN
        self.arity = {}
        self.hist = []
        self.direct = []

    def cur(self, name):
        return complete(self.dt, name)

    def value(self, t):
        r = self.rng
        if t == '$':
            return ['+', ['s', r.choice(WORDS)], ['s', r.choice(['k', 'lm', 'w', 'uv'])]] if r.random() < 0.6 \
                else ['s', r.choice(WORDS)]
        q = r.choice(SMALL_NUMS + [20, 24, 36, 44, 52, 60])
        if t == 'i':
            q = (q // 4) * 4
        return ['n', t if t != 'i' or -131072 <= q <= 131068 else 's', q]

    def name_of_type(self, want_str, params):
        """a variable (as written) that currently is / is not a string"""
        r = self.rng
        cand = []
        for l in self.letters:
            for w in (l, l + '%', l + '!', l + '#', l + '$'):
                if (ty(self.cur(w)) == '$') == want_str:
                    cand.append(w)
        pc = [p for p in params if (ty(self.cur(p)) == '$') == want_str]
        if pc and r.random() < 0.6:
            return r.choice(pc)
        return r.choice(cand) if cand else None

    def expr(self, want_str, depth, params):
        r = self.rng
        c = r.random()
        if depth <= 0 or c < 0.35:
            n = self.name_of_type(want_str, params)
            if n is not None and r.random() < 0.75:
                return ['v', n]
            return self.value('$' if want_str else r.choice('isd'))
        if c < 0.6:
            return ['+', self.expr(want_str, depth - 1, params), self.expr(want_str, depth - 1, params)]
        if c < 0.68:
            return ['+', self.expr(want_str, depth - 1, params), ['gcE'] if want_str else ['gcZ']]
        if c < 0.73 and not want_str and not self.nofail:
            return ['+', self.expr(False, depth - 1, params), ['fail']]
        if c < 0.9 and self.written:
            return self.call(depth - 1, params, want_str)
        return self.value('$' if want_str else r.choice('isd'))

    def call(self, depth, params, want_str=None):
        r = self.rng
        names = sorted(set(self.written))
        if want_str is not None:
            cand = [n for n in names if (ty(self.cur(n)) == '$') == want_str]
            names = cand or names
        defined = [n for n in names if self.cur(n) in self.fns]
        if defined and r.random() < 0.93:
            names = defined
        fname = r.choice(names)
        args = []
        # a name that no longer resolves to a definition: Undefined user function (raised before the arguments)
        for p in self.fns.get(self.cur(fname), []):
            t = ty(self.cur(p))
            c = r.random()
            if c < 0.07:
                args.append(self.expr(t != '$', 0, params))          # Type mismatch
            elif t == 'i' and c < 0.15:
                args.append(['n', r.choice('sd'), r.choice(EDGE_NUMS)])  # around the Integer limits: Overflow
            elif t != '$' and c < 0.25:
                args.append(['n', r.choice('sd'), r.choice([10, -10, 6, -6, 2, 14])])
            else:
                args.append(self.expr(t == '$', depth, params))
        return ['call', fname, args]

    def add(self, st):
        self.hist.append(st)
        self.direct.append(self.rng.choice([0, 1]))
        if st[0] == 'T':
            for c in LETTERS[LETTERS.index(st[2]):LETTERS.index(st[3]) + 1]:
                self.dt[c] = st[1]

    def deftype(self):
        r = self.rng
        c = r.random()
        l = r.choice(self.letters)
        if c < 0.6:
            lo = hi = l
        elif c < 0.8:
            lo, hi = min(self.letters), max(self.letters)
        elif c < 0.9:
            lo, hi = 'A', 'Z'
        else:
            lo, hi = 'A', r.choice('DM')
        self.add(['T', r.choice('isd$'), lo, hi])

    def define(self, fname=None):
        r = self.rng
        if fname is None:
            fname = r.choice('ABC') + r.choice(['', '', '%', '!', '#', '$'])
        # every definition under one letter has the same number of parameters, so that a call written earlier
        # stays well-formed whatever definition its name resolves to later (a wrong count is a Syntax error)
        n = self.arity.setdefault(fname[0], r.choice([0, 1, 1, 2, 2, 3, 4]))
        params = []
        for _ in range(n):
            l = r.choice(self.letters)
            params.append(l + r.choice(['', '', '', '%', '!', '#', '$']))
        if n >= 2 and r.random() < 0.3:
            params[-1] = params[0][0] + r.choice(['', '%', '!', '#', '$'])     # shares the letter
        want_str = ty(self.cur(fname)) == '$'
        if r.random() < 0.06:
            want_str = not want_str
        # calls inside the body find the new definition
        self.fns[self.cur(fname)] = params
        self.written.append(fname)
        if params and r.random() < 0.3:
            body = ['v', r.choice(params)]
        else:
            body = self.expr(want_str, r.choice([0, 1, 1, 2]), params)
        self.add(['D', fname, params, body])

    def assign_all(self):
        """distinct values in all four typed variables of the involved letters"""
        r = self.rng
        names = list(self.pool)
        r.shuffle(names)
        for nm in names:
            if r.random() < 0.8:
                self.add(['L', nm, self.value(ty(nm))])

    def use(self):
        r = self.rng
        e = self.call(r.choice([0, 1, 2]), [])
        t = ty(self.cur(e[1]))
        if r.random() < 0.15:
            e = ['+', self.expr(t == '$', 0, []), e]                # an operand kept on the stack
        if r.random() < 0.5:
            self.add(['P', e])
        else:
            cand = [w for l in self.letters for w in (l, l + SIGCH[t])]
            tgt = r.choice(cand) if r.random() < 0.85 else r.choice(self.pool)
            self.add(['L', tgt, e])

    def history(self, allow_clear=False):
        r = self.rng
        if r.random() < 0.4:
            self.deftype()                  # before the DEF
        for _ in range(r.choice([1, 1, 2, 3])):
            self.define()
        if r.random() < 0.4:
            self.deftype()                  # between DEF and the first call
        self.assign_all()
        for _ in range(r.choice([4, 5, 6, 8])):
            c = r.random()
            if c < 0.55:
                self.use()
            elif c < 0.8:
                self.deftype()              # between calls
                # the caller's variable of the new default type gets a fresh value
                l = r.choice(self.letters)
                self.add(['L', l, self.value(ty(self.cur(l)))])
                self.use()
            elif c < 0.9:
                self.define(r.choice(self.written) if r.random() < 0.7 else None)   # redefinition
            elif allow_clear and c < 0.93:
                self.add(['CLEAR'])
                self.dt, self.fns, self.written = {}, {}, []
                self.define()
                self.assign_all()
            else:
                l = r.choice(self.pool)
                self.add(['L', l, self.value(ty(l))])
        return self.hist


# ---------------------------------------------------------------------------------------------
# directed cases (boundary-dense): the known defects and the corners of the statement

def directed_cases():
    S = lambda t: ['s', t]
    V = lambda n: ['v', n]
    N = lambda t, q: ['n', t, q]
    cat = lambda a, b: ['+', a, b]
    cases = []
    # identity bodies of every type: the result must be the ARGUMENT, not the caller's variable
    for name, arg, init in (('X$', S('one'), S('seven')), ('X%', N('i', 4), N('i', 28)), ('X!', N('s', 4), N('s', 28)),
                            ('X#', N('d', 4), N('d', 28))):
        f = {'sigil': ty(name), 'params': [name], 'body': V(name)}
        tgt = TARGETS[ty(name)]
        cases.append({'label': 'identity', 'fns': [f], 'stmts': [['L', name, init], ['P', ['call', 0, [arg]]],
                                                                 ['L', tgt, ['call', 0, [arg]]], ['P', ['call', 0, [V(name)]]]]})
        cases.append({'label': 'identity-new', 'fns': [f], 'stmts': [['P', ['call', 0, [arg]]], ['L', tgt, ['call', 0, [arg]]]]})
    # arguments that are views of variables which are parameters themselves (swap)
    f = {'sigil': 's', 'params': ['Y!', 'X!'], 'body': cat(cat(V('Y!'), V('Y!')), V('X!'))}
    cases.append({'label': 'swap', 'fns': [f], 'stmts': [['L', 'X!', N('s', 4)], ['L', 'Y!', N('s', 40)],
                                                         ['P', ['call', 0, [V('X!'), V('Y!')]]]]})
    f = {'sigil': '$', 'params': ['Y$', 'X$'], 'body': cat(V('Y$'), V('X$'))}
    cases.append({'label': 'swap', 'fns': [f], 'stmts': [['L', 'X$', cat(S('x'), S('x'))], ['L', 'Y$', cat(S('y'), S('y'))],
                                                         ['P', ['call', 0, [V('X$'), V('Y$')]]]]})
    f = {'sigil': 'i', 'params': ['Y%', 'X%', 'Y%'], 'body': cat(V('Y%'), V('X%'))}
    cases.append({'label': 'dup', 'fns': [f], 'stmts': [['L', 'X%', N('i', 4)], ['L', 'Y%', N('i', 40)],
                                                        ['P', ['call', 0, [V('X%'), V('Y%'), V('X%')]]]]})
    # recursion: direct, mutual, through an argument (allowed), and a later call still works
    f0 = {'sigil': 's', 'params': ['X!'], 'body': cat(['call', 0, [V('X!')]], N('i', 4))}
    f1 = {'sigil': 's', 'params': ['X!'], 'body': ['call', 2, [V('X!')]]}
    f2 = {'sigil': 's', 'params': ['Y!'], 'body': ['call', 1, [V('Y!')]]}
    f3 = {'sigil': 's', 'params': ['X!'], 'body': cat(V('X!'), N('i', 4))}
    cases.append({'label': 'recursion', 'fns': [f0, f1, f2, f3],
                  'stmts': [['L', 'X!', N('s', 20)], ['L', 'Y!', N('s', 24)], ['P', ['call', 0, [N('i', 4)]]],
                            ['P', ['call', 1, [N('i', 8)]]], ['P', ['call', 2, [N('i', 8)]]], ['P', ['call', 3, [['call', 3, [N('i', 8)]]]]],
                            ['P', ['call', 0, [N('i', 4)]]], ['P', ['call', 3, [N('i', 4)]]]]})
    # failing conversions and failing bodies
    f = {'sigil': 'i', 'params': ['X%', 'Y$'], 'body': V('X%')}
    g = {'sigil': '$', 'params': ['X$'], 'body': cat(V('X$'), ['fail'])}
    h = {'sigil': 'i', 'params': ['X!'], 'body': V('X!')}
    st = [['L', 'X%', N('i', 28)], ['L', 'Y$', cat(S('ca'), S('ller'))], ['L', 'X$', cat(S('x'), S('y'))], ['L', 'X!', N('s', 10)]]
    for q in (131068, 131070, 131069, -131072, -131073, -131074, 10, 6, -10, -6, 2, -2):
        st.append(['P', ['call', 0, [N('d', q), S('q')]]])
    st += [['P', ['call', 0, [S('q'), S('q')]]], ['P', ['call', 0, [N('i', 4), N('i', 4)]]], ['P', ['call', 1, [S('abc')]]],
           ['P', ['call', 1, [N('i', 4)]]], ['P', ['call', 2, [N('s', 160000)]]], ['P', ['call', 2, [N('s', 131070)]]],
           ['L', 'T$', ['call', 2, [N('i', 4)]]], ['L', 'T%', ['call', 1, [S('a')]]], ['P', ['call', 4, []]]]
    cases.append({'label': 'conversions', 'fns': [f, g, h], 'stmts': st})
    # collections inside the body with the caller's string in string space (D17) and an operand on the stack
    f = {'sigil': '$', 'params': ['X$'], 'body': cat(cat(V('X$'), ['gcE']), cat(['rep', 20, 'z'], ['gcE']))}
    cases.append({'label': 'gc-in-body', 'fns': [f],
                  'stmts': [['L', 'X$', cat(S('caller'), S('-value'))], ['L', 'Z$', ['rep', 60, 'g']], ['L', 'Z$', S('')],
                            ['P', ['call', 0, [cat(S('argu'), S('ment'))]]], ['P', cat(V('X$'), ['call', 0, [cat(S('ar'), S('g'))]])],
                            ['L', 'T$', ['call', 0, [V('X$')]]], ['L', 'X$', ['call', 0, [V('T$')]]]]})
    return cases


def d17_cases():
    """the exact program of DESIGN.md section 8 (D17) over the CLEAR sizes around the critical range"""
    cases = []
    for n in (5600, 5685, 5700, 5800, 5900, 6000, 6100, 6200, 6300, 6399, 6500):
        cases.append(n)
    return cases


def run_d17(ctx, n):
    prog = ['5 CLEAR ,%d' % n, '10 DEF FNA$(X$)=LEFT$(X$+"!"+SPACE$(100)+SPACE$(100),12)', '20 X$="caller"+"-value"',
            '25 Z$=SPACE$(200):Z$="":W$=SPACE$(200):W$=""', '30 Y$=FNA$("argu"+"ment")', '40 PRINT "[";X$;"|";Y$;"]"']
    case = {'d17': n, 'program': prog}
    s = basic.new_session()
    try:
        try:
            for l in prog:
                s.execute(l.encode())
            out = s.execute(b'RUN')
        except Exception as e:
            ctx.fail('host-exception:' + type(e).__name__, case,
                     'host exception escaped Session.execute: %s: %s\nprogram:\n%s' % (type(e).__name__, e, '\n'.join(prog)))
            return
        ctx.case('d17/%d' % n)
        ctx.count('d17')
        text = out.decode('latin-1').replace('\r', '').replace('\n', '')
        if 'Out of' in text:
            ctx.count('d17:resource-error')
            return
        if '[caller-value|argument!   ]' not in text:
            ctx.fail('frame:ok:$', case, 'CLEAR ,%d: expected [caller-value|argument!   ], got %r' % (n, out))
    finally:
        s.close()


def deftype_cases(ctx):
    """parameters without sigil are completed at CALL time: a DEFtype after the DEF FN changes them"""
    progs = [
        (['10 X%=5:X!=7:X$="s"+"t"', '20 DEF FNA(X)=X+1', '30 DEFINT X', '40 PRINT "[";FNA(2.5);"|";X%;"|";X!;"|";X$;"]"'],
         '[ 4 | 5 | 7 |st]'),
        (['10 Q%=5:Q!=7:Q$="s"+"t"', '20 DEF FNA$(Q)=Q+"!"', '30 DEFSTR Q', '40 PRINT "[";FNA$("u"+"v");"|";Q%;"|";Q!;"|";Q$;"|";Q;"]"'],
         '[uv!| 5 | 7 |st|st]'),
        (['10 DEFDBL P:P=1.5', '20 DEF FNA(P)=P*2', '30 DEFSNG P', '40 PRINT "[";FNA(4);"|";P#;"|";P!;"]"'], '[ 8 | 1.5 | 0 ]'),
        (['10 DEF FNA(X,Y)=X*10+Y', '20 PRINT "[";FNA(1,2);"|";X;"|";Y;"]"'], '[ 12 | 0 | 0 ]'),
        (['10 DEF FNA=X+1', '20 X=7:PRINT "[";FNA;"|";X;"]"'], '[ 8 | 7 ]'),
    ]
    s = basic.new_session()
    try:
        for prog, want in progs:
            case = {'deftype': prog, 'want': want}
            ctx.case('deftype/' + '/'.join(prog))
            ctx.count('directed:deftype')
            try:
                s.execute(b'NEW')
                for l in prog:
                    s.execute(l.encode())
                out = s.execute(b'RUN')
            except Exception as e:
                ctx.fail('host-exception:' + type(e).__name__, case, 'host exception: %s' % e)
                continue
            text = out.decode('latin-1').replace('\r', '').replace('\n', '').replace('\xff', '')
            if text != want:
                ctx.fail('deftype', case, 'program %r printed %r, expected %r' % (prog, text, want))
    finally:
        s.close()


def small_memory_clear(session, lines, slack):
    """memory size that leaves about `slack` bytes free for variables and strings once `lines` are stored"""
    session.execute(b'NEW')
    for l in lines:
        session.execute(l.encode('latin-1'))
    out = session.execute(b'PRINT "F";FRE(0)')
    m = re.search(br'F\s*(\d+)', out)
    if not m:
        return None
    free = int(m.group(1))
    return free


# ---------------------------------------------------------------------------------------------
# storage histories: the caller's variable is restored as a DESCRIPTOR, not only as a value

class StoreGen(object):
    """string (and numeric) parameters named like caller variables; arguments that are other variables holding
    the SAME text/value as the caller's variable (or the variable itself, other variables, temporaries); the
    caller's variable optionally a FIELD variable of an open random file; snapshots of the stored bytes around
    every call (finishing and failing); afterwards in-place edits (MID$=, LSET, RSET) of the argument variable
    and GET of another record"""

    POOL = ['X$', 'Y$', 'B$', 'C$', 'X!', 'N!']

    def __init__(self, rng):
        self.rng = rng
        self.hist = []
        self.text = {}

    def split(self, t):
        r = self.rng
        k = r.randrange(len(t) + 1)
        return ['+', ['s', t[:k]], ['s', t[k:]]]

    def let(self, name, t):
        self.hist.append(['L', name, self.split(t)])
        self.text[name] = t

    def history(self):
        r = self.rng
        h = self.hist
        field = r.random() < 0.4
        words = ['first', 'second', 'abc', 'value', 'qrstu', 'mn', 'xyzw']
        if field:
            w = r.choice([5, 6, 8])
            recs = r.sample(words, r.choice([2, 3]))
            h.append(['FS', 'X$', w, recs])
            self.recs = [t.ljust(w)[:w] for t in recs]
        # functions: parameters named like the caller's variables
        fns = []
        shapes = [(['X$'], ['+', ['len', ['v', 'X$']], ['n', 'i', 4]], 'n'),
                  (['X$'], ['+', ['v', 'X$'], ['s', '!']], '$'),
                  (['X$'], ['+', ['len', ['v', 'X$']], ['fail']], 'n'),
                  (['X$', 'Y$'], ['+', ['v', 'Y$'], ['v', 'X$']], '$'),
                  (['Y$', 'X$'], ['len', ['+', ['v', 'Y$'], ['v', 'X$']]], 'n'),
                  (['X!', 'X$'], ['+', ['v', 'X!'], ['len', ['v', 'X$']]], 'n'),
                  (['X$', 'X!'], ['+', ['fail'], ['v', 'X!']], 'n'),
                  (['Y$'], ['v', 'Y$'], '$'),
                  (['X!'], ['+', ['v', 'X!'], ['v', 'X!']], 'n')]
        for i in range(r.choice([1, 2, 2, 3])):
            ps, body, kind = r.choice(shapes)
            name = 'ABC'[i] + ('$' if kind == '$' else '!')
            h.append(['D', name, list(ps), body])
            fns.append((name, ps))
        # the caller's variables, and argument variables holding the same text / value
        if field:
            h.append(['GET', 1])
            self.text['X$'] = self.recs[0]
            h.append(['L', 'B$', ['v', 'X$']])
            self.text['B$'] = self.recs[0]
        else:
            t = r.choice(words)
            self.let('X$', t)
            self.let('B$', t if r.random() < 0.75 else r.choice(words))
        t = r.choice(words)
        self.let('Y$', t)
        self.let('C$', t if r.random() < 0.75 else r.choice(words))
        q = r.choice([4, 10, -6, 28])
        h.append(['L', 'X!', ['n', 's', q]])
        h.append(['L', 'N!', ['n', 's', q if r.random() < 0.75 else 12]])
        tracked = ['X$', 'Y$', 'B$', 'X!']
        for _ in range(r.choice([2, 3, 4])):
            name, ps = r.choice(fns)
            args = []
            used = []
            for p in ps:
                c = r.random()
                if p[-1] == '$':
                    same = 'B$' if p == 'X$' else 'C$'
                    if c < 0.6:
                        a = ['v', same]
                    elif c < 0.7:
                        a = ['v', p]
                    elif c < 0.85:
                        a = ['v', r.choice(['B$', 'C$', 'X$', 'Y$'])]
                    else:
                        a = self.split(self.text.get(p, 'abc')) if r.random() < 0.5 else ['s', r.choice(words)]
                    if a[0] == 'v':
                        used.append(a[1])
                else:
                    a = ['v', 'N!'] if c < 0.6 else (['v', 'X!'] if c < 0.75 else ['n', 's', r.choice([4, 10, 12])])
                args.append(a)
            h.append(['S', tracked])
            h.append(['P', ['call', name, args]])
            h.append(['S', tracked])
            # in-place edits of the argument variable must not reach the caller's variable
            for v in used:
                if v in ('B$', 'C$') and r.random() < 0.7 and len(self.text.get(v) or '') >= 2:
                    c = r.random()
                    if c < 0.5:
                        h.append(['MID', v, r.choice([1, 2]), ['s', r.choice(['Q', 'ZZ'])]])
                    elif c < 0.75:
                        h.append(['LSET', v, ['s', r.choice(['k', 'uv'])]])
                    else:
                        h.append(['RSET', v, ['s', r.choice(['k', 'uv'])]])
                    self.text[v] = None
            if field and r.random() < 0.8:
                n = r.randrange(len(self.recs)) + 1
                h.append(['GET', n])
                self.text['X$'] = self.recs[n - 1]
            if r.random() < 0.6:
                # equal text again
                h.append(['L', 'B$', ['v', 'X$']])
                self.text['B$'] = self.text.get('X$')
        return h


def as_case(label, fns, stmts):
    return {'label': label, 'hist': lower(fns, stmts), 'pool': POOL}


def directed_histories():
    """default-type statements before the DEF, between DEF and first call, between calls; redefinition"""
    N = lambda t, q: ['n', t, q]
    V = lambda n: ['v', n]
    S = lambda t: ['s', t]
    pool = [l + c for l in 'XP' for c in '%!#$']
    hs = []
    hs.append([['D', 'A', ['X'], ['+', V('X'), V('X')]], ['L', 'R!', ['call', 'A', [N('i', 4)]]], ['T', 'i', 'X', 'X'],
               ['L', 'X', N('i', 20)], ['L', 'X!', N('s', 28)], ['L', 'R!', ['call', 'A', [N('i', 12)]]],
               ['T', '$', 'X', 'Z'], ['L', 'X', ['+', S('ca'), S('ller')]], ['P', ['call', 'A', [['+', S('ar'), S('g')]]]],
               ['P', ['call', 'A', [N('i', 4)]]], ['T', 'd', 'A', 'Z'], ['P', ['call', 'A', [N('i', 4)]]],
               ['P', ['call', 'A!', [N('d', 10)]]]])
    hs.append([['T', 'i', 'P', 'P'], ['D', 'B', ['P', 'P!', 'X$'], ['+', V('P'), V('P!')]], ['T', 'd', 'P', 'P'],
               ['L', 'P', N('d', 6)], ['L', 'P%', N('i', 8)], ['L', 'P!', N('s', 12)],
               ['P', ['call', 'B', [N('i', 36), N('i', 4), S('q')]]], ['P', ['call', 'B', [N('i', 36), ['fail'], S('q')]]],
               ['P', ['call', 'B', [N('i', 36), N('i', 4), N('i', 4)]]], ['T', 's', 'P', 'P'],
               ['D', 'B', ['P'], V('P')], ['P', ['call', 'B', [N('s', 2)]]], ['T', 'i', 'P', 'P'], ['L', 'P', N('i', 40)],
               ['P', ['call', 'B', [N('s', 10)]]], ['P', ['call', 'B', [N('s', 160000)]]]])
    return [{'label': 'deftype-directed', 'hist': h, 'pool': pool + ['R!']} for h in hs]


def run(ctx):
    rng = ctx.rng
    quick = ctx.quick
    # --- A. modelled programs, default memory: Lean correspondence + reference oracle --------------------
    n_model = 220 if quick else 2000
    n_hist = 160 if quick else 1500
    n_store = 70 if quick else 700
    session = Box()
    cases, impls, plines = [], [], []

    def modelled(case):
        impl, line = check_case(ctx, session, case, True)
        if impl is not None:
            cases.append({'label': case['label'], 'hist': case['hist']})
            impls.append(impl)
            plines.append(line)
    try:
        for c in directed_cases():
            ctx.count('directed:' + c['label'])
            modelled(as_case(c['label'], c['fns'], c['stmts']))
        for case in directed_histories():
            ctx.count('directed:deftype-history')
            modelled(case)
            steps = dict(case, mode='steps', label='deftype-directed-steps',
                         hist=[st for st in case['hist'] if 'fail' not in repr(st)])
            steps['direct'] = [k % 2 for k in range(len(steps['hist']))]
            check_case(ctx, session, steps, False)
        for _ in range(n_model):
            g = Gen(rng, rich=False)
            fns, stmts = g.program()
            ctx.count('modelled-programs')
            ctx.count('calls-in-program:%d' % min(classify(stmts + [['x', f['body']] for f in fns]), 12))
            modelled(as_case('gen', fns, stmts))
        # --- D. histories with DEFtype statements and redefinitions ---------------------------------------
        for k in range(n_hist):
            steps = k % 3 == 2
            g = HistGen(rng, nofail=steps)
            hist = g.history(allow_clear=steps)
            case = {'label': 'deftype-history', 'hist': hist, 'pool': g.pool}
            ctx.count('deftype-histories')
            ctx.count('deftype-statements:%d' % min(sum(1 for st in hist if st[0] == 'T'), 6))
            if steps:
                # statement by statement from direct mode, no error trap (oracle only)
                case.update(mode='steps', direct=g.direct, label='deftype-history-steps')
                ctx.count('deftype-histories:steps')
                check_case(ctx, session, case, False)
            else:
                modelled(case)
        # --- E. storage histories: descriptors, FIELD variables, in-place edits of the argument (oracle only) -
        for k in range(n_store):
            g = StoreGen(rng)
            case = {'label': 'storage-history', 'hist': g.history(), 'pool': StoreGen.POOL}
            ctx.count('storage-histories')
            ctx.count('storage-histories:field' if case['hist'][0][0] == 'FS' else 'storage-histories:plain')
            check_case(ctx, session, case, False)
    finally:
        session.close()
    ctx.log('%d modelled programs run' % len(cases))
    for i in range(0, len(cases), 200):
        ctx.compare(cases[i:i + 200], impls[i:i + 200], plines[i:i + 200], label='program')
    # --- B. richer programs in small string spaces: reference oracle only -------------------------------
    n_rich = 110 if quick else 800
    session = None
    total = None
    try:
        for k in range(n_rich):
            g = Gen(rng, rich=True)
            fns, stmts = g.program()
            # strings in string space, garbage, and repeated calls so that collections fall inside bodies
            slack = rng.choice([100, 130, 160, 200, 260, 300, 350, 420, 500, 650, 1000])
            case = as_case('small-memory', fns, stmts + stmts[-3:])
            lines = build_lines(case['hist'], case['pool'])
            for attempt in range(2):
                if session is None:
                    session = Box()
                    total = 65534
                free = small_memory_clear(session, lines, slack)
                if free is not None and free > slack + 8:
                    total = total - (free - slack)
                    break
                session.close()
                session = None
            else:
                continue
            case['clear'] = total
            ctx.count('small-memory-programs')
            ctx.count('slack:%d' % slack)
            check_case(ctx, session, case, False)
            # the interpreter keeps the reduced size: later programs in this session can only go lower
            if k % 6 == 5:
                session.close()
                session = None
    finally:
        if session is not None:
            session.close()
    for n in d17_cases():
        run_d17(ctx, n)
    deftype_cases(ctx)


def replay(ctx, payload):
    case = payload.get('case', {})
    sub = _Sub(ctx)
    if 'd17' in case:
        run_d17(sub, case['d17'])
    elif 'deftype' in case:
        deftype_cases(sub)
    elif 'hist' in case:
        s = Box()
        try:
            check_case(sub, s, case, False)
        finally:
            s.close()
    else:
        return None
    hits = [f for f in sub.failures if f['key'] == payload.get('key')] or sub.failures
    return hits[0]['what'] if hits else None


class _Sub(object):
    """collects failures of a replay without touching the outer evidence"""

    def __init__(self, ctx):
        self.rng = ctx.rng
        self.quick = ctx.quick
        self.tier = ctx.tier
        self.failures = []
        self.samples = None

    def fail(self, key, case, what):
        self.failures.append({'key': key, 'case': case, 'what': what})

    def case(self, key):
        pass

    def count(self, key, n=1):
        pass

    def sample(self, obj, limit=0):
        pass

    def log(self, msg):
        pass
