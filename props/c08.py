"""C08 — PRINT USING produces fields of the declared width with correctly rounded digits."""
import os
import re
import shutil
import struct
import tempfile
from fractions import Fraction

from vlib import basic, mbf

LEVEL = 'proof'
RULE = ('numeric fields: well-formed specs drawn from the grammar [+] [$$|**|**$] #{#|,}* [.#*] [^^^^] [+|-] with 1..24 '
        'digit positions (boundary-dense: 1,2,3,7,8,16,17,23,24; a few with 25..27 for the Illegal function call '
        'limit), each with Integer / Single / Double arguments given as exact byte patterns (CVI/CVS/CVD of MKI$ '
        'pieces): field-aware boundaries (10^j and 10^j - half a unit of the last decimal, half-way points, 0..2 ulps '
        'either side), a fixed list (0, -0, 0.5, 9.995, 9.999, 0.006, 0.001, 2^24, largest, smallest), random '
        'patterns of moderate and of arbitrary exponent; each (spec, type, pattern) is one case, non-trivial = '
        'non-zero value; string fields !, &, \\ n blanks \\ (n = 0..30) with strings of length 0..255 over all byte '
        'values; multi-field formats (1..5 fields, literals, _ escapes, both field kinds) with 0..12 arguments '
        '(cycling, trailing separator, type mismatches) printed to a text file; junk format strings over the field '
        'alphabet (correspondence and no-host-exception only); histories on bare variables and array elements of the '
        'three numeric types (values as above, 40 % forced negative): assign, PRINT USING the same variable 1..3 times in '
        'one statement, then 1..2 later statements with the same or another field to the screen, PRINT#1,USING or '
        'LPRINT USING, reading the bytes back (MKI$/MKS$/MKD$) after every statement')
EXPLANATION = ('theorems (PcbV.Props.C08): field_width (output length = field length, or % ++ full representation, the '
               'latter iff the representation is longer than the field), sign_dollar_star_placement (+ sign_characters, '
               'sign_mode_of_spec), parser_consumes (every well-formed spec followed by text that cannot extend it parses '
               'to exactly its text with the declared positions), parse_consumes_prefix (any input), string_parse_spec / '
               'string_parse_unclosed / string_field_spec, too_many_positions, fixed_body_characters / fixed_body_no_comma, '
               'scientific_digit_count_partial, single_field_cycles, repeated_operand; three counterexample theorems on models of the '
               'unrepaired to_str_scientific / to_str_fixed; that the digits are the correctly rounded ones is inherited '
               'from C07 (oracle only); correspondence: the bytes PRINT USING writes to the screen / to a file through a '
               'real Session against PcbV.Using.printUsing; oracle: width/% rule with an independent fit test, placement '
               'of fill, sign, $, commas, point, decimals count, exponent, trailing sign parsed from the output, shown '
               'digits within half a unit of the last shown place (+ one unit of the 7th/16th significant digit) of the '
               'exact stored value, string field rules, and composition of multi-field/cycling output from single-field '
               'outputs; for operands that are variables / array elements: the text equals what the same number prints as '
               'an expression, however often it was printed before, and the stored bytes are unchanged after every '
               'PRINT / PRINT# / LPRINT USING (formatting never modifies its operand)')
TRUSTED_BASE = ['model PcbV.Model.Using (+ PcbV.Model.Decimal, PcbV.Model.Mbf) is a hand transcription of formatter.py '
                'StringField/NumberField/_print_using and numbers.py to_str_fixed/to_str_scientific']
ASSUMPTIONS = ['arguments are evaluated before formatting (errors raised while evaluating an argument expression are '
               'outside the model)',
               'screen cases stay below 80 columns and file cases use the default width 255, so no line is broken by '
               'the output device']

DIGITS = {'i': 7, 's': 7, 'd': 16}
MSG = None


def _fail(ctx, key, case, what):
    """ctx.fail, at most 6 reports per failure class (a frequent class must not hide another one)."""
    seen = ctx.notes.setdefault('_c08_classes', {})
    seen[key] = seen.get(key, 0) + 1
    if seen[key] <= 6:
        ctx.fail(key, case, what)
    else:
        ctx.count('more-of:' + key)


# ---------------------------------------------------------------------------------------------
# exact helpers

def ilog2(q):
    k = q.numerator.bit_length() - q.denominator.bit_length()
    if Fraction(2) ** k > q:
        k -= 1
    elif Fraction(2) ** (k + 1) <= q:
        k += 1
    return k


def ilog10(q):
    """floor(log10 q) for q > 0"""
    k = len(str(q.numerator)) - len(str(q.denominator))
    while Fraction(10) ** k > q:
        k -= 1
    while Fraction(10) ** (k + 1) <= q:
        k += 1
    return k


def encode(fs, q):
    """MBF pattern of the exact value q rounded to nearest; clamps to the range."""
    f = mbf.FMT[fs]
    w = f['w']
    if q == 0:
        return bytes(f['size'])
    neg = q < 0
    a = abs(q)
    k = ilog2(a)
    scaled = a / Fraction(2) ** (k - (w - 1))
    man = int(scaled)
    if scaled - man >= Fraction(1, 2):
        man += 1
    if man >= 1 << w:
        man >>= 1
        k += 1
    e = k + 129
    if e < 1:
        return mbf.make(fs, neg, 1 << (w - 1), 1)
    if e > 255:
        return mbf.make(fs, neg, (1 << w) - 1, 255)
    return mbf.make(fs, neg, man, e)


def step(fs, b, d):
    """d patterns further from zero (d<0 closer), same sign."""
    w = mbf.FMT[fs]['w']
    e = b[-1]
    if e == 0:
        return b
    m = int.from_bytes(bytes(b[:-1]), 'little')
    neg = m >= 1 << (w - 1)
    idx = (e << (w - 1)) | (m & ((1 << (w - 1)) - 1))
    idx = max(1 << (w - 1), min((256 << (w - 1)) - 1, idx + d))
    return mbf.make(fs, neg, (idx & ((1 << (w - 1)) - 1)) | (1 << (w - 1)), idx >> (w - 1))


def value(t, b):
    if t == 'i':
        return Fraction(struct.unpack('<h', bytes(b))[0])
    return mbf.val(t, b)


def signbit(t, b):
    return bytearray(b)[-2 if t != 'i' else -1] >= 0x80


# ---------------------------------------------------------------------------------------------
# numeric field specs (the grammar of the statement)

PREFIX_POS = {'': 0, '$$': 1, '**': 2, '**$': 2}


class Spec(object):
    def __init__(self, plus, prefix, intpart, dot, places, caret, trail):
        assert not (plus and trail) and (intpart == '' or intpart[0] == '#') and (places == 0 or dot)
        self.plus, self.prefix, self.intpart, self.dot = plus, prefix, intpart, dot
        self.places, self.caret, self.trail = places, caret, trail
        self.text = (('+' if plus else '') + prefix + intpart + ('.' + '#' * places if dot else '') +
                     ('^^^^' if caret else '') + trail).encode()
        self.width = len(self.text)
        self.positions = PREFIX_POS[prefix] + len(intpart) + places
        assert self.positions > 0
        self.comma = ',' in intpart
        self.dollar = '$' in prefix
        self.star = '*' in prefix
        self.mode = 'lead' if plus else {'+': 'trail+', '-': 'trail-', '': 'none'}[trail]

    def parts(self):
        return [self.plus, self.prefix, self.intpart, self.dot, self.places, self.caret, self.trail]


def gen_spec(rng):
    k = rng.random()
    if k < 0.05:
        n = rng.choice([25, 26, 27])
    elif k < 0.45:
        n = rng.choice([1, 1, 2, 2, 3, 3, 4, 7, 8, 16, 17, 23, 24, 24])
    else:
        n = rng.randrange(1, 13)
    prefix = rng.choice(['', '', '', '$$', '**', '**$'])
    n_free = n - PREFIX_POS[prefix]
    if n_free < 0:
        prefix, n_free = '', n
    if n_free == 0:
        n_int, places = 0, 0
    else:
        places = rng.choice([0, 0, 1, 2, 2, 3, n_free, rng.randrange(0, n_free + 1)])
        places = min(places, n_free)
        n_int = n_free - places
    intpart = ['#'] * n_int
    if n_int >= 2 and rng.random() < 0.3:
        for _ in range(rng.choice([1, 1, 2, 3])):
            intpart[rng.randrange(1, n_int)] = ','
    intpart = ''.join(intpart)
    dot = places > 0 or rng.random() < 0.2
    if prefix == '' and intpart == '' and places == 0:
        intpart = '#'
    caret = rng.random() < 0.3
    sm = rng.random()
    plus, trail = False, ''
    if sm < 0.2:
        plus = True
    elif sm < 0.35:
        trail = '+'
    elif sm < 0.5:
        trail = '-'
    return Spec(plus, prefix, intpart, dot, places, caret, trail)


FIXED_VALUES = [Fraction(0), Fraction(1, 2), Fraction(9995, 1000), Fraction(9999, 1000), Fraction(6, 1000),
                Fraction(1, 1000), Fraction(5, 100), Fraction(1), Fraction(10), Fraction(99999, 1),
                Fraction(1 << 24), Fraction(9999999), Fraction(10 ** 7), Fraction(95, 100), Fraction(949, 1000),
                Fraction(5, 1000), Fraction(99, 10000), Fraction(4, 10), Fraction(10) ** 20, Fraction(10) ** 38,
                Fraction(1, 10 ** 20), Fraction(3, 10 ** 39), Fraction(1234567), Fraction(123456789, 100)]


def gen_number(rng, spec):
    """(type, bytes) of a numeric argument, boundary-dense for this spec"""
    t = rng.choice('issdd' if rng.random() < 0.8 else 'i')
    if t == 'i':
        n_int = len(spec.intpart.replace(',', '')) + PREFIX_POS[spec.prefix]
        cand = [0, 1, -1, 9, 10, -10, 99, 100, 999, 1000, -1000, 9999, 10000, 32767, -32768, -32767,
                10 ** min(n_int, 4) - 1, 10 ** min(n_int, 4), rng.randrange(-32768, 32768), rng.randrange(-150, 150)]
        n = max(-32768, min(32767, rng.choice(cand)))
        return t, struct.pack('<h', n)
    k = rng.random()
    neg = rng.random() < 0.35
    if k < 0.45:
        n_int = len(spec.intpart.replace(',', '')) + PREFIX_POS[spec.prefix]
        unit = Fraction(1, 10 ** spec.places)
        j = rng.randrange(-spec.places - 3, n_int + 3)
        kind = rng.randrange(6)
        if kind == 0:
            q = Fraction(10) ** j
        elif kind == 1:
            q = Fraction(10) ** j - unit / 2
        elif kind == 2:
            q = Fraction(10) ** j - unit * rng.choice([1, 2, Fraction(1, 10), Fraction(49, 100), Fraction(51, 100)])
        elif kind == 3:
            q = (rng.randrange(0, 10 ** rng.randrange(1, 8)) + Fraction(1, 2)) * unit
        elif kind == 4:
            q = rng.randrange(1, 10) * Fraction(10) ** j * rng.choice([1, Fraction(1, 2), Fraction(1, 20)])
        else:
            q = rng.randrange(1, 10 ** rng.randrange(1, 17)) * unit / rng.choice([1, 10, 1000])
        if spec.caret and rng.random() < 0.5:
            # scientific: rounding carries at any magnitude
            nd = max(1, min(DIGITS[t], spec.positions)) - rng.randrange(0, 2)
            q = (Fraction(10) ** max(nd, 1) - rng.choice([Fraction(1, 2), Fraction(1, 10), Fraction(6, 10), 1])) \
                * Fraction(10) ** rng.randrange(-30, 30)
        if q <= 0:
            q = unit / 2
        b = encode(t, -q if neg else q)
        b = step(t, b, rng.choice([0, 0, 0, 1, -1, 2, -2]))
    elif k < 0.6:
        q = rng.choice(FIXED_VALUES)
        b = encode(t, -q if neg else q)
        if q == 0 and neg:
            b = bytes(b[:-2]) + b'\x80\x00'       # negative zero pattern
    elif k < 0.85:
        b = bytearray(mbf.gen_float(rng, t))
        b[-1] = max(1, min(255, 129 + rng.randrange(-25, 60)))
        b = bytes(b)
    else:
        b = bytes(mbf.gen_float(rng, t))
    return t, bytes(b)


# ---------------------------------------------------------------------------------------------
# the real code

def _messages():
    global MSG
    if MSG is None:
        MSG = basic.error_table()
    return MSG


def hexword(x):
    return '&H%04X' % x


def arg_expr(i, t, b):
    if t == 'i':
        return 'CVI(MKI$(%s))' % hexword(struct.unpack('<H', b)[0])
    words = struct.unpack('<%dH' % (len(b) // 2), b)
    return '%s(%s)' % ('CVS' if t == 's' else 'CVD', '+'.join('MKI$(%s)' % hexword(w) for w in words))


class Impl(object):
    """PRINT USING through a real Session: to the screen, or to a text file on a scratch drive."""

    def __init__(self):
        self.dir = tempfile.mkdtemp(prefix='pcbv_c08_')
        self.s = basic.new_session(devices={'C': self.dir}, current_device='C')
        # arrays whose elements serve as PRINT USING operands (run_variables)
        basic.safe_exec(self.s, b'DIM QS!(5),QD#(3,3),QI%(4)')

    def assign(self, ref, t, b):
        """store the exact byte pattern in a variable / array element"""
        return basic.safe_exec(self.s, ('%s=%s' % (ref, arg_expr(0, t, b))).encode())

    def readback(self, ref, t):
        """the bytes the variable / array element holds now"""
        fn = {'i': 'MKI$', 's': 'MKS$', 'd': 'MKD$'}[t]
        out = basic.safe_exec(self.s, ('R$=%s(%s)' % (fn, ref)).encode())
        if out:
            return out
        return bytes(self.s.get_variable('R$'))

    def close(self):
        try:
            self.s.close()
        except Exception:
            pass
        shutil.rmtree(self.dir, ignore_errors=True)

    def run(self, fmt, args, trailing, via_file, seps=None, refs=None, lprint=False):
        """canonical reply: 'ok <hex of text> <newline 0|1>' / 'err <n> <hex of text written before>';
        refs: operand texts to use instead of the CVI/CVS/CVD expressions (bare variables, array elements);
        lprint: LPRINT USING (the printer is not captured: reply 'ok - 1' unless an error is reported)"""
        s = self.s
        s.set_variable('F$', bytes(fmt))
        exprs = []
        for i, (t, b) in enumerate(args):
            if refs is not None and refs[i] is not None:
                exprs.append(refs[i])
            elif t == 't':
                s.set_variable('S%d$' % i, bytes(b))
                exprs.append('S%d$' % i)
            else:
                exprs.append(arg_expr(i, t, b))
        body = 'USING F$;'
        for i, e in enumerate(exprs):
            body += e
            if i + 1 < len(exprs) or trailing:
                body += (seps[i] if seps else ';')
        if lprint:
            out = basic.safe_exec(s, ('LPRINT ' + body).encode())
            if b'<<EXC' in out:
                return 'exc ' + out.decode('latin-1')
            err = self._err(out)
            if err is not None:
                return 'err %d -' % err
            return 'ok - 1' if not out else 'odd ' + mbf.hx(out)
        if via_file:
            out = basic.safe_exec(s, ('OPEN "O",1,"T.TXT":PRINT#1,' + body).encode())
            out2 = basic.safe_exec(s, b'CLOSE')
            if b'<<EXC' in out or b'<<EXC' in out2:
                return 'exc ' + (out + out2).decode('latin-1')
            try:
                with open(os.path.join(self.dir, 'T.TXT'), 'rb') as f:
                    text = f.read()
            except EnvironmentError:
                return 'exc no-file ' + out.decode('latin-1')
            if text.endswith(b'\x1a'):
                text = text[:-1]
            err = self._err(out)
            if err is None and out:
                return 'odd ' + mbf.hx(out)
            if err is not None:
                return 'err %d %s' % (err, mbf.hx(text))
        else:
            out = basic.safe_exec(s, ('LOCATE 1,1:PRINT ' + body).encode())
            if b'<<EXC' in out:
                return 'exc ' + out.decode('latin-1')
            err = self._err(out)
            if err is not None:
                head = out[:-3]
                text = head.rsplit(b'\r\n', 1)[0] if b'\r\n' in head else b''
                return 'err %d %s' % (err, mbf.hx(text))
            text = out
        if text.endswith(b'\r\n'):
            return 'ok %s 1' % mbf.hx(text[:-2])
        return 'ok %s 0' % mbf.hx(text)

    @staticmethod
    def _err(out):
        if not out.endswith(b'\xff\r\n'):
            return None
        msg = out[:-3].rsplit(b'\r\n', 1)[-1]
        return _messages().get(msg, 0)


def model_line(fmt, args, trailing):
    a = ','.join('%s:%s' % (t, mbf.hx(b)) for t, b in args) or '-'
    return 'pu %s %d %s' % (mbf.hx(fmt), int(trailing), a)


# ---------------------------------------------------------------------------------------------
# the oracle for one numeric field (written from the statement; knows the spec's structure from the generator)

REP = re.compile(rb'([+-]?)(\$?)([0-9,]*)(\.?)([0-9]*)(?:([ED])([+-])([0-9]{2}))?([+\- ]?)')


def check_numeric(spec, t, b, text):
    """list of (key, what) violations of the statement in the output `text` of one numeric field"""
    v = value(t, b)
    a = abs(v)
    neg = signbit(t, b)
    W = spec.width
    bad = []
    overflow = False
    body = text
    if len(text) != W:
        if not (text.startswith(b'%') and len(text) - 1 > W):
            return [('width', 'output %r has %d characters, the field %r declares %d and it is not a %% overflow'
                     % (text, len(text), spec.text, W))]
        overflow, body = True, text[1:]
    fill = b'*' if spec.star else b' '
    rep = body.lstrip(fill)
    if overflow and rep != body:
        bad.append(('overflow-fill', 'fill characters inside the %% representation %r' % (text,)))
    if not spec.star and b'*' in body:
        bad.append(('fill', 'asterisk fill in a field without **: %r' % (text,)))
    m = REP.fullmatch(rep)
    if not m:
        return bad + [('shape', 'output %r of field %r is not [fill][sign][$]digits[.digits][exponent][sign]'
                       % (text, spec.text))]
    lead, dollar, ip, dot, fp, eletter, esign, edigits, trail = m.groups()
    # sign placement
    if a != 0:
        want_lead = {'lead': b'-' if neg else b'+', 'none': b'-' if neg else b''}.get(spec.mode, b'')
        want_trail = {'trail+': b'-' if neg else b'+', 'trail-': b'-' if neg else b' '}.get(spec.mode, b'')
        if lead != want_lead or trail != want_trail:
            bad.append(('sign', 'sign placement in %r for field %r, value %s' % (text, spec.text, 'negative' if neg else 'positive')))
    else:
        if (spec.mode in ('trail+', 'trail-')) != (trail != b'') or (spec.mode == 'lead') > (lead != b''):
            bad.append(('sign', 'sign position in %r for field %r' % (text, spec.text)))
    if (dollar == b'$') != spec.dollar:
        bad.append(('dollar', 'currency sign in %r for field %r' % (text, spec.text)))
    # point and decimals
    if (dot == b'.') != spec.dot or len(fp) != spec.places:
        bad.append(('decimals', '%r shows %d decimals%s, field %r declares %d%s'
                    % (text, len(fp), ' with a point' if dot else '', spec.text, spec.places,
                       ' with a point' if spec.dot else '')))
    # exponent
    if (eletter is not None) != spec.caret:
        bad.append(('exponent', 'exponent part in %r for field %r' % (text, spec.text)))
    elif eletter is not None and eletter != (b'D' if t == 'd' else b'E'):
        bad.append(('exponent', 'exponent letter in %r for type %s' % (text, t)))
    # commas
    if spec.comma and not spec.caret:
        if ip and not re.fullmatch(rb'[0-9]{1,3}(,[0-9]{3})*', ip):
            bad.append(('commas', 'thousands are not grouped in %r (field %r)' % (text, spec.text)))
    elif b',' in ip:
        bad.append(('commas', 'commas in %r although field %r has none%s' % (text, spec.text, ' (scientific)' if spec.comma else '')))
    idigits = ip.replace(b',', b'')
    # the % rule: the representation must really not fit (a leading zero before the point is optional)
    optional_zero = 1 if (idigits == b'0' and dot == b'.' and fp) else 0
    if overflow and len(rep) - optional_zero <= W:
        bad.append(('spurious-overflow', '%r: the number fits the %d characters of %r without its leading zero'
                    % (text, W, spec.text)))
    if idigits[:1] == b'0' and len(idigits) > 1 and not spec.caret:
        bad.append(('leading-zeros', 'more than one leading zero in %r' % (text,)))
    # digits: the value rounded to the shown places
    digits = idigits + fp
    # scientific fields without sign character and without $ give one digit position to the sign: a field like
    # #.^^^^ then has no digit position at all, and the 0 in front of its point is the optional leading zero
    sci_positions = spec.positions - (1 if spec.mode == 'none' and not spec.dollar else 0)
    if spec.caret and sci_positions == 0:
        pass
    elif digits:
        exp = 0
        if eletter is not None:
            exp = int(edigits) * (-1 if esign == b'-' else 1)
        scale = Fraction(10) ** exp
        shown = Fraction(int(digits), 10 ** len(fp)) * scale
        unit = Fraction(1, 10 ** len(fp)) * scale
        tol = Fraction(10) ** (ilog10(a) - DIGITS[t] + 1) if a else Fraction(0)
        if abs(shown - a) > unit / 2 + tol:
            bad.append(('digits', '%r shows %s for the stored value %s (|difference| = %.3g units of the last shown '
                        'place; field %r)' % (text, float(shown), float(a), float(abs(shown - a) / unit), spec.text)))
    elif not spec.caret and a != 0:
        # (a zero in a field without # such as $$. is printed as a bare point)
        bad.append(('digits', 'no digit at all in %r' % (text,)))
    return bad


def check_string(field, s, text):
    if field == b'&':
        want = s
    elif field == b'!':
        want = s[:1] if s else b' '
    else:
        n = len(field)
        want = s[:n].ljust(n)
    if text != want:
        return [('string-field', 'field %r with a string of length %d gives %r, expected %r' % (field, len(s), text, want))]
    return []


# ---------------------------------------------------------------------------------------------
# runs

def parse_reply(r):
    p = r.split()
    if p[0] == 'ok':
        return 'ok', mbf.unhx(p[1]), p[2] == '1'
    if p[0] == 'err':
        return 'err', mbf.unhx(p[2]), int(p[1])
    return p[0], b'', r


def oracle_numeric(ctx, impl_out, spec, t, b, case):
    kind, text, extra = parse_reply(impl_out)
    if kind == 'exc':
        _fail(ctx, 'host-exception', case, 'PRINT USING %r raised %s' % (spec.text, impl_out))
        return
    if spec.positions > 24:
        ctx.count('numeric:too-many-positions:' + kind)
        return
    if kind != 'ok' or not extra:
        _fail(ctx, 'numeric:no-output', case, 'PRINT USING %r with one %s value gives %s' % (spec.text, t, impl_out))
        return
    ctx.count('numeric:overflow%' if text.startswith(b'%') else 'numeric:fits')
    for key, what in check_numeric(spec, t, b, text):
        _fail(ctx, 'numeric:' + key + (':sci' if spec.caret else ':fix'), case, what)


def run_numeric(ctx, impl, n):
    rng = ctx.rng
    cases, lines, outs = [], [], []
    for i in range(n):
        if i % 6 == 0 or i == 0:
            spec = gen_spec(rng)
            ctx.count('spec:' + ('sci' if spec.caret else 'fix') + ':' + spec.mode)
            ctx.count('spec:prefix:' + (spec.prefix or 'none'))
            if spec.comma:
                ctx.count('spec:comma')
        t, b = gen_number(rng, spec)
        via_file = rng.random() < 0.15
        out = impl.run(spec.text, [(t, b)], False, via_file)
        case = {'kind': 'numeric', 'spec': spec.parts(), 't': t, 'b': mbf.hx(b), 'file': via_file}
        ctx.case(('n', spec.text, t, b))
        ctx.count('numeric:type:' + t)
        if value(t, b) != 0:
            ctx.count('numeric:non-trivial')
        oracle_numeric(ctx, out, spec, t, b, case)
        cases.append(case)
        lines.append(model_line(spec.text, [(t, b)], False))
        outs.append(out)
        if i % 997 == 0:
            ctx.sample({'field': spec.text.decode(), 'type': t, 'value': float(value(t, b)), 'impl': out})
    ctx.compare(cases, outs, lines, 'numeric')


def gen_string(rng):
    k = rng.random()
    if k < 0.3:
        n = rng.choice([0, 0, 1, 2, 3, 254, 255])
    elif k < 0.8:
        n = rng.randrange(0, 40)
    else:
        n = rng.randrange(0, 256)
    if rng.random() < 0.5:
        return bytes(rng.randrange(256) for _ in range(n))
    return bytes(rng.choice(b'abcXYZ 019!&\\#.,_') for _ in range(n))


def gen_string_field(rng):
    k = rng.random()
    if k < 0.25:
        return b'!'
    if k < 0.5:
        return b'&'
    return b'\\' + b' ' * rng.choice([0, 0, 1, 2, 3, 8, 30, rng.randrange(0, 31)]) + b'\\'


def run_strings(ctx, impl, n):
    rng = ctx.rng
    cases, lines, outs = [], [], []
    for i in range(n):
        field = gen_string_field(rng)
        s = gen_string(rng)
        out = impl.run(field, [('t', s)], False, True)
        case = {'kind': 'string', 'field': mbf.hx(field), 's': mbf.hx(s)}
        ctx.case(('s', field, s))
        ctx.count('string:' + (field[:1].decode() if field[:1] != b'\\' else 'backslash'))
        if s:
            ctx.count('string:non-trivial')
        kind, text, extra = parse_reply(out)
        if kind == 'exc':
            _fail(ctx, 'host-exception', case, 'PRINT USING %r raised %s' % (field, out))
        elif kind != 'ok' or not extra:
            _fail(ctx, 'string:no-output', case, 'PRINT USING %r gives %s' % (field, out))
        else:
            for key, what in check_string(field, s, text):
                _fail(ctx, key, case, what)
        cases.append(case)
        lines.append(model_line(field, [('t', s)], False))
        outs.append(out)
    ctx.compare(cases, outs, lines, 'string')


SAFE_LITERAL = b'abcxyzABC XYZ0189:;()=/<>?@[]{}|~"\''
ESCAPED = b'#.+-$*!&\\_^,% a'


def gen_literal(rng, may_be_empty=True):
    """(text in the format string, what it prints)"""
    n = rng.choice([0, 1, 1, 2, 3]) if may_be_empty else rng.choice([1, 1, 2, 3])
    src, shown = b'', b''
    for _ in range(n):
        if rng.random() < 0.25:
            c = bytes([rng.choice(ESCAPED)])
            src += b'_' + c
            shown += c
        else:
            c = bytes([rng.choice(SAFE_LITERAL)])
            src += c
            shown += c
    return src, shown


def run_multi(ctx, impl, n):
    """several fields, literals, escapes, cycling, trailing separator, type mismatches: the output must be the
    composition of what the same fields print alone (the cycling rule of the statement's third mechanism)"""
    rng = ctx.rng
    cases, lines, outs = [], [], []
    single = {}

    def alone(field, arg):
        key = (field, arg)
        if key not in single:
            r = impl.run(field, [arg], False, True)
            kind, text, extra = parse_reply(r)
            single[key] = text if kind == 'ok' else None
        return single[key]

    for i in range(n):
        nf = rng.choice([1, 1, 2, 2, 3, 5])
        fields, lits = [], [gen_literal(rng)]
        for j in range(nf):
            if rng.random() < 0.6:
                sp = gen_spec(rng)
                while sp.positions > 24:
                    sp = gen_spec(rng)
                fields.append(('n', sp.text))
            else:
                fields.append(('t', gen_string_field(rng)))
            # a numeric field must not be followed directly by text that could extend it
            lits.append(gen_literal(rng, may_be_empty=(fields[-1][0] == 't')))
        fmt = lits[0][0]
        for f, l in zip(fields, lits[1:]):
            fmt += f[1] + l[0]
        na = rng.choice([0, 1, 1, 2, 3, nf, nf + 1, 2 * nf, 2 * nf + 1, rng.randrange(0, 13)])
        na = min(na, 12)
        args = []
        mismatch_at = None
        for a in range(na):
            kindf = fields[a % nf][0]
            wrong = rng.random() < 0.04
            if (kindf == 'n') != wrong:
                sp_dummy = gen_spec(rng)
                args.append(gen_number(rng, sp_dummy))
            else:
                args.append(('t', gen_string(rng)[:40]))
            if wrong and mismatch_at is None:
                mismatch_at = a
        trailing = rng.random() < 0.3
        seps = [rng.choice(';;,') for _ in args]
        if na == 0:
            # PRINT USING f$; without any argument is a parse error (Missing operand): not part of the property
            continue
        out = impl.run(fmt, args, trailing, True, seps)
        case = {'kind': 'multi', 'fmt': mbf.hx(fmt), 'args': [[t, mbf.hx(b)] for t, b in args], 'trailing': trailing,
                'fields': [[k, mbf.hx(f)] for k, f in fields], 'lits': [mbf.hx(l[1]) for l in lits]}
        ctx.case(('m', fmt, tuple(args), trailing))
        ctx.count('multi:fields=%d' % nf)
        ctx.count('multi:cycles=%d' % ((na + nf - 1) // nf))
        if mismatch_at is not None:
            ctx.count('multi:type-mismatch')
        # composition
        want = b''
        want_err = None
        ok = True
        for a, arg in enumerate(args):
            j = a % nf
            if j == 0:
                want += lits[0][1]
            if mismatch_at == a:
                want_err = 13
                break
            text = alone(fields[j][1], arg)
            if text is None:
                ok = False
                break
            want += text + lits[j + 1][1]
        if ok:
            expect = ('err %d %s' % (want_err, mbf.hx(want))) if want_err else \
                     ('ok %s %d' % (mbf.hx(want), 0 if trailing else 1))
            if out != expect:
                kind = parse_reply(out)[0]
                if kind == 'exc':
                    _fail(ctx, 'host-exception', case, 'PRINT USING %r raised %s' % (fmt, out))
                else:
                    _fail(ctx, 'cycle:composition', case,
                          'PRINT USING %r with %d arguments gives %s, the fields alone compose to %s'
                          % (fmt, na, out, expect))
        cases.append(case)
        lines.append(model_line(fmt, args, trailing))
        outs.append(out)
    ctx.compare(cases, outs, lines, 'multi')


VARS = {'s': ['XS!', 'QS!(2)', 'QS!(0)', 'QS!(5)'], 'd': ['XD#', 'QD#(1,2)', 'QD#(3,0)'], 'i': ['XI%', 'QI%(3)', 'QI%(0)']}


def compose_alone(impl, cache, fmt_field, arg, copies, trailing):
    """what `copies` operands equal to `arg` must print with the one-field format: the text the field prints for
    this number given as an EXPRESSION (CVI/CVS/CVD), repeated — where a number comes from and how often it has
    been printed before must not matter"""
    key = (fmt_field, arg)
    if key not in cache:
        r = impl.run(fmt_field, [arg], False, True)
        k, text, extra = parse_reply(r)
        cache[key] = text if k == 'ok' else None
    if cache[key] is None:
        return None
    return 'ok %s %d' % (mbf.hx(cache[key] * copies), 0 if trailing else 1)


def variable_history(impl, h, cache):
    """run one history; returns (outs, model lines, list of (key, what))
    h: dict(t, b, ref, steps=[dict(spec parts, copies, trailing, dest, seps)])"""
    t, b, ref = h['t'], mbf.unhx(h['b']), h['ref']
    bad, outs, lines = [], [], []
    r = impl.assign(ref, t, b)
    if r:
        return outs, lines, [('variable:assign', 'assignment to %s gives %r' % (ref, r))]
    before = impl.readback(ref, t)
    if before != b:
        return outs, lines, [('variable:assign', '%s holds %r after assigning %r' % (ref, before, b))]
    for n, st in enumerate(h['steps']):
        spec = Spec(*st['spec'])
        k = st['copies']
        dest = st['dest']
        out = impl.run(spec.text, [(t, b)] * k, st['trailing'], dest == 'file', st['seps'], refs=[ref] * k,
                       lprint=(dest == 'lprint'))
        if out.startswith('exc') or out.startswith('odd'):
            bad.append(('host-exception', 'PRINT USING %r; %s gives %s' % (spec.text, ref, out)))
        elif dest != 'lprint':
            outs.append(out)
            lines.append(model_line(spec.text, [(t, b)] * k, st['trailing']))
            want = compose_alone(impl, cache, spec.text, (t, b), k, st['trailing'])
            if want is not None and out != want:
                bad.append(('variable:output', 'statement %d of the history, PRINT USING %r with the %s %s (holding %s) '
                            '%d time(s), gives %s; the same number as an expression prints %s'
                            % (n + 1, spec.text, 'array element' if '(' in ref else 'variable', ref,
                               float(value(t, b)), k, out, want)))
            kind, text, extra = parse_reply(out)
            if kind == 'ok' and k == 1:
                for key, what in check_numeric(spec, t, b, text):
                    bad.append(('numeric:' + key + (':sci' if spec.caret else ':fix'), what))
        now = impl.readback(ref, t)
        if now != b:
            bad.append(('variable:operand-modified', 'after statement %d of the history (%s USING %r; %s ...) %s holds the '
                        'bytes %s, it was assigned %s: formatting changed its operand'
                        % (n + 1, {'screen': 'PRINT', 'file': 'PRINT#1,', 'lprint': 'LPRINT'}[dest], spec.text, ref, ref,
                           mbf.hx(now), mbf.hx(b))))
            break
    return outs, lines, bad


def run_variables(ctx, impl, n):
    """operands that are bare variables and array elements of all numeric types: the same variable several times in
    one statement, again in later statements (screen, PRINT#, LPRINT), and read back afterwards"""
    rng = ctx.rng
    cases, lines, outs = [], [], []
    cache = {}
    for i in range(n):
        spec = gen_spec(rng)
        while spec.positions > 24:
            spec = gen_spec(rng)
        t, b = gen_number(rng, spec)
        if t != 'i' and b[-1] != 0 and rng.random() < 0.4:
            b = b[:-2] + bytes([b[-2] | 0x80]) + b[-1:]       # negative numbers are the interesting half
        elif t == 'i' and rng.random() < 0.4:
            b = struct.pack('<h', -abs(struct.unpack('<h', b)[0]) if b != b'\x00\x80' else -32768)
        ref = rng.choice(VARS[t])
        steps = []
        for j in range(rng.choice([2, 2, 3])):
            sp = spec if (j == 0 or rng.random() < 0.4) else gen_spec(rng)
            while sp.positions > 24:
                sp = gen_spec(rng)
            copies = rng.choice([1, 2, 2, 3]) if j == 0 else rng.choice([1, 1, 2])
            dest = rng.choice(['screen', 'screen', 'file', 'file', 'lprint'])
            if dest == 'screen' and copies > 1 and (sp.width * copies > 40 or abs(value(t, b)) >= 10 ** 12):
                dest = 'file'       # keep screen lines well below 80 columns (ASSUMPTIONS)
            steps.append({'spec': sp.parts(), 'copies': copies, 'trailing': rng.random() < 0.25, 'dest': dest,
                          'seps': [rng.choice(';;,') for _ in range(copies)]})
        h = {'kind': 'variable', 't': t, 'b': mbf.hx(b), 'ref': ref, 'steps': steps}
        ctx.case(('v', t, b, ref, repr(steps)))
        ctx.count('variable:type:' + t)
        ctx.count('variable:' + ('array-element' if '(' in ref else 'scalar'))
        if signbit(t, b):
            ctx.count('variable:negative')
        for st in steps:
            ctx.count('variable:dest:' + st['dest'])
            if st['spec'][5]:
                ctx.count('variable:scientific-step')
        o, l, bad = variable_history(impl, h, cache)
        for key, what in bad:
            _fail(ctx, key, h, what)
        cases += [h] * len(o)
        outs += o
        lines += l
        if i % 97 == 0:
            ctx.sample({'variable': ref, 'value': float(value(t, b)), 'steps': [[Spec(*st['spec']).text.decode(),
                        st['copies'], st['dest']] for st in steps], 'impl': o})
    ctx.compare(cases, outs, lines, 'variable')


JUNK = b'++--$$$***###...,,^^^^^!&\\\\  __aZ%0'


def run_junk(ctx, impl, n):
    """format strings that need not be well formed: correspondence of the parsers and of the literal handling"""
    rng = ctx.rng
    cases, lines, outs = [], [], []
    fixed = [b'$', b'*', b'+$', b'+*', b'**', b'$$', b'**$', b'+', b'-', b'.', b'^^^^', b'#^^^', b'#^^^^^', b'_', b'#_',
             b'__', b'\\', b'\\ ', b'\\ \\', b'\\\\', b'\\x\\', b',#', b'#,', b'#,.', b'#.,', b'#..#', b'.#.', b'+#+',
             b'+#-', b'#-+', b'#+-', b'$#', b'*#', b'$$$', b'***', b'**$$', b'$$**', b'+.', b'+.#', b'**.', b'**,',
             b'$$,#', b'abc', b'%', b'##%', b'&', b'!', b'!!', b'&&', b'#' * 24, b'#' * 25, b'.' + b'#' * 24,
             b'#' * 12 + b'.' + b'#' * 13, b'**$' + b'#' * 22 + b'.', b'$']
    for i in range(n + len(fixed)):
        if i < len(fixed):
            fmt = fixed[i]
        else:
            fmt = bytes(rng.choice(JUNK) for _ in range(rng.randrange(1, 12)))
        na = rng.choice([1, 1, 2, 3])
        args = []
        for a in range(na):
            if rng.random() < 0.75:
                args.append(gen_number(rng, Spec(False, '', '##', True, 2, False, '')))
            else:
                args.append(('t', gen_string(rng)[:10]))
        trailing = rng.random() < 0.3
        out = impl.run(fmt, args, trailing, True)
        case = {'kind': 'junk', 'fmt': mbf.hx(fmt), 'args': [[t, mbf.hx(b)] for t, b in args], 'trailing': trailing}
        ctx.case(('j', fmt, tuple(args), trailing))
        ctx.count('junk:' + out.split()[0] + (':' + out.split()[1] if out.startswith('err') else ''))
        if out.startswith('exc') or out.startswith('odd'):
            _fail(ctx, 'host-exception', case, 'PRINT USING %r gives %s' % (fmt, out))
        cases.append(case)
        lines.append(model_line(fmt, args, trailing))
        outs.append(out)
    ctx.compare(cases, outs, lines, 'junk')


def run(ctx):
    impl = Impl()
    try:
        q = ctx.quick
        run_numeric(ctx, impl, 9000 if q else 100000)
        run_strings(ctx, impl, 700 if q else 8000)
        run_multi(ctx, impl, 700 if q else 8000)
        run_junk(ctx, impl, 800 if q else 8000)
        run_variables(ctx, impl, 450 if q else 5000)
    finally:
        impl.close()
    ctx.notes.pop('_c08_classes', None)


def replay(ctx, payload):
    case = payload.get('case', {})
    kind = case.get('kind')
    impl = Impl()
    try:
        if kind == 'numeric':
            spec = Spec(*case['spec'])
            t, b = case['t'], mbf.unhx(case['b'])
            out = impl.run(spec.text, [(t, b)], False, case.get('file', False))
            k, text, extra = parse_reply(out)
            if k != 'ok':
                return None if spec.positions > 24 and k == 'err' else out
            bad = check_numeric(spec, t, b, text)
            return '; '.join(w for _, w in bad) or None
        if kind == 'string':
            field, s = mbf.unhx(case['field']), mbf.unhx(case['s'])
            out = impl.run(field, [('t', s)], False, True)
            k, text, extra = parse_reply(out)
            if k != 'ok':
                return out
            bad = check_string(field, s, text)
            return '; '.join(w for _, w in bad) or None
        if kind == 'variable':
            o, l, bad = variable_history(impl, case, {})
            return '; '.join(w for _, w in bad) or None
        if kind in ('multi', 'junk'):
            fmt = mbf.unhx(case['fmt'])
            args = [(t, mbf.unhx(b)) for t, b in case['args']]
            out = impl.run(fmt, args, case['trailing'], True)
            if out.startswith('exc') or out.startswith('odd'):
                return out
            if kind == 'junk':
                return None
            fields = [(k, mbf.unhx(f)) for k, f in case['fields']]
            lits = [mbf.unhx(l) for l in case['lits']]
            nf = len(fields)
            want, want_err = b'', None
            for a, arg in enumerate(args):
                j = a % nf
                if j == 0:
                    want += lits[0]
                if (fields[j][0] == 't') != (arg[0] == 't'):
                    want_err = 13
                    break
                r = impl.run(fields[j][1], [arg], False, True)
                k, text, extra = parse_reply(r)
                if k != 'ok':
                    return None
                want += text + lits[j + 1]
            expect = ('err %d %s' % (want_err, mbf.hx(want))) if want_err else \
                     ('ok %s %d' % (mbf.hx(want), 0 if case['trailing'] else 1))
            return None if out == expect else 'gives %s, the fields alone compose to %s' % (out, expect)
        # a correspondence case without oracle failure
        return None
    finally:
        impl.close()
