"""C15: protection keys, file magic bytes and the token widths that Program.rebuild_line_dict relies on."""
from gen_tables import generator, HEADER, lean_list


@generator('Protect')
def gen_protect():
    import importlib
    protect = importlib.import_module('pcbasic.basic.converter.protect')
    from pcbasic.basic.base import tokens as tk
    from pcbasic.basic.devices import devicebase
    out = [HEADER, 'namespace PcbV.Gen.Protect\n']
    out.append('def key1 : List Nat := %s' % lean_list(protect.KEY1))
    out.append('def key2 : List Nat := %s' % lean_list(protect.KEY2))
    out.append('def magicB : Nat := %d' % ord(devicebase.TYPE_TO_MAGIC[b'B']))
    out.append('def magicP : Nat := %d' % ord(devicebase.TYPE_TO_MAGIC[b'P']))
    out.append('def magicM : Nat := %d' % ord(devicebase.TYPE_TO_MAGIC[b'M']))
    out.append('def remToken : Nat := %d' % ord(tk.REM))
    # tokens.PLUS_BYTES without the NUL entry (a NUL always ends skip_to(END_LINE))
    plus = sorted((ord(k), v) for k, v in tk.PLUS_BYTES.items() if k != b'\0')
    out.append('def plusBytesTable : List (Nat × Nat) := [%s]' % ', '.join('(%d, %d)' % kv for kv in plus))
    out.append('def endLineIsNul : Bool := %s' % ('true' if tuple(tk.END_LINE) == (b'\0', b'') else 'false'))
    out.append('\nend PcbV.Gen.Protect\n')
    return '\n'.join(out)
