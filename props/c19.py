"""C19 — Structured control flow follows its reference semantics."""
import fractions
import random

from vlib import basic

LEVEL = 'proof'
RULE = ('one case = one generated program run through the real Session (NEW, enter lines, RUN): '
        '(a) structured programs (nested FOR with +/-/zero steps and bounds near the 16-bit limits, WHILE, '
        'single-line IF/ELSE incl. nested, IF..THEN line, GOSUB nests with early RETURN, ON..GOTO/GOSUB, early '
        'loop exits, multi-statement lines, NEXT / NEXT v / NEXT j,i forms), every loop body and subroutine '
        'guarded by a step counter that ENDs the program; (b) mismatch programs (stray NEXT/WEND/RETURN, FOR '
        'without NEXT, WHILE without WEND, undefined line, ON out of range); (c) unstructured random programs '
        '(jumps anywhere, compared with the Lean mechanism only). FOR bounds, LET values and ON selectors are also '
        'fractional constants (+-.4 .5 .6 1.5 2.5 .25 1/3 32767.4 32767.5 ...) on integer counters written I% or, '
        'under DEFINT J-K, without a sigil: they are converted (CINT) before the direction and the empty-loop test. '
        'Line numbers come from the whole range 0..65529 (0, 1 and 65529 included) and are targets of every '
        'jump form of the model (GOTO, GOSUB, IF..THEN n, IF..GOTO n, ELSE n, ON..GOTO/GOSUB), forward and backward '
        '(guarded loops made of jumps). non-trivial = at least one loop, call or jump')
EXPLANATION = ('theorems (PcbV.Props.C19) on PcbV.Model.MiniBasic: FOR trip count, RETURN resumes after the call '
               'at any depth (stack discipline), ON selection, mismatch errors, Mech refines Spec for compiled '
               'FOR/WHILE nests and (PcbV.Model.MiniBasicX) for structured programs with IF..THEN..ELSE in statement '
               'form and GOSUB/RETURN to compiled subroutines, stale loop records left by early exits are dropped '
               'by NEXT/WEND; correspondence: printed trace + final error of the real interpreter vs the Lean '
               'mechanism (whole program in one protocol line); oracle: an independent recursive interpreter of '
               'the program TREE written from the statement (no positions, no stacks)')
TRUSTED_BASE = ['PcbV.Model.MiniBasic is a hand transcription of interpreter.py for_/_find_next/iterate_loop/next_/'
                'while_/_find_wend/wend_/jump/jump_sub/return_/if_/on_jump_ and of codestream.skip_block, '
                'validated by the correspondence on every run',
                'integer counters and integer variables only (single-precision counters are not modelled); '
                'expressions are + - and comparisons with |value| < 2^24 (exact in single precision)',
                'the harness replaces time.sleep(0) inside pcbasic.basic.eventcycle by a no-op (no interface '
                'thread exists in the harness; the three sleep(0) per statement cost 1 ms in this sandbox)']
ASSUMPTIONS = ['PRINT of an integer value writes its decimal representation']

NAMES = ['I%', 'J%', 'K%', 'A%', 'B%', 'C%', 'Z%']
# the same variables in a program that starts with DEFINT J-K (integer counters without a sigil)
NAMES_DEFINT = ['I%', 'J', 'K', 'A%', 'B%', 'C%', 'Z%']
_names = NAMES
GUARD = 6
OPS = {'add': '+', 'sub': '-', 'lt': '<', 'le': '<=', 'eq': '=', 'ne': '<>', 'gt': '>', 'ge': '>='}
KNOWN_ZERO_STEP = 'zero-step:start<stop:body-runs-once'
FUEL = 200000


# ---------------------------------------------------------------------------------------------
# expressions / statements: rendering to BASIC text and to the driver protocol

def lit(n):
    return ('n', n)


def var(v):
    return ('v', v)


def etext(e, top=True):
    if e[0] == 'n':
        return str(e[1]) if (top or e[1] >= 0) else '(%d)' % e[1]
    if e[0] == 'v':
        return _names[e[1]]
    if e[0] == 'f':
        return e[3]
    return '(%s%s%s)' % (etext(e[1], False), OPS[e[0]], etext(e[2], False))


def eproto(e):
    if e[0] == 'n':
        return 'n%d' % e[1]
    if e[0] == 'v':
        return 'v%d' % e[1]
    if e[0] == 'f':
        return 'f%d/%d' % (e[1], e[2])
    return '%s_%s_%s' % (e[0], eproto(e[1]), eproto(e[2]))


def opt(t):
    return '-' if t is None else str(t)


def stext(s):
    k = s[0]
    if k == 'P':
        return 'PRINT %s;' % etext(s[1])
    if k == 'L':
        return '%s=%s' % (_names[s[1]], etext(s[2]))
    if k == 'F':
        t = 'FOR %s=%s TO %s' % (_names[s[1]], etext(s[2]), etext(s[3]))
        return t + (' STEP %s' % etext(s[4]) if s[4] is not None else '')
    if k == 'N':
        return 'NEXT' + (' ' + ','.join(_names[v] for v in s[1]) if s[1] else '')
    if k == 'W':
        return 'WHILE %s' % etext(s[1])
    if k == 'D':
        return 'WEND'
    if k == 'U':
        return 'GOSUB %d' % s[1]
    if k == 'R':
        return 'RETURN'
    if k == 'RT':
        return 'RETURN %d' % s[1]
    if k == 'G':
        return 'GOTO %d' % s[1]
    if k == 'I':
        if s[2] is not None and len(s) > 3 and s[3]:
            return 'IF %s GOTO %d' % (etext(s[1]), s[2])
        return 'IF %s THEN' % etext(s[1]) + (' %d' % s[2] if s[2] is not None else '')
    if k == 'S':
        return 'ELSE' + (' %d' % s[1] if s[1] is not None else '')
    if k == 'O':
        return 'ON %s %s %s' % (etext(s[2]), 'GOSUB' if s[1] == 's' else 'GOTO', ','.join(map(str, s[3])))
    if k == 'E':
        return 'END'
    raise ValueError(s)


def sproto(s):
    k = s[0]
    if k == 'P':
        return 'P,' + eproto(s[1])
    if k == 'L':
        return 'L,%d,%s' % (s[1], eproto(s[2]))
    if k == 'F':
        return 'F,%d,%s,%s,%s' % (s[1], eproto(s[2]), eproto(s[3]), eproto(s[4]) if s[4] is not None else '-')
    if k == 'N':
        return ','.join(['N'] + [str(v) for v in s[1]])
    if k == 'W':
        return 'W,' + eproto(s[1])
    if k in ('D', 'R', 'E'):
        return k
    if k in ('U', 'G'):
        return '%s,%d' % (k, s[1])
    if k == 'I':
        return 'I,%s,%s' % (eproto(s[1]), opt(s[2]))
    if k == 'S':
        return 'S,' + opt(s[1])
    if k == 'O':
        return ','.join(['O', s[1], eproto(s[2])] + [str(t) for t in s[3]])
    raise ValueError(s)


def line_text(num, stmts):
    out = '%d ' % num
    prev = None
    for s in stmts:
        if prev is None:
            pass
        elif s[0] == 'S':
            out += ' '                       # the tokeniser supplies the colon of :ELSE
        elif (prev[0] == 'I' and prev[2] is None) or (prev[0] == 'S' and prev[1] is None):
            out += ' '
        else:
            out += ':'
        out += stext(s)
        prev = s
    return out


def prog_text(lines, defint=False):
    """the BASIC text; with defint the counters J, K carry no sigil and the first line starts with DEFINT J-K
    (not part of the modelled program: the declaration is idempotent and changes no control flow; it cannot
    be a line of its own because the program may use every line number from 0 on)"""
    global _names
    _names = NAMES_DEFINT if defint else NAMES
    try:
        text = [line_text(n, st) for n, st in lines]
    finally:
        _names = NAMES
    if defint and text:
        num, rest = text[0].split(' ', 1)
        text[0] = '%s DEFINT J-K:%s' % (num, rest)
    return text


def frac(n, d, text=None):
    """the constant n/d written as BASIC text (a decimal literal or a division); it stands only where the
    value is converted to an integer at once (FOR bounds of an integer counter, LET to V%, ON)"""
    return ('f', n, d, text if text is not None else '(%d/%d)' % (n, d))


def cint(x):
    """CINT: nearest integer, halves away from zero (exact rational arithmetic)"""
    x = fractions.Fraction(x)
    q = (2 * abs(x.numerator) + x.denominator) // (2 * x.denominator)
    return -q if x < 0 else q


FRACS = [frac(2, 5, '.4'), frac(-2, 5, '-.4'), frac(1, 2, '.5'), frac(-1, 2, '-.5'), frac(3, 5, '.6'),
         frac(-3, 5, '-.6'), frac(3, 2, '1.5'), frac(5, 2, '2.5'), frac(-3, 2, '-1.5'), frac(1, 4, '.25'),
         frac(1, 3), frac(2, 3), frac(-1, 3), frac(7, 2), frac(9, 4, '2.25'), frac(19, 5, '3.8')]
FRAC_ZERO = [frac(2, 5, '.4'), frac(-2, 5, '-.4'), frac(1, 4, '.25'), frac(1, 3), frac(-1, 3), frac(-1, 4, '-.25')]
FRAC_LIMIT = [frac(327674, 10, '32767.4'), frac(327675, 10, '32767.5'), frac(-327684, 10, '-32768.4'),
              frac(-327685, 10, '-32768.5'), frac(80001, 2, '40000.5'), frac(655352, 10, '65535.2'),
              frac(-65535, 2, '-32767.5')]


def prog_proto(lines):
    return '|'.join('%d:%s' % (n, ';'.join(sproto(s) for s in st)) for n, st in lines)


# ---------------------------------------------------------------------------------------------
# the independent reference interpreter (oracle): recursive over the program TREE

class _End(Exception):
    pass


class _Err(Exception):
    def __init__(self, n):
        self.n = n


class _Jump(Exception):
    def __init__(self, label):
        self.label = label


class _Return(Exception):
    pass


class _ReturnTo(Exception):
    def __init__(self, label):
        self.label = label


class _Budget(Exception):
    pass


def in16(n):
    return -32768 <= n <= 32767


class Ref(object):
    """Reference semantics from the property statement.  No program positions, no loop/gosub stacks:
    loops are Python loops, GOSUB is a Python call, early exits are exceptions."""

    def __init__(self, subs, zero_step_quirk=False):
        self.env = [0] * len(NAMES)
        self.out = []
        self.subs = subs
        self.depth = 0
        self.quirk = zero_step_quirk
        self.quirk_used = False
        self.budget = 100000

    def ev(self, e):
        if e[0] == 'n':
            return e[1]
        if e[0] == 'v':
            return self.env[e[1]]
        if e[0] == 'f':
            return fractions.Fraction(e[1], e[2])
        a, b = self.ev(e[1]), self.ev(e[2])
        k = e[0]
        if k == 'add':
            return a + b
        if k == 'sub':
            return a - b
        r = {'lt': a < b, 'le': a <= b, 'eq': a == b, 'ne': a != b, 'gt': a > b, 'ge': a >= b}[k]
        return -1 if r else 0

    def int16(self, e):
        """the value converted to the 16-bit integer type: rounded first, then range-checked"""
        n = cint(self.ev(e))
        if not in16(n):
            raise _Err(6)
        return n

    def run(self, main):
        try:
            self.block(main)
            status = 'end'
        except _End:
            status = 'end'
        except _Err as e:
            status = 'err%d' % e.n
        except _Return:
            status = 'err3'
        except _Jump:
            status = 'err8'            # the target line exists nowhere in the program
        return 'ok %s %s' % (','.join(map(str, self.out)) or '-', status)

    def block(self, nodes):
        i = 0
        while i < len(nodes):
            try:
                self.node(nodes[i])
            except _Jump as j:
                idx = [k for k, n in enumerate(nodes) if n[0] == 'LABEL' and n[1] == j.label]
                if not idx:
                    raise
                i = idx[0]
                continue
            i += 1

    def node(self, n):
        self.budget -= 1
        if self.budget < 0:
            raise _Budget()
        k = n[0]
        if k == 'P':
            self.out.append(self.ev(n[1]))
        elif k == 'L':
            self.env[n[1]] = self.int16(n[2])
        elif k == 'LABEL':
            self.out.append(n[2])
        elif k == 'FOR':
            self.for_(n)
        elif k == 'WHILE':
            while self.ev(n[1]) != 0:
                self.block(n[2])
        elif k == 'IF':
            if self.ev(n[1]) != 0:
                self.block(n[2])
            elif n[3] is not None:
                self.block(n[3])
        elif k == 'IFGOTO':
            if self.ev(n[1]) != 0:
                raise _Jump(n[2])
            elif n[3] is not None:
                raise _Jump(n[3])
        elif k == 'GOTO':
            raise _Jump(n[1])
        elif k == 'GOSUB':
            self.call(n[1])
        elif k == 'ON':
            x = self.int16(n[1])
            if x < 0 or x > 255:
                raise _Err(5)
            if 1 <= x <= len(n[3]):
                t = n[3][x - 1]
                if n[2] == 'S':
                    self.call(t)
                else:
                    raise _Jump(t)
        elif k == 'END':
            raise _End()
        elif k == 'RETURN':
            if self.depth == 0:
                raise _Err(3)
            raise _Return()
        elif k == 'RETURNTO':
            # RETURN n: the subroutine is left and execution continues at line n instead of after the call
            if self.depth == 0:
                raise _Err(3)
            raise _ReturnTo(n[1])
        elif k == 'STRAY':
            raise _Err(n[2])
        else:
            raise ValueError(n)

    def call(self, k):
        if k not in self.subs:
            raise _Err(8)
        self.depth += 1
        try:
            self.block(self.subs[k])
            raise ValueError('subroutine fell off its end')
        except _Return:
            pass
        except _ReturnTo as e:
            raise _Jump(e.label)      # (the `finally` below leaves the subroutine first)
        finally:
            self.depth -= 1

    def for_(self, n):
        _, v, a, b, c, body, _form = n
        start = self.int16(a)
        stop = self.int16(b)
        step = self.int16(c) if c is not None else 1
        self.env[v] = start
        if step == 0:
            # no direction: the counter never passes the end
            while True:
                self.block(body)
                if self.quirk and stop > self.env[v]:
                    self.quirk_used = True
                    return
        d = 1 if step > 0 else -1
        if (start - stop) * d > 0:
            # zero passes.  (The counter is advanced once, as the implementation documents for NEXT.)
            x = start + step
            if not in16(x):
                raise _Err(6)
            self.env[v] = x
            return
        while True:
            self.block(body)
            x = self.env[v] + step
            if not in16(x):
                raise _Err(6)
            self.env[v] = x
            if (x - stop) * d > 0:
                return


# ---------------------------------------------------------------------------------------------
# structured generator: tree -> lines

LIMITS = [32767, 32766, 32760, -32768, -32767, -32760, 0, 1, -1, 2, 3, 5, 10, 100, 255, 256, 30000, -30000]
STEPS = [1, 1, 1, 2, 3, 7, 255, 1000, 30000, 32767, -1, -1, -2, -3, -255, -1000, -30000, -32768]


class Gen(object):
    def __init__(self, rng):
        self.rng = rng
        self.marker = 1000
        self.nlabel = 0
        self.subs = {}
        self.nsubs = 0
        self.levels = {}
        self.limit = rng.choice([12, 20, 30, 45])

    # -- expressions
    def atom(self, vars_):
        r = self.rng
        if vars_ and r.random() < 0.6:
            return var(r.choice(vars_))
        return lit(r.choice([0, 1, 2, 3, 4, 5, -1, -2, 7, 10]))

    def expr(self, vars_, depth=0):
        r = self.rng
        if depth < 2 and r.random() < 0.4:
            return (r.choice(['add', 'sub']), self.expr(vars_, depth + 1), self.atom(vars_))
        return self.atom(vars_)

    def cond(self, vars_):
        r = self.rng
        x = r.random()
        if x < 0.08:
            return self.atom(vars_)
        return (r.choice(['lt', 'le', 'eq', 'ne', 'gt', 'ge']), self.expr(vars_, 1), self.atom(vars_))

    def mark(self):
        self.marker += 1
        return self.marker

    def guard(self):
        z = var(GUARD)
        return [('L', GUARD, ('add', z, lit(1))), ('IF', ('gt', z, lit(self.limit)), [('END',)], None)]

    def bounds(self, vars_):
        r = self.rng
        x = r.random()
        if x < 0.20:
            return self.frac_bounds()
        if x < 0.45:
            a = r.choice([0, 1, 1, 2, 3, -2, 5])
            n = r.choice([0, 1, 2, 3, 4])
            c = r.choice([1, 1, 1, 2, 3, -1, -1, -2])
            b = a + c * n + r.choice([0, 0, 1, -1])
            if r.random() < 0.12:
                b = a - c * r.choice([1, 2])           # empty
            cc = None if (c == 1 and r.random() < 0.7) else lit(c)
            return lit(a), lit(b), cc
        if x < 0.75:
            return lit(r.choice(LIMITS)), lit(r.choice(LIMITS)), lit(r.choice(STEPS))
        if x < 0.80:
            return lit(r.choice([0, 1, 5, -3])), lit(r.choice([0, 1, 5, 7, -3])), lit(0)      # zero step
        if x < 0.84:
            # bounds that do not fit 16 bits: Overflow at FOR
            big = ('add', lit(r.choice([32767, 30000])), lit(r.choice([1, 5000, 32767])))
            return r.choice([(big, lit(1), None), (lit(1), big, None), (lit(1), lit(2), big)])
        return self.expr(vars_), self.expr(vars_), (self.atom(vars_) if r.random() < 0.5 else None)

    def frac_bounds(self):
        """fractional start / stop / step of an integer counter: converted (CINT) before anything else"""
        r = self.rng

        def small():
            return lit(r.choice([0, 1, 2, 3, 5, -1, -3]))
        x = r.random()
        if x < 0.40:
            # a step that rounds to zero, in either direction, with start <, =, > stop
            a = r.choice([lit(1), lit(5), lit(2), frac(3, 2, '1.5'), frac(2, 5, '.4')])
            b = r.choice([lit(5), lit(1), lit(2), frac(5, 2, '2.5'), frac(-2, 5, '-.4')])
            return a, b, r.choice(FRAC_ZERO)
        if x < 0.75:
            a = r.choice(FRACS + [small()])
            b = r.choice(FRACS + [small(), small()])
            c = r.choice(FRACS + [None, lit(1), lit(-1)])
            return a, b, c
        # near the limits of the integer type: rounding decides between a value and Overflow
        k = r.randrange(3)
        f = r.choice(FRAC_LIMIT)
        if k == 0:
            return f, lit(r.choice([32767, -32768, 0])), lit(r.choice([1, -1]))
        if k == 1:
            return lit(r.choice([32766, -32767, 0])), f, lit(r.choice([1, -1, 2]))
        return small(), small(), f

    def simple(self, vars_, counters):
        r = self.rng
        x = r.random()
        if x < 0.04:
            return ('L', r.choice([3, 4, 5]), r.choice(FRACS + FRAC_LIMIT[:2]))
        if x < 0.45:
            return ('P', self.expr(vars_ + counters) if r.random() < 0.7 else lit(self.mark()))
        if x < 0.85 or not counters:
            return ('L', r.choice([3, 4, 5]), self.expr(vars_ + counters))
        # assignment to a live loop counter
        return ('L', r.choice(counters), self.expr(vars_ + counters))

    def new_sub(self, level):
        """a subroutine of the given level; it calls only subroutines of a higher level (no recursion)"""
        self.nsubs += 1
        k = 'S%d' % self.nsubs
        self.levels[k] = level
        self.subs[k] = None
        body = self.guard() + self.block(self.rng.choice([1, 2]), [3, 4, 5], [], in_sub=True, sub_level=level,
                                         labels_out=[])
        if self.rng.random() < 0.3:
            # early RETURN out of a loop inside the subroutine
            v = self.rng.choice([0, 1, 2])
            body.append(('FOR', v, lit(1), lit(3), None,
                         self.guard() + [('P', var(v)), ('IF', ('eq', var(v), lit(2)), [('RETURN',)], None)],
                         self.rng.choice(['named', 'bare'])))
        body.append(('RETURN',))
        self.subs[k] = body
        return k

    def pick_sub(self, level):
        """a subroutine callable from code of the given level (main = 0)"""
        existing = [k for k in sorted(self.subs) if self.subs[k] is not None and self.levels[k] > level]
        if existing and (self.rng.random() < 0.5 or self.nsubs >= 5 or level >= 3):
            return self.rng.choice(existing)
        if self.nsubs >= 5 or level >= 3:
            return None
        return self.new_sub(level + 1)

    def small_bounds(self):
        r = self.rng
        a = r.choice([0, 1, 2, 3, -1])
        c = r.choice([1, 1, 2, -1, -2])
        b = a + c * r.choice([0, 1, 2, 3]) + r.choice([0, 0, 1, -1])
        if r.random() < 0.15:
            b = a - c
        return lit(a), lit(b), (None if c == 1 and r.random() < 0.6 else lit(c))

    def inline(self, vars_, counters, in_sub, sub_level, labels_out, allow_else_free=True, depth=0):
        """nodes allowed inside a single-line IF branch"""
        r = self.rng
        nodes = []
        for _ in range(r.choice([1, 1, 2, 3])):
            x = r.random()
            if x < 0.6:
                nodes.append(self.simple(vars_, counters))
            elif x < 0.72:
                k = self.pick_sub(sub_level)
                nodes.append(('GOSUB', k) if k else self.simple(vars_, counters))
            elif x < 0.80 and len(counters) < 3:
                v = [c for c in (0, 1, 2) if c not in counters][0]
                a, b, c = self.small_bounds()
                nodes.append(('FOR', v, a, b, c, [('P', ('add', var(v), lit(0)))], r.choice(['named', 'bare'])))
            else:
                nodes.append(self.simple(vars_, counters))
        x = r.random()
        if x < 0.12 and labels_out:
            nodes.append(('GOTO', r.choice(labels_out)))
        elif x < 0.18:
            nodes.append(('END',))
        elif x < 0.24 and in_sub:
            nodes.append(('RETURN',))
        elif x < 0.40 and depth < 2:
            nodes.append(self.if_node(vars_, counters, in_sub, sub_level, labels_out, depth + 1,
                                      need_else=not allow_else_free))
        return nodes

    def if_node(self, vars_, counters, in_sub, sub_level, labels_out, depth=0, need_else=False):
        r = self.rng
        c = self.cond(vars_ + counters)
        if labels_out and r.random() < 0.2:
            e = r.choice(labels_out) if (need_else or r.random() < 0.4) else None
            return ('IFGOTO', c, r.choice(labels_out), e)
        has_else = need_else or r.random() < 0.55
        # a nested IF at the end of the THEN branch must have an ELSE when this IF has one
        thn = self.inline(vars_, counters, in_sub, sub_level, labels_out, allow_else_free=not has_else, depth=depth)
        # ... and an IF at the end of the ELSE branch must have one when an enclosing THEN branch is followed by an ELSE
        els = self.inline(vars_, counters, in_sub, sub_level, labels_out, not need_else, depth) if has_else else None
        return ('IF', c, thn, els)

    def new_label(self):
        self.nlabel += 1
        return 'L%d' % self.nlabel

    def block(self, depth, vars_, counters, in_sub=False, sub_level=0, labels_out=None, top=False):
        """a sequence of nodes; labels_out = labels of enclosing blocks that may be jumped to from here
        (labels after the current point, and the guarded head labels of enclosing jump-made loops)"""
        r = self.rng
        labels_out = list(labels_out or [])
        # a loop made of jumps: a label on the first line of the block (for the main program: the first line of
        # the program, which gets the lowest line number, possibly 0), a guard, and backward jumps to it in every
        # jump form (IF..THEN n, IF..GOTO n, ELSE n, GOTO n, ON..GOTO) from this block and the blocks inside it
        back = None
        if r.random() < (0.5 if top else 0.12):
            back = self.new_label()
            labels_out = labels_out + [back]
        n = r.choice([1, 2, 2, 3, 3, 4]) if depth > 0 else r.choice([3, 4, 5, 6])
        # forward labels of this block: (position index, name)
        own = []
        if r.random() < 0.5:
            own = [self.new_label() for _ in range(r.choice([1, 1, 2]))]
        slots = sorted(r.sample(range(1, n + 1), min(len(own), n))) if own else []
        own = own[:len(slots)]
        nodes = []
        for i in range(n):
            ahead = [l for l, s in zip(own, slots) if s > i] + labels_out
            x = r.random()
            if x < 0.30:
                nodes.append(self.simple(vars_, counters))
            elif x < 0.50 and depth > 0 and len(counters) < 3:
                v = r.choice([c for c in (0, 1, 2) if c not in counters])
                a, b, c = self.bounds(vars_ + counters)
                body = self.guard() + self.block(depth - 1, vars_, counters + [v], in_sub, sub_level, ahead)
                if vars_ and r.random() < 0.15:
                    # the end value (or the step) is a plain VARIABLE which the body reassigns: both are evaluated once,
                    # at FOR, and the loop must not see the new value
                    u = r.choice(vars_)
                    lo, n = r.choice([0, 1, 2, -1]), r.choice([2, 3, 4])
                    if r.random() < 0.7:
                        nodes.append(('L', u, lit(lo + n)))
                        a, b, c = lit(lo), var(u), r.choice([None, None, lit(1)])
                        body = body[:2] + [('P', var(v)), ('L', u, lit(r.choice([lo, lo + 1, lo - 1, lo + n + 3])))] + body[2:]
                    else:
                        nodes.append(('L', u, lit(r.choice([1, 2]))))
                        a, b, c = lit(lo), lit(lo + 2 * n), var(u)
                        body = body[:2] + [('P', var(v)), ('L', u, lit(r.choice([3, 1, -1, 0])))] + body[2:]
                form = r.choice(['named', 'named', 'bare'])
                if form == 'named' and len(counters) < 2 and r.random() < 0.35:
                    # the body ends with a loop: candidates for the shared NEXT j,i (often an empty inner loop)
                    v2 = r.choice([c for c in (0, 1, 2) if c not in counters and c != v])
                    a2, b2, c2 = self.small_bounds() if r.random() < 0.6 else self.bounds(vars_ + counters + [v])
                    body.append(('FOR', v2, a2, b2, c2, self.guard() + [('P', var(v2))], 'named'))
                elif r.random() < 0.45:
                    body.append(('P', ('add', ('add', var(v), var(v)), lit(0))))
                nodes.append(('FOR', v, a, b, c, body, form))
            elif x < 0.60 and depth > 0:
                w = r.choice([3, 4, 5])
                c = r.choice([('lt', var(w), lit(r.choice([1, 2, 3, 4]))), self.cond(vars_ + counters)])
                body = self.guard() + self.block(depth - 1, vars_, counters, in_sub, sub_level, ahead)
                body.append(('L', w, ('add', var(w), lit(1))))
                nodes.append(('WHILE', c, body))
            elif x < 0.74:
                nodes.append(self.if_node(vars_, counters, in_sub, sub_level, ahead))
            elif x < 0.84:
                k = self.pick_sub(sub_level)
                nodes.append(('GOSUB', k) if k else self.simple(vars_, counters))
            elif x < 0.92:
                e = r.choice([self.atom(vars_ + counters), lit(r.choice([0, 1, 2, 3, 4, 5])),
                              r.choice(FRACS + FRAC_ZERO + [frac(511, 2, '255.5'), frac(1021, 4, '255.25')]),
                              lit(r.choice([-1, 255, 256, 300, -32768, 32767])),
                              ('add', lit(32767), lit(r.choice([1, 2])))])
                if ahead and r.random() < 0.5:
                    nodes.append(('ON', e, 'G', [r.choice(ahead) for _ in range(r.choice([1, 2, 3]))]))
                else:
                    ks = [self.pick_sub(sub_level) for _ in range(r.choice([1, 2, 3]))]
                    ks = [k for k in ks if k]
                    nodes.append(('ON', e, 'S', ks) if ks else self.simple(vars_, counters))
            elif ahead:
                nodes.append(('GOTO', r.choice(ahead)))
            else:
                nodes.append(self.simple(vars_, counters))
            for l, s in zip(own, slots):
                if s == i + 1:
                    nodes.append(('LABEL', l, self.mark()))
        if back is not None:
            x = r.random()
            c = self.cond(vars_ + counters)
            if x < 0.35:
                j = ('IFGOTO', c, back, None)
            elif x < 0.55:
                j = ('IFGOTO', c, r.choice(labels_out), back)
            elif x < 0.70:
                j = ('GOTO', back)
            elif x < 0.85:
                j = ('ON', r.choice([lit(1), lit(2), self.atom(vars_ + counters)]), 'G',
                     [back] + [r.choice(labels_out) for _ in range(r.choice([0, 1]))])
            else:
                j = ('IF', c, [self.simple(vars_, counters), ('GOTO', back)], None)
            nodes.insert(r.randrange(len(nodes) + 1), j)
            nodes = [('LABEL', back, self.mark())] + self.guard() + nodes
        # nested comma form: a FOR that ends with a FOR
        return self.merge_next(nodes)

    def merge_next(self, nodes):
        r = self.rng
        out = []
        for n in nodes:
            if n[0] == 'FOR' and n[6] == 'named' and n[5] and n[5][-1][0] == 'FOR' and n[5][-1][6] == 'named' \
                    and r.random() < 0.7:
                inner = n[5][-1]
                n = n[:5] + (n[5][:-1] + [inner[:6] + ('merge',)], 'named')
            out.append(n)
        return out

    def program(self):
        r = self.rng
        main = self.block(r.choice([1, 2, 2, 3]), [3, 4, 5], [], top=True)
        main.append(('P', lit(self.mark())))
        main.append(('END',))
        return main, self.subs


class Layout(object):
    """tree -> numbered lines of flat statements"""

    def __init__(self, rng, pack=0.5):
        self.rng = rng
        self.lines = []
        self.cur = []
        self.labels = {}
        self.pack = pack

    def flush(self):
        if self.cur:
            self.lines.append(self.cur)
            self.cur = []

    def add(self, s, may_break=True):
        self.cur.append(s)
        if may_break and (self.rng.random() > self.pack or len(self.cur) > 5):
            self.flush()

    def mark_label(self, name):
        self.flush()
        self.labels[name] = len(self.lines)

    def inline(self, nodes):
        out = []
        for n in nodes:
            k = n[0]
            if k in ('P', 'L'):
                out.append(n)
            elif k == 'GOSUB':
                out.append(('U', ('ref', n[1])))
            elif k == 'GOTO':
                out.append(('G', ('ref', n[1])))
            elif k == 'END':
                out.append(('E',))
            elif k == 'RETURN':
                out.append(('R',))
            elif k == 'FOR':
                out.append(('F', n[1], n[2], n[3], n[4]))
                out += self.inline(n[5])
                out.append(('N', [n[1]] if n[6] == 'named' else []))
            elif k == 'IF':
                out.append(('I', n[1], None))
                out += self.inline(n[2])
                if n[3] is not None:
                    out.append(('S', None))
                    out += self.inline(n[3])
            elif k == 'ON':
                out.append(('O', 's' if n[2] == 'S' else 'g', n[1], [('ref', t) for t in n[3]]))
            elif k == 'IFGOTO':
                out.append(('I', n[1], ('ref', n[2]), self.rng.random() < 0.3))
                if n[3] is not None:
                    out.append(('S', ('ref', n[3])))
            else:
                raise ValueError(n)
        return out

    def emit(self, nodes):
        for n in nodes:
            k = n[0]
            if k in ('P', 'L'):
                self.add(n)
            elif k == 'LABEL':
                self.mark_label(n[1])
                self.add(('P', lit(n[2])))
            elif k == 'GOSUB':
                self.add(('U', ('ref', n[1])))
            elif k == 'GOTO':
                self.add(('G', ('ref', n[1])), False)
                self.flush()
            elif k == 'END':
                self.add(('E',), False)
                self.flush()
            elif k == 'RETURN':
                self.add(('R',), False)
                self.flush()
            elif k == 'ON':
                self.add(('O', 's' if n[2] == 'S' else 'g', n[1], [('ref', t) for t in n[3]]))
            elif k in ('IF', 'IFGOTO'):
                if len(self.cur) > 2:
                    self.flush()
                self.cur += self.inline([n])
                self.flush()
            elif k == 'FOR':
                self.add(('F', n[1], n[2], n[3], n[4]))
                self.emit(n[5])
                if n[6] == 'merge':
                    continue
                vs = [n[1]] if n[6] == 'named' else []
                # inner loops whose NEXT was merged into this one come first
                body = n[5]
                chain = []
                while body and body[-1][0] == 'FOR' and body[-1][6] == 'merge':
                    chain.append(body[-1][1])
                    body = body[-1][5]
                self.add(('N', list(reversed(chain)) + vs if chain else vs))
            elif k == 'WHILE':
                self.add(('W', n[1]))
                self.emit(n[2])
                self.add(('D',))
            elif k == 'RETURNTO':
                self.add(('RT', ('ref', n[1])), False)
                self.flush()
            elif k == 'STRAY':
                self.add(n[1], False)
                self.flush()
            else:
                raise ValueError(n)

    def finish(self, undefined=()):
        self.flush()
        nums = [10 * (i + 1) for i in range(len(self.lines))]

        def res(t):
            if isinstance(t, tuple) and t and t[0] == 'ref':
                if t[1] in undefined:
                    return 9
                return nums[self.labels[t[1]]]
            return t

        out = []
        for num, st in zip(nums, self.lines):
            ns = []
            for s in st:
                if s[0] in ('U', 'G', 'RT'):
                    s = (s[0], res(s[1]))
                elif s[0] == 'I':
                    s = ('I', s[1], res(s[2])) + tuple(s[3:])
                elif s[0] == 'S':
                    s = ('S', res(s[1]))
                elif s[0] == 'O':
                    s = ('O', s[1], s[2], [res(t) for t in s[3]])
                ns.append(s)
            out.append((num, ns))
        return out


def layout(rng, main, subs, undefined=(), pack=None):
    lay = Layout(rng, rng.choice([0.0, 0.4, 0.7, 0.9]) if pack is None else pack)
    lay.emit(main)
    for k in sorted(subs, key=lambda s: int(s[1:])):
        if k in undefined:
            continue
        lay.mark_label(k)
        lay.emit(subs[k])
    return lay.finish(undefined)


def gen_structured(pseed):
    rng = random.Random(pseed)
    g = Gen(rng)
    main, subs = g.program()
    return main, subs, layout(rng, main, subs)


def gen_mismatch(pseed):
    """a structured prefix followed by one mismatched statement; the expected error comes from the statement"""
    rng = random.Random(pseed)
    g = Gen(rng)
    kind = rng.choice(['next', 'nextv', 'wend', 'return', 'for', 'while', 'goto', 'gosub', 'nextwrong',
                       'on-neg', 'on-big', 'iftgt', 'ongoto'])
    last = kind in ('for', 'while', 'nextwrong')
    if last:
        g.nsubs = 5       # no subroutines: they would follow the unterminated loop textually
    main = g.block(rng.choice([0, 1, 2]), [3, 4, 5], [])
    undefined = ()
    if kind == 'next':
        bad = ('STRAY', ('N', []), 1)
    elif kind == 'nextv':
        bad = ('STRAY', ('N', [rng.choice([0, 1, 2])]), 1)
    elif kind == 'wend':
        bad = ('STRAY', ('D',), 30)
    elif kind == 'return':
        bad = ('RETURN',)
    elif kind == 'goto':
        bad = ('GOTO', 'UNDEF')
        undefined = ('UNDEF',)
    elif kind == 'gosub':
        bad = ('GOSUB', 'UNDEF')
        undefined = ('UNDEF',)
    elif kind == 'iftgt':
        bad = ('IFGOTO', lit(rng.choice([0, 1])), 'UNDEF', 'UNDEF')
        undefined = ('UNDEF',)
    elif kind == 'ongoto':
        bad = ('ON', lit(2), 'G', ['UNDEF', 'UNDEF'])
        undefined = ('UNDEF',)
    elif kind == 'on-neg':
        k = g.pick_sub(0)
        bad = ('ON', lit(rng.choice([-1, -2, -255, -32768])), 'S', [k])
    elif kind == 'on-big':
        k = g.pick_sub(0)
        bad = ('ON', lit(rng.choice([256, 257, 1000, 32767])), 'S', [k])
    else:
        bad = None
    if bad is not None:
        main.append(('P', lit(g.mark())))
        main.append(bad)
        main.append(('P', lit(g.mark())))
        main.append(('END',))
        lines = layout(rng, main, g.subs, undefined)
        return main, g.subs, lines, kind
    # FOR without NEXT / WHILE without WEND / NEXT naming another variable: must be textually last
    main.append(('P', lit(g.mark())))
    lines = layout(rng, main, {}, ())
    main = [n for n in main]
    num = lines[-1][0] + 10
    v = rng.choice([0, 1, 2])
    if kind == 'for':
        tail = [('F', v, lit(1), lit(3), None), ('P', var(v))]
        err = 26
    elif kind == 'while':
        tail = [('W', lit(1)), ('P', lit(5))]
        err = 29
    else:
        tail = [('F', v, lit(1), lit(3), None), ('P', var(v)), ('N', [(v + 1) % 3])]
        err = 1
    if rng.random() < 0.5:
        lines.append((num, tail))
    else:
        lines += [(num + 10 * i, [s]) for i, s in enumerate(tail)]
    main.append(('STRAY', None, err))
    # the structured prefix must not call subroutines (they would follow the unterminated loop textually)
    return main, {}, lines, kind



# ---------------------------------------------------------------------------------------------
# unstructured generator (compared with the Lean mechanism only)

def gen_random(pseed):
    rng = random.Random(pseed)
    nlines = rng.choice([3, 4, 6, 8, 10])
    limit = rng.choice([8, 15, 25])
    # with `extra` the last line of the program is a guard line, hence a jump target, too
    extra = rng.random() < 0.5
    guards = [10 + 20 * i for i in range(nlines + (1 if extra else 0))]
    lines = []
    cnt = [0, 1, 2]
    vs = [0, 1, 2, 3, 4]

    def atom():
        return var(rng.choice(vs)) if rng.random() < 0.5 else lit(rng.choice([0, 1, 2, 3, -1, 5]))

    def ex():
        return (rng.choice(['add', 'sub']), atom(), atom()) if rng.random() < 0.3 else atom()

    def cond():
        return (rng.choice(['lt', 'le', 'eq', 'ne', 'gt', 'ge']), atom(), atom())

    def target():
        return rng.choice(guards) if rng.random() < 0.93 else rng.choice([5, 15, 999])

    def stmt(first, last):
        x = rng.random()
        if x < 0.22:
            return ('P', ex())
        if x < 0.36:
            return ('L', rng.choice(vs), ex())
        if x < 0.50:
            c = rng.choice([None, None, lit(rng.choice([1, 2, -1, 0, 3])), rng.choice(FRACS + FRAC_ZERO)])
            a = lit(rng.choice([0, 1, 2, 3])) if rng.random() < 0.85 else rng.choice(FRACS)
            b = lit(rng.choice([0, 1, 2, 3, 4])) if rng.random() < 0.85 else rng.choice(FRACS + FRAC_LIMIT)
            return ('F', rng.choice(cnt), a, b, c)
        if x < 0.56:
            return ('W', cond())
        if x < 0.62:
            return ('U', target())
        if x < 0.66:
            return ('R',)
        if x < 0.71:
            return ('G', target())
        if x < 0.79 and not last:
            return ('I', cond(), None)
        if x < 0.84:
            return ('I', cond(), target())
        if x < 0.88 and not first:
            return ('S', None) if (rng.random() < 0.6 and not last) else ('S', target())
        if x < 0.95:
            return ('O', rng.choice(['g', 's']), rng.choice([atom(), lit(rng.choice([0, 1, 2, 3]))]),
                    [target() for _ in range(rng.choice([1, 2, 3]))])
        if x < 0.97:
            return ('E',)
        return ('P', lit(7))

    for i in range(nlines):
        z = var(GUARD)
        lines.append((guards[i], [('L', GUARD, ('add', z, lit(1))), ('I', ('gt', z, lit(limit)), None), ('E',)]))
        n = rng.choice([1, 2, 3, 4])
        st = []
        x = rng.random()
        if x < 0.25:
            k = rng.random()
            st.append(('N', [] if k < 0.4 else [rng.choice(cnt)] if k < 0.8 else [rng.choice(cnt), rng.choice(cnt)]))
        elif x < 0.37:
            st.append(('D',))
        while len(st) < n:
            st.append(stmt(len(st) == 0, len(st) == n - 1))
        lines.append((guards[i] + 10, st))
    if extra:
        lines.append((guards[-1], [('L', GUARD, ('add', var(GUARD), lit(1))), ('I', ('gt', var(GUARD), lit(limit)), None),
                                   ('E',)]))
    return lines


# ---------------------------------------------------------------------------------------------
# the implementation adapter

class _NoSleep0(object):
    """stand-in for the `time` module inside pcbasic.basic.eventcycle: sleep(0) returns at once"""

    def __init__(self, real):
        self._real = real

    def sleep(self, t):
        if t:
            self._real.sleep(t)

    def __getattr__(self, name):
        return getattr(self._real, name)


class Impl(object):
    def __init__(self):
        from pcbasic.basic import eventcycle
        if not isinstance(eventcycle.time, _NoSleep0):
            eventcycle.time = _NoSleep0(eventcycle.time)
        self.session = basic.new_session()
        self.session.__enter__()
        self.errs = basic.error_table()
        self.n = 0

    def close(self):
        self.session.__exit__(None, None, None)

    def run(self, text_lines):
        self.n += 1
        if self.n % 400 == 0:
            # a fresh session now and then (screen state does not matter, but keep runs independent)
            self.close()
            self.session = basic.new_session()
            self.session.__enter__()
        s = self.session
        try:
            s.execute(b'NEW')
            echo = b''
            for l in text_lines:
                echo += s.execute(l.encode('ascii'))
            if echo.strip():
                return 'entry %r' % echo
            out = s.execute(b'RUN')
        except Exception as e:   # a host exception escaping is reported, never a harness crash
            return 'exc %s' % type(e).__name__
        return canon(out, self.errs)


def canon(out, errs):
    vals, status = [], 'end'
    for line in out.replace(b'\xff', b'').split(b'\n'):
        line = line.strip()
        if not line:
            continue
        m = basic.ERR_RX.match(line)
        if m and m.group(1) in errs:
            status = 'err%d' % errs[m.group(1)]
            break
        for t in line.split():
            try:
                vals.append(int(t))
            except ValueError:
                return 'unparsed %r' % out
    return 'ok %s %s' % (','.join(map(str, vals)) or '-', status)


# ---------------------------------------------------------------------------------------------
# fixed programs that must always be present

def fixed_programs():
    """(name, main, subs, lines) — regression cases and the boundary list"""
    progs = []

    def one(name, main, subs=None):
        subs = subs or {}
        progs.append((name, main, subs, layout(random.Random(1), main, subs)))
        progs.append((name + '/oneline', main, subs, layout(random.Random(2), main, subs)))

    # inner loop empty, NEXT J,I  (defect repaired by pending fix C19-empty-for-comma-next)
    inner = ('FOR', 1, lit(5), lit(1), None, [('P', var(1))], 'merge')
    one('empty-inner-comma', [('FOR', 0, lit(1), lit(2), None, [('P', var(0)), inner], 'named'),
                              ('P', var(0)), ('P', var(1)), ('END',)])
    inner2 = ('FOR', 2, lit(3), lit(1), None, [('P', var(2))], 'merge')
    mid = ('FOR', 1, lit(1), lit(2), None, [('P', var(1)), inner2], 'merge')
    one('empty-innermost-3', [('FOR', 0, lit(1), lit(2), None, [('P', var(0)), mid], 'named'),
                              ('P', var(0)), ('P', var(1)), ('P', var(2)), ('END',)])
    # RETURN at depth 4 and from inside loops
    subs = {'S1': [('P', lit(1)), ('GOSUB', 'S2'), ('P', lit(11)), ('RETURN',)],
            'S2': [('P', lit(2)), ('GOSUB', 'S3'), ('P', lit(22)), ('RETURN',)],
            'S3': [('P', lit(3)), ('FOR', 0, lit(1), lit(5), None,
                                    [('WHILE', lit(1), [('P', var(0)), ('IF', ('eq', var(0), lit(2)), [('RETURN',)],
                                                                         None),
                                                         ('L', 0, ('add', var(0), lit(1)))])], 'named'),
                   ('RETURN',)]}
    one('deep-return', [('GOSUB', 'S1'), ('P', lit(100)), ('ON', lit(2), 'S', ['S3', 'S1']), ('P', lit(200)),
                        ('IF', lit(1), [('GOSUB', 'S2'), ('P', lit(300))], [('P', lit(400))]), ('END',)], subs)
    # ON selection 0..4 over three targets
    for n in (0, 1, 2, 3, 4, 255):
        subs = {'S1': [('P', lit(1)), ('RETURN',)], 'S2': [('P', lit(2)), ('RETURN',)],
                'S3': [('P', lit(3)), ('RETURN',)]}
        one('on-gosub-%d' % n, [('ON', lit(n), 'S', ['S1', 'S2', 'S3']), ('P', lit(9)), ('END',)], subs)
        one('on-goto-%d' % n, [('ON', lit(n), 'G', ['L1', 'L2', 'L3']), ('P', lit(9)), ('END',),
                               ('LABEL', 'L1', 1), ('END',), ('LABEL', 'L2', 2), ('END',), ('LABEL', 'L3', 3),
                               ('END',)])
    # loops made of jumps back to the first line of the program, numbered 0, 1 or anything, in every jump form
    def jump_loop(name, jump, goto_form, nums_of):
        main = [('LABEL', 'H', 500), ('L', 3, ('add', var(3), lit(1))), ('P', var(3)), jump, ('P', lit(77)), ('END',),
                ('LABEL', 'X', 600), ('P', lit(78)), ('END',)]
        lines = layout(random.Random(7), main, {}, pack=0.0)
        lines = [(n, [(x[:3] + (goto_form,) if x[0] == 'I' and x[2] is not None else x) for x in st]) for n, st in lines]
        progs.append((name, main, {}, renumber_to(lines, nums_of(len(lines)))))

    more = ('lt', var(3), lit(3))
    forms = [('then', ('IFGOTO', more, 'H', None), False), ('if-goto', ('IFGOTO', more, 'H', None), True),
             ('else', ('IFGOTO', ('ge', var(3), lit(3)), 'X', 'H'), False),
             ('else/if-goto', ('IFGOTO', ('ge', var(3), lit(3)), 'X', 'H'), True),
             ('then-goto', ('IF', more, [('GOTO', 'H')], None), False),
             ('else-goto', ('IF', ('ge', var(3), lit(3)), [('P', lit(5))], [('GOTO', 'H')]), False),
             ('on-goto', ('IF', more, [('ON', lit(2), 'G', ['X', 'H'])], None), False)]
    schemes = [('0', lambda n: [10 * i for i in range(n)]), ('1', lambda n: [1 + 7 * i for i in range(n)]),
               ('0..', lambda n: list(range(n))), ('..65529', lambda n: [65529 - (n - 1 - i) for i in range(n)])]
    for fname, jump, gf in forms:
        for sname, nums_of in schemes:
            jump_loop('jump-loop/%s/from-%s' % (fname, sname), jump, gf, nums_of)
    # RETURN n (not part of the Lean model: compared with the reference interpreter only)
    for sname, nums_of in schemes[:3] + [('10', lambda n: [10 * (i + 1) for i in range(n)])]:
        main = [('LABEL', 'H', 500), ('IF', ('eq', var(3), lit(1)), [('P', lit(9)), ('END',)], None), ('L', 3, lit(1)),
                ('GOSUB', 'S1'), ('P', lit(1)), ('END',)]
        subs = {'S1': [('P', lit(2)), ('GOSUB', 'S2'), ('P', lit(3)), ('RETURN',)],
                'S2': [('P', lit(4)), ('RETURNTO', 'H')]}
        lines = layout(random.Random(7), main, subs, pack=0.0)
        progs.append(('return-n/to-%s/nomodel' % sname, main, subs, renumber_to(lines, nums_of(len(lines)))))
    # the last line of the program (65529) as the target of a forward jump
    for fname, jump, gf in [('then', ('IFGOTO', lit(1), 'X', None), False), ('if-goto', ('IFGOTO', lit(1), 'X', None), True),
                            ('else', ('IFGOTO', lit(0), 'H2', 'X'), False), ('goto', ('GOTO', 'X'), False),
                            ('on-goto', ('ON', lit(1), 'G', ['X']), False)]:
        main = [('P', lit(1)), jump, ('LABEL', 'H2', 2), ('END',), ('LABEL', 'X', 3)]
        lines = layout(random.Random(7), main, {}, pack=0.0)
        lines = [(n, [(x[:3] + (gf,) if x[0] == 'I' and x[2] is not None else x) for x in st]) for n, st in lines]
        progs.append(('jump-to-last-line/%s' % fname, main, {},
                      renumber_to(lines, [65529 - 100 * (len(lines) - 1 - i) for i in range(len(lines))])))
    # a NEXT / WEND executed again after its loop has ended (reached by GOTO): mismatched, whatever stale
    # records early exits have left behind
    def again(name, loop, closer, err):
        main = [loop, ('P', lit(77))]
        lines = layout(random.Random(5), main, {}, pack=0.0)
        target = [n for n, st in lines if st[0][0] == closer][-1]
        last = lines[-1][0]
        lines.append((last + 10, [('L', 3, ('add', var(3), lit(1))), ('I', ('gt', var(3), lit(1)), None), ('E',)]))
        lines.append((last + 20, [('G', target)]))
        main = main + [('L', 3, ('add', var(3), lit(1))), ('IF', ('gt', var(3), lit(1)), [('END',)], None),
                       ('STRAY', None, err)]
        progs.append((name, main, {}, lines))

    for form in ('named', 'bare'):
        exit_inner = ('FOR', 1, lit(1), lit(3), None, [('IFGOTO', ('eq', var(1), lit(2)), 'X', None)], form)
        again('next-again-after-inner-exit/' + form,
              ('FOR', 0, lit(1), lit(2), None, [exit_inner, ('LABEL', 'X', 50), ('P', var(0))], form), 'N', 1)
        again('next-again/' + form, ('FOR', 0, lit(1), lit(2), None, [('P', var(0))], form), 'N', 1)
    exit_while = ('WHILE', ('lt', var(4), lit(5)), [('L', 4, ('add', var(4), lit(1))),
                                                     ('IFGOTO', ('eq', var(4), lit(2)), 'Y', None)])
    again('wend-again-after-inner-exit',
          ('WHILE', ('lt', var(5), lit(2)), [exit_while, ('LABEL', 'Y', 60), ('L', 5, ('add', var(5), lit(1)))]),
          'D', 30)
    again('wend-again', ('WHILE', ('lt', var(5), lit(2)), [('L', 5, ('add', var(5), lit(1)))]), 'D', 30)
    return progs


def boundary_loops():
    out = []
    h = fractions.Fraction(1, 2)
    fr = [(1, 5, '-.4'), (1, 5, '.4'), (5, 1, '-.4'), (5, 1, '.4'), (2, 2, '.25'), (2, 2, '-.25'), (1, 5, '1/3'),
          (5, 1, '-1/3'), ('.5', '2.5', '1.5'), ('.6', '3.4', '.5'), ('2.5', '.5', '-.5'), ('2.5', '.5', '-.6'),
          ('.4', '-.4', 1), ('-.4', '.4', -1), ('.5', '-.5', 1), ('32767.4', 32767, 1), ('32766.5', 32767, 1),
          (32766, '32767.5', 1), ('-32768.4', -32768, -1), ('-32768.5', 0, 1), (1, 3, '40000.5'),
          (1, 4, '1.5'), (1, 4, '2.5'), (4, 1, '-1.5'), (4, 1, '-2.5'), (1, 5, '.5'), (5, 1, '-.5')]

    def fl(t):
        if isinstance(t, int):
            return lit(t)
        q = fractions.Fraction(t)
        return frac(q.numerator, q.denominator, t if '/' not in t else '(%s)' % t)
    for a, b, c in fr:
        for form, suffix in (('named', ''), ('bare', ''), ('named', '/defint')):
            v = 1 if suffix else 0
            main = [('FOR', v, fl(a), fl(b), fl(c),
                     [('L', GUARD, ('add', var(GUARD), lit(1))),
                      ('IF', ('gt', var(GUARD), lit(6)), [('P', lit(-7)), ('END',)], None), ('P', var(v))], form),
                    ('P', lit(77)), ('P', var(v)), ('END',)]
            out.append(('loop %s,%s,%s %s%s' % (a, b, c, form, suffix), main, {},
                        layout(random.Random(len(out)), main, {})))
    for a, b, c in [(1, 3, 1), (3, 1, -1), (1, 1, 1), (1, 0, 1), (0, 1, -1), (32765, 32767, 1), (32766, 32767, 2),
                    (-32766, -32768, -1), (-32767, -32768, -2), (32767, 32767, 1), (-32768, -32768, -1),
                    (1, 10, 3), (10, 1, -3), (1, 10, 32767), (0, -32768, -32768), (32767, 0, 1), (-32768, 0, -1),
                    (5, 1, 1), (1, 5, -1), (2, 2, 0), (3, 2, 0), (1, 2, 0), (-5, -5, -1), (0, 0, 1),
                    (32767, -32768, -32768), (-32768, 32767, 32767), (100, 32767, 30000), (-100, -32768, -30000)]:
        for form in ('named', 'bare'):
            main = [('FOR', 0, lit(a), lit(b), lit(c),
                     [('L', GUARD, ('add', var(GUARD), lit(1))),
                      ('IF', ('gt', var(GUARD), lit(6)), [('P', lit(-7)), ('END',)], None), ('P', var(0))], form),
                    ('P', lit(77)), ('P', var(0)), ('END',)]
            out.append(('loop %d,%d,%d %s' % (a, b, c, form), main, {}, layout(random.Random(a * 7 + c), main, {})))
    return out


# ---------------------------------------------------------------------------------------------

def oracle_check(ctx, name, main, subs, lines, impl_out, case):
    ref = Ref(subs)
    try:
        exp = ref.run(main)
    except _Budget:
        ctx.count('oracle:budget')
        return
    if exp == impl_out:
        return
    ref2 = Ref(subs, zero_step_quirk=True)
    try:
        exp2 = ref2.run(main)
    except _Budget:
        exp2 = None
    if exp2 == impl_out and ref2.quirk_used:
        ctx.count('known:zero-step')
        ctx.fail(KNOWN_ZERO_STEP, case,
                 'FOR with STEP 0 and start < stop leaves the loop after one pass (the counter has not passed the '
                 'end): %s ; got %s, reference %s' % (' / '.join(prog_text(lines, case.get('defint', False))), impl_out, exp))
        return
    ctx.fail('%s' % name, case, 'program %s : implementation %s, reference semantics %s'
             % (' / '.join(prog_text(lines, case.get('defint', False))), impl_out, exp))


def classify(main, subs, ctx):
    kinds = set()

    def walk(nodes, depth):
        for n in nodes:
            kinds.add(n[0])
            if n[0] == 'FOR':
                kinds.add('FOR:' + n[6])
                if depth >= 1:
                    kinds.add('nest>=2')
                if depth >= 2:
                    kinds.add('nest>=3')
                walk(n[5], depth + 1)
            elif n[0] == 'WHILE':
                walk(n[2], depth + 1)
            elif n[0] == 'IF':
                walk(n[2], depth)
                if n[3] is not None:
                    kinds.add('ELSE')
                    walk(n[3], depth)
    walk(main, 0)
    for b in subs.values():
        if b:
            walk(b, 0)
    for k in kinds:
        ctx.count('node:' + k)


def count_numbers(lines, ctx):
    nums = set(n for n, _ in lines)
    for edge in (0, 1, 65529):
        if edge in nums:
            ctx.count('numbering:has-line-%d' % edge)
    for _, st in lines:
        for x in st:
            tg = []
            if x[0] == 'G':
                tg = [('goto', x[1])]
            elif x[0] == 'RT':
                tg = [('return-n', x[1])]
            elif x[0] == 'U':
                tg = [('gosub', x[1])]
            elif x[0] == 'I' and x[2] is not None:
                tg = [('if-goto' if len(x) > 3 and x[3] else 'if-then', x[2])]
            elif x[0] == 'S' and x[1] is not None:
                tg = [('else', x[1])]
            elif x[0] == 'O':
                tg = [('on-' + ('gosub' if x[1] == 's' else 'goto'), t) for t in x[3]]
            for form, t in tg:
                if t in (0, 1, 65529) and t in nums:
                    ctx.count('jump:%s->%d' % (form, t))


def count_fracs(lines, ctx):
    for _, st in lines:
        for x in st:
            if x[0] == 'F':
                fr = [e for e in x[2:5] if e is not None and e[0] == 'f']
                if fr:
                    ctx.count('for:fractional-bound')
                if x[4] is not None and x[4][0] == 'f':
                    ctx.count('for:fractional-step->%s' % ('zero' if cint(fractions.Fraction(x[4][1], x[4][2])) == 0
                                                            else 'nonzero'))
                if any(not in16(cint(fractions.Fraction(e[1], e[2]))) for e in fr):
                    ctx.count('for:fractional-bound-overflows')
            elif x[0] in ('L', 'O') and x[2][0] == 'f':
                ctx.count('fractional:' + ('let' if x[0] == 'L' else 'on'))


def run_batch(ctx, impl, progs):
    """progs: (name, main|None, subs, lines, case)"""
    outs, protos, cases = [], [], []
    for name, main, subs, lines, case in progs:
        out = impl.run(prog_text(lines, case.get('defint', False)))
        if not name.endswith('/nomodel'):
            outs.append(out)
            protos.append('run 1 %d %s' % (FUEL, prog_proto(lines)))
            cases.append(case)
        ctx.case(('prog', name))
        count_fracs(lines, ctx)
        count_numbers(lines, ctx)
        st = out.split()[-1] if out.startswith('ok ') else out.split()[0]
        ctx.count('status:' + st)
        if main is not None:
            classify(main, subs, ctx)
            oracle_check(ctx, name, main, subs, lines, out, case)
        elif not out.startswith('ok '):
            ctx.fail(name, case, 'program %s : %s' % (' / '.join(prog_text(lines, case.get('defint', False))), out))
    ctx.compare(cases, outs, protos, label='trace')
    return outs


def pick_numbers(rng, n):
    """n ascending line numbers from the whole range 0..65529"""
    x = rng.random()
    if x < 0.30:
        return [10 * (i + 1) for i in range(n)]
    if x < 0.45:
        return [10 * i for i in range(n)]
    if x < 0.55:
        return list(range(n))
    if x < 0.62:
        return list(range(1, n + 1))
    if x < 0.70:
        return [65529 - 10 * (n - 1 - i) for i in range(n)]
    nums = set()
    if rng.random() < 0.6:
        nums.add(0)
    if rng.random() < 0.5:
        nums.add(1)
    if rng.random() < 0.6:
        nums.add(65529)
    if rng.random() < 0.3:
        nums.add(65528)
    while len(nums) < n:
        nums.add(rng.choice([rng.randrange(2, 300), rng.randrange(2, 65528)]))
    nums = sorted(nums)
    while len(nums) > n:
        nums.pop(rng.randrange(len(nums)))
    return nums


def renumber(rng, lines):
    """the same program with other line numbers (every jump target follows; a target that exists nowhere
    stays a number that exists nowhere)"""
    return renumber_to(lines, pick_numbers(rng, len(lines)))


def renumber_to(lines, new):
    old = [n for n, _ in lines]
    m = dict(zip(old, new))
    used = set(new)
    undef = {}

    def t(x):
        if x is None or x in m:
            return m.get(x, x) if x is not None else None
        if x not in undef:
            u = next(c for c in (9, 5, 15, 999, 7, 65000, 12345, 3, 4, 6, 8, 11, 13, 65527) if c not in used)
            used.add(u)
            undef[x] = u
        return undef[x]
    out = []
    for n, st in lines:
        ns = []
        for s in st:
            if s[0] in ('U', 'G', 'RT'):
                s = (s[0], t(s[1]))
            elif s[0] == 'I':
                s = ('I', s[1], t(s[2])) + tuple(s[3:])
            elif s[0] == 'S':
                s = ('S', t(s[1]))
            elif s[0] == 'O':
                s = ('O', s[1], s[2], [t(x) for x in s[3]])
            ns.append(s)
        out.append((m[n], ns))
    return out


def make(kind, pseed):
    if kind == 'struct':
        main, subs, lines = gen_structured(pseed)
    elif kind == 'mismatch':
        main, subs, lines, _k = gen_mismatch(pseed)
    elif kind == 'random':
        main, subs, lines = None, {}, gen_random(pseed)
    else:
        raise ValueError(kind)
    return main, subs, renumber(random.Random(pseed ^ 0x5bd1e995), lines)


def run(ctx):
    impl = Impl()
    rng = ctx.rng
    try:
        progs = []
        for name, main, subs, lines in fixed_programs() + boundary_loops():
            progs.append((name, main, subs, lines,
                          {'kind': 'fixed', 'name': name, 'defint': name.endswith('/defint')}))
        run_batch(ctx, impl, progs)
        ctx.sample({'program': prog_text(progs[0][3]), 'impl': impl.run(prog_text(progs[0][3]))})
        n_struct, n_mis, n_rand = (900, 250, 800) if ctx.quick else (9000, 2500, 8000)
        plan = [('struct', n_struct), ('mismatch', n_mis), ('random', n_rand)]
        for kind, n in plan:
            batch = []
            for _ in range(n):
                pseed = rng.randrange(1 << 40)
                main, subs, lines = make(kind, pseed)
                if sum(len(st) for _, st in lines) > 160 or any(len(t) > 240 for t in prog_text(lines)):
                    ctx.count('skipped:too-long')
                    continue
                batch.append(('%s:%d' % (kind, pseed), main, subs, lines,
                              {'kind': kind, 'pseed': pseed, 'defint': pseed % 3 == 0}))
                if pseed % 3 == 0:
                    ctx.count('naming:defint')
                ctx.count('kind:' + kind)
                if len(batch) >= 200:
                    outs = run_batch(ctx, impl, batch)
                    batch = []
            if batch:
                outs = run_batch(ctx, impl, batch)
                ctx.sample({'kind': kind, 'program': prog_text(batch[-1][3]), 'impl': outs[-1]})
            ctx.log('%s done' % kind)
    finally:
        impl.close()


def replay(ctx, payload):
    case = payload.get('case', {})
    impl = Impl()
    sub = Ctx2(ctx)
    try:
        if case.get('kind') == 'fixed':
            progs = [(n, m, s, l, case) for n, m, s, l in fixed_programs() + boundary_loops()
                     if n == case.get('name')]
        else:
            main, subs, lines = make(case['kind'], case['pseed'])
            progs = [('%s:%d' % (case['kind'], case['pseed']), main, subs, lines, case)]
        run_batch(sub, impl, progs)
    finally:
        impl.close()
    hits = [f for f in sub.failures if f['key'] == payload.get('key')]
    return hits[0]['what'] if hits else None


class Ctx2(object):
    """thin proxy so replay can reuse run_batch() without touching the outer evidence"""

    def __init__(self, ctx):
        self.__dict__.update(ctx.__dict__)
        self._ctx = ctx
        self.failures = []
        self.disagreements = []

    def __getattr__(self, name):
        return getattr(self._ctx.__class__, name).__get__(self)
