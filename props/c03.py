"""C03 — Numeric conversions and binary encodings are exact and consistent."""
import struct
from fractions import Fraction

from vlib import basic, mbf

LEVEL = 'proof'
RULE = ('one case = (conversion, input bit pattern / integer / string); inputs: all or boundary-dense 16-bit integers, '
        'singles and doubles built around k+1/2 (+-1 ulp), +-32767.5, +-32768.5, +-2^23, +-2^24, +-2^55, +-2^56, '
        'doubles with carry byte 0x7f/0x80/0x81 and even/odd/all-ones single mantissa, zero exponents with garbage '
        'mantissa, maximum exponents, plus structured-random patterns; non-trivial = exponent byte non-zero; '
        'doubles 1..5 ulp (2^-55 relative) either side of integers and integral doubles >= 2^53 using all 56 bits; '
        'BASIC level: the same conversions nested and in multi-step chains through Session.execute/evaluate, in the '
        'default session and again under double=True, syntax=pcjr, syntax=tandy (and values.* with double_math=True)')
EXPLANATION = ('theorems (PcbV.Props.C03): to_int = round half away from zero (+ CINT Overflow iff |v| beyond the '
               'half-integers), to_int_truncate/FIX = truncation, INT = floor, from_int exact, single->double exact, '
               'double->single one of the two adjacent singles with the half-even-on-carry-byte rule, MKx$/CVx byte '
               'identity, HEX$/OCT$ round trip; correspondence: numbers.Single/Double/Integer methods, values.* '
               'functions and BASIC expressions in a real Session against the compiled Lean model; oracle: exact '
               'fractions.Fraction arithmetic written from the statement')
TRUSTED_BASE = ['models PcbV.Model.Mbf / IntOps / HexOct are hand transcriptions of numbers.py Float/Single/Double/'
                'Integer and values.py mki_..cvd_, validated by the correspondence run',
                'Mathlib modules imported by Lemmas/C03Rat, C03Single (order field Rat, floor)']
ASSUMPTIONS = ["Python's %X / %o / int(s, base) on plain digit strings behave as documented",
               'struct.pack/unpack <h/<H behave as documented']

W = {'s': 24, 'd': 56}
BIAS = {'s': 152, 'd': 184}
SIZE = {'s': 4, 'd': 8}
SIG = {'s': '!', 'd': '#'}
MK = {'s': 'MKS$', 'd': 'MKD$', 'i': 'MKI$'}
CV = {'s': 'CVS', 'd': 'CVD', 'i': 'CVI'}


# --------------------------------------------------------------------------------------------
# exact arithmetic written from the statement (independent of the Lean model)

def val(fs, b):
    return mbf.val(fs, b)


def round_half_away(v):
    n = abs(v)
    r = (n.numerator * 2 + n.denominator) // (2 * n.denominator)
    return -r if v < 0 else r


def trunc(v):
    n = abs(v)
    r = n.numerator // n.denominator
    return -r if v < 0 else r


def floor(v):
    return v.numerator // v.denominator


def ilog2(v):
    """floor(log2 v) for a positive Fraction"""
    k = v.numerator.bit_length() - v.denominator.bit_length()
    if Fraction(2) ** k > v:
        k -= 1
    assert Fraction(2) ** k <= v < Fraction(2) ** (k + 1)
    return k


def single_neighbours(v):
    """(lo, hi, phi): the adjacent single-precision magnitudes around |v| and the fraction of the gap."""
    a = abs(v)
    u = Fraction(2) ** (ilog2(a) - 23)
    m = (a / u).numerator // (a / u).denominator
    return m * u, (m + 1) * u, a / u - m


MAX_SINGLE = (Fraction(2) ** 24 - 1) * Fraction(2) ** (255 - 152)


def enc(fs, v):
    """Pattern of the float nearest below |v| in magnitude (exact when representable)."""
    if v == 0:
        return bytes(SIZE[fs])
    w = W[fs]
    a = abs(v)
    k = ilog2(a)
    e = k + 1 + 128
    if not 1 <= e <= 255:
        raise ValueError('out of range')
    man = a / Fraction(2) ** (k - w + 1)
    man = man.numerator // man.denominator
    return mbf.make(fs, v < 0, man, e)


def nudge(fs, b, d):
    """Pattern d units in the last place further from zero (d may be negative); None if not representable."""
    w = W[fs]
    m = int.from_bytes(b[:-1], 'little')
    e = b[-1]
    if e == 0:
        return None
    neg = m >> (w - 1)
    man = (m | (1 << (w - 1))) + d
    if man >= 1 << w:
        man >>= 1
        e += 1
    elif man < 1 << (w - 1):
        man = (man << 1) | 1
        e -= 1
    if not 1 <= e <= 255:
        return None
    return mbf.make(fs, bool(neg), man, e)


# --------------------------------------------------------------------------------------------
# generators

def boundary_ints():
    vals = set()
    for k in range(17):
        for d in (-2, -1, 0, 1, 2):
            vals.add(((1 << k) + d) & 0xffff)
            vals.add((-(1 << k) + d) & 0xffff)
    for v in (0, 1, 7, 8, 9, 10, 15, 16, 63, 64, 255, 256, 511, 512, 4095, 4096, 0x7fff, 0x8000, 0x8001, 0xffff,
              0xfffe, 0x1234, 0xabcd, 0xff00, 0x00ff, 0o7777, 0o10000, 0o77777, 0o100000):
        vals.add(v)
    return sorted(vals)


def boundary_floats(fs, rng, n_random):
    """Patterns the statement singles out, each with its neighbours one ulp either side."""
    out = []
    w = W[fs]
    targets = []
    for k in list(range(0, 12)) + [100, 127, 128, 255, 256, 1000, 32766, 32767, 32768, 32769, 65534, 65535, 65536]:
        for h in (Fraction(0), Fraction(1, 2), Fraction(1, 4), Fraction(3, 4)):
            targets.append(k + h)
    for p in (15, 16, 22, 23, 24, 25, 54, 55, 56, 57, 62, 63, 64, 100, 126):
        targets += [Fraction(2) ** p, Fraction(2) ** p - 1, Fraction(2) ** p + 1, Fraction(2) ** p - Fraction(1, 2),
                    Fraction(2) ** p + Fraction(1, 2)]
    targets += [Fraction(1, 3), Fraction(1, 1024), Fraction(2) ** -100, Fraction(2) ** -128, Fraction(98304),
                Fraction(98305), Fraction(65537), Fraction(40000), Fraction(131071, 2), Fraction(65537, 2)]
    for _ in range(n_random):
        k = rng.choice([rng.randrange(0, 70000), rng.randrange(32700, 32800), rng.randrange(65500, 65600),
                        rng.randrange(1 << 22, 1 << 25), rng.randrange(1 << 54, 1 << 57)])
        targets.append(k + rng.choice([Fraction(1, 2), Fraction(0), Fraction(rng.randrange(256), 256)]))
    for t in targets:
        for sgn in (1, -1):
            try:
                b = enc(fs, sgn * t)
            except ValueError:
                continue
            for d in (-2, -1, 0, 1, 2):
                nb = nudge(fs, b, d)
                if nb is not None:
                    out.append(nb)
    # extremes of the exponent range and zeros with a garbage mantissa
    for e in (0, 1, 2, 254, 255):
        for man in ((1 << (w - 1)), (1 << w) - 1, (1 << (w - 1)) | 1, (1 << (w - 1)) | 0x80):
            for neg in (False, True):
                out.append(mbf.make(fs, neg, man, e))
    return out


def carry_doubles(rng, n):
    """Doubles whose byte 3 (the carry byte of to_single) and single mantissa parity are the special cases."""
    out = []
    for _ in range(n):
        neg = rng.random() < 0.5
        e = rng.choice([1, 2, 0x80, 0x81, 0x90, 0x98, 0xb8, 254, 255, rng.randrange(1, 256)])
        hi = rng.choice([1 << 23, (1 << 24) - 1, (1 << 24) - 2, (1 << 23) | 1, (1 << 23) | rng.randrange(1 << 23),
                         (1 << 23) | (rng.randrange(1 << 23) & ~1), (1 << 23) | rng.randrange(1 << 23) | 1])
        c = rng.choice([0, 1, 0x7e, 0x7f, 0x80, 0x80, 0x80, 0x81, 0x82, 0xfe, 0xff, rng.randrange(256)])
        low = rng.choice([0, 0, 1, 0xffffff, 0x800000, 0x7fffff, rng.randrange(1 << 24)])
        man = (hi << 32) | (c << 24) | low
        out.append(mbf.make('d', neg, man, e))
    return out


def near_integer_doubles(rng, n_random):
    """Doubles 1..5 units in the last place (2^-55 relative) below/above an integer, and integral doubles
    at and above 2^53 that use all 56 mantissa bits: everything a detour through a 53-bit float would lose."""
    out = []
    ks = [1, 2, 3, 4, 5, 7, 8, 10, 100, 255, 256, 4096, 32767, 32768, 65535, 65536, 1000000, (1 << 24) + 1,
          (1 << 31) - 1, (1 << 40) + 12345, (1 << 52) + 1]
    ks += [rng.randrange(1, 1 << rng.randrange(2, 53)) for _ in range(n_random)]
    for k in ks:
        for sgn in (1, -1):
            b = enc('d', Fraction(sgn * k))
            for d in (-5, -4, -3, -2, -1, 1, 2, 3, 4, 5):
                nb = nudge('d', b, d)
                if nb is not None:
                    out.append(nb)
    # integral values needing more than 53 bits: odd low bits, all ones, just above a power of two
    mans = [(1 << 56) - 1, (1 << 56) - 3, (1 << 55) + 1, (1 << 55) + 5, (1 << 55) + 7, (1 << 56) - 5]
    mans += [(1 << 55) | rng.randrange(1 << 55) | rng.choice([1, 3, 5, 7]) for _ in range(n_random)]
    for man in mans:
        for sh in (0, 1, 2, 5, 20, 60, rng.randrange(0, 71)):
            for neg in (False, True):
                out.append(mbf.make('d', neg, man, BIAS['d'] + sh))
                # and the same bits with one, two, three binary places after the point
                out.append(mbf.make('d', neg, man, BIAS['d'] - rng.choice([1, 2, 3])))
    return out


class Tagged(object):
    """ctx proxy for a run under a non-default configuration: keys, counters and cases carry the tag."""

    def __init__(self, ctx, tag, session):
        self._c, self._tag, self._session = ctx, tag, session

    def fail(self, key, case, what):
        self._c.fail(self._tag + key, dict(case, session=self._session, tag=self._tag),
                     '[%s] %s' % (self._session, what))

    def case(self, key):
        self._c.case((self._tag,) + key if isinstance(key, tuple) else (self._tag, key))

    def count(self, key, n=1):
        self._c.count(self._tag + key, n)

    def __getattr__(self, name):
        return getattr(self._c, name)


def tagged(ctx, tag, session):
    return Tagged(ctx, tag, session) if tag else ctx


# --------------------------------------------------------------------------------------------
# implementation adapter: the real numbers.* / values.* functions

class Impl(mbf.Impl):

    def __init__(self, double_math=False):
        mbf.Impl.__init__(self)
        if double_math:
            # the Values object of a Session(double=True): conversions are specified independently of it
            self.vs = self.values.Values(None, True)
            self.vs.set_handler(self.values.FloatErrorHandler(None))

    def integer(self, w):
        return self.numbers.Integer(None, self.vs).from_bytes(struct.pack('<H', w))

    def _ires(self, fn):
        """Integer-valued result as its signed value."""
        try:
            r = fn()
        except self.error.BASICError as e:
            return 'err %d' % e.err
        except Exception as e:
            return 'exc %s' % type(e).__name__
        if not isinstance(r, self.numbers.Integer):
            return 'type %s' % type(r).__name__
        return 'ok %d' % r.to_int()

    def _fres(self, fn, cls):
        try:
            r = fn()
        except self.error.BASICError as e:
            return 'err %d' % e.err
        except Exception as e:
            return 'exc %s' % type(e).__name__
        if type(r) is not cls:
            return 'type %s' % type(r).__name__
        return 'ok ' + mbf.hx(r.to_bytes())

    def fn(self, name, fs, b):
        """BASIC function entry points of values.py on a float argument."""
        v = self.values
        x = self.num(fs, b)
        if name == 'cint':
            return self._ires(lambda: v.cint_(iter([x])))
        if name == 'cintu':
            return self._ires(lambda: v.to_integer(x, unsigned=True))
        if name == 'fix':
            return self._fres(lambda: v.fix_(iter([x])), self.cls[fs])
        if name == 'int':
            return self._fres(lambda: v.int_(iter([x])), self.cls[fs])
        if name == 'csng':
            return self._fres(lambda: v.csng_(iter([x])), self.cls['s'])
        if name == 'cdbl':
            return self._fres(lambda: v.cdbl_(iter([x])), self.cls['d'])
        raise ValueError(name)

    def hexoct(self, name, w):
        x = self.integer(w)
        try:
            return 'ok ' + (x.to_hex() if name == 'hex' else x.to_oct()).decode('ascii')
        except Exception as e:
            return 'exc %s' % type(e).__name__

    def fromrepr(self, name, digits):
        fn = self.numbers.Integer(None, self.vs)
        return self._ires(lambda: (fn.from_hex if name == 'fromhex' else fn.from_oct)(digits.encode('ascii')))

    def fromintu(self, n):
        return self._ires(lambda: self.numbers.Integer(None, self.vs).from_int(n, unsigned=True))


# --------------------------------------------------------------------------------------------
# oracles (from the statement), one per conversion; `out` is the canonical implementation string

def expect_cint(v):
    n = round_half_away(v)
    return 'ok %d' % n if -32768 <= n <= 32767 else 'err 6'


def check_float_case(ctx, op, fs, b, out):
    """op in toint/trunc/cint/cintu/fix/int/csng/cdbl; returns after registering any oracle failure."""
    v = val(fs, b)
    case = {'op': op, 'fs': fs, 'bytes': mbf.hx(b)}
    key = '%s:%s:%s' % (op, fs, mbf.hx(b))

    def bad(what):
        ctx.fail(key, case, '%s(%s %s = %s): %s' % (op, fs, mbf.hx(b), v, what))

    if op == 'toint':
        if out != 'ok %d' % round_half_away(v):
            bad('to_int gave %s, nearest integer with halves away from zero is %d' % (out, round_half_away(v)))
    elif op == 'trunc':
        if out != 'ok %d' % trunc(v):
            bad('to_int_truncate gave %s, expected %d' % (out, trunc(v)))
    elif op == 'cint':
        if out != expect_cint(v):
            bad('CINT gave %s, expected %s' % (out, expect_cint(v)))
    elif op == 'cintu':
        n = round_half_away(v)
        exp = 'ok %d' % (n - 65536 if n > 32767 else n) if -32768 <= n <= 65535 else 'err 6'
        if out != exp:
            bad('unsigned integer conversion (HEX$/OCT$ argument) gave %s, expected %s' % (out, exp))
    elif op in ('fix', 'int'):
        want = trunc(v) if op == 'fix' else floor(v)
        if not out.startswith('ok '):
            bad('gave %s, expected the value %d' % (out, want))
        else:
            r = mbf.unhx(out[3:])
            if len(r) != SIZE[fs] or val(fs, r) != want:
                bad('result %s has value %s, expected %d' % (out, val(fs, r) if len(r) == SIZE[fs] else '?', want))
    elif op == 'cdbl':
        if not out.startswith('ok ') or val('d', mbf.unhx(out[3:])) != v:
            bad('single -> double is not exact: %s' % out)
    elif op == 'csng':
        if v == 0:
            if not (out.startswith('ok ') and val('s', mbf.unhx(out[3:])) == 0):
                bad('zero double gave %s' % out)
            return
        lo, hi, phi = single_neighbours(v)
        sgn = -1 if v < 0 else 1
        if out.startswith('err'):
            if not (out.split()[:2] == ['err', '6'] and hi > MAX_SINGLE and phi >= Fraction(1, 2)):
                bad('gave %s although a neighbouring single exists' % out)
            return
        if not out.startswith('ok '):
            bad('gave %s' % out)
            return
        r = val('s', mbf.unhx(out[3:])) * sgn
        if r not in (lo, hi):
            bad('result %s (%s) is not one of the two neighbouring singles %s, %s' % (out, r, lo, hi))
        elif phi < Fraction(1, 2) and r != lo:
            bad('nearer single is the lower one (fraction %s), got the upper' % phi)
        elif phi >= Fraction(1, 2) + Fraction(1, 256) and r != hi:
            bad('nearer single is the upper one (fraction %s), got the lower' % phi)
        elif phi == Fraction(1, 2):
            even = lo if (lo / (hi - lo)) % 2 == 0 else hi
            if r != even:
                bad('exact tie must go to the even mantissa')
    else:
        raise ValueError(op)


# --------------------------------------------------------------------------------------------
# value level: numbers.* / values.* against the model and the oracle

def value_level(ctx, impl, singles, doubles, ints, big_ints, impl_dm=None):
    """`impl_dm`: the same values.* entry points on a Values object with double_math=True (Session(double=True))."""
    ctx_dm = tagged(ctx, 'dm:', 'values.Values(double_math=True)')
    cases, outs, lines = [], [], []
    total = [0]

    def flush():
        ctx.compare(cases, outs, lines, label='values')
        total[0] += len(cases)
        del cases[:], outs[:], lines[:]

    def add(case, out, line):
        cases.append(case)
        outs.append(out)
        lines.append(line)
        ctx.case(case)
        ctx.count('op:' + case[0])

    for fs, pats in (('s', singles), ('d', doubles)):
        for b in pats:
            if len(cases) >= 100000:
                flush()
            hb = mbf.hx(b)
            nz = b[-1] != 0
            for op in ('toint', 'trunc'):
                out = impl.call(op, fs, b)
                add((op, fs, hb), out, '%s %s %s' % (op, fs, hb))
                check_float_case(ctx, op, fs, b, out)
            for op, mop in (('cint', 'cint'), ('cintu', 'cintu')):
                out = impl.fn(op, fs, b)
                add((op, fs, hb), out, '%s %s %s' % (mop, fs, hb))
                check_float_case(ctx, op, fs, b, out)
                if out.startswith('err'):
                    ctx.count('%s:overflow' % op)
            for op, mop in (('fix', 'itrunc'), ('int', 'ifloor')):
                out = impl.fn(op, fs, b)
                add((op, fs, hb), out, '%s %s %s' % (mop, fs, hb))
                check_float_case(ctx, op, fs, b, out)
                # the in-place methods must agree with the BASIC functions
                out2 = impl.call(mop, fs, b)
                if out2 != out:
                    ctx.fail('%s-method:%s:%s' % (op, fs, hb), {'op': op, 'fs': fs, 'bytes': hb},
                             'values.%s_ gave %s, numbers.%s gave %s' % (op, out, mop, out2))
            if impl_dm is not None:
                for op, mop in (('fix', 'itrunc'), ('int', 'ifloor'), ('cint', 'cint'),
                                ('cdbl', 'fromsingle') if fs == 's' else ('csng', 'tosingle')):
                    out = impl_dm.fn(op, fs, b)
                    if not (op == 'csng' and out.startswith('err')):     # (soft error: the model line carries the value)
                        add(('dm:' + op, fs, hb), out, '%s %s %s' % (mop, fs, hb))
                    check_float_case(ctx_dm, op, fs, b, out)
            if fs == 's':
                out = impl.fn('cdbl', fs, b)
                add(('cdbl', fs, hb), out, 'fromsingle s %s' % hb)
                check_float_case(ctx, 'cdbl', fs, b, out)
            else:
                out = impl.call('tosingle', fs, b)      # keeps the value carried by OverflowError
                add(('csng', fs, hb), out, 'tosingle d %s' % hb)
                out2 = impl.fn('csng', fs, b)
                if out2.split()[:2] != out.split()[:2]:
                    ctx.fail('csng-fn:%s' % hb, {'op': 'csng', 'fs': fs, 'bytes': hb},
                             'values.csng_ gave %s, Double.to_single gave %s' % (out2, out))
                check_float_case(ctx, 'csng', fs, b, out2)
                v = val('d', b)
                if v != 0:
                    phi = single_neighbours(v)[2]
                    ctx.count('csng:' + ('low' if phi < Fraction(1, 2) else 'tie' if phi == Fraction(1, 2)
                                         else 'band' if phi < Fraction(129, 256) else 'high'))
                if out.startswith('err'):
                    ctx.count('csng:overflow')
            # MKx$/CVx at buffer level: to_bytes / from_bytes of the value classes
            add(('mkf', fs, hb), 'ok ' + mbf.hx(impl.num(fs, b).to_bytes()), 'mkf %s %s' % (fs, hb))
            ctx.count('nonzero' if nz else 'zero-exponent')
    # integers
    for w in ints:
        if len(cases) >= 100000:
            flush()
        for name in ('hex', 'oct'):
            out = impl.hexoct(name, w)
            add((name, w), out, '%s %d' % (name, w))
            digits = out[3:]
            base = 16 if name == 'hex' else 8
            ok = out.startswith('ok ') and digits and all(c in '0123456789ABCDEF'[:base] for c in digits) \
                and int(digits, base) == w and (len(digits) == 1 or digits[0] != '0')
            if not ok:
                ctx.fail('%s:%d' % (name, w), {'op': name, 'w': w}, '%s of pattern %d gave %s' % (name, w, out))
                continue
            back = impl.fromrepr('from' + name, digits)
            add(('from' + name, digits), back, 'from%s %s' % (name, digits))
            sw = w - 65536 if w >= 32768 else w
            if back != 'ok %d' % sw:
                ctx.fail('%s-reread:%d' % (name, w), {'op': name, 'w': w},
                         '%s$ of %d is %s, re-read gives %s' % (name.upper(), sw, digits, back))
        out = 'ok ' + mbf.hx(impl.integer(w).to_bytes())
        add(('mki', w), out, 'mki %d' % w)
        if out != 'ok ' + mbf.hx(struct.pack('<H', w)):
            ctx.fail('mki:%d' % w, {'op': 'mki', 'w': w}, 'buffer of Integer %d is %s' % (w, out))
        sw = w - 65536 if w >= 32768 else w
        for fs in 'sd':
            out = impl.call('fromint', fs, sw)
            add(('fromint', fs, sw), out, 'fromint %s %d' % (fs, sw))
            if not out.startswith('ok ') or val(fs, mbf.unhx(out[3:])) != sw:
                ctx.fail('fromint:%s:%d' % (fs, sw), {'op': 'fromint', 'fs': fs, 'n': sw},
                         'from_int(%d) gave %s' % (sw, out))
    for n in big_ints:
        for fs in 'sd':
            out = impl.call('fromint', fs, n)
            add(('fromint', fs, n), out, 'fromint %s %d' % (fs, n))
            if abs(n) < 1 << W[fs] and (not out.startswith('ok ') or val(fs, mbf.unhx(out[3:])) != n):
                ctx.fail('fromint:%s:%d' % (fs, n), {'op': 'fromint', 'fs': fs, 'n': n},
                         'from_int(%d) gave %s, not exact' % (n, out))
        out = impl.fromintu(n)
        add(('fromintu', n), out, 'fromintu %d' % n)
        exp = 'ok %d' % (n - 65536 if n > 32767 else n) if -32768 <= n <= 65535 else 'err 6'
        if out != exp:
            ctx.fail('fromintu:%d' % n, {'op': 'fromintu', 'n': n},
                     'Integer.from_int(%d, unsigned=True) gave %s, expected %s' % (n, out, exp))
    # digit strings that denote numbers around and above 65535
    for name, base in (('fromhex', 16), ('fromoct', 8)):
        for n in (0, 1, 65534, 65535, 65536, 65537, 0x12345, 0xfffff, 0o200000, 1 << 20, 1 << 40):
            digits = ('%X' if base == 16 else '%o') % n
            for d in (digits, '0' + digits, '000' + digits):
                out = impl.fromrepr(name, d)
                add((name, d), out, '%s %s' % (name, d))
                exp = 'ok %d' % (n - 65536 if n > 32767 else n) if n <= 65535 else 'err 6'
                if out != exp:
                    ctx.fail('%s:%s' % (name, d), {'op': name, 'digits': d}, '&%s%s gave %s, expected %s'
                             % ('H' if base == 16 else 'O', d, out, exp))
        out = impl.fromrepr(name, '')
        add((name, ''), out, '%s -' % name)
    flush()
    return total[0]


# --------------------------------------------------------------------------------------------
# BASIC level: the same conversions through the parser, the function table, variables and PRINT

def parse_print(out):
    """('ok', text) or ('err', n) from the output of a PRINT statement."""
    if b'Overflow' in out:
        return ('err', 6)
    if b'Illegal function call' in out:
        return ('err', 5)
    if b'Type mismatch' in out:
        return ('err', 13)
    if b'host exception' in out:
        return ('err', 'exc:' + out.split()[-1].decode('ascii'))
    if b'\xff' in out or b'rror' in out:
        return ('err', out)
    return ('ok', out.strip().decode('latin-1'))


class Basic(object):
    """Thin layer over a real Session: strings go in and out through variables."""

    def __init__(self, **kw):
        self.s = basic.new_session(**kw)
        self.s.__enter__()

    def close(self):
        self.s.__exit__(None, None, None)

    def put(self, name, b):
        self.s.set_variable(name, bytes(b))

    def get(self, name):
        return bytes(self.s.get_variable(name))

    def run(self, stmt):
        try:
            return self.s.execute(stmt.encode('latin-1'))
        except Exception as e:      # a host exception escaping execute(); reported by the oracle as a wrong result
            return b'\xffhost exception ' + type(e).__name__.encode('ascii')

    def string_result(self, expr, src):
        """R$ = expr (which may use S$); returns 'ok <hex>' or 'err n'."""
        self.put('S$', src)
        self.put('R$', b'')
        out = self.run('R$=' + expr)
        if out.strip():
            r = parse_print(out)
            got = self.get('R$')
            # a soft error (float overflow) prints its message and continues with the maximum value
            return 'err %s' % (r[1],) + (' ' + mbf.hx(got) if got else '')
        return 'ok ' + mbf.hx(self.get('R$'))

    def int_result(self, expr, src=b''):
        self.put('S$', src)
        r = parse_print(self.run('PRINT ' + expr))
        if r[0] == 'err':
            return 'err %s' % (r[1],)
        return 'ok ' + r[1]


def basic_level(ctx, singles, doubles, ints, n_chain, deep=None, session=None, tag=''):
    """`session`: keyword arguments of the Session (e.g. double=True); the conversions do not depend on them,
    so model and oracle are the same for every configuration."""
    rng = ctx.rng
    ctx = tagged(ctx, tag, session)
    B = Basic(**(session or {}))
    cases, outs, lines = [], [], []

    def add(case, out, line):
        cases.append(case)
        outs.append(out)
        lines.append(line)
        ctx.case(('basic',) + case)
        ctx.count('basic:' + case[0])

    try:
        for fs, pats in (('s', singles), ('d', doubles)):
            cv, mk = CV[fs], MK[fs]
            for b in pats:
                hb = mbf.hx(b)
                # CINT printed; also through an integer variable assignment
                # (one PRINT for CINT, \ and MOD: console output is the expensive part of a statement)
                both = B.int_result('CINT(%s(S$));%s(S$)\\1;%s(S$) MOD 1000' % (cv, cv, cv), b)
                if both.startswith('ok ') and len(both.split()) == 4:
                    out, o3 = 'ok ' + both.split()[1], 'ok ' + ' '.join(both.split()[2:])
                elif both == expect_cint(val(fs, b)):
                    out = o3 = both
                else:
                    out = B.int_result('CINT(%s(S$))' % cv, b)
                    o3 = B.int_result('%s(S$)\\1;%s(S$) MOD 1000' % (cv, cv), b)
                add(('cint', fs, hb), out, 'cint %s %s' % (fs, hb))
                check_float_case(ctx, 'cint', fs, b, out)
                o2 = B.run('I%%=0:I%%=%s(S$):PRINT I%%' % cv)
                r2 = parse_print(o2)
                o2 = 'ok ' + r2[1] if r2[0] == 'ok' else 'err %s' % (r2[1],)
                if o2 != out:
                    ctx.fail('assign-int:%s:%s' % (fs, hb), {'op': 'cint', 'fs': fs, 'bytes': hb, 'level': 'basic'},
                             'I%%=x gives %s but CINT(x) gives %s' % (o2, out))
                # \ and MOD round their operands like CINT
                ctx.case(('basic', 'intdiv', fs, hb))
                ctx.count('basic:intdiv-mod')
                n = round_half_away(val(fs, b))
                e3 = 'ok %d  %s%d' % (n, '-' if n < 0 and abs(n) % 1000 else '', abs(n) % 1000) \
                    if -32768 <= n <= 32767 else 'err 6'
                if ' '.join(o3.split()) != ' '.join(e3.split()):
                    ctx.fail('intdiv:%s:%s' % (fs, hb), {'op': 'intdiv', 'fs': fs, 'bytes': hb, 'level': 'basic'},
                             'x\\1 ; x MOD 1000 for x = %s gave %s, expected %s' % (val(fs, b), o3, e3))
                # FIX / INT: bit pattern of the result through MKx$
                for fn, mop, op in (('FIX', 'itrunc', 'fix'), ('INT', 'ifloor', 'int')):
                    out = B.string_result('%s(%s(%s(S$)))' % (mk, fn, cv), b)
                    add((op, fs, hb), out, '%s %s %s' % (mop, fs, hb))
                    check_float_case(ctx, op, fs, b, out)
                # MKx$(CVx(s)) with trailing garbage: the first n bytes come back
                tail = bytes(rng.randrange(256) for _ in range(rng.choice([0, 0, 1, 3])))
                out = B.string_result('%s(%s(S$))' % (mk, cv), b + tail)
                add(('cvmk', fs, mbf.hx(b + tail)), out, 'cvf %s %s' % (fs, mbf.hx(b + tail)))
                if out != 'ok ' + hb:
                    ctx.fail('cvmk:%s:%s' % (fs, hb), {'op': 'cvmk', 'fs': fs, 'bytes': mbf.hx(b + tail), 'level': 'basic'},
                             '%s(%s(s)) = %s, expected the first %d bytes %s' % (mk, cv, out, SIZE[fs], hb))
                if fs == 's':
                    out = B.string_result('MKD$(CDBL(CVS(S$)))', b)
                    add(('cdbl', fs, hb), out, 'fromsingle s %s' % hb)
                    check_float_case(ctx, 'cdbl', fs, b, out)
                    o2 = B.string_result('MKD$(D#)', b) if not B.run('D#=CVS(S$)').strip() else 'err'
                    if o2 != out:
                        ctx.fail('assign-dbl:%s' % hb, {'op': 'cdbl', 'fs': fs, 'bytes': hb, 'level': 'basic'},
                                 'D#=x gives %s but CDBL(x) gives %s' % (o2, out))
                else:
                    out = B.string_result('MKS$(CSNG(CVD(S$)))', b)
                    # soft overflow: message printed, the signed maximum is supplied as the result
                    add(('csng', fs, hb), out, 'tosingle d %s' % hb)
                    check_float_case(ctx, 'csng', fs, b, out)
                    B.put('S$', b)
                    oa = B.run('X!=0:X!=CVD(S$)')
                    o2 = B.string_result('MKS$(X!)', b)
                    if oa.strip():
                        o2 = 'err %s %s' % (parse_print(oa)[1], o2[3:])
                    if o2 != out:
                        ctx.fail('assign-sng:%s' % hb, {'op': 'csng', 'fs': fs, 'bytes': hb, 'level': 'basic'},
                                 'X!=x gives %s but CSNG(x) gives %s' % (o2, out))
                # HEX$/OCT$ of a float argument: digits of the unsigned pattern or Overflow
                out = B.int_result('HEX$(%s(S$));" ";OCT$(%s(S$))' % (cv, cv), b)
                ctx.case(('basic', 'hexf', fs, hb))
                ctx.count('basic:hexarg')
                n = round_half_away(val(fs, b))
                if -32768 <= n <= 65535:
                    exp = 'ok %X %o' % (n & 0xffff, n & 0xffff)
                else:
                    exp = 'err 6'
                if out != exp:
                    ctx.fail('hexarg:%s:%s' % (fs, hb), {'op': 'hexarg', 'fs': fs, 'bytes': hb, 'level': 'basic'},
                             'HEX$/OCT$ of %s gave %s, expected %s' % (val(fs, b), out, exp))
        ctx.compare(cases, outs, lines, label=tag + 'basic')
        cases, outs, lines = [], [], []

        # integers: HEX$/OCT$ -> &H/&O literal, VAL, MKI$/CVI
        for w in ints:
            sw = w - 65536 if w >= 32768 else w
            B.run('N%%=%d' % sw)
            out = B.int_result('HEX$(N%);" ";OCT$(N%)')
            ctx.case(('basic', 'hexoct', w))
            ctx.count('basic:hexoct')
            if out != 'ok %X %o' % (w, w):
                ctx.fail('basic-hex:%d' % w, {'op': 'hexoct', 'w': w, 'level': 'basic'},
                         'HEX$/OCT$ of %d gave %s' % (sw, out))
                continue
            h, o = out[3:].split(' ')
            back = B.int_result('&H%s;&O%s;&%s;VAL("&H%s");VAL("&O%s");VAL("&h%s")' % (h, o, o, h, o, h.lower()))
            if back.split() != ['ok'] + [str(sw)] * 6:
                ctx.fail('basic-reread:%d' % w, {'op': 'hexoct', 'w': w, 'level': 'basic'},
                         'HEX$(%d)=%s OCT$=%s re-read as %s' % (sw, h, o, back))
            if deep is not None and w not in deep:
                continue
            out = B.string_result('MKI$(N%)', b'')
            add(('mki', w), out, 'mki %d' % w)
            if out != 'ok ' + mbf.hx(struct.pack('<H', w)):
                ctx.fail('basic-mki:%d' % w, {'op': 'mki', 'w': w, 'level': 'basic'}, 'MKI$(%d) = %s' % (sw, out))
            tail = bytes(rng.randrange(256) for _ in range(rng.choice([0, 0, 2])))
            out = B.int_result('CVI(S$)', struct.pack('<H', w) + tail)
            add(('cvi', w, len(tail)), out, 'cvi %s' % mbf.hx(struct.pack('<H', w) + tail))
            if out != 'ok %d' % sw:
                ctx.fail('basic-cvi:%d' % w, {'op': 'cvi', 'w': w, 'level': 'basic'}, 'CVI of %d bytes = %s' % (w, out))
            # integer -> float is exact, in both formats
            for fs in 'sd':
                out = B.string_result('%s(%s(N%%))' % (MK[fs], 'CSNG' if fs == 's' else 'CDBL'), b'')
                add(('fromint', fs, sw), out, 'fromint %s %d' % (fs, sw))
                if not out.startswith('ok ') or val(fs, mbf.unhx(out[3:])) != sw:
                    ctx.fail('basic-fromint:%s:%d' % (fs, sw), {'op': 'fromint', 'fs': fs, 'n': sw, 'level': 'basic'},
                             '%s of integer %d gave %s' % ('CSNG' if fs == 's' else 'CDBL', sw, out))
        # literals above FFFF / 177777 overflow; short strings are refused by CVx
        for lit, exp in (('&H10000', 'err 6'), ('&HFFFFF', 'err 6'), ('&O200000', 'err 6'), ('&O1777777', 'err 6'),
                         ('&HFFFF', 'ok -1'), ('&O177777', 'ok -1'), ('&H8000', 'ok -32768'), ('&H7FFF', 'ok 32767'),
                         ('&H', 'ok 0'), ('&O', 'ok 0'), ('&H0', 'ok 0'), ('&O0', 'ok 0')):
            out = B.int_result(lit)
            ctx.case(('basic', 'literal', lit))
            ctx.count('basic:literal')
            if out != exp:
                ctx.fail('literal:' + lit, {'op': 'literal', 'lit': lit, 'level': 'basic'},
                         'PRINT %s gave %s, expected %s' % (lit, out, exp))
        for t, n in (('i', 2), ('s', 4), ('d', 8)):
            for ln in range(0, n):
                src = bytes(rng.randrange(256) for _ in range(ln))
                out = B.int_result('%s(S$)' % CV[t], src)
                add(('cvshort', t, mbf.hx(src)), out,
                    ('cvi %s' % mbf.hx(src)) if t == 'i' else 'cvf %s %s' % (t, mbf.hx(src)))
                if out != 'err 5':
                    ctx.fail('cvshort:%s:%d' % (t, ln), {'op': 'cvshort', 't': t, 'len': ln, 'level': 'basic'},
                             '%s of a %d-byte string gave %s, expected Illegal function call' % (CV[t], ln, out))
        ctx.compare(cases, outs, lines, label=tag + 'basic-int')

        # multi-step chains: every step is checked by the oracle on the implementation's own previous result,
        # and the nested one-line expression must give the same bytes as the stepwise evaluation
        steps_s = ['CSNG', 'CDBL', 'FIX', 'INT', 'CVS(MKS$', 'CINT']
        for _ in range(n_chain):
            fs = rng.choice('sd')
            b = rng.choice(singles if fs == 's' else doubles)
            if rng.random() < 0.5:
                b = mbf.gen_float(rng, fs)
            expr = '%s(S$)' % CV[fs]
            cur_fs, cur_b = fs, bytes(b)
            trace = []
            ok = True
            for _step in range(rng.randrange(2, 6)):
                st = rng.choice(steps_s)
                if st == 'CSNG':
                    nfs, op, expr2 = 's', ('csng' if cur_fs == 'd' else None), 'CSNG(%s)' % expr
                elif st == 'CDBL':
                    nfs, op, expr2 = 'd', ('cdbl' if cur_fs == 's' else None), 'CDBL(%s)' % expr
                elif st in ('FIX', 'INT'):
                    nfs, op, expr2 = cur_fs, st.lower(), '%s(%s)' % (st, expr)
                elif st == 'CINT':
                    nfs, op, expr2 = 's', 'cint', 'CSNG(CINT(%s))' % expr
                else:
                    nfs, op, expr2 = cur_fs, 'id', '%s(%s(%s))' % (CV[cur_fs], MK[cur_fs], expr)
                out = B.string_result('%s(%s)' % (MK[nfs], expr2), b)
                trace.append(st)
                ctx.count('chain:' + st.split('(')[0])
                if op == 'cint':
                    exp = expect_cint(val(cur_fs, cur_b))
                    if exp == 'err 6':
                        if out != 'err 6':
                            ctx.fail('chain-cint:%s:%s' % (fs, mbf.hx(b)), {'op': 'chain', 'fs': fs, 'bytes': mbf.hx(b), 'steps': trace, 'level': 'basic'},
                                     'chain %s: expected Overflow, got %s' % (expr2, out))
                        ok = False
                        break
                    if not out.startswith('ok ') or val('s', mbf.unhx(out[3:])) != int(exp[3:]):
                        ctx.fail('chain-cint:%s:%s' % (fs, mbf.hx(b)), {'op': 'chain', 'fs': fs, 'bytes': mbf.hx(b), 'steps': trace, 'level': 'basic'},
                                 'chain %s: got %s, expected value %s' % (expr2, out, exp))
                        ok = False
                        break
                elif op in (None, 'id'):
                    if out != 'ok ' + mbf.hx(cur_b):
                        ctx.fail('chain-id:%s:%s' % (fs, mbf.hx(b)), {'op': 'chain', 'fs': fs, 'bytes': mbf.hx(b), 'steps': trace, 'level': 'basic'},
                                 'chain %s: identity step changed %s into %s' % (expr2, mbf.hx(cur_b), out))
                        ok = False
                        break
                else:
                    before = len(ctx.failures)
                    check_float_case(ctx, op, cur_fs, cur_b, out)
                    if len(ctx.failures) != before or not out.startswith('ok '):
                        ok = False
                        break
                cur_fs, cur_b, expr = nfs, mbf.unhx(out[3:]), expr2
            ctx.case(('chain', fs, mbf.hx(b), tuple(trace)))
            if ok:
                ctx.sample({'chain': expr, 'input': mbf.hx(b), 'result': mbf.hx(cur_b)}, limit=6)
    finally:
        B.close()


# --------------------------------------------------------------------------------------------

def build_inputs(ctx):
    rng = ctx.rng
    q = ctx.quick
    singles = boundary_floats('s', rng, 40 if q else 2000)
    doubles = boundary_floats('d', rng, 40 if q else 2000)
    singles += [mbf.gen_float(rng, 's') for _ in range(4000 if q else 60000)]
    doubles += [mbf.gen_float(rng, 'd') for _ in range(3000 if q else 40000)]
    doubles += carry_doubles(rng, 3000 if q else 40000)
    doubles += near_integer_doubles(rng, 20 if q else 1500)
    # every single widened (exact) and one carry-byte step beyond
    for b in singles[:1500 if q else 15000]:
        doubles.append(bytes(4) + bytes(b))
        doubles.append(bytes([rng.randrange(256), rng.randrange(256), rng.randrange(256),
                              rng.choice([0x7f, 0x80, 0x81])]) + bytes(b))
    if not q:
        # exhaustive mantissas at fixed exponents would be 2^24 each; a stride coprime to 256 visits every low byte
        for e in (0x81, 0x8f, 0x90, 0x98, 0x99):
            for m in range(0, 1 << 24, 1021):
                singles.append(mbf.make('s', bool(m & 1), (1 << 23) | (m & 0x7fffff), e))
    if q:
        ints = sorted(set(boundary_ints() + [rng.randrange(65536) for _ in range(1500)]))
    else:
        ints = list(range(65536))
    big = []
    for p in (15, 16, 17, 23, 24, 25, 31, 32, 55, 56, 57, 63, 64, 100):
        for d in (-2, -1, 0, 1, 2):
            big += [(1 << p) + d, -(1 << p) + d]
    big += [-32769, -40000, -65535, -65536, -65537, -98304, -98305, 65535, 65536, 98304]
    big += [rng.randrange(-(1 << 60), 1 << 60) for _ in range(200)]
    big += [rng.randrange(-(1 << 24), 1 << 24) for _ in range(200)]
    big += [rng.randrange(-100000, 100000) for _ in range(200)]
    return singles, doubles, ints, big


# configurations of the interpreter under which the BASIC-level slice is repeated: the conversions are specified
# independently of them (tag, Session keyword arguments, share of the default slice)
SESSIONS = [('dbl:', {'double': True}, 1.0), ('pcjr:', {'syntax': 'pcjr'}, 0.25), ('tandy:', {'syntax': 'tandy'}, 0.25)]


def run(ctx):
    impl = Impl()
    impl_dm = Impl(double_math=True)
    singles, doubles, ints, big = build_inputs(ctx)
    ctx.log('%d singles, %d doubles, %d integers' % (len(singles), len(doubles), len(ints)))
    n = value_level(ctx, impl, singles, doubles, ints, big, impl_dm)
    ctx.log('%d value-level cases' % n)
    ctx.exhaustive = False
    ctx.notes['integers_exhaustive'] = (len(ints) == 65536)
    rng = ctx.rng
    k = 350 if ctx.quick else 1200
    bs = boundary_floats('s', rng, 0)
    bd = boundary_floats('d', rng, 0)
    nd = near_integer_doubles(rng, 0)
    sub_s = rng.sample(bs, min(len(bs), k)) + rng.sample(singles, k)
    sub_d = rng.sample(bd, min(len(bd), k)) + rng.sample(doubles, k) + carry_doubles(rng, k) \
        + rng.sample(nd, min(len(nd), k // 3))
    # (all 65536 integers go through Integer.to_hex/to_oct/from_hex/from_oct above; the parser level takes a subset)
    sub_i = sorted(set(boundary_ints() + rng.sample(ints, 300 if ctx.quick else 16000)))
    deep = None if ctx.quick else set(boundary_ints() + rng.sample(ints, 3000))
    basic_level(ctx, sub_s, sub_d, sub_i, 400 if ctx.quick else 3000, deep)
    ctx.log('BASIC-level default session done')
    # the same slice under the other configurations
    for tag, kw, share in SESSIONS:
        if ctx.quick and 'syntax' in kw:
            continue        # nothing in values/ or numbers.py reads the syntax option: thorough tier only
        k2 = int((24 if ctx.quick else 500) * share)
        s2 = rng.sample(bs, k2) + rng.sample(singles, k2)
        d2 = rng.sample(bd, k2) + rng.sample(doubles, k2) + carry_doubles(rng, k2) + rng.sample(nd, min(len(nd), 2 * k2))
        i2 = rng.sample(boundary_ints(), min(40, k2)) + rng.sample(ints, k2)
        basic_level(ctx, s2, d2, i2, k2, None, session=kw, tag=tag)
        ctx.count('sessions:' + tag)
        ctx.log('BASIC-level slice under %r done' % (kw,))
    ctx.sample({'op': 'cint', 'single': '00007f90', 'impl': impl.fn('cint', 's', mbf.unhx('00007f90'))})
    ctx.sample({'op': 'csng', 'double': '00000080ffff7f81', 'impl': impl.call('tosingle', 'd', mbf.unhx('00000080ffff7f81'))})


def replay(ctx, payload):
    case = payload.get('case', {})
    key = payload.get('key')
    sub = Ctx2(ctx)
    impl = Impl()
    impl_dm = Impl(double_math=True)
    op = case.get('op')
    tag = case.get('tag', '')
    session = case.get('session') if isinstance(case.get('session'), dict) else None
    if case.get('level') != 'basic' and op in ('toint', 'trunc', 'cint', 'cintu', 'fix', 'int', 'csng', 'cdbl'):
        b = mbf.unhx(case['bytes'])
        value_level(sub, impl, [b] if case['fs'] == 's' else [], [b] if case['fs'] == 'd' else [], [], [], impl_dm)
    elif case.get('level') != 'basic' and op in ('hex', 'oct', 'mki'):
        value_level(sub, impl, [], [], [case['w']], [])
    elif case.get('level') != 'basic' and op in ('fromint', 'fromintu'):
        value_level(sub, impl, [], [], [], [case['n']])
    elif case.get('level') == 'basic' and 'bytes' in case and op != 'chain':
        b = mbf.unhx(case['bytes'])[:SIZE[case['fs']]]
        basic_level(sub, [b] if case['fs'] == 's' else [], [b] if case['fs'] == 'd' else [], [], 0,
                    session=session, tag=tag)
    elif case.get('level') == 'basic' and 'w' in case:
        basic_level(sub, [], [], [case['w']], 0, session=session, tag=tag)
    else:
        import random
        sub.rng = random.Random(payload.get('seed', 0))
        sub.tier = payload.get('tier', 'quick')
        run(sub)
    hits = [f for f in sub.failures if f['key'] == key]
    return hits[0]['what'] if hits else None


class Ctx2(object):
    """thin proxy so replay can reuse the run functions without touching the outer evidence"""
    def __init__(self, ctx):
        self.__dict__.update(ctx.__dict__)
        self._ctx = ctx
        self.failures = []
        self.disagreements = []

    def __getattr__(self, name):
        return getattr(self._ctx.__class__, name).__get__(self)
