import PcbV.Model.Tokenise
import PcbV.Model.Lister
/-
  Lemmas for C17 (tokeniser / lister): keyword-table lookup, digit strings, number literals.
-/
namespace PcbV.TokL
open PcbV PcbV.Gen PcbV.Gen.Tokens PcbV.Tok PcbV.Lst


/-! ## keyword tables -/

theorem toKeyword_eq_some_iff {t : Table} (h : (t.map (·.1)).Nodup) (k w : Bytes) :
    toKeyword t k = some w ↔ (k, w) ∈ t := by
  induction t with
  | nil => simp [toKeyword]
  | cons p t ih =>
    obtain ⟨pk, pw⟩ := p
    simp only [List.map_cons, List.nodup_cons] at h
    by_cases hk : pk = k
    · subst hk
      have : ∀ w', (pk, w') ∉ t := fun w' hm => h.1 (List.mem_map.mpr ⟨(pk, w'), hm, rfl⟩)
      simp [toKeyword, this]
      constructor
      · intro e; exact e.symm
      · intro e; exact e.symm
    · have ih' := ih h.2
      simp only [toKeyword] at ih' ⊢
      simp [hk, ih']
      intro e; exact absurd e.symm hk

theorem toToken_eq_some_iff {t : Table} (h : (t.map (·.2)).Nodup) (k w : Bytes) :
    toToken t w = some k ↔ (k, w) ∈ t := by
  induction t with
  | nil => simp [toToken]
  | cons p t ih =>
    obtain ⟨pk, pw⟩ := p
    simp only [List.map_cons, List.nodup_cons] at h
    by_cases hk : pw = w
    · subst hk
      have : ∀ k', (k', pw) ∉ t := fun k' hm => h.1 (List.mem_map.mpr ⟨(k', pw), hm, rfl⟩)
      simp [toToken, this]
      constructor
      · intro e; exact e.symm
      · intro e; exact e.symm
    · have ih' := ih h.2
      simp only [toToken] at ih' ⊢
      simp [hk, ih']
      intro _ e; exact absurd e.symm hk

/-- the checked property of a table: no token and no keyword occurs twice -/
def Table.Bij (t : Table) : Prop := (t.map (·.1)).Nodup ∧ (t.map (·.2)).Nodup

instance (t : Table) : Decidable (Table.Bij t) := by unfold Table.Bij; infer_instance

theorem bij_iff {t : Table} (h : Table.Bij t) (k w : Bytes) :
    toKeyword t k = some w ↔ toToken t w = some k := by
  rw [toKeyword_eq_some_iff h.1, toToken_eq_some_iff h.2]




/-! ## digits -/

theorem digitsRev_foldr (b : Nat) (hb : 2 ≤ b) : ∀ f n, n < f →
    (digitsRev b f n).foldr (fun d a => a * b + d) 0 = n := by
  intro f
  induction f with
  | zero => intro n h; omega
  | succ f ih =>
    intro n h
    unfold digitsRev
    by_cases hn : n < b
    · simp [hn]
    · simp only [hn, if_false, List.foldr_cons]
      have h1 : n / b < n := Nat.div_lt_self (by omega) (by omega)
      rw [ih (n / b) (by omega)]
      exact Nat.div_add_mod' n b

theorem digitsRev_lt (b : Nat) (hb : 2 ≤ b) : ∀ f n, ∀ d ∈ digitsRev b f n, d < b := by
  intro f
  induction f with
  | zero => intro n d hd; simp [digitsRev] at hd
  | succ f ih =>
    intro n d hd
    unfold digitsRev at hd
    by_cases hn : n < b
    · simp [hn] at hd; omega
    · simp only [hn, if_false, List.mem_cons] at hd
      rcases hd with rfl | hd
      · exact Nat.mod_lt _ (by omega)
      · exact ih _ _ hd

theorem digitsRev_ne_nil (b f n : Nat) : digitsRev b (f + 1) n ≠ [] := by
  unfold digitsRev; split <;> simp

theorem digitVal_digitChar : ∀ d, d < 16 → digitVal (digitChar d) = d := by decide

theorem foldr_digit (b : Nat) : ∀ l : List Nat, (∀ d ∈ l, d < 16) →
    l.foldr (fun d a => a * b + digitVal (digitChar d)) 0 = l.foldr (fun d a => a * b + d) 0 := by
  intro l
  induction l with
  | nil => intro _; rfl
  | cons x l ih =>
    intro h
    simp only [List.foldr_cons]
    rw [ih (fun d hd => h d (List.mem_cons_of_mem _ hd)), digitVal_digitChar x (h x (List.mem_cons_self ..))]

/-- reading back the digits that `%d` / `%X` / `%o` print gives the number -/
theorem readBase_showBase (b : Nat) (hb : 2 ≤ b) (hb' : b ≤ 16) (n : Nat) : readBase b (showBase b n) = n := by
  unfold readBase showBase
  rw [List.foldl_map, List.foldl_reverse]
  rw [foldr_digit b _ (fun d hd => by have := digitsRev_lt b hb _ _ d hd; omega)]
  exact digitsRev_foldr b hb (n + 1) n (by omega)

theorem showBase_ne_nil (b n : Nat) : showBase b n ≠ [] := by
  unfold showBase
  simp [digitsRev_ne_nil]

theorem showBase10_all_digit (n : Nat) : ∀ c ∈ showBase 10 n, isDigit c = true := by
  intro c hc
  unfold showBase at hc
  simp only [List.mem_map, List.mem_reverse] at hc
  obtain ⟨d, hd, rfl⟩ := hc
  have := digitsRev_lt 10 (by omega) _ _ d hd
  have h : ∀ d, d < 10 → isDigit (digitChar d) = true := by decide
  exact h d this



theorem dropWhile_none (p : Nat → Bool) : ∀ l : Bytes, (∀ c ∈ l, p c = false) → l.dropWhile p = l := by
  intro l h
  cases l with
  | nil => rfl
  | cons c cs => simp [List.dropWhile, h c (List.mem_cons_self ..)]

theorem rstripBlanks_id (l : Bytes) (h : ∀ c ∈ l, isBlank c = false) : rstripBlanks l = l := by
  unfold rstripBlanks
  rw [dropWhile_none isBlank l.reverse (fun c hc => h c (List.mem_reverse.mp hc))]
  simp

theorem spanP_append (p : Nat → Bool) : ∀ (l rest : Bytes), (∀ c ∈ l, p c = true) →
    (match rest with
     | [] => True
     | c :: _ => p c = false) → spanP p (l ++ rest) = (l, rest) := by
  intro l
  induction l with
  | nil =>
    intro rest _ hr
    cases rest with
    | nil => rfl
    | cons c cs => simp at hr; simp [spanP, hr]
  | cons x l ih =>
    intro rest h hr
    have hx := h x (List.mem_cons_self ..)
    have := ih rest (fun c hc => h c (List.mem_cons_of_mem _ hc)) hr
    simp [spanP, hx, this]

/-- what may follow a decimal literal for `_read_dec` to stop right behind it -/
def decFollowOK : Bytes → Bool
  | [] => true
  | c :: _ => !(isDigit c || isBlank c || c == 28 || c == 29 || c == 31 || upper c == 46 || upper c == 69
                || upper c == 68 || c == 33 || c == 35 || c == 37)

theorem isDigit_facts {c : Nat} (h : isDigit c = true) : upper c = c ∧ c ≠ 46 ∧ c ≠ 69 ∧ c ≠ 68 ∧ c ≠ 45 ∧ c ≠ 43
    ∧ isBlank c = false ∧ c ≠ 38 ∧ c ≠ 34 ∧ c ≠ 0 ∧ c ≠ 13 := by
  simp only [isDigit, decide_eq_true_eq] at h
  refine ⟨?_, by omega, by omega, by omega, by omega, by omega, ?_, by omega, by omega, by omega, by omega⟩
  · simp only [upper, isLower, decide_eq_true_eq]
    rw [if_neg (by omega)]
  · simp only [isBlank, Bool.or_eq_false_iff, beq_eq_false_iff_ne]
    omega

theorem readDecGo_digits : ∀ (ds w cr rest : Bytes), (∀ c ∈ ds, isDigit c = true) →
    readDecGo false false w cr (ds ++ rest) = readDecGo false false (w ++ ds) (ds.reverse ++ cr) rest := by
  intro ds
  induction ds with
  | nil => intro w cr rest _; simp
  | cons d ds ih =>
    intro w cr rest h
    obtain ⟨h1, h2, h3, h4, h5, h6, _⟩ := isDigit_facts (h d (List.mem_cons_self ..))
    have hd := h d (List.mem_cons_self ..)
    have e : readDecGo false false w cr (d :: (ds ++ rest))
        = readDecGo false false (w ++ [d]) (d :: cr) (ds ++ rest) := by
      conv => lhs; unfold readDecGo
      simp [h1, hd, h2, h3, h4, h5, h6]
    rw [List.cons_append, e, ih _ _ _ (fun c hc => h c (List.mem_cons_of_mem _ hc))]
    simp

theorem readDecGo_stop (w cr rest : Bytes) (l : Nat) (hl : w.getLast? = some l) (hld : isDigit l = true)
    (hf : decFollowOK rest = true) : readDecGo false false w cr rest = (w, cr, rest) := by
  cases rest with
  | nil => simp [readDecGo]
  | cons c cs =>
    obtain ⟨_, _, h3, h4, _⟩ := isDigit_facts hld
    simp only [decFollowOK, Bool.not_eq_true', Bool.or_eq_false_iff, beq_eq_false_iff_ne] at hf
    obtain ⟨⟨⟨⟨⟨⟨⟨⟨⟨⟨f1, f2⟩, f3⟩, f4⟩, f5⟩, f6⟩, f7⟩, f8⟩, f9⟩, f10⟩, f11⟩ := hf
    unfold readDecGo
    simp [f1, f2, f3, f4, f5, f6, f7, f8, f9, f10, f11, hl, h3, h4]

theorem readDec_digits (ds rest : Bytes) (hne : ds ≠ []) (h : ∀ c ∈ ds, isDigit c = true)
    (hf : decFollowOK rest = true) : readDec (ds ++ rest) = (ds, rest) := by
  have hnb : ∀ c ∈ ds, isBlank c = false := fun c hc => (isDigit_facts (h c hc)).2.2.2.2.2.2.1
  obtain ⟨l, hl⟩ : ∃ l, ds.getLast? = some l := by
    cases hds : ds.getLast? with
    | none => simp [List.getLast?_eq_none_iff] at hds; exact absurd hds hne
    | some l => exact ⟨l, rfl⟩
  have hld : isDigit l = true := h l (List.mem_of_getLast? hl)
  unfold readDec
  rw [readDecGo_digits ds [] [] rest h, readDecGo_stop _ _ _ l (by simpa using hl) hld hf]
  simp [rstripBlanks_id ds hnb, dropWhile_none isBlank ds hnb]




/-! ## integer literals: tokeniser side -/

theorem decToken_showBase (cd : Codec) (n : Nat) (h : n ≤ 32767) :
    decToken cd (showBase 10 n) = .ok (intToken n) := by
  unfold decToken
  have h1 : (showBase 10 n).all isDigit = true := List.all_eq_true.mpr (showBase10_all_digit n)
  have h2 : (showBase 10 n).isEmpty = false := by
    cases hs : showBase 10 n with
    | nil => exact absurd hs (showBase_ne_nil 10 n)
    | cons _ _ => rfl
  simp [h1, h2, readBase_showBase 10 (by omega) (by omega) n, h]

theorem tokNumber_int (cd : Codec) (n : Nat) (h : n ≤ 32767) (rest : Bytes) (hf : decFollowOK rest = true) :
    tokNumber false cd (showBase 10 n ++ rest) = .ok (intToken n, rest) := by
  have hd := showBase10_all_digit n
  cases hs : showBase 10 n with
  | nil => exact absurd hs (showBase_ne_nil 10 n)
  | cons c cs =>
    have hc : isDigit c = true := hd c (by rw [hs]; exact List.mem_cons_self ..)
    have h38 : c ≠ 38 := (isDigit_facts hc).2.2.2.2.2.2.2.1
    have e : tokNumber false cd (c :: cs ++ rest) =
        (match decToken cd (readDec (c :: cs ++ rest)).1 with
         | .ok tok => .ok (tok, (readDec (c :: cs ++ rest)).2)
         | .error e => .error e) := by
      unfold tokNumber
      split
      · rename_i heq; simp at heq; exact absurd heq.1 h38
      · rfl
    rw [e, ← hs, readDec_digits _ rest (showBase_ne_nil 10 n) hd hf]
    simp [decToken_showBase cd n h]

/-! ## integer literals: lister side -/

theorem le16_lo_hi (v : Nat) (h : v < 65536) : le16 [lo v, hi v] = v := by
  simp [le16, lo, hi]; omega

theorem len2 (rest : Bytes) : ¬ (rest.length + 1 + 1 < 2) := by omega

theorem listNumber_const (old : Bool) (cd : Codec) (n : Nat) (h : n < 10) (rest : Bytes) :
    listNumber old cd (tC0 + n) rest = .ok (showBase 10 n, rest) := by
  have f : ∀ n, n < 10 → plusBytes (tC0 + n) = 0 ∧ (tC0 + n == tTOCT) = false ∧ (tC0 + n == tTHEX) = false
      ∧ (tC0 + n == tTBYTE) = false ∧ tC0 ≤ tC0 + n ∧ tC0 + n ≤ tC10 := by decide
  obtain ⟨f1, f2, f3, f4, f5, f6⟩ := f n h
  unfold listNumber
  simp [f1, f2, f3, f4, f5, f6]

theorem listNumber_byte (old : Bool) (cd : Codec) (n : Nat) (rest : Bytes) :
    listNumber old cd tTBYTE (n :: rest) = .ok (showBase 10 n, rest) := by
  unfold listNumber
  simp [tTBYTE, tTOCT, tTHEX, plusBytes]

theorem listNumber_int (old : Bool) (cd : Codec) (n : Nat) (h : n ≤ 32767) (rest : Bytes) :
    listNumber old cd tTINT (lo n :: hi n :: rest) = .ok (showBase 10 n, rest) := by
  unfold listNumber
  have := le16_lo_hi n (by omega)
  have l2 := len2 rest
  simp [tTINT, tTOCT, tTHEX, tTBYTE, tC0, tC10, plusBytes, lineNumberLeads, this, showInt16, l2]
  omega

theorem listNumber_hex (old : Bool) (cd : Codec) (v : Nat) (h : v < 65536) (rest : Bytes) :
    listNumber old cd tTHEX (lo v :: hi v :: rest) = .ok (38 :: 72 :: showBase 16 v, rest) := by
  unfold listNumber
  have := le16_lo_hi v h
  have l2 := len2 rest
  simp [tTOCT, tTHEX, plusBytes, this, l2]

theorem listNumber_oct (old : Bool) (cd : Codec) (v : Nat) (h : v < 65536) (rest : Bytes) :
    listNumber old cd tTOCT (lo v :: hi v :: rest) = .ok (38 :: 79 :: showBase 8 v, rest) := by
  unfold listNumber
  have := le16_lo_hi v h
  have l2 := len2 rest
  simp [tTOCT, plusBytes, this, l2]

theorem listNumber_uint (old : Bool) (cd : Codec) (v : Nat) (h : v < 65536) (rest : Bytes) :
    listNumber old cd tTUINT (lo v :: hi v :: rest) = .ok (showBase 10 v, rest) := by
  unfold listNumber
  have := le16_lo_hi v h
  have l2 := len2 rest
  simp [tTUINT, tTOCT, tTHEX, tTBYTE, tC0, tC10, plusBytes, lineNumberLeads, this, l2]



def hexFollowOK : Bytes → Bool
  | [] => true
  | c :: _ => !isHexDigit c

def octFollowOK : Bytes → Bool
  | [] => true
  | c :: _ => !(isOctDigit c || isBlank c)

theorem showBase16_hex (v : Nat) : ∀ c ∈ showBase 16 v, isHexDigit c = true := by
  intro c hc
  unfold showBase at hc
  simp only [List.mem_map, List.mem_reverse] at hc
  obtain ⟨d, hd, rfl⟩ := hc
  have := digitsRev_lt 16 (by omega) _ _ d hd
  have h : ∀ d, d < 16 → isHexDigit (digitChar d) = true := by decide
  exact h d this

theorem showBase8_oct (v : Nat) : ∀ c ∈ showBase 8 v, isOctDigit c = true ∧ isBlank c = false := by
  intro c hc
  unfold showBase at hc
  simp only [List.mem_map, List.mem_reverse] at hc
  obtain ⟨d, hd, rfl⟩ := hc
  have := digitsRev_lt 8 (by omega) _ _ d hd
  have h : ∀ d, d < 8 → isOctDigit (digitChar d) = true ∧ isBlank (digitChar d) = false := by decide
  exact h d this

theorem ampToken_hex (v : Nat) (h : v < 65536) (rest : Bytes) (hf : hexFollowOK rest = true) :
    ampToken false (72 :: (showBase 16 v ++ rest)) = .ok ([tTHEX, lo v, hi v], rest) := by
  have hs : spanP isHexDigit (showBase 16 v ++ rest) = (showBase 16 v, rest) := by
    apply spanP_append _ _ _ (showBase16_hex v)
    cases rest with
    | nil => trivial
    | cons c cs => simpa [hexFollowOK] using hf
  have hu : upper 72 = 72 := by decide
  unfold ampToken
  simp only [hu, beq_self_eq_true, if_true, hs, readBase_showBase 16 (by omega) (by omega) v]
  rw [if_neg (by omega)]

theorem ampToken_oct (v : Nat) (h : v < 65536) (rest : Bytes) (hf : octFollowOK rest = true) :
    ampToken false (79 :: (showBase 8 v ++ rest)) = .ok ([tTOCT, lo v, hi v], rest) := by
  have hs : spanP (fun c => isOctDigit c || isBlank c) (showBase 8 v ++ rest) = (showBase 8 v, rest) := by
    apply spanP_append _ _ _ (fun c hc => by simp [(showBase8_oct v c hc).1])
    cases rest with
    | nil => trivial
    | cons c cs => simpa [octFollowOK] using hf
  have hfil : (showBase 8 v).filter (fun c => !isBlank c) = showBase 8 v :=
    List.filter_eq_self.mpr (fun c hc => by simp [(showBase8_oct v c hc).2])
  have hu : (upper 79 == 72) = false := by decide
  have hu' : (upper 79 == 79) = true := by decide
  unfold ampToken
  simp only [hu, hu', if_true, hs, hfil, readBase_showBase 8 (by omega) (by omega) v, Bool.false_and,
    Bool.false_eq_true, if_false]
  rw [if_neg (by omega)]

/-! ## jump numbers -/

def jumpFollowOK (rest : Bytes) : Bool :=
  match rest.dropWhile isBlank with
  | [] => true
  | c :: _ => !isDigit c

theorem lineNumGo_blanks (val nd : Nat) (commit : Bytes) : ∀ rest : Bytes, jumpFollowOK rest = true →
    lineNumGo val true nd commit rest = (some val, commit) := by
  intro rest
  induction rest with
  | nil => intro _; unfold lineNumGo; split <;> simp
  | cons c cs ih =>
    intro hf
    unfold lineNumGo
    split
    · simp
    · by_cases hb : isBlank c = true
      · have hd : isDigit c = false := by
          cases hdd : isDigit c with
          | false => rfl
          | true => exact absurd hb (by simp [(isDigit_facts hdd).2.2.2.2.2.2.1])
        have : jumpFollowOK cs = true := by simpa [jumpFollowOK, List.dropWhile, hb] using hf
        simp [hd, hb, ih this]
      · have hd : isDigit c = false := by simpa [jumpFollowOK, List.dropWhile, hb] using hf
        simp [hd, hb]

theorem foldl_ge (ds : Bytes) : ∀ v : Nat, v * 10 ^ ds.length ≤ ds.foldl (fun a d => a * 10 + digitVal d) v := by
  induction ds with
  | nil => intro v; simp
  | cons d ds ih =>
    intro v
    simp only [List.foldl_cons, List.length_cons]
    calc v * 10 ^ (ds.length + 1) = (v * 10) * 10 ^ ds.length := by rw [Nat.pow_succ]; ac_rfl
      _ ≤ (v * 10 + digitVal d) * 10 ^ ds.length := Nat.mul_le_mul_right _ (by omega)
      _ ≤ _ := ih _

theorem digitsRev_len : ∀ (f n k : Nat), n < 10 ^ k → 1 ≤ k → (digitsRev 10 f n).length ≤ k := by
  intro f
  induction f with
  | zero => intro n k _ _; simp [digitsRev]
  | succ f ih =>
    intro n k hn hk
    unfold digitsRev
    by_cases h : n < 10
    · simp [h]; omega
    · simp only [h, if_false, List.length_cons]
      obtain ⟨k', rfl⟩ : ∃ k', k = k' + 1 := ⟨k - 1, by omega⟩
      have hk' : 1 ≤ k' := by
        cases k' with
        | zero => simp at hn; omega
        | succ _ => omega
      have := ih (n / 10) k' (by rw [Nat.pow_succ] at hn; omega) hk'
      omega

/-- `read_line_number` reads exactly a digit string whose value is at most 65529 -/
theorem lineNumGo_digits : ∀ (ds : Bytes) (v nd : Nat) (hv : Bool) (rest : Bytes),
    (∀ c ∈ ds, isDigit c = true) → (hv = true ∨ ds ≠ []) → v ≤ 6552 →
    ds.foldl (fun a d => a * 10 + digitVal d) v ≤ 65529 → nd + ds.length ≤ 5 → jumpFollowOK rest = true →
    lineNumGo v hv nd (ds ++ rest) (ds ++ rest)
      = (some (ds.foldl (fun a d => a * 10 + digitVal d) v), rest) := by
  intro ds
  induction ds with
  | nil =>
    intro v nd hv rest _ hne _ _ _ hf
    have : hv = true := by simpa using hne
    subst this
    simpa using lineNumGo_blanks v nd rest rest hf
  | cons d ds ih =>
    intro v nd hv rest hd _ hv6 hle hlen hf
    have hdd := hd d (List.mem_cons_self ..)
    have hdv : digitVal d = d - 48 := by simp [digitVal, hdd]
    simp only [List.foldl_cons, List.length_cons] at hle hlen ⊢
    rw [List.cons_append]
    unfold lineNumGo
    rw [if_neg (by omega)]
    simp only [hdd, if_true, ← hdv]
    by_cases hbig : v * 10 + digitVal d > 6552
    · -- the value passed 6552: by the bound this was the last digit
      have hds : ds = [] := by
        cases ds with
        | nil => rfl
        | cons e es =>
          have := foldl_ge (e :: es) (v * 10 + digitVal d)
          simp only [List.length_cons, Nat.pow_succ] at this
          have h1 : 1 ≤ 10 ^ es.length := Nat.pow_pos (by omega)
          have h2 : (v * 10 + digitVal d) * 10 ≤ (v * 10 + digitVal d) * (10 ^ es.length * 10) := by
            apply Nat.mul_le_mul_left; omega
          omega
      subst hds
      simp [hbig]
    · rw [if_neg hbig]
      exact ih (v * 10 + digitVal d) (nd + 1) true rest (fun c hc => hd c (List.mem_cons_of_mem _ hc))
        (Or.inl rfl) (by omega) hle (by omega) hf

theorem readLineNum_showBase (n : Nat) (h : n ≤ 65529) (rest : Bytes) (hf : jumpFollowOK rest = true) :
    readLineNum (showBase 10 n ++ rest) = (some n, rest) := by
  have hr := readBase_showBase 10 (by omega) (by omega) n
  unfold readBase at hr
  have hlen : (showBase 10 n).length ≤ 5 := by
    unfold showBase
    simp only [List.length_map, List.length_reverse]
    exact digitsRev_len _ n 5 (by omega) (by omega)
  unfold readLineNum
  rw [lineNumGo_digits (showBase 10 n) 0 0 false rest (showBase10_all_digit n) (Or.inr (showBase_ne_nil 10 n))
    (by omega) (by rw [hr]; exact h) (by omega) hf, hr]


end PcbV.TokL
