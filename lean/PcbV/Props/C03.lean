import PcbV.Lemmas.C03Rat
import PcbV.Lemmas.C03Single
import PcbV.Lemmas.C03Floor
/-
  C03 — Numeric conversions and binary encodings are exact and consistent.
  Theorems about `PcbV.Mbf` (numbers.py: Float/Single/Double), `PcbV.IntOps.fromInt`
  (Integer.from_int) and `PcbV.HexOct` (hex/oct, MKx$/CVx), for every format with the mask
  shapes `Fmt.WF` (both `single` and `double`: `single_wf`, `double_wf`) and every stored value
  (`F.Valid`: mantissa bytes and exponent byte in range).  `val f x : Rat` is the exact value.
-/
namespace PcbV.C03
open PcbV PcbV.Mbf PcbV.HexOct

/-! ### CINT: round to nearest, halves away from zero; Overflow outside -32768..32767 -/

/-- round to nearest, halves away from zero -/
def roundHalfAway (q : Rat) : Int := if 0 ≤ q then ⌊q + 1 / 2⌋ else -⌊-q + 1 / 2⌋

/-- `to_int` is within 1/2 of the value, and an exact half goes away from zero -/
theorem toInt_round (f : Fmt) (hf : f.WF) (x : F) (hx : F.Valid f x) :
    (0 ≤ val f x → ((toInt f x : Int) : Rat) - 1 / 2 ≤ val f x ∧ val f x < (toInt f x : Int) + 1 / 2) ∧
    (val f x < 0 → ((toInt f x : Int) : Rat) - 1 / 2 < val f x ∧ val f x ≤ (toInt f x : Int) + 1 / 2) := by
  rw [toInt_eq hf hx]
  by_cases he : x.e = 0
  · rw [val_zero f x he, (mags_zero hf hx he).2]
    split <;> norm_num
  · rw [val_eq f x he]
    have hp := mag_pos hf hx
    obtain ⟨h1, h2⟩ := roundMag_spec hf hx
    unfold sg
    by_cases hn : isNeg f x = true
    · simp only [hn, if_true]
      push_cast
      constructor
      · intro h; linarith
      · intro _; constructor <;> linarith
    · simp only [hn, if_false]
      push_cast
      constructor
      · intro _; constructor <;> linarith
      · intro h; linarith

/-- the same, with the rounding function written out -/
theorem toInt_roundHalfAway (f : Fmt) (hf : f.WF) (x : F) (hx : F.Valid f x) :
    toInt f x = roundHalfAway (val f x) := by
  obtain ⟨h1, h2⟩ := toInt_round f hf x hx
  unfold roundHalfAway
  split
  · next h =>
    obtain ⟨a, b⟩ := h1 h
    symm; rw [Int.floor_eq_iff]; constructor <;> linarith
  · next h =>
    obtain ⟨a, b⟩ := h2 (not_le.mp h)
    have : ⌊-val f x + 1 / 2⌋ = -toInt f x := by
      rw [Int.floor_eq_iff]; push_cast; constructor <;> linarith
    rw [this]; simp

/-- CINT of a float (`Float.to_integer`): the rounded value when it fits a 16-bit integer,
    else Overflow -/
theorem cint_spec (f : Fmt) (x : F) :
    (-32768 ≤ toInt f x ∧ toInt f x ≤ 32767 →
      ∃ w, cint f x = .ok w ∧ w < 65536 ∧ IntOps.toInt w = toInt f x) ∧
    (¬ (-32768 ≤ toInt f x ∧ toInt f x ≤ 32767) → cint f x = .error IntOps.overflow) := by
  unfold cint IntOps.fromInt
  simp only [Bool.false_and, Bool.false_eq_true, if_false]
  constructor
  · intro h
    simp only [h, and_self, if_true]
    refine ⟨_, rfl, ?_, ?_⟩ <;> unfold IntOps.pack <;> (try unfold IntOps.toInt) <;> split <;> (try split) <;> omega
  · intro h
    simp only [h, if_false]

/-- Overflow is raised exactly for values ≥ 32767.5 or ≤ -32768.5 -/
theorem cint_overflow_iff (f : Fmt) (hf : f.WF) (x : F) (hx : F.Valid f x) :
    cint f x = .error IntOps.overflow ↔ (32767 + 1 / 2 ≤ val f x ∨ val f x ≤ -(32768 + 1 / 2)) := by
  obtain ⟨h1, h2⟩ := toInt_round f hf x hx
  obtain ⟨c1, c2⟩ := cint_spec f x
  constructor
  · intro h
    by_cases hr : -32768 ≤ toInt f x ∧ toInt f x ≤ 32767
    · obtain ⟨w, hw, _⟩ := c1 hr
      rw [hw] at h; cases h
    · rcases le_or_gt 0 (val f x) with hv | hv
      · obtain ⟨a, b⟩ := h1 hv
        left
        have : toInt f x ≥ 32768 := by
          by_contra hc
          have h0 : (0 : Rat) - 1 / 2 ≤ (toInt f x : Int) := by linarith
          have : (-1 : Int) < toInt f x := by
            have : ((-1 : Int) : Rat) < (toInt f x : Int) := by push_cast; linarith
            exact_mod_cast this
          omega
        have : ((32768 : Int) : Rat) ≤ (toInt f x : Int) := by exact_mod_cast this
        push_cast at this
        linarith
      · obtain ⟨a, b⟩ := h2 hv
        right
        have : toInt f x ≤ -32769 := by
          by_contra hc
          have : toInt f x < 1 := by
            have : ((toInt f x : Int) : Rat) < ((1 : Int) : Rat) := by push_cast; linarith
            exact_mod_cast this
          omega
        have : ((toInt f x : Int) : Rat) ≤ ((-32769 : Int) : Rat) := by exact_mod_cast this
        push_cast at this
        linarith
  · intro h
    apply c2
    intro ⟨ha, hb⟩
    have ha' : ((-32768 : Int) : Rat) ≤ (toInt f x : Int) := by exact_mod_cast ha
    have hb' : ((toInt f x : Int) : Rat) ≤ ((32767 : Int) : Rat) := by exact_mod_cast hb
    push_cast at ha' hb'
    rcases h with h | h
    · have hv : 0 ≤ val f x := by linarith
      obtain ⟨a, b⟩ := h1 hv
      linarith
    · have hv : val f x < 0 := by linarith
      obtain ⟨a, b⟩ := h2 hv
      linarith

/-! ### FIX: truncation toward zero -/

/-- `to_int_truncate` is the integer part: between 0 and the value, less than 1 away -/
theorem trunc_spec (f : Fmt) (hf : f.WF) (x : F) (hx : F.Valid f x) :
    (0 ≤ val f x → ((toIntTrunc f x : Int) : Rat) ≤ val f x ∧ val f x < (toIntTrunc f x : Int) + 1) ∧
    (val f x < 0 → ((toIntTrunc f x : Int) : Rat) - 1 < val f x ∧ val f x ≤ (toIntTrunc f x : Int)) := by
  rw [toIntTrunc_eq hf hx]
  by_cases he : x.e = 0
  · rw [val_zero f x he, (mags_zero hf hx he).1]
    split <;> norm_num
  · rw [val_eq f x he]
    have hp := mag_pos hf hx
    obtain ⟨h1, h2⟩ := truncMag_spec hf hx
    unfold sg
    by_cases hn : isNeg f x = true
    · simp only [hn, if_true]
      push_cast
      constructor
      · intro h; linarith
      · intro _; constructor <;> linarith
    · simp only [hn, if_false]
      push_cast
      constructor
      · intro _; constructor <;> linarith
      · intro h; linarith

/-- `to_int_truncate` written with floor / ceiling -/
theorem trunc_floor_ceil (f : Fmt) (hf : f.WF) (x : F) (hx : F.Valid f x) :
    toIntTrunc f x = if 0 ≤ val f x then ⌊val f x⌋ else ⌈val f x⌉ := by
  obtain ⟨h1, h2⟩ := trunc_spec f hf x hx
  split
  · next h => obtain ⟨a, b⟩ := h1 h; symm; rw [Int.floor_eq_iff]; exact ⟨a, b⟩
  · next h => obtain ⟨a, b⟩ := h2 (not_le.mp h); symm; rw [Int.ceil_eq_iff]; exact ⟨a, b⟩

/-- FIX (`itrunc` = `from_int(to_int_truncate())`) yields a stored value whose exact value is the
    truncation of the argument; arguments with exponent ≥ bias are returned byte for byte -/
theorem fix_spec (f : Fmt) (hf : f.WF) (hb : f.bias ≤ 255) (x : F) (hx : F.Valid f x) :
    (∃ y, itrunc f x = .ok y ∧ F.Valid f y ∧
      val f y = ((if 0 ≤ val f x then ⌊val f x⌋ else ⌈val f x⌉ : Int) : Rat)) ∧
    (f.bias ≤ x.e → itrunc f x = .ok x) := by
  obtain ⟨⟨y, h1, h2, h3⟩, h4⟩ := itrunc_exact hf hb x hx
  exact ⟨⟨y, h1, h2, by rw [h3, trunc_floor_ceil f hf x hx]⟩, h4⟩

/-! ### INT: rounding toward minus infinity -/

theorem eq_self (x : F) : Mbf.eq x x = true := by
  unfold Mbf.eq; cases h : x.isZero <;> simp

/-- INT (`ifloor`: truncate, then subtract one from a negative non-integer) yields a stored value
    whose exact value is the floor of the argument, for every stored value of every format
    (`f.one` must be the constant 1.0, as it is in `single` and `double`) -/
theorem floor_spec (f : Fmt) (hf : f.WF) (hb : f.bias ≤ 255) (hone : f.one = ⟨0, 129⟩) (x : F)
    (hx : F.Valid f x) :
    ∃ y, ifloor f x = .ok y ∧ F.Valid f y ∧ val f y = ((⌊val f x⌋ : Int) : Rat) := by
  obtain ⟨⟨t, ht, htv, htval⟩, hbig⟩ := itrunc_exact hf hb x hx
  obtain ⟨tr1, tr2⟩ := trunc_spec f hf x hx
  have hifl : ifloor f x = if (!(Mbf.eq t x) && isNeg f x) = true then isub f t f.one else .ok t := by
    unfold ifloor; rw [ht]; rfl
  have hzero_t : toIntTrunc f x = 0 → t = zero := by
    intro hn
    unfold itrunc at ht
    rw [hn] at ht
    have : fromInt f 0 = .ok zero := by simp [fromInt]
    rw [this] at ht
    injection ht with ht
    exact ht.symm
  rw [hifl]
  by_cases hcond : (!(Mbf.eq t x) && isNeg f x) = true
  · rw [if_pos hcond]
    simp only [Bool.and_eq_true, Bool.not_eq_true'] at hcond
    obtain ⟨heq, hneg⟩ := hcond
    have hxe : x.e ≠ 0 := by
      intro h0
      have hn : toIntTrunc f x = 0 := by
        rw [toIntTrunc_eq hf hx, (mags_zero hf hx h0).1]; split <;> rfl
      rw [hzero_t hn] at heq
      have : Mbf.eq zero x = true := by
        unfold Mbf.eq F.isZero zero; simp [h0]
      rw [this] at heq; cases heq
    have hlt : x.e < f.bias := by
      by_contra h
      have := hbig (by omega)
      rw [this] at ht
      injection ht with ht
      rw [← ht, eq_self] at heq
      cases heq
    have hv : val f x < 0 := by
      rw [val_eq f x hxe]; unfold sg; rw [hneg]
      have := mag_pos hf hx
      simp only [if_true]; linarith
    obtain ⟨b1, b2⟩ := tr2 hv
    -- the truncation is -a with a < 2^(w-1)
    have hmb := manOf_bounds hf hx
    have hup : up f x = 0 := by unfold up; omega
    have hdn : 1 ≤ dn f x := by unfold dn; omega
    have ha : truncMag f x < 2 ^ (f.w - 1) := by
      unfold truncMag
      rw [hup, Nat.pow_zero, Nat.mul_one]
      have h2p := two_mul_pow_pred f.w (by have := hf.1; omega)
      have : 2 ^ 1 ≤ 2 ^ dn f x := Nat.pow_le_pow_right (by decide) hdn
      have h1 : manOf f x / 2 ^ dn f x ≤ manOf f x / 2 ^ 1 := Nat.div_le_div_left this (by decide)
      have h2 : manOf f x / 2 ^ 1 < 2 ^ (f.w - 1) := by
        rw [Nat.pow_one, Nat.div_lt_iff_lt_mul (by decide)]; omega
      omega
    have hn : toIntTrunc f x = -((truncMag f x : Nat) : Int) := by
      rw [toIntTrunc_eq hf hx, hneg]; rfl
    -- the value is not an integer, otherwise the truncation would have been the same pattern
    have hne : val f x ≠ ((toIntTrunc f x : Int) : Rat) := by
      intro hc
      have hte : t.e ≠ 0 := by
        intro h0
        have := val_zero f t h0
        rw [htval, ← hc] at this
        linarith
      have := val_inj hf t x htv hx hte hxe (by rw [htval, hc])
      rw [this, eq_self] at heq
      cases heq
    have hfloor : ⌊val f x⌋ = toIntTrunc f x - 1 := by
      rw [Int.floor_eq_iff]
      push_cast
      constructor
      · linarith
      · rcases lt_or_eq_of_le b2 with h | h
        · linarith
        · exact absurd h hne
    rw [hfloor]
    by_cases ha0 : truncMag f x = 0
    · have hn0 : toIntTrunc f x = 0 := by rw [hn, ha0]; rfl
      rw [hzero_t hn0, hn0]
      obtain ⟨y, h1, h2, h3⟩ := isub_one_zero hf hb hone
      exact ⟨y, h1, h2, by rw [h3]; norm_num⟩
    · have hn0 : toIntTrunc f x ≠ 0 := by rw [hn]; omega
      have hnat : (toIntTrunc f x).natAbs = truncMag f x := by rw [hn]; omega
      have hpos : 0 < 2 ^ (f.w - 1) := Nat.two_pow_pos _
      have h2p := two_mul_pow_pred f.w (by have := hf.1; omega)
      obtain ⟨k, hkw, hM1, hM2, hfi⟩ := fromInt_small hf hb (toIntTrunc f x) hn0 (by rw [hnat]; omega)
      rw [hnat] at hM1 hM2 hfi
      have hdec : decide (toIntTrunc f x < 0) = true := by
        rw [hn]; simp; omega
      rw [hdec] at hfi
      have hk : 1 ≤ k := by
        by_contra h
        have : k = 0 := by omega
        rw [this, Nat.pow_zero, Nat.mul_one] at hM1
        omega
      have htt : t = ⟨packMan f (truncMag f x * 2 ^ k) true, f.bias - k⟩ := by
        unfold itrunc at ht
        rw [hfi] at ht
        injection ht with ht
        exact ht.symm
      rw [htt]
      obtain ⟨y, h1, h2, h3⟩ := isub_one_neg hf hb hone (truncMag f x) k hM1 hM2 hk hkw
      refine ⟨y, h1, h2, ?_⟩
      rw [h3, hn]
      push_cast
      ring
  · rw [if_neg hcond]
    refine ⟨t, rfl, htv, ?_⟩
    rw [htval]
    have hcases : Mbf.eq t x = true ∨ isNeg f x = false := by
      cases h1 : Mbf.eq t x <;> cases h2 : isNeg f x <;> simp [h1, h2] at hcond ⊢
    rcases hcases with he | hnn
    · -- the truncation is the argument itself (or both are zero): the value is already an integer
      have hvv : val f x = ((toIntTrunc f x : Int) : Rat) := by
        unfold Mbf.eq at he
        by_cases hz : t.isZero = true
        · rw [if_pos hz] at he
          have h1 : t.e = 0 := by unfold F.isZero at hz; simpa using hz
          have h2 : x.e = 0 := by unfold F.isZero at he; simpa using he
          rw [← htval, val_zero f t h1, val_zero f x h2]
        · rw [if_neg hz] at he
          have : t = x := by simpa using he
          rw [← htval, this]
      rw [hvv, Int.floor_intCast]
    · -- non-negative values: floor = truncation
      have hv : 0 ≤ val f x := by
        by_cases he : x.e = 0
        · rw [val_zero f x he]
        · rw [val_eq f x he]; unfold sg; rw [hnn]
          have := mag_pos hf hx
          simp only [Bool.false_eq_true, if_false]; linarith
      obtain ⟨b1, b2⟩ := tr1 hv
      congr 1
      symm
      rw [Int.floor_eq_iff]
      exact ⟨b1, b2⟩

/-- INT is defined on both formats of the interpreter -/
theorem floor_spec_single_double (x : F) :
    (F.Valid single x → ∃ y, ifloor single x = .ok y ∧ val single y = ((⌊val single x⌋ : Int) : Rat)) ∧
    (F.Valid double x → ∃ y, ifloor double x = .ok y ∧ val double y = ((⌊val double x⌋ : Int) : Rat)) := by
  constructor
  · intro hx
    obtain ⟨y, h1, _, h3⟩ := floor_spec single single_wf (by decide) (by decide) x hx
    exact ⟨y, h1, h3⟩
  · intro hx
    obtain ⟨y, h1, _, h3⟩ := floor_spec double double_wf (by decide) (by decide) x hx
    exact ⟨y, h1, h3⟩

/-! ### integer → float is exact -/

/-- every integer of at most `w` bits (all 16-bit integers in particular) converts exactly -/
theorem fromInt_exact (f : Fmt) (hf : f.WF) (hb : f.bias ≤ 255) (n : Int) (hn : n.natAbs < 2 ^ f.w) :
    ∃ y, fromInt f n = .ok y ∧ F.Valid f y ∧ val f y = n :=
  Mbf.fromInt_exact hf hb n hn

/-- CSNG/CDBL of an Integer pattern is exact in both formats -/
theorem int_to_float_exact (w : Nat) (hw : w < 65536) :
    (∃ y, fromInt single (IntOps.toInt w) = .ok y ∧ val single y = IntOps.toInt w) ∧
    (∃ y, fromInt double (IntOps.toInt w) = .ok y ∧ val double y = IntOps.toInt w) := by
  have h : (IntOps.toInt w).natAbs < 65536 := by unfold IntOps.toInt; split <;> omega
  constructor
  · obtain ⟨y, h1, _, h3⟩ := Mbf.fromInt_exact single_wf (by decide) (IntOps.toInt w)
      (Nat.lt_trans h (by decide))
    exact ⟨y, h1, h3⟩
  · obtain ⟨y, h1, _, h3⟩ := Mbf.fromInt_exact double_wf (by decide) (IntOps.toInt w)
      (Nat.lt_trans h (by decide))
    exact ⟨y, h1, h3⟩

/-! ### single ↔ double -/

/-- CDBL of a single: four zero bytes below the mantissa, exactly the same value -/
theorem fromSingle_exact (s : F) (hs : F.Valid single s) :
    F.Valid double (fromSingle s) ∧ val double (fromSingle s) = val single s :=
  fromSingle_val s hs

/-- CSNG of a double.  With `M = hiMan x` the top 24 mantissa bits, `u = ulpS x` the single ulp at
    this exponent and `φ = frac x ∈ [0,1)` the discarded fraction, the double lies at `±(M+φ)·u`,
    between the adjacent singles `±M·u` (its own top four bytes) and `±(M+1)·u`.  The result is one
    of these two; it is the nearer one whenever `φ` is not within 1/256 above one half
    (`φ < 1/2` → lower, `φ ≥ 1/2 + 1/256` → upper, `φ = 1/2` → the one with even mantissa); the
    three lowest bytes of the double are never looked at.  Overflow only when rounding up from the
    largest single. -/
theorem toSingle_neighbour (x : F) (hx : F.Valid double x) (he : x.e ≠ 0) :
    (2 ^ 23 ≤ hiMan x ∧ hiMan x < 2 ^ 24 ∧ 0 ≤ frac x ∧ frac x < 1 ∧
      val double x = sg double x * ((hiMan x : Rat) + frac x) * ulpS x ∧
      val single (hiSingle x) = sg double x * (hiMan x : Rat) * ulpS x) ∧
    (∀ y, toSingle x = .ok y → F.Valid single y ∧
      (val single y = sg double x * (hiMan x : Rat) * ulpS x ∨
        val single y = sg double x * ((hiMan x : Rat) + 1) * ulpS x) ∧
      (frac x < 1 / 2 → val single y = sg double x * (hiMan x : Rat) * ulpS x) ∧
      (1 / 2 + 1 / 256 ≤ frac x → val single y = sg double x * ((hiMan x : Rat) + 1) * ulpS x) ∧
      (frac x = 1 / 2 → (hiMan x % 2 = 0 → val single y = sg double x * (hiMan x : Rat) * ulpS x) ∧
        (hiMan x % 2 = 1 → val single y = sg double x * ((hiMan x : Rat) + 1) * ulpS x))) ∧
    (∀ c y, toSingle x = .error (c, y) → c = overflow ∧ x.e = 255 ∧ hiMan x + 1 = 2 ^ 24 ∧
      1 / 2 ≤ frac x ∧ y = if isNeg double x then single.negMax else single.posMax) := by
  have hsv := hiSingle_valid hx
  have hmb : 2 ^ 23 ≤ hiMan x ∧ hiMan x < 2 ^ 24 := manOf_bounds single_wf hsv
  have hfb := frac_bounds hx
  have hneg := hiSingle_neg hx
  have he2 : x.e < 256 := hx.2
  obtain ⟨hc1, hc2, hc3⟩ := carry_frac hx
  have hlo : val single (hiSingle x) = sg double x * (hiMan x : Rat) * ulpS x := by
    rw [val_eq' single _ (show (hiSingle x).e ≠ 0 from he)]
    unfold sg; rw [hneg]; rfl
  have hup := pow2_pos ((x.e : Int) - 152)
  have heq := toSingle_eq x hx he
  change toSingle x = if carry x > 128 ∨ (carry x = 128 ∧ hiMan x % 2 = 1) then
      (if hiMan x + 1 = 2 ^ 24 then
        (if x.e = 255 then .error (overflow, if isNeg single (hiSingle x) then single.negMax else single.posMax)
         else .ok ⟨packMan single (2 ^ 23) (isNeg single (hiSingle x)), x.e + 1⟩)
       else .ok ⟨packMan single (hiMan x + 1) (isNeg single (hiSingle x)), x.e⟩)
    else .ok ⟨packMan single (hiMan x) (isNeg single (hiSingle x)), x.e⟩ at heq
  rw [hneg] at heq
  -- the three possible results and their values
  have vdown : val single ⟨packMan single (hiMan x) (isNeg double x), x.e⟩ =
      sg double x * (hiMan x : Rat) * ulpS x := by
    rw [val_pack' single_wf _ _ _ hmb.1 hmb.2 he he2]; rfl
  have vup : hiMan x + 1 ≠ 2 ^ 24 → val single ⟨packMan single (hiMan x + 1) (isNeg double x), x.e⟩ =
      sg double x * ((hiMan x : Rat) + 1) * ulpS x := by
    intro h
    rw [val_pack' single_wf _ _ _ (by show 2 ^ 23 ≤ hiMan x + 1; omega) (by show hiMan x + 1 < 2 ^ 24; omega) he he2]
    push_cast; rfl
  have vcarry : hiMan x + 1 = 2 ^ 24 → x.e ≠ 255 →
      val single ⟨packMan single (2 ^ 23) (isNeg double x), x.e + 1⟩ =
      sg double x * ((hiMan x : Rat) + 1) * ulpS x := by
    intro h h255
    rw [val_pack' single_wf _ _ _ (by decide) (by decide) (by omega) (by omega)]
    have e1 : ((x.e + 1 : Nat) : Int) - single.bias = ((x.e : Int) - 152) + 1 := by
      show ((x.e + 1 : Nat) : Int) - (152 : Nat) = _; omega
    rw [e1, pow2_succ]
    have e2 : (hiMan x : Rat) + 1 = 2 ^ 24 := by exact_mod_cast h
    rw [e2]
    unfold sg ulpS
    push_cast; ring
  have hvalid : ∀ M e neg, 2 ^ 23 ≤ M → M < 2 ^ 24 → e < 256 → F.Valid single ⟨packMan single M neg, e⟩ :=
    fun M e neg h1 h2 h3 => (pack_spec single_wf M e neg h1 h2 h3).1
  have hcr : ((carry x : Nat) : Rat) < 256 * frac x + 1 ∧ 256 * frac x - 1 < (carry x : Nat) := by
    constructor
    · rw [div_le_iff₀ (by norm_num)] at hc1; linarith
    · rw [lt_div_iff₀ (by norm_num)] at hc2; linarith
  refine ⟨⟨hmb.1, hmb.2, hfb.1, hfb.2, val_double_split hx he, hlo⟩, ?_, ?_⟩
  · intro y hy
    rw [heq] at hy
    by_cases hru : carry x > 128 ∨ (carry x = 128 ∧ hiMan x % 2 = 1)
    · rw [if_pos hru] at hy
      have hφ : 1 / 2 ≤ frac x := by
        have : 128 ≤ carry x := by omega
        have : ((128 : Nat) : Rat) ≤ (carry x : Nat) := by exact_mod_cast this
        rw [lt_div_iff₀ (by norm_num)] at hc2
        push_cast at this
        by_contra hlt
        have hc := hcr.1
        rcases hru with h | ⟨h, _⟩
        · have : ((129 : Nat) : Rat) ≤ (carry x : Nat) := by exact_mod_cast h
          push_cast at this; linarith
        · rw [div_le_iff₀ (by norm_num)] at hc1
          rw [h] at hc1; push_cast at hc1; linarith
      have key : F.Valid single y ∧ val single y = sg double x * ((hiMan x : Rat) + 1) * ulpS x := by
        by_cases hov : hiMan x + 1 = 2 ^ 24
        · rw [if_pos hov] at hy
          by_cases h255 : x.e = 255
          · rw [if_pos h255] at hy; cases hy
          · rw [if_neg h255] at hy
            cases hy
            exact ⟨hvalid _ _ _ (by decide) (by decide) (by omega), vcarry hov h255⟩
        · rw [if_neg hov] at hy
          cases hy
          exact ⟨hvalid _ _ _ (by omega) (by omega) he2, vup hov⟩
      refine ⟨key.1, Or.inr key.2, fun h => absurd hφ (not_le.mpr h), fun _ => key.2, fun h => ?_⟩
      refine ⟨fun hev => ?_, fun _ => key.2⟩
      have := hc3 h
      omega
    · rw [if_neg hru] at hy
      cases hy
      refine ⟨hvalid _ _ _ hmb.1 hmb.2 he2, Or.inl vdown, fun _ => vdown, fun h => ?_, fun h => ?_⟩
      · exfalso
        have : carry x ≤ 128 := by omega
        have : ((carry x : Nat) : Rat) ≤ ((128 : Nat) : Rat) := by exact_mod_cast this
        push_cast at this
        have := hcr.2
        linarith
      · refine ⟨fun _ => vdown, fun hodd => ?_⟩
        have := hc3 h
        exact absurd (Or.inr ⟨this, hodd⟩) hru
  · intro c y hy
    rw [heq] at hy
    by_cases hru : carry x > 128 ∨ (carry x = 128 ∧ hiMan x % 2 = 1)
    · rw [if_pos hru] at hy
      by_cases hov : hiMan x + 1 = 2 ^ 24
      · rw [if_pos hov] at hy
        by_cases h255 : x.e = 255
        · rw [if_pos h255] at hy
          injection hy with hy
          injection hy with h1 h2
          refine ⟨h1.symm, h255, hov, ?_, h2.symm⟩
          have : 128 ≤ carry x := by omega
          have : ((128 : Nat) : Rat) ≤ (carry x : Nat) := by exact_mod_cast this
          push_cast at this
          have := hcr.1
          by_contra hlt
          rcases hru with h | ⟨h, _⟩
          · have : ((129 : Nat) : Rat) ≤ (carry x : Nat) := by exact_mod_cast h
            push_cast at this; linarith
          · rw [div_le_iff₀ (by norm_num)] at hc1
            rw [h] at hc1; push_cast at hc1; linarith
        · rw [if_neg h255] at hy; cases hy
      · rw [if_neg hov] at hy; cases hy
    · rw [if_neg hru] at hy; cases hy

/-! ### MKI$/MKS$/MKD$ and CVI/CVS/CVD -/

/-- CVx of the MKx$ string gives back the buffer, and MKx$ of a CVx value is the first `n` bytes
    of the string; shorter strings are refused (buffer level) -/
theorem mk_cv_id (n : Nat) :
    (∀ buf : Bytes, buf.length = n → cv n (mk buf) = .ok buf) ∧
    (∀ s buf, cv n s = .ok buf → mk buf = s.take n ∧ buf.length = n) ∧
    (∀ s : Bytes, s.length < n ↔ cv n s = .error ifc) := by
  refine ⟨fun buf h => ?_, fun s buf h => ?_, fun s => ?_⟩
  · unfold cv mk; rw [if_neg (by omega)]; rw [← h, List.take_length]
  · unfold cv at h
    split at h
    · cases h
    · injection h with h; subst h
      exact ⟨rfl, by rw [List.length_take]; omega⟩
  · unfold cv; constructor
    · intro h; rw [if_pos h]
    · intro h; split at h
      · assumption
      · cases h

/-- the buffer of a value determines the value and vice versa: Integer patterns -/
theorem mki_cvi (w : Nat) (hw : w < 65536) : cvi (mki w) = .ok w ∧ (mki w).length = 2 := by
  unfold cvi mki
  have hl : (intBytes w).length = 2 := length_leBytes 2 w
  rw [(mk_cv_id 2).1 _ hl]
  exact ⟨by show Except.ok (leVal (leBytes 2 w)) = _; rw [leVal_leBytes 2 w (by omega)], hl⟩

theorem cvi_mki (s : Bytes) (hs : s.ok) (hl : 2 ≤ s.length) :
    ∃ w, cvi s = .ok w ∧ w < 65536 ∧ mki w = s.take 2 := by
  have hl2 : (s.take 2).length = 2 := by rw [List.length_take]; omega
  have hok : Bytes.ok (s.take 2) := fun b hb => hs b (List.mem_of_mem_take hb)
  refine ⟨leVal (s.take 2), ?_, ?_, ?_⟩
  · unfold cvi cv; rw [if_neg (by omega)]; rfl
  · have := leVal_lt _ hok; rw [hl2] at this; exact this
  · have := leBytes_leVal _ hok; rw [hl2] at this; exact this

/-- floats: MKS$/MKD$ then CVS/CVD is the identity on stored values -/
theorem mkf_cvf (f : Fmt) (hf : f.WF) (h8 : f.w % 8 = 0) (x : F) (hx : F.Valid f x) :
    cvf f (mkf f x) = .ok x := by
  have hl : (leBytes (f.w / 8) x.m).length = f.w / 8 := length_leBytes _ _
  have hlen : (floatBytes f x).length = f.w / 8 + 1 := by
    unfold floatBytes; rw [List.length_append, hl]; rfl
  unfold cvf mkf
  rw [(mk_cv_id _).1 _ hlen]
  show Except.ok (floatOfBytes (floatBytes f x)) = _
  unfold floatOfBytes floatBytes
  rw [List.dropLast_concat, List.getLastD_concat]
  have : x.m < 256 ^ (f.w / 8) := by
    have h1 : (256 : Nat) ^ (f.w / 8) = 2 ^ (8 * (f.w / 8)) := by
      rw [Nat.pow_mul]
    have h2 : 8 * (f.w / 8) = f.w := by omega
    rw [h1, h2]; exact hx.1
  rw [leVal_leBytes _ _ this]

/-- and CVS/CVD then MKS$/MKD$ gives back exactly the first 4/8 bytes of any string: every
    bit pattern (zero exponent with nonzero mantissa, sign bits, maximum exponent) is preserved -/
theorem cvf_mkf (f : Fmt) (s : Bytes) (hs : s.ok) (hl : f.w / 8 + 1 ≤ s.length) :
    ∃ x, cvf f s = .ok x ∧ mkf f x = s.take (f.w / 8 + 1) ∧ x.e < 256 ∧ x.m < 256 ^ (f.w / 8) := by
  have hl2 : (s.take (f.w / 8 + 1)).length = f.w / 8 + 1 := by rw [List.length_take]; omega
  have hok : Bytes.ok (s.take (f.w / 8 + 1)) := fun b hb => hs b (List.mem_of_mem_take hb)
  have hcv : cvf f s = .ok (floatOfBytes (s.take (f.w / 8 + 1))) := by
    unfold cvf cv; rw [if_neg (by omega)]; rfl
  rw [hcv]
  generalize s.take (f.w / 8 + 1) = t at hl2 hok ⊢
  have hne : t ≠ [] := by intro h; rw [h] at hl2; simp at hl2
  have hdl : t.dropLast.length = f.w / 8 := by rw [List.length_dropLast, hl2]; rfl
  have hokd : Bytes.ok t.dropLast := fun b hb => hok b (List.mem_of_mem_dropLast hb)
  have hlast : t.getLastD 0 = t.getLast hne := by
    rw [List.getLastD_eq_getLast?, List.getLast?_eq_getLast hne]; rfl
  refine ⟨floatOfBytes t, rfl, ?_, ?_, ?_⟩
  · unfold mkf mk floatBytes floatOfBytes
    simp only
    have := leBytes_leVal _ hokd
    rw [hdl] at this
    rw [this, hlast]
    exact List.dropLast_append_getLast hne
  · show t.getLastD 0 < 256
    rw [hlast]; exact hok _ (List.getLast_mem hne)
  · have := leVal_lt _ hokd
    rw [hdl] at this; exact this

/-! ### HEX$/OCT$ against &H/&O -/

/-- every 16-bit pattern survives HEX$ → &H and OCT$ → &O; digits are valid and non-empty -/
theorem hex_oct_roundtrip (w : Nat) (hw : w < 65536) :
    fromHex (HexOct.toHex w) = .ok w ∧ fromOct (toOct w) = .ok w ∧
    (∀ d ∈ HexOct.toHex w, d < 16) ∧ (∀ d ∈ toOct w, d < 8) ∧ HexOct.toHex w ≠ [] ∧ toOct w ≠ [] := by
  have h16 : w < 16 ^ 16 := Nat.lt_trans hw (by decide)
  have h8 : w < 8 ^ 16 := Nat.lt_trans hw (by decide)
  obtain ⟨_, a2, a3⟩ := foldr_digitsRev 16 (by decide) 16 w (by decide) h16
  obtain ⟨_, b2, b3⟩ := foldr_digitsRev 8 (by decide) 16 w (by decide) h8
  have hx : HexOct.toHex w ≠ [] := by unfold HexOct.toHex toDigits; simpa using a2
  have ho' : toDigits 8 w ≠ [] := by unfold toDigits; simpa using b2
  have ho : toOct w ≠ [] := by unfold toOct; split; simp; exact ho'
  have hfi : ∀ n : Nat, n < 65536 → fromIntU (n : Int) = .ok n := by
    intro n hn
    unfold fromIntU IntOps.pack
    have h0 : ¬ ((n : Int) < 0) := by omega
    have h1 : -32768 ≤ (n : Int) ∧ (n : Int) ≤ 65535 := by omega
    simp only [h0, if_false, if_true, h1, and_self]
    congr 1
  refine ⟨?_, ?_, ?_, ?_, hx, ho⟩
  · unfold fromHex
    have : (HexOct.toHex w).isEmpty = false := by cases h : HexOct.toHex w with
      | nil => exact absurd h hx
      | cons _ _ => rfl
    rw [this]
    simp only [Bool.false_eq_true, if_false]
    unfold HexOct.toHex
    rw [ofDigits_toDigits 16 (by decide) w h16]
    exact hfi w hw
  · unfold fromOct
    have : (toOct w).isEmpty = false := by cases h : toOct w with
      | nil => exact absurd h ho
      | cons _ _ => rfl
    rw [this]
    simp only [Bool.false_eq_true, if_false]
    have : ofDigits 8 (toOct w) = w := by
      unfold toOct
      split
      · next h => subst h; rfl
      · exact ofDigits_toDigits 8 (by decide) w h8
    rw [this]
    exact hfi w hw
  · intro d hd; unfold HexOct.toHex toDigits at hd; exact a3 d (by simpa using hd)
  · intro d hd
    unfold toOct at hd
    split at hd
    · simp at hd; omega
    · unfold toDigits at hd; exact b3 d (by simpa using hd)

/-- a literal whose digits denote a number above 65535 is refused with Overflow -/
theorem hex_oct_overflow (ds : List Nat) :
    (65536 ≤ ofDigits 16 ds → fromHex ds = .error IntOps.overflow) ∧
    (65536 ≤ ofDigits 8 ds → fromOct ds = .error IntOps.overflow) ∧
    (ofDigits 16 ds < 65536 → fromHex ds = .ok (ofDigits 16 ds)) ∧
    (ofDigits 8 ds < 65536 → fromOct ds = .ok (ofDigits 8 ds)) := by
  have hemp : ∀ b, ds.isEmpty = true → ofDigits b ds = 0 := by
    intro b h; cases ds with
    | nil => rfl
    | cons _ _ => cases h
  have key : ∀ b, (if ds.isEmpty = true then (0 : Int) else ((ofDigits b ds : Nat) : Int)) = (ofDigits b ds : Nat) := by
    intro b; split
    · next h => rw [hemp b h]; rfl
    · rfl
  have hfi : ∀ n : Nat, (65536 ≤ n → fromIntU (n : Int) = .error IntOps.overflow) ∧
      (n < 65536 → fromIntU (n : Int) = .ok n) := by
    intro n
    unfold fromIntU IntOps.pack
    have h0 : ¬ ((n : Int) < 0) := by omega
    simp only [h0, if_false]
    constructor
    · intro h
      have h1 : ¬ (-32768 ≤ (n : Int) ∧ (n : Int) ≤ 65535) := by omega
      rw [if_neg h1]
    · intro h
      have h1 : -32768 ≤ (n : Int) ∧ (n : Int) ≤ 65535 := by omega
      rw [if_pos h1]; congr 1
  unfold fromHex fromOct
  rw [key 16, key 8]
  exact ⟨(hfi _).1, (hfi _).1, (hfi _).2, (hfi _).2⟩

/-- the argument conversion of HEX$/OCT$ (`to_integer(unsigned=True)`): numbers -32768..65535 are
    accepted and stored modulo 65536, everything else is Overflow -/
theorem hexarg_spec (n : Int) :
    (-32768 ≤ n ∧ n ≤ 65535 → ∃ w, fromIntU n = .ok w ∧ w < 65536 ∧
      ((w : Int) = n ∨ (w : Int) = n + 65536)) ∧
    (¬ (-32768 ≤ n ∧ n ≤ 65535) → fromIntU n = .error IntOps.overflow) := by
  unfold fromIntU
  constructor
  · intro h
    rw [if_pos h]
    refine ⟨_, rfl, ?_, ?_⟩ <;> unfold IntOps.pack <;> split <;> omega
  · intro h; rw [if_neg h]

/-- defect C03-D1 of the unrepaired code: the same conversion wrapped -40000 silently and let a
    Python `struct.error` escape for -65537 (`PRINT HEX$(-65537)`) -/
theorem hexarg_counterexample :
    fromIntUOld (-40000) = .ok 25536 ∧ fromIntUOld (-65537) = .error hostError ∧
    ¬ (∀ n : Int, ¬ (-32768 ≤ n ∧ n ≤ 65535) → fromIntUOld n = .error IntOps.overflow) := by
  refine ⟨by decide, by decide, fun h => ?_⟩
  have := h (-65537) (by decide)
  revert this; decide

/-! ### non-vacuity: the hypotheses hold for both formats, and the functions compute -/

example : single.WF ∧ single.bias ≤ 255 ∧ single.one = ⟨0, 129⟩ ∧ single.w % 8 = 0 := by decide
example : double.WF ∧ double.bias ≤ 255 ∧ double.one = ⟨0, 129⟩ ∧ double.w % 8 = 0 := by decide
example : F.Valid single ⟨0x200000, 0x82⟩ ∧ F.Valid double ⟨0x80000000, 0x81⟩ := by decide
-- 2.5 → 3, -2.5 → -3, FIX(-2.5) = -2, INT(-2.5) = -3
example : toInt single ⟨0x200000, 0x82⟩ = 3 ∧ toInt single ⟨0xA00000, 0x82⟩ = -3 := by decide
example : toIntTrunc single ⟨0xA00000, 0x82⟩ = -2 := by decide
example : ifloor single ⟨0xA00000, 0x82⟩ = .ok ⟨0xC00000, 0x82⟩ := by decide
-- 32767.5 overflows, 32767.49 does not
example : cint single ⟨0x7FFF00, 0x8F⟩ = .error IntOps.overflow ∧ cint single ⟨0x7FFEFF, 0x8F⟩ = .ok 32767 := by
  decide
-- carry byte 0x80: tie goes to the even mantissa (down for ...00, up for ...01)
example : toSingle ⟨0x80000000, 0x81⟩ = .ok ⟨0, 0x81⟩ ∧ toSingle ⟨0x180000000, 0x81⟩ = .ok ⟨2, 0x81⟩ := by decide
example : HexOct.toHex 65535 = [15, 15, 15, 15] ∧ toOct 65535 = [1, 7, 7, 7, 7, 7] ∧ toOct 0 = [0] := by decide
example : fromHex [1, 0, 0, 0, 0] = .error IntOps.overflow ∧ fromHex [] = .ok 0 := by decide

end PcbV.C03
