"""C39: constants of the RND generator (values/randomiser.py) -> lean/PcbV/Gen/Rnd.lean."""
import sys

# gen_tables.py is normally executed as a script (module name __main__); register there, so that
# the generator list that main() walks is the one we append to.
_gt = sys.modules.get('__main__')
if not hasattr(_gt, 'GENERATORS') or not hasattr(_gt, 'generator'):
    import gen_tables as _gt

generator, HEADER = _gt.generator, _gt.HEADER


@generator('Rnd')
def gen_rnd():
    from pcbasic.basic.values.randomiser import Randomiser
    # the initial seed is whatever clear() installs (no class attribute for it)
    r = Randomiser.__new__(Randomiser)
    r.clear()
    consts = [
        ('multiplier', Randomiser._multiplier, 'Randomiser._multiplier'),
        ('increment', Randomiser._increment, 'Randomiser._increment'),
        ('period', Randomiser._period, 'Randomiser._period'),
        ('step', Randomiser._step, 'Randomiser._step'),
        ('initSeed', r._seed, 'seed installed by Randomiser.clear()'),
    ]
    out = [HEADER, 'namespace PcbV.Gen.Rnd\n']
    for name, val, doc in consts:
        if not isinstance(val, int) or isinstance(val, bool) or val < 0:
            raise ValueError('C39 translator: %s is not a natural number: %r' % (doc, val))
        out.append('/-- %s -/' % doc)
        out.append('def %s : Nat := %d' % (name, val))
    out.append('\nend PcbV.Gen.Rnd\n')
    return '\n'.join(out)
