import PcbV.Model.Promote
import PcbV.Lemmas.C05Mul
/-
  C05 lemmas, part 4: result types of the promotion model.
-/
namespace PcbV.Mbf

/-- `from_int` of a non-zero integer whose magnitude needs `k` left shifts to fill the mantissa -/
theorem fromInt_shape (f : Fmt) (h : f.WF) (n : Int) (k : Nat) (hn : n ≠ 0)
    (h1 : f.signMask ≤ n.natAbs * 2 ^ k) (h2 : n.natAbs * 2 ^ k < 2 * f.signMask)
    (hk : k ≤ f.w) (_hb1 : k < f.bias) (hb2 : f.bias - k ≤ 255) :
    fromInt f n = .ok ⟨packMan f (n.natAbs * 2 ^ k) (decide (n < 0)), f.bias - k⟩ := by
  obtain ⟨hS, hm, hpm, _, _, hw, _, hb⟩ := wf_S f h
  have hsm : f.signMask = 2 ^ (f.w - 1) := h.2.2.2.2.2.1
  unfold fromInt
  rw [if_neg hn]
  unfold bringToRange
  have hfuel : Nat.log2 (f.posMask + 1) = f.w - 1 := by rw [hpm, hsm, Nat.log2_two_pow]
  rw [hfuel, hpm, shiftUp_pow k _ _ _ _ h1 h2 (by omega)]
  simp only []
  have hsd := shiftDown_pow 0 (Nat.log2 (n.natAbs * 2 ^ k) + 2) f.mask ((f.bias : Int) - k) (n.natAbs * 2 ^ k)
    (by omega) (by omega) (by omega)
  rw [Nat.pow_zero, Nat.mul_one] at hsd
  rw [hsd]
  simp only []
  unfold checkLimits
  rw [if_neg (by omega), if_neg (by omega)]
  congr 2
  omega

theorem exists_shift (a : Nat) (h1 : 1 ≤ a) (h2 : a ≤ 32768) :
    ∃ k, k ≤ 23 ∧ 8388608 ≤ a * 2 ^ k ∧ a * 2 ^ k < 16777216 := by
  have hne : a ≠ 0 := by omega
  have hL1 := Nat.log2_self_le hne
  have hL2 := Nat.lt_log2_self (n := a)
  have hL : a.log2 < 16 := (Nat.log2_lt hne).2 (by omega)
  generalize a.log2 = L at *
  have hc : L = 0 ∨ L = 1 ∨ L = 2 ∨ L = 3 ∨ L = 4 ∨ L = 5 ∨ L = 6 ∨ L = 7 ∨ L = 8 ∨ L = 9 ∨ L = 10 ∨
      L = 11 ∨ L = 12 ∨ L = 13 ∨ L = 14 ∨ L = 15 := by omega
  refine ⟨23 - L, by omega, ?_, ?_⟩ <;>
    rcases hc with rfl | rfl | rfl | rfl | rfl | rfl | rfl | rfl | rfl | rfl | rfl | rfl | rfl | rfl | rfl | rfl <;>
    simp only [Nat.reducePow, Nat.reduceSub, Nat.reduceAdd] at * <;> omega

end PcbV.Mbf

namespace PcbV.Promote
open PcbV PcbV.Mbf

/-- result type of a binary arithmetic operator: Double iff an operand is Double, else Single
    (Integer operands are promoted to Single first, so Integer op Integer is Single) -/
def resTy (a b : Ty) : Ty := if a = .dbl ∨ b = .dbl then .dbl else .sng
/-- result type of unary minus and ABS: Integer is promoted to Single -/
def unTy (a : Ty) : Ty := if a = .dbl then .dbl else .sng

theorem wrap_ty (t : Ty) (r : FR) : (wrap t r).ty = if t = .dbl then .dbl else .sng := by
  cases t <;> rcases r with ⟨c, x⟩ | x <;> rfl

theorem matched_ty (op : Fmt → F → F → FR) (a b : V) :
    (matched op a b).ty = resTy a.ty b.ty := by
  unfold matched resTy
  cases a <;> cases b <;> simp [isDbl, wrap_ty, V.ty]

/-- Integer → Single → Double and Integer → Double give the same bytes, for all 65536 integers -/
theorem int_widen (w : Nat) (hw : w < 65536) : fromSingle (intToF single w) = intToF double w := by
  unfold intToF
  by_cases hn : IntOps.toInt w = 0
  · rw [hn]; decide
  · have ha1 : 1 ≤ (IntOps.toInt w).natAbs := by omega
    have ha2 : (IntOps.toInt w).natAbs ≤ 32768 := by unfold IntOps.toInt; split <;> omega
    obtain ⟨k, hk, hk1, hk2⟩ := exists_shift _ ha1 ha2
    generalize IntOps.toInt w = n at *
    have hs1 : single.signMask = 8388608 := by decide
    have hd1 : double.signMask = 36028797018963968 := by decide
    have hsb : single.bias = 152 := by decide
    have hdb : double.bias = 184 := by decide
    have e32 : n.natAbs * 2 ^ (k + 32) = n.natAbs * 2 ^ k * 4294967296 := by
      rw [Nat.pow_add, Nat.mul_assoc]
    rw [fromInt_shape single single_wf n k hn (by rw [hs1]; omega) (by rw [hs1]; omega)
          (by rw [single_w]; omega) (by rw [hsb]; omega) (by rw [hsb]; omega),
        fromInt_shape double double_wf n (k + 32) hn (by rw [hd1, e32]; omega) (by rw [hd1, e32]; omega)
          (by rw [double_w]; omega) (by rw [hdb]; omega) (by rw [hdb]; omega)]
    simp only [fromSingle, hsb, hdb, e32]
    have hsm : single.mask + 1 = 16777216 := by decide
    have hsp : single.posMask + 1 = 8388608 := by decide
    have hdm : double.mask + 1 = 72057594037927936 := by decide
    have hdp : double.posMask + 1 = 36028797018963968 := by decide
    generalize n.natAbs * 2 ^ k = M at *
    have e2 : 184 - (k + 32) = 152 - k := by omega
    have e1 : packMan double (M * 4294967296) (decide (n < 0)) = packMan single M (decide (n < 0)) * 2 ^ 32 := by
      unfold packMan
      rw [hsm, hsp, hdm, hdp]
      by_cases hneg : n < 0 <;>
        simp only [hneg, decide_true, decide_false, if_true, if_false, Bool.false_eq_true, Nat.reducePow] <;> omega
    rw [e1, e2]

/-- a value as it can be stored: 16-bit integer pattern, float bytes in range -/
def V.Stored : V → Prop
  | .int w => w < 65536
  | .sng x => F.Valid single x
  | .dbl x => F.Valid double x

instance (v : V) : Decidable v.Stored := by
  cases v <;> unfold V.Stored <;> exact inferInstance

/-- the Single an Integer is promoted to is a stored value -/
theorem intToF_single_valid (w : Nat) (hw : w < 65536) : F.Valid single (intToF single w) := by
  unfold intToF
  by_cases hn : IntOps.toInt w = 0
  · rw [hn]; decide
  · have ha1 : 1 ≤ (IntOps.toInt w).natAbs := by omega
    have ha2 : (IntOps.toInt w).natAbs ≤ 32768 := by unfold IntOps.toInt; split <;> omega
    obtain ⟨k, hk, hk1, hk2⟩ := exists_shift _ ha1 ha2
    generalize IntOps.toInt w = n at *
    have hs1 : single.signMask = 8388608 := by decide
    have hsb : single.bias = 152 := by decide
    rw [fromInt_shape single single_wf n k hn (by rw [hs1]; omega) (by rw [hs1]; omega)
          (by rw [single_w]; omega) (by rw [hsb]; omega) (by rw [hsb]; omega)]
    have hsm : single.mask + 1 = 16777216 := by decide
    have hsp : single.posMask + 1 = 8388608 := by decide
    refine ⟨?_, ?_⟩
    · show packMan single _ _ < 2 ^ single.w
      rw [single_w]
      unfold packMan
      rw [hsm, hsp]
      split <;> omega
    · show single.bias - k < 256
      rw [hsb]; omega

end PcbV.Promote
