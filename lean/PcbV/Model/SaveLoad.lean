import PcbV.Basic
import PcbV.Gen.Errors
import PcbV.Gen.Protect
import PcbV.Model.Protect
/-
  PcbV.SaveLoad — byte-level model of SAVE / LOAD for tokenised (B) and protected (P) files:
    implementation.py: save_/load_            (which stream is opened with which filetype)
    devices/disk.py:_create_file_object       (magic byte → file type)
    devices/diskfiles.py:BinaryFile           (magic byte written on open-for-output, 0x1A on close,
                                               magic byte dropped on open-for-input)
    program.py: Program.save / load / erase / rebuild_line_dict
    base/codestream.py: skip_to(END_LINE)     (how rebuild_line_dict finds the end of a line)

  The program buffer `buf` is the whole `bytecode` BytesIO (`getvalue()`), `size` is `code_size`
  (what `Program.size()` returns; program memory = the first `size` bytes), `prot` the `protected`
  flag.  `cs` is `memory.code_start`.  Images ≥ 64K are outside the model (struct.pack('<H') would
  raise); offsets are reduced mod 65536 here.
-/
namespace PcbV.SaveLoad
open PcbV PcbV.Protect

structure Image where
  buf : Bytes
  size : Nat
  prot : Bool
deriving DecidableEq, Repr

inductive Fmt | B | P
deriving DecidableEq, Repr

def eofByte : Nat := 0x1A

/-- tokens.PLUS_BYTES (without NUL): number of payload bytes that follow a token -/
def plusBytes (c : Nat) : Nat := (Gen.Protect.plusBytesTable.lookup c).getD 0

/-- `literal` after reading `c` (skip_to: `if c == '"': literal = not literal`) -/
def litNext (lit : Bool) (c : Nat) : Bool := if c = 34 then !lit else lit
/-- `rem` after reading `c` (`elif c == tk.REM and not literal: rem = True`; `lit` is the flag
    before `c`, which is unchanged in this branch) -/
def remNext (lit rem : Bool) (c : Nat) : Bool :=
  if c ≠ 34 ∧ c = Gen.Protect.remToken ∧ lit = false then true else rem
/-- payload bytes to jump over after `c` (none while inside a literal or a REM) -/
def skipNext (lit rem : Bool) (c : Nat) : Nat :=
  if litNext lit c || remNext lit rem c then 0 else plusBytes c

/-- `CodeStream.skip_to(tk.END_LINE)`: number of bytes passed before the stream stops – in front of
    the first NUL that is not the payload of a token, or at the end of the stream.
    `k` = payload bytes still to be jumped over (`self.read(tk.PLUS_BYTES[c])`). -/
def skipTo : Bool → Bool → Nat → Bytes → Nat
  | _, _, _, [] => 0
  | lit, rem, k + 1, _ :: bs => 1 + skipTo lit rem k bs
  | lit, rem, 0, c :: bs =>
    if c = 0 then 0
    else 1 + skipTo (litNext lit c) (remNext lit rem c) (skipNext lit rem c) bs

/-- end of `rebuild_line_dict`: `self.bytecode.write(b'\0\0\0')` at the start of the terminating
    (or truncated) line; `code_size = tell()` -/
def sealAt (pos : Nat) (rest : Bytes) : Bytes × Nat := ([0, 0, 0] ++ rest.drop 3, pos + 3)

/-- `Program.rebuild_line_dict` (with `rebuild_offsets=True`) from stream position `pos`, where
    `rest` is the buffer from `pos` on.  Returns the rewritten rest of the buffer and `code_size`.
    One iteration = one program line: pass a byte, read offset and line number (4 bytes; fewer
    than 4, or offset 00 00 = end of program), `skip_to(END_LINE)`; the offset field is rewritten to
    `code_start + 1 + <position of the next line>`. -/
def rebuildAux (cs : Nat) : Nat → Nat → Bytes → Bytes × Nat
  | 0, pos, rest => sealAt pos rest
  | fuel + 1, pos, z :: o1 :: o2 :: l1 :: l2 :: body =>
    if o1 = 0 ∧ o2 = 0 then sealAt pos (z :: o1 :: o2 :: l1 :: l2 :: body)
    else
      let n := skipTo false false 0 body
      let np := pos + 5 + n
      let a := cs + 1 + np
      let r := rebuildAux cs fuel np (body.drop n)
      (z :: a % 256 :: a / 256 % 256 :: l1 :: l2 :: (body.take n ++ r.1), r.2)
  | _ + 1, pos, rest => sealAt pos rest

/-- every line takes at least 5 bytes, so `length + 1` iterations always suffice -/
def rebuild (cs : Nat) (buf : Bytes) : Bytes × Nat := rebuildAux cs (buf.length + 1) 0 buf

/-- `BytesIO.write(new)` at position `pos` of `old` -/
def writeAt (old : Bytes) (pos : Nat) (new : Bytes) : Bytes :=
  old.take pos ++ new ++ old.drop (pos + new.length)

/-- `Program.save(g)` + BinaryFile open/close: the bytes of the file.  `bytecode.seek(1)`, then the
    WHOLE rest of the buffer is written (not only the first `size` bytes). -/
def saveFile (k : Keys) (img : Image) (fmt : Fmt) : R Bytes :=
  if img.prot ∧ fmt ≠ Fmt.P then .error Gen.E.ifc
  else match fmt with
    | .B => .ok (Gen.Protect.magicB :: (img.buf.drop 1 ++ [eofByte]))
    | .P => .ok (Gen.Protect.magicP :: (protect k (img.buf.drop 1) ++ [eofByte]))

/-- what `erase()` leaves before the payload is written at position 1 -/
def erased : Bytes := [0, 0, 0]

/-- `Program.load(g)` for a file opened with filetype 'ABP': the magic byte selects the type.
    B: everything after the magic byte – including the 0x1A that SAVE appended – is written at
       position 1;  P: the decoded stream (unprotect drops the last byte).
    A file starting with the BSAVE magic is refused (Bad file mode); any other first byte (or an
    empty file) is an ASCII file, which is outside this model (`error 0`). -/
def loadFile (k : Keys) (cs : Nat) (allowProtect : Bool) (file : Bytes) : R Image :=
  match file with
  | [] => .error 0
  | m :: payload =>
    if m = Gen.Protect.magicB then
      let r := rebuild cs (writeAt erased 1 payload)
      .ok ⟨r.1, r.2, false⟩
    else if m = Gen.Protect.magicP then
      let r := rebuild cs (writeAt erased 1 (unprotect k payload))
      .ok ⟨r.1, r.2, allowProtect⟩
    else if m = Gen.Protect.magicM then .error Gen.E.bad_file_mode
    else .error 0

/-! ### the code before commit 2fa7934d ("byte 0x8F inside a string literal …", found independently for C22 and C15)
  `skip_to` set `rem = True` on the byte 0x8F even inside a string literal; from there to the end of
  the line token payloads were no longer jumped over, so a NUL inside a later constant was taken for
  the end of the line and `rebuild_line_dict` wrote an offset into the middle of the line. -/

def remNextOld (rem : Bool) (c : Nat) : Bool :=
  if c ≠ 34 ∧ c = Gen.Protect.remToken then true else rem
def skipNextOld (lit rem : Bool) (c : Nat) : Nat :=
  if litNext lit c || remNextOld rem c then 0 else plusBytes c

def skipToOld : Bool → Bool → Nat → Bytes → Nat
  | _, _, _, [] => 0
  | lit, rem, k + 1, _ :: bs => 1 + skipToOld lit rem k bs
  | lit, rem, 0, c :: bs =>
    if c = 0 then 0
    else 1 + skipToOld (litNext lit c) (remNextOld rem c) (skipNextOld lit rem c) bs

def rebuildAuxOld (cs : Nat) : Nat → Nat → Bytes → Bytes × Nat
  | 0, pos, rest => sealAt pos rest
  | fuel + 1, pos, z :: o1 :: o2 :: l1 :: l2 :: body =>
    if o1 = 0 ∧ o2 = 0 then sealAt pos (z :: o1 :: o2 :: l1 :: l2 :: body)
    else
      let n := skipToOld false false 0 body
      let np := pos + 5 + n
      let a := cs + 1 + np
      let r := rebuildAuxOld cs fuel np (body.drop n)
      (z :: a % 256 :: a / 256 % 256 :: l1 :: l2 :: (body.take n ++ r.1), r.2)
  | _ + 1, pos, rest => sealAt pos rest

def rebuildOld (cs : Nat) (buf : Bytes) : Bytes × Nat := rebuildAuxOld cs (buf.length + 1) 0 buf

/-! ### the memory check of `Program.store_line` (what MERGE, CHAIN MERGE, ASCII LOAD and typing a line go through)
  `pos` = buffer position where the line goes, `restLen` = bytes of the buffer from `afterpos` (the first
  line with a greater number) to its end, `length` = length of the tokenised new line, `stackStart` =
  `memory.stack_start()`.  The line that is replaced (the bytes `pos .. afterpos`) is not counted. -/

/-- `if self.code_start + 1 + pos + length + len(rest) - 3 > self._memory.stack_start(): raise Out of memory` -/
def storeOom (cs stackStart pos length restLen : Nat) : Bool :=
  decide ((cs + 1 + pos + length + restLen : Int) - 3 > stackStart)

/-- a program buffer of `size` bytes is acceptable to that check (what it demands of the FINAL program) -/
def programFits (cs stackStart size : Nat) : Prop := (cs + 1 + size : Int) - 3 ≤ stackStart

/-- program memory: what PEEK sees of the program, the first `size()` bytes of the buffer -/
def Image.memory (img : Image) : Bytes := img.buf.take img.size

end PcbV.SaveLoad
