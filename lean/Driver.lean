import PcbV.Drv.All
/-
  Line-protocol driver: one request per line `<prop> <op> <args…>`, one reply per line.
  The loop and the string parsing are not part of any theorem.
-/
open PcbV

partial def loop (h : IO.FS.Stream) (out : IO.FS.Stream) : IO Unit := do
  let line ← h.getLine
  if line.isEmpty then return ()
  let ws := (line.trimAscii.toString.splitOn " ").filter (· ≠ "")
  out.putStrLn (PcbV.Drv.dispatch ws)
  loop h out

def main : IO Unit := do
  let out ← IO.getStdout
  loop (← IO.getStdin) out
  out.flush
