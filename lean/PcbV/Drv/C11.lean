import PcbV.Model.VarMem
namespace PcbV.Drv.C11
open PcbV PcbV.VarMem

def allSome : List (Option α) → Option (List α)
  | [] => some []
  | none :: _ => none
  | some x :: xs => (allSome xs).map (x :: ·)

def parseNats (t : String) : Option (List Nat) :=
  if t == "-" then some [] else allSome ((t.splitOn ",").map String.toNat?)

def parseDst (t : String) : Option Dst :=
  match t.toList with
  | 's' :: r => (ofHex (String.ofList r)).map Dst.sc
  | 'e' :: r =>
    match (String.ofList r).splitOn "." with
    | [h, i] => match ofHex h, parseNats i with
                | some n, some i => some (Dst.el n i)
                | _, _ => none
    | _ => none
  | _ => none

def parseVal (t : String) : Option Val :=
  match t.toList with
  | 'n' :: r => (ofHex (String.ofList r)).map Val.num
  | 's' :: r => (ofHex (String.ofList r)).map Val.str
  | _ => none

def parseOp (t : String) : Option Op :=
  match t.splitOn ":" with
  | ["let", d, v] => do let d ← parseDst d; let v ← parseVal v; pure (Op.letv d v)
  | ["dim", n, ds] => do let n ← ofHex n; let ds ← parseNats ds; pure (Op.dim n ds)
  | ["swap", a, b] => do let a ← parseDst a; let b ← parseDst b; pure (Op.swap a b)
  | ["erase", ns] => (allSome ((ns.splitOn ",").map ofHex)).map Op.erase
  | _ => none

/-- `n` PEEKs from `p` -/
def peeks (s : VM) (p n : Nat) : Bytes := (List.range n).map (fun i => peek s (p + i))

/-- a string cell as PEEK shows it: length, then the characters found at the address -/
def showStrAt (s : VM) (p : Nat) : String :=
  let len := peek s p
  let addr := peek s (p + 1) + 256 * peek s (p + 2)
  toString len ++ "~" ++ toHex (peeks s addr len)

def showScalar (s : VM) (r : SRec) : String :=
  match varptr s (.sc r.name) with
  | .error e => "S" ++ toHex r.name ++ "@E" ++ toString e
  | .ok vp =>
    "S" ++ toHex r.name ++ "@" ++ toString vp
      ++ ":" ++ toHex (peeks s (vp - recSize r.name) (recSize r.name))
      ++ ":" ++ (if isStr r.name then showStrAt s vp else toHex (peeks s vp (vsize r.name)))
      ++ ":" ++ (match varptrStr s (.sc r.name) with
                 | .ok b => toHex b
                 | .error e => "E" ++ toString e)

def showArray (s : VM) (a : ARec) : String :=
  let n := flatLength s.base a.dims
  let first := a.dims.map (fun _ => s.base)
  match varptr s (.el a.name first) with
  | .error e => "A" ++ toHex a.name ++ "@E" ++ toString e
  | .ok vp =>
    "A" ++ toHex a.name ++ "@" ++ toString vp
      ++ ":" ++ showNats a.dims
      ++ ":" ++ toHex (peeks s (vp - arecSize a.name a.dims) (arecSize a.name a.dims))
      ++ ":" ++ (if isStr a.name then joinWith "+" ((List.range n).map (fun k => showStrAt s (vp + 3 * k)))
                 else toHex (peeks s vp (n * vsize a.name)))
      ++ ":" ++ (match varptr s (.el a.name a.dims), varptrStr s (.el a.name first) with
                 | .ok p, .ok b => toString p ++ "." ++ toHex b
                 | _, _ => "E")

def observe (s : VM) : String :=
  joinWith " " ((toString (varCurrent s) ++ "/" ++ toString s.arrCur)
    :: (s.scalars.map (showScalar s) ++ s.arrays.map (showArray s)))

def runHist (s : VM) : List Op → List String → List String
  | [], acc => acc.reverse
  | op :: r, acc =>
    let so := step s op
    runHist so.1 r ((toString so.2 ++ " " ++ observe so.1) :: acc)

def runHistOld (s : VM) : List Op → VM
  | [] => s
  | op :: r => runHistOld (step s op).1 r

def handle : List String → String
  | ["hist", vs, top, base, ops] =>
    match vs.toNat?, top.toNat?, base.toNat?, allSome ((ops.splitOn ";").map parseOp) with
    | some vs, some top, some base, some ops =>
      "ok " ++ joinWith " | " (runHist (init vs top base) ops [])
    | _, _, _, _ => "bad-op"
  -- the unrepaired Arrays.get_memory: PEEK at an address after a history
  | ["peekold", vs, top, base, ops, addr] =>
    match vs.toNat?, top.toNat?, base.toNat?, allSome ((ops.splitOn ";").map parseOp), addr.toNat? with
    | some vs, some top, some base, some ops, some addr =>
      "ok " ++ toString (peekOld (run (init vs top base) ops) addr)
    | _, _, _, _, _ => "bad-op"
  | _ => "bad-op"

end PcbV.Drv.C11
