"""C14 — RENUM renumbers lines and every reference to them consistently."""
import re
import signal
import threading

from vlib import basic

LEVEL = 'proof'
RULE = ('generated terminating programs (1..9 chained blocks printing markers, entered in random line order over '
        'boundary-dense line numbers incl. 0 and 65529) whose control flow uses every kind of line reference '
        '(GOTO, IF..THEN n / THEN GOTO / ELSE n / IF..GOTO, ON..GOTO, GOSUB, ON..GOSUB, RETURN n, RESTORE n, RUN n, '
        'ERROR + ON ERROR GOTO n with IF ERL=n .. RESUME n / RESUME NEXT, re-entry of the first line, byte constants '
        'equal to token values in front of GOTO, constants 0..260 incl. every token-lead byte value and existing line '
        'numbers directly after ERROR / = / PRINT / ABS( with references behind them on the same line) plus never-executed decoy lines (LIST/DELETE/EDIT/LLIST ranges, '
        'ON KEY/TIMER/PEN/STRIG/COM/PLAY GOSUB, references to missing lines, ON ERROR GOTO 0, digits inside strings, REM '
        'and DATA); 1..3 successive RENUMs per program with arguments around the acceptance boundaries (kept lines >= '
        'new, last number 65529/65530, step 0, omitted arguments, old between/after lines); a case = one RENUM on one '
        'program state; trap mode = RUN to a STOP with active ON ERROR / KEY / TIMER traps, RENUM, inspect, CONT')
EXPLANATION = ('theorems (PcbV.Props.C14): numbering rule, acceptance iff, sortedness / C13.Repr kept, strictly monotone '
               'old->new map, jump-target and trap-target preservation, reference rewriting as seen by a re-scan '
               '(partial: new > 0), report iff the target is no line; behaviour clause proved by simulation on the '
               'MiniBasic Mech layer of C19 (renum_semantics_map / renum_semantics / renum_semantics_all_targets_exist: same '
               'printed output and termination for every fuel when no missing target collides with a new number).  Correspondence: token bytes of every line, report '
               'lines and trap lines of a real Session after RENUM vs the compiled model.  Oracle (independent of the '
               'model): the generator knows every reference of every line, so the expected LIST text, report lines, '
               'acceptance and numbering are computed from the property statement; the program output (RUN, and '
               'STOP/RENUM/CONT) must be identical before and after RENUM up to printed line numbers')
TRUSTED_BASE = ['model PcbV.Model.Renum: hand transcription of Program.renum (with pending fix C14-renum-error-goto-0) and '
                'of the trap remap in Interpreter.renum_, per record body on C13\'s abstract program',
                'tokeniser/lister used as given (C17); C13: bytes <-> record list',
                'PcbV.Model.MiniRenum (renumbering of a MiniBasic AST) stands for the byte-level rewrite through the '
                'tokeniser/parser correspondence of C17/C19; MiniBasic itself is tied to interpreter.py by C19\'s check']
ASSUMPTIONS = ['line numbers < 65535 (typed programs: <= 65529)', 'bodies are tokeniser output (well-formed for skip_to)',
               'programs are in ascending line order (C13 invariant)']

IFC = b'Illegal function call\xff\r\n'
REPORT_RX = re.compile(br'Undefined line (\d+) in (\d+)\r\n')
IN_RX = re.compile(br' in (\d+)')
BOUNDARY = [0, 1, 2, 9, 10, 11, 14, 100, 167, 255, 256, 257, 1000, 3598, 8359, 10000, 32767, 32768, 35239, 42751, 42752,
            42753, 65000, 65519, 65527, 65528, 65529]


# byte values that are token leads / delimiters for skip_to (number tokens 0B..0F, 1C..1F, quote, colon, REM, GOTO, ERROR,
# two-byte token prefixes) and the switch points of the constant encodings (0..10 one byte, 11..255 0F xx, 256.. 1C lo hi)
CONST_LEADS = [0, 9, 10, 11, 12, 13, 14, 15, 28, 29, 30, 31, 32, 34, 58, 137, 143, 167, 253, 254, 255, 256, 257, 258, 259, 260]


class Loop(Exception):
    pass


class time_limit(object):
    """safety net only (a mis-renumbered program may loop): CPU-time limit, main thread only"""

    def __init__(self, seconds):
        self.seconds = seconds
        self.active = threading.current_thread() is threading.main_thread()

    def _raise(self, signum, frame):
        raise Loop()

    def __enter__(self):
        if self.active:
            self.old = signal.signal(signal.SIGVTALRM, self._raise)
            signal.setitimer(signal.ITIMER_VIRTUAL, self.seconds)

    def __exit__(self, *exc):
        if self.active:
            signal.setitimer(signal.ITIMER_VIRTUAL, 0)
            signal.signal(signal.SIGVTALRM, self.old)
        return False


def hexb(b):
    return bytes(b).hex() or '-'


# ---------------------------------------------------------------------------------------------
# programs: a line is [number, pieces, lead]; a piece is text (str) or a line reference (int)

def line_text(pieces):
    return ''.join(p if isinstance(p, str) else '%d' % p for p in pieces)


def listing(lines):
    # a line entered as line 0 keeps the blank after its number in its body (lead); the lister drops one blank
    # of the body of a line numbered 0
    out = []
    for n, pcs, lead in lines:
        body = lead + line_text(pcs)
        if n == 0 and body[:1] == ' ':
            body = body[1:]
        out.append(('%d %s\r\n' % (n, body)).encode('latin-1'))
    return b''.join(out)


def refs_of(pieces):
    return [p for p in pieces if not isinstance(p, str)]


class Builder(object):
    """symbolic program: references are ('L', name) / ('N',) (a number that is no line) / ('X',) (any)"""

    def __init__(self, rng):
        self.rng = rng
        self.lines = {}
        self.order = []

    def add(self, name, pieces):
        self.lines[name] = pieces
        self.order.append(name)


def L(name):
    return ('L', name)


def gen_decoy(rng, names):
    X = ('X',)
    N = ('N',)
    nz = ('XNZ',)
    K = ('K',)
    TL = ('T',)
    forms = [
        ['GOSUB ', X, ':RETURN ', X], ['RESTORE ', X], ['RUN ', X], ['RESUME ', nz], ['LIST ', X, '-', X],
        ['DELETE ', X, '-', X], ['EDIT ', X], ['LLIST ', X, '-'], ['IF ERL=', X, ' THEN ', X, ' ELSE ', X],
        ['IF ERL<>', X, ' THEN PRINT "q"'], ['ON Q GOSUB ', X, ',', N, ',', X], ['ON Q GOTO ', X, ',', X],
        ['ON ERROR GOTO ', nz], ['ON ERROR GOTO 0'], ['ON ERROR GOTO  0'], ['X=167:IF X=167 GOTO ', X],
        ['X=137:IF X=167 GOTO ', N], ['ERROR 5:GOTO ', X], ['PRINT "GOTO 10":GOTO ', X],
        ['ON KEY(1) GOSUB ', X], ['ON TIMER(5) GOSUB ', X], ['ON PEN GOSUB ', X], ['ON STRIG(0) GOSUB ', X],
        ['ON COM(1) GOSUB ', X], ['ON PLAY(3) GOSUB ', X], ['RETURN ', X], ['GOTO ', N], ['GOTO ', X],
        ['IF A THEN ', X], ['IF A THEN PRINT 10 ELSE ', X], ['IF A THEN GOTO ', X, ' ELSE GOSUB ', N],
        ['X=14:Y=3598:Z%=&HE0E:PRINT 167;137'], ['A$="GOTO 10, THEN 20":GOTO ', X],
        ['ERROR 167:GOTO ', X], ['IF X=35239! GOTO ', X], ['IF X=42752! GOTO ', X],
        # constants of every byte value (token leads included) directly after ERROR / other keywords, references behind
        ['ERROR ', K, ':GOTO ', X], ['ERROR ', K, ':GOSUB ', X, ':IF A THEN ', X, ' ELSE ', X], ['ERROR ', TL, ':GOTO ', X],
        ['ERROR ', TL], ['ERROR ', K], ['X=', K, ':ON ERROR GOTO ', nz], ['ERROR ', K, ':ON ERROR GOTO 0:GOTO ', X],
        ['PRINT ', K, ':RESTORE ', X], ['ERROR ', K, ' :IF ERL=', X, ' THEN ', X], ['ERROR  ', K, ':RESUME ', nz],
        ['ERROR ', K, ':ERROR ', K, ':GOTO ', N, ':GOTO ', X], ['IF X=', K, ' THEN ', X], ['Y=ABS(', K, '):RUN ', X],
        ['ERROR ', K, ':GOTO ', X], ['ERROR ', K, ':GOSUB ', X],
    ]
    pcs = []
    for k in range(rng.choice([1, 1, 2, 3])):
        if pcs:
            pcs.append(':')
        pcs += rng.choice(forms)
    tail = rng.random()
    if tail < 0.2:
        pcs.append(":REM GOTO 10 \"GOSUB 20")
    elif tail < 0.3:
        pcs.append(":DATA 10,GOTO 20")
    elif tail < 0.35:
        pcs.append("' THEN 30")
    return pcs


def gen_program(rng, want_stop=False):
    b = Builder(rng)
    K = rng.choice([1, 2, 3, 4, 6, 9])
    reenter = K >= 2 and rng.random() < 0.5
    use_run = (not reenter) and (not want_stop) and rng.random() < 0.3
    k_re = rng.randrange(1, K) if reenter else None
    stop_at = rng.randrange(K) if want_stop else None
    nsub = [0]
    raising = []
    ndata = rng.choice([0, 1, 2])
    X = ('X',)
    N = ('N',)

    def nxt(i):
        if reenter and i == k_re - 1:
            return 'E'
        return 'B%d' % (i + 1) if i + 1 < K else 'Z'

    def sub(ret=None):
        name = 'S%d' % nsub[0]
        nsub[0] += 1
        pcs = ['PRINT "%s";:RETURN' % name.lower()]
        if ret:
            pcs += [' ', L(ret)]
        b.add(name, pcs)
        return name

    guard = ['G=G+1:ON -(G>300) GOTO ', L('LOOP'), ':']
    if reenter:
        b.add('E', guard + ['C=C+1:ON -(C>1) GOTO ', L('B%d' % k_re), ':PRINT "e";:GOTO ', L('B0')])
    elif use_run:
        b.add('E', ['PRINT "e";:RUN ', L('B0')])
    else:
        b.add('E', ['PRINT "e";:', rng.choice(['GOTO ', 'GOSUB ', 'IF 1 THEN ']), L('B0')])
    for i in range(K):
        T = nxt(i)
        pcs = list(guard) + ['PRINT "m%d";:' % i]
        if i == 0:
            pcs += ['ON ERROR GOTO ', L('H'), ':']
            if rng.random() < 0.6:
                pcs += ['ON KEY(%d) GOSUB ' % rng.choice([1, 2, 10]), ('XS',), ':KEY(2) ON:']
            if rng.random() < 0.4:
                pcs += ['ON TIMER(3000) GOSUB ', ('XS',), ':TIMER ON:']
        r = rng.random()
        if r < 0.15:
            pcs += ['ON ERROR GOTO 0:ON ERROR GOTO ', L('H'), ':']
        elif r < 0.3 and ndata:
            pcs += ['RESTORE ', L('D%d' % rng.randrange(ndata)), ':READ A$:PRINT A$;:']
        elif r < 0.4:
            pcs += ['X=14:Y=3598:Z%=&HE0E:PRINT "goto 10 ";:']
        if i == stop_at:
            pcs += ['PRINT "stop";:STOP:']
        kind = rng.randrange(19)
        KC = ('K',)
        if T == 'Z' and rng.random() < 0.3:
            kind = 0
        if kind == 0:
            pcs += ['GOTO ', L(T)]
        elif kind == 1:
            pcs += ['IF G>0 THEN ', L(T)]
        elif kind == 2:
            pcs += ['IF G<0 THEN ', X, ' ELSE ', L(T)]
        elif kind == 3:
            pcs += ['IF G>0 THEN GOTO ', L(T), ' ELSE GOSUB ', X]
        elif kind == 4:
            pcs += ['IF G>0 GOTO ', L(T)]
        elif kind == 5:
            pcs += ['ON 2 GOTO ', X, ',', L(T), ',', N]
        elif kind == 6:
            pcs += ['GOSUB ', L(sub(T))]
        elif kind == 7:
            pcs += ['GOSUB ', L(sub()), ':GOTO ', L(T)]
        elif kind == 8:
            pcs += ['ON 1 GOSUB ', L(sub()), ',', X, ':GOTO ', L(T)]
        elif kind == 9 and len(raising) < 3:
            raising.append(('B%d' % i, T))
            pcs += ['ERROR 99']
        elif kind == 10:
            pcs += ['ERROR 98:GOTO ', L(T)]
        elif kind == 14:
            # any constant (byte values equal to token leads included) right after ERROR, the reference behind it
            pcs += ['ERROR ', rng.choice([KC, KC, KC, ('T',)])] + rng.choice([
                [':GOTO ', L(T)], [':IF G>0 THEN ', L(T)], [':GOSUB ', L(sub(T))], [':GOSUB ', L(sub()), ':GOTO ', L(T)],
                [' :GOTO ', L(T)]])
        elif kind == 15:
            pcs += ['X=', KC, ':GOTO ', L(T)]
        elif kind == 16:
            pcs += ['PRINT ', KC, ';:IF G>0 THEN ', L(T)]
        elif kind == 17:
            pcs += ['X=-2:IF X<>', KC, ' THEN ', L(T)]
        elif kind == 18:
            pcs += ['Y=ABS(', KC, '):GOSUB ', L(sub()), ':GOTO ', L(T)]
        elif kind == 11:
            pcs += ['X=167:IF X=168 GOTO ', X, ' ELSE IF X=167 GOTO ', L(T)]
        elif kind == 12:
            pcs += ['X=137:Y=167:IF Y=167 GOTO ', L(T)]
        else:
            pcs += ['GOTO ', L(T), ":REM GOTO 10 \"THEN 20"]
        b.add('B%d' % i, pcs)
    b.add('Z', ['PRINT "z":END'])
    b.add('LOOP', ['PRINT "LOOP":END'])
    h = ['PRINT "h";:']
    for a, t in raising:
        h += ['IF ERL=', L(a), ' THEN RESUME ', L(t), ' ELSE ']
    h += ['RESUME NEXT']
    b.add('H', h)
    for j in range(ndata):
        b.add('D%d' % j, ['DATA "d%d"' % j])
    for j in range(rng.choice([0, 1, 2, 4])):
        b.add('X%d' % j, gen_decoy(rng, None))
    # placement: the entry line first, the rest in random order
    rest = [n for n in b.order if n != 'E']
    rng.shuffle(rest)
    order = ['E'] + rest
    n = len(order)
    mode = rng.random()
    if mode < 0.35:
        pool = set(rng.sample(BOUNDARY, min(len(BOUNDARY), rng.choice([2, 4, 8]))))
        while len(pool) < n:
            pool.add(rng.randrange(65530))
        nums = sorted(rng.sample(sorted(pool), n))
    elif mode < 0.7:
        base = rng.choice([0, 1, 10, 100, 1000])
        stepg = rng.choice([1, 5, 10, 100])
        nums = [base + stepg * i for i in range(n)]
    else:
        nums = sorted(rng.sample(range(65530), n))
    if nums[0] == 0 and any(t == 'E' for a, t in raising):
        # `RESUME 0` means retry, not line 0 (known finding C14-F2): keep the generated programs clear of it
        nums = [1 if nums[1] > 1 else 0] + nums[1:]
        if nums[0] == 0:
            return gen_program(rng, want_stop)
    num_of = dict(zip(order, nums))
    numset = set(nums)
    subs = [nm for nm in order if nm.startswith('S')] or order

    def missing(nonzero=False):
        for _ in range(50):
            c = rng.choice([0, 1, 7, 9999, 65529, rng.choice(nums) + 1, max(0, rng.choice(nums) - 1), rng.randrange(65530)])
            if c not in numset and c <= 65529 and not (nonzero and c == 0):
                return c
        return next(c for c in range(1, 65530) if c not in numset)

    def resolve(p):
        if isinstance(p, str):
            return p
        if p[0] == 'L':
            return num_of[p[1]]
        if p[0] == 'N':
            return missing()
        if p[0] == 'K':
            return '%d' % (rng.choice(CONST_LEADS) if rng.random() < 0.6 else rng.randrange(261))
        if p[0] == 'T':
            # an existing line number used as a plain constant: never renumbered (the lister shows singles with `!`)
            c = rng.choice(nums)
            return '%d%s' % (c, '!' if c > 32767 else '')
        if p[0] == 'XS':
            return num_of[rng.choice(subs)]
        nonzero = p[0] == 'XNZ'
        if rng.random() < 0.3:
            return missing(nonzero)
        c = rng.choice(nums[:2] + [rng.choice(nums)] * 3)
        return c if not (nonzero and c == 0) else missing(True)

    lines = []
    for nm in order:
        pcs = [resolve(p) for p in b.lines[nm]]
        merged = []
        for p in pcs:
            if isinstance(p, str) and merged and isinstance(merged[-1], str):
                merged[-1] += p
            else:
                merged.append(p)
        lines.append([num_of[nm], merged, ' ' if num_of[nm] == 0 else ''])
    return {'lines': lines, 'stop': stop_at is not None}


# ---------------------------------------------------------------------------------------------
# the statement, executable (independent oracle)

def oracle_renum(nums, new, old, step):
    """returns None (Illegal function call) or the dict old -> new for the renumbered lines"""
    if step is not None and step < 1:
        return None
    new = 10 if new is None else new
    old = 0 if old is None else old
    step = 10 if step is None else step
    kept = [n for n in nums if n < old]
    moved = [n for n in nums if n >= old]
    if kept and new <= max(kept):
        return None
    if moved and new + step * (len(moved) - 1) > 65529:
        return None
    return dict((m, new + i * step) for i, m in enumerate(moved))


def apply_map(lines, mp):
    """expected program after RENUM: same lines, same text, every reference to a renumbered line replaced"""
    out = []
    for n, pcs, lead in lines:
        npcs = []
        for p in pcs:
            if isinstance(p, str):
                npcs.append(p)
            else:
                q = mp.get(p, p)
                if q == 0 and npcs and isinstance(npcs[-1], str) and re.search(r'ERROR GOTO *$', npcs[-1]):
                    # the statement has become ON ERROR GOTO 0 (RENUM 0): from now on not a reference any more
                    npcs[-1] += '0'
                else:
                    npcs.append(q)
        merged = []
        for p in npcs:
            if isinstance(p, str) and merged and isinstance(merged[-1], str):
                merged[-1] += p
            else:
                merged.append(p)
        out.append([mp.get(n, n), merged, lead])
    return out


def expected_reports(lines):
    numset = set(l[0] for l in lines)
    return [(r, n) for n, pcs, lead in lines for r in refs_of(pcs) if r not in numset]


def zero_quirk(lines, mp):
    """the two places where the number 0 is not a line reference although the statement's wording covers them
    (known findings C14-F1 / C14-F2); returns the finding key or None"""
    special = [(p, q) for l in lines for p, q in zip(l[1], l[1][1:])
               if isinstance(p, str) and not isinstance(q, str) and re.search(r'(RESUME|ERROR GOTO) *$', p)]
    if any(mp.get(q, q) == 0 and q != 0 for p, q in special):
        # a line became line 0 and is the target of RESUME / ON ERROR GOTO: `0` means something else there
        return 'run:renum0-target-of-resume-or-on-error'
    if any(q == 0 and mp.get(0, 0) != 0 and p.rstrip().endswith('RESUME') for p, q in special):
        return 'run:resume0-line0'
    return None


def gen_args(rng, nums):
    """RENUM arguments around the acceptance boundaries"""
    last = nums[-1]
    r = rng.random()
    if r < 0.3:
        old = None
    elif r < 0.6:
        old = rng.choice(nums)
    elif r < 0.8:
        old = min(65529, max(0, rng.choice(nums) + rng.choice([-1, 1])))
    elif r < 0.9:
        old = min(65529, last + 1)
    else:
        old = rng.choice([0, 1, 65529, rng.randrange(65530)])
    r = rng.random()
    step = None if r < 0.25 else rng.choice([1, 1, 2, 3, 5, 10, 10, 100, 1000, 0, 65529, rng.randrange(1, 3000)])
    o = 0 if old is None else old
    s = 10 if step is None else max(step, 1)
    kept = [n for n in nums if n < o]
    k = len([n for n in nums if n >= o])
    kmax = max(kept) if kept else -1
    top = 65529 - s * (k - 1) if k else 65529
    r = rng.random()
    if r < 0.12:
        new = None
    elif r < 0.32:
        new = kmax + rng.choice([0, 1, 1, 2])
    elif r < 0.5:
        new = top + rng.choice([0, 0, 1, -1])
    elif r < 0.7 and top > kmax + 1:
        new = rng.randrange(kmax + 1, top + 1)
    elif r < 0.8:
        new = rng.choice(nums)
    else:
        new = rng.choice([0, 1, 10, 100, 1000, 42742, 42752, 8359, 65529])
    if new is not None:
        new = min(65529, max(0, new))
    return [new, old, step]


def cmd_of(args):
    new, old, step = args
    parts = ['' if a is None else '%d' % a for a in (new, old, step)]
    while parts and parts[-1] == '':
        parts.pop()
    return ('RENUM ' + ','.join(parts)).strip().encode('latin-1')


# ---------------------------------------------------------------------------------------------
# implementation adapter

class Box(object):
    """one real Session, reused (NEW between programs); recreated after a safety-net interruption"""

    def __init__(self):
        self.s = None

    def session(self):
        if self.s is None:
            self.s = basic.new_session()
        return self.s

    def ex(self, text, limit=2):
        s = self.session()
        try:
            with time_limit(limit):
                return s.execute(text)
        except Loop:
            self.close()
            return b'<<LOOP>>'
        except Exception as e:   # noqa  -- an escaping host exception is a finding, not a harness crash
            self.close()
            return b'<<EXC %s>>' % type(e).__name__.encode()

    def close(self):
        if self.s is not None:
            try:
                self.s.close()
            except Exception:   # noqa
                pass
            self.s = None

    def list(self, console=False):
        """LIST output.  The console LIST spends ~0.3 s scrolling the text screen; it prints exactly the lines of
        Program.list_lines, which is used directly except when `console` is set (sampled)"""
        if console:
            return self.ex(b'LIST')
        try:
            return b''.join(l + b'\r\n' for l in self.session()._impl.program.list_lines(None, None))
        except Exception as e:   # noqa
            return b'<<EXC %s>>' % type(e).__name__.encode()

    def records(self):
        """[(line, body bytes)] in stream order, from the bytecode and the line_numbers dict; None if inconsistent"""
        prog = self.session()._impl.program
        code = prog.bytecode.getvalue()
        items = sorted(prog.line_numbers.items(), key=lambda kv: kv[1])
        recs = []
        for (ln, pos), (ln2, pos2) in zip(items, items[1:]):
            if code[pos] != 0 or code[pos + 3] + 256 * code[pos + 4] != ln:
                return None
            recs.append((ln, code[pos + 5:pos2]))
        if not items or items[-1][0] != 65536:
            return None
        return recs

    def traps(self):
        imp = self.session()._impl
        return [imp.interpreter.on_error or 0] + [h.gosub or 0 for h in imp.basic_events.all]


def show_prog(recs):
    return ';'.join('%d:%s' % (n, hexb(b)) for n, b in recs) or '-'


def show_pairs(ps):
    return ';'.join('%d:%d' % p for p in ps) or '-'


def norm_in(out, mp):
    return IN_RX.sub(lambda m: b' in %d' % mp.get(int(m.group(1)), int(m.group(1))), out)


class Case(object):
    def __init__(self, ctx, box, prog, renums, label):
        self.ctx, self.box, self.prog, self.renums, self.label = ctx, box, prog, renums, label
        self.model_lines, self.impl_outs, self.cases = [], [], []
        self.failed = False

    def payload(self, upto):
        return {'lines': self.prog['lines'], 'stop': self.prog['stop'], 'renums': self.renums[:upto + 1], 'label': self.label}

    def fail(self, key, i, what):
        self.failed = True
        self.ctx.fail(key, self.payload(i), what)

    def run(self):
        ctx, box = self.ctx, self.box
        lines = [list(l) for l in self.prog['lines']]
        box.ex(b'NEW')
        for n, pcs, lead in lines:
            out = box.ex(('%d %s' % (n, line_text(pcs))).encode('latin-1'))
            if out:
                ctx.count('gen:line-refused')
                return self
        pre = box.list(console=(self.ctx.rng.random() < 0.1))
        if pre != listing(lines) or pre != box.list():
            ctx.count('gen:list-mismatch')
            ctx.notes.setdefault('list-mismatch', [pre.decode('latin-1'), listing(lines).decode('latin-1')])
            return self
        stop = self.prog['stop']
        out0 = box.ex(b'RUN')
        cont0 = None
        if stop:
            cont0 = box.ex(b'CONT')
        if b'LOOP' in out0 or (cont0 and b'LOOP' in cont0) or b'<<' in out0:
            ctx.count('gen:bad-program')
            ctx.notes.setdefault('bad-program', [listing(lines).decode('latin-1'), out0.decode('latin-1')])
            return self
        ctx.count('program:lines:%s' % ('<8' if len(lines) < 8 else '8-15' if len(lines) < 16 else '16+'))
        orig2cur = dict((l[0], l[0]) for l in lines)
        quirk = None    # sticky: once RENUM has produced one of the two `0` ambiguities the behaviour may differ
        for i, args in enumerate(self.renums):
            if self.failed:
                break
            nums = [l[0] for l in lines]
            mp = oracle_renum(nums, *args)
            if stop:
                if mp is None:
                    ctx.count('trap:skipped-rejected-args')
                    continue
                # bring the program to its STOP with the traps active
                pre = box.ex(b'RUN')
                if norm_in(out0, orig2cur) != pre:
                    self.fail(quirk or 'run:before-stop', i, 'output up to STOP differs: expected %r got %r' % (norm_in(out0, orig2cur), pre))
                    break
            else:
                box.ex(b'ON ERROR GOTO 0')
            recs0 = box.records()
            traps0 = box.traps()
            list0 = box.list()
            rep = box.ex(cmd_of(args))
            ctx.case((self.label, i, tuple(nums), tuple(args)))
            ctx.count('args:new=%s,old=%s,step=%s' % tuple('-' if a is None else 'n' for a in args))
            if recs0 is None:
                self.fail('state:inconsistent-before', i, 'line_numbers and bytecode disagree before RENUM')
                break
            # --- correspondence
            recs1 = box.records()
            traps1 = box.traps()
            reports = [(int(a), int(b)) for a, b in REPORT_RX.findall(rep)]
            if rep == IFC:
                impl = 'err 5'
            elif REPORT_RX.sub(b'', rep) == b'' and recs1 is not None:
                impl = 'ok %s | %s | %s' % (show_prog(recs1), show_pairs(reports), ','.join('%d' % t for t in traps1))
            else:
                impl = 'other %r' % rep
            self.cases.append({'label': self.label, 'i': i, 'args': args})
            self.impl_outs.append(impl)
            self.model_lines.append('renum %s %s %s %s %s' % tuple(
                ['-' if a is None else '%d' % a for a in args] + [','.join('%d' % t for t in traps0), show_prog(recs0)]))
            # --- oracle
            check_console = (i == 0 and self.ctx.rng.random() < 0.15)
            list1 = box.list(console=check_console)
            if check_console:
                ctx.count('list:console-LIST-checked')
            if mp is None:
                ctx.count('renum:rejected')
                if rep != IFC:
                    self.fail('accept:should-reject', i, 'RENUM %r on lines %r must be Illegal function call, got %r' % (args, nums, rep))
                elif list1 != list0 or traps1 != traps0 or recs1 != recs0:
                    self.fail('reject:state-changed', i, 'rejected RENUM changed the program or the traps')
                continue
            ctx.count('renum:accepted')
            ctx.count('moved:%s' % ('none' if not mp else 'all' if len(mp) == len(nums) else 'some'))
            if rep == IFC or b'<<' in rep:
                self.fail('accept:should-accept', i, 'RENUM %r on lines %r must be accepted, got %r' % (args, nums, rep))
                break
            quirk = quirk or zero_quirk(lines, mp)
            exp_lines = apply_map(lines, mp)
            exp_reports = expected_reports(lines)
            ctx.count('reports:%s' % ('0' if not exp_reports else '1+'))
            ctx.count('refs:%s' % ('0-9' if sum(len(refs_of(l[1])) for l in lines) < 10 else '10+'))
            if recs1 is None or [r[0] for r in recs1] != [l[0] for l in exp_lines]:
                got = None if recs1 is None else [r[0] for r in recs1]
                self.fail('numbering', i, 'line numbers after RENUM %r: expected %r got %r' % (args, [l[0] for l in exp_lines], got))
                break
            if list1 != listing(exp_lines):
                a, b = list1.split(b'\r\n'), listing(exp_lines).split(b'\r\n')
                d = [(x, y) for x, y in zip(a, b) if x != y][:2]
                zero = any(re.search(br'GOTO 0\b', y) or re.search(br'GOTO 0\b', x) for x, y in d)
                self.fail('refs:goto0' if zero else 'refs', i, 'LIST after RENUM %r differs from the program with every reference '
                          'renumbered: (got, expected) %r' % (args, d))
                break
            if reports != exp_reports:
                self.fail('reports', i, 'report lines after RENUM %r: expected %r got %r' % (args, exp_reports, reports))
                break
            if REPORT_RX.sub(b'', rep) != b'':
                self.fail('renum:unexpected-output', i, 'RENUM %r printed %r' % (args, rep))
                break
            exp_traps = [mp.get(t, t) if t else 0 for t in traps0]
            if traps1 != exp_traps:
                self.fail('traps', i, 'trap lines after RENUM %r: before %r expected %r got %r' % (args, traps0, exp_traps, traps1))
                break
            if any(traps0):
                ctx.count('traps:active:%s' % ('moved' if any(t in mp for t in traps0 if t) else 'kept'))
            cur = dict((o, mp.get(c, c)) for o, c in orig2cur.items())
            if stop:
                post = box.ex(b'CONT')
                if post != norm_in(cont0, cur):
                    self.fail(quirk or 'run:cont-after-renum', i, 'output of CONT after RENUM %r: expected %r got %r' % (args, norm_in(cont0, cur), post))
                    break
                ctx.count('trap:stop-renum-cont')
            else:
                post = box.ex(b'RUN')
                if post != norm_in(out0, cur):
                    key = quirk or 'run:after-renum'
                    self.fail(key, i, 'output of RUN after RENUM %r: expected %r got %r' % (args, norm_in(out0, cur), post))
                    break
            orig2cur = cur
            lines = exp_lines
        return self


def fixed_cases():
    P = lambda *ls: {'lines': [[n, pcs, ' ' if n == 0 else ''] for n, pcs in ls], 'stop': False}   # noqa
    cs = []
    # the repaired defect: a byte constant / header byte equal to the ERROR token in front of GOTO 0
    cs.append(('fixed-errgoto', P((0, ['PRINT "a";:C=C+1:IF C>1 THEN END']), (10, ['X=167:IF X=167 GOTO ', 0])),
               [[100, 0, None], [42742, None, 10], [0, None, None]]))
    cs.append(('fixed-header', P((0, ['PRINT "a";:C=C+1:IF C>1 THEN END']), (10, ['GOTO ', 0])),
               [[42742, 0, 10], [8349, None, 10], [0, None, 1]]))
    cs.append(('fixed-missing0', P((5, ['PRINT "a":END']), (10, ['X=167:IF X=167 GOTO ', 0]), (20, ['ON ERROR GOTO 0:GOTO ', 0])),
               [[None, None, None], [42742, 5, 10]]))
    cs.append(('fixed-two-jumps', P((0, ['PRINT "a":END']), (10, ['ON ERROR GOTO 0']), (20, ['IF 0 THEN GOTO ', 35239, ' ', 0]),
                                  (35239, ['END'])), [[100, 0, None], [None, 110, 1]]))
    # constants whose byte value is a token lead directly after ERROR, references behind them on the same line
    cs.append(('fixed-error-const', P((5, ['GOTO ', 60]), (10, ['ERROR 34: GOTO ', 50]), (20, ['ON ERROR GOTO ', 1000]), (30, ['ERROR 14']),
                                    (40, ['ERROR 143:GOSUB ', 50, ':IF A THEN ', 60, ' ELSE ', 5]), (50, ['ERROR 28:GOTO ', 5]),
                                    (52, ['ERROR 29:GOTO ', 5, ':GOTO ', 50]), (55, ['ERROR 31:GOTO ', 60, ':GOTO ', 5, ':GOTO ', 50, ':GOTO ', 10]),
                                    (56, ['ERROR 255:GOTO ', 60, ':ERROR 253:GOTO ', 7]), (57, ['ERROR 58:GOTO ', 60, ':ERROR 15:GOTO ', 5]),
                                    (58, ['ERROR 60:GOTO ', 60, ':ERROR 1000:GOTO ', 1000]),
                                    (60, ['PRINT "x":END']), (1000, ['RESUME NEXT'])),
               [[100, None, None], [None, 120, 3], [1, None, 1]]))
    # D1 (repaired): traps outside the renumbered range are exercised by the trap mode; boundaries of acceptance
    cs.append(('fixed-bounds', P((10, ['GOTO ', 30]), (20, ['END']), (30, ['PRINT "x":END'])),
               [[20, 30, None], [21, 30, None], [65529, 30, None], [65520, 20, 10], [65519, 20, 10], [None, None, 0],
                [5, 65529, None], [None, 31, None], [40, 31, None], [65509, None, None], [65510, None, None]]))
    # known finding C14-F1: RENUM 0 turns ON ERROR GOTO <first line> into ON ERROR GOTO 0
    cs.append(('fixed-F1', P((10, ['IF E THEN PRINT "h";:RESUME NEXT']), (20, ['E=1:ON ERROR GOTO ', 10, ':ERROR 5:PRINT "after":END'])),
               [[0, None, None]]))
    # known finding C14-F2: RESUME 0 (retry) is taken for a reference to line 0
    cs.append(('fixed-F2', P((0, ['ON ERROR GOTO ', 20]), (10, ['N=N+1:IF N<3 THEN PRINT "m";N;:ERROR 5']), (15, ['PRINT "done":END']),
                             (20, ['F=F+1:IF F>4 THEN PRINT "stop":END ELSE PRINT "h";:RESUME ', 0])),
               [[100, None, None]]))
    return cs


def execute(ctx, box, prog, renums, label):
    c = Case(ctx, box, prog, renums, label).run()
    return c


def flush(ctx, done):
    cases, impl, lines = [], [], []
    for c in done:
        cases += c.cases
        impl += c.impl_outs
        lines += c.model_lines
    if lines:
        mouts = ctx.model(lines)
        if mouts is not None:
            for cs, i, l, m in zip(cases, impl, lines, mouts):
                if m.startswith('ok '):
                    f = m.split(' | ')
                    m = ' | '.join([f[0]] + f[2:])    # the old->new dict is not observable; dropped
                if i != m:
                    ctx.disagree({'label': 'renum', 'input': cs, 'line': l[:400]}, i[:400], m[:400])


def run(ctx):
    rng = ctx.rng
    box = Box()
    done = []
    try:
        for label, prog, renums in fixed_cases():
            done.append(execute(ctx, box, prog, renums, label))
            ctx.count('case:fixed')
        nplain, ntrap = (160, 60) if ctx.quick else (2000, 700)
        for k in range(nplain + ntrap):
            trap = k >= nplain
            prog = gen_program(rng, want_stop=trap)
            nums = [l[0] for l in prog['lines']]
            renums = []
            for j in range(rng.choice([1, 2, 3]) if not trap else rng.choice([2, 3, 4])):
                a = gen_args(rng, nums)
                renums.append(a)
                mp = oracle_renum(nums, *a)
                if mp is not None:
                    nums = [mp.get(n, n) for n in nums]
            c = execute(ctx, box, prog, renums, 'trap' if trap else 'plain')
            done.append(c)
            ctx.count('case:%s' % ('trap' if trap else 'plain'))
            if len(done) >= 100:
                flush(ctx, done)
                done = []
        flush(ctx, done)
    finally:
        box.close()
    ctx.sample({'example-program': listing(gen_program(ctx.rng.__class__(1))['lines']).decode('latin-1').split('\r\n')[:12]})


class _Sub(object):
    def __init__(self, ctx):
        self.rng = ctx.rng
        self.failures = []
        self.notes = {}
        self._ctx = ctx

    def count(self, *a, **k):
        pass

    def case(self, *a, **k):
        pass

    def sample(self, *a, **k):
        pass

    def fail(self, key, case, what):
        self.failures.append({'key': key, 'case': case, 'what': what})

    def disagree(self, *a, **k):
        pass

    def model(self, lines):
        return self._ctx.model(lines)


def replay(ctx, payload):
    case = payload.get('case') or {}
    if 'lines' not in case:
        return None
    prog = {'lines': [[l[0], l[1], l[2]] for l in case['lines']], 'stop': case.get('stop', False)}
    sub = _Sub(ctx)
    box = Box()
    try:
        execute(sub, box, prog, case.get('renums', []), case.get('label', 'replay'))
    finally:
        box.close()
    hits = [f for f in sub.failures if f['key'] == payload.get('key')] or sub.failures
    return hits[0]['what'] if hits else None
