"""C30 — Graphics never draws outside the viewport or the active page."""
import logging
import re

from vlib import basic, translated

LEVEL = 'proof'
RULE = ('per (adapter, graphics mode, active/visible page, viewport) configuration: integer-exact primitives '
        '(PSET, LINE, LINE B/BF with styles, CIRCLE aspect 1, PUT, VIEW with fill/border, _draw_ellipse, '
        'graph_view[...] with arbitrary index expressions) with coordinates from a boundary set around the '
        'viewport and screen edges (+-1, +-2, +-32767) plus PRNG values are compared cell-for-cell with the Lean '
        'model; random statement histories (VIEW/VIEW SCREEN/WINDOW/SCREEN ,,a,v/PSET/PRESET/LINE/CIRCLE with '
        'arcs and aspect/PAINT with tiles/DRAW/PUT) are judged by the pixel-buffer diff of all pages; further '
        'histories switch the video MODE between the multi-page modes of ega/vga/tandy/pcjr/cga (SCREEN m with the '
        'page arguments omitted, repeated or changed, SCREEN 0 in between) and draw right after each switch; '
        'one case = one executed statement; non-trivial = it changed at least one pixel or was rejected')
EXPLANATION = ('theorems (PcbV.Props.C30): every cell assigned by graph_view[...] = attr lies in the viewport rectangle for '
               'single pixels and for slices whose stop is not wrapped negative, each call site (LINE, B, BF, CIRCLE, '
               'ellipse, PAINT interval, PUT, VIEW fill/border) establishes that precondition for all integer '
               'arguments, only the active page changes, a mode switch leaves the viewport on the active page, text mode '
               'gives Illegal function call; correspondence: '
               'changed-cell sets of the real Session against the compiled model; oracle: every changed cell of every '
               'page lies in the viewport of the active page as tracked from the issued VIEW statements'
               '; source tie: GraphicsViewPort.width, height, get_bounds, _convert_coords, contains, get_mid, '
               'cutoff_coord are translated mechanically from the current Python AST (PcbV.Gen.Translated.vp*, '
               'gen/py2lean.py), proved equal to the View functions of the model for every state and all coordinates '
               '(translated_vpBounds_eq, translated_vpConvert_eq, translated_vpContains_eq, translated_vpMid_eq, '
               'translated_vpCutoff_eq) and compared with a real GraphicsViewPort (vlib/translated.py)')
TRUSTED_BASE = ['models PcbV.Model.Viewport / PcbV.Model.Draw are hand transcriptions of graphics.py GraphicsViewPort and '
                'the integer primitives, of ByteMatrix.__setitem__ index semantics and of _PixelAccess',
                'the harness reads the pixel matrices of all pages from display.pages[i]._pixels',
                'statements run inside a BASIC program with ON ERROR GOTO so that no error text is printed on the page',
                'translator gen/py2lean.py + PcbV.PyInt (Python int semantics in Lean), validated by '
                'vlib/translated.py against the real functions; it covers the listed functions only']
ASSUMPTIONS = ['WINDOW scaling and the CIRCLE front end (aspect, arcs; host floats) are not modelled: oracle only',
               'Python list/bytearray slice semantics as documented (pySlice)']

logging.getLogger().setLevel(logging.ERROR)

# (video, screen mode) -> exercised; every graphics mode of the five main adapters
CONFIGS_QUICK = [('cga', 1), ('cga', 2), ('ega', 7), ('ega', 9), ('vga', 8), ('tandy', 5), ('tandy', 6),
                 ('pcjr', 3), ('tandy', 3), ('pcjr', 6), ('vga', 9), ('ega', 1)]
CONFIGS_ALL = [('cga', 1), ('cga', 2), ('ega', 1), ('ega', 2), ('ega', 7), ('ega', 8), ('ega', 9),
               ('vga', 1), ('vga', 2), ('vga', 7), ('vga', 8), ('vga', 9),
               ('tandy', 1), ('tandy', 2), ('tandy', 3), ('tandy', 4), ('tandy', 5), ('tandy', 6),
               ('pcjr', 1), ('pcjr', 2), ('pcjr', 3), ('pcjr', 4), ('pcjr', 5), ('pcjr', 6),
               ('hercules', 3), ('olivetti', 3), ('ega_mono', 10)]
# one configuration per sprite format that CONFIGS_QUICK lacks (packed 2bpp interlaced Tandy 4, EGA 2 planes, ...)
SPRITE_EXTRA_QUICK = [('hercules', 3), ('olivetti', 3), ('ega_mono', 10), ('tandy', 4)]
TEXT_CONFIGS = [('cga', 0), ('ega', 0), ('vga', 0), ('tandy', 0), ('pcjr', 0)]

NONZERO = re.compile(b'[^\\x00]+')


def s16(v):
    v &= 0xffff
    return v - 65536 if v >= 32768 else v


def runs_text(runs):
    return ','.join('%d:%d-%d' % r for r in runs) or '-'


class Ext(object):
    """Extension object: `_PRE k`, `_POST k`, `_TRAP ERR, ERL` called from the BASIC program."""

    def __init__(self):
        self.runner = None

    def pre(self, k):
        self.runner.on_pre(int(k))

    def post(self, k):
        self.runner.on_post(int(k))

    def trap(self, e, l):
        self.runner.on_trap(int(e), int(l))


class Runner(object):
    """One real Session; runs lists of statements one per program line and reports, for each, the BASIC error
    number (if any) and the cells of every page that changed."""

    def __init__(self, video, mode):
        self.ext = Ext()
        self.ext.runner = self
        self.video, self.mode = video, mode
        self.session = basic.new_session(video=video, extension=self.ext)
        self.display = self.session._impl.display
        self.gfx = self.display.graphics
        self.entries = []
        self.results = []
        self.shadow = None
        out = self.session.execute(b'SCREEN %d' % mode)
        if out.strip():
            raise RuntimeError('SCREEN %d on %s: %r' % (mode, video, out))
        self.online = None
        self.cur_mode = mode
        self.set_geometry(self.geometry())
        # independent bookkeeping of the state the property talks about
        self.broken = False
        self.apage = 0
        self.rect = (0, 0, self.W - 1, self.H - 1)
        self.absolute = False
        self.window = None

    def close(self):
        self.session.close()

    def mode_key(self):
        """What `Display.screen()` compares to decide between a full mode reset and a mere page change: the video
        mode (modes are equal when their names are) and the colorswitch."""
        return (self.display.mode.name, bool(self.display.colorswitch))

    def geometry(self):
        """(text mode, W, H, pages, attributes, sprite width factor) of the implementation's current video mode."""
        m = self.display.mode
        text = bool(m.is_text_mode)
        # Tandy SCREEN 6 stores sprites at twice the width
        return (text, m.pixel_width, m.pixel_height, m.num_pages, 0 if text else self.gfx._num_attr,
                1 if text else getattr(m.sprite_builder, 'width_factor', 1))

    def set_geometry(self, geom):
        self.text, self.W, self.H, self.num_pages, self.num_attr, self.wf = geom

    # --- snapshots

    def sync(self, record=False):
        """Bring the shadow copy of all pages' pixel rows up to date; with record=True return {page: runs} of the
        cells that differ from the shadow (i.e. changed since the last sync)."""
        pages = self.display.pages
        if self.shadow is None or len(self.shadow) != len(pages):
            self.shadow = [[bytes(row) for row in p._pixels._rows] for p in pages]
            return {}
        changed = {}
        w = self.W
        for pi, p in enumerate(pages):
            sh = self.shadow[pi]
            for y, row in enumerate(p._pixels._rows):
                old = sh[y]
                if row != old:
                    new = bytes(row)
                    if record:
                        if len(new) != len(old):
                            changed.setdefault(pi, []).append((y, 0, max(len(new), len(old)) - 1))
                        else:
                            x = (int.from_bytes(old, 'big') ^ int.from_bytes(new, 'big')).to_bytes(w, 'big')
                            lst = changed.setdefault(pi, [])
                            for m in NONZERO.finditer(x):
                                lst.append((y, m.start(), m.end() - 1))
                    sh[y] = new
        return changed

    def text_snapshot(self):
        g = self.gfx
        return ([[(tuple(r.chars), tuple(r.attrs)) for r in p._rows] for p in self.display.pages],
                self.display.apagenum, self.display.vpagenum)

    def zero_apage(self):
        pg = self.display.pages[self.display.apagenum]
        for r in pg._pixels._rows:
            r[:] = bytes(len(r))

    # --- callbacks

    def on_pre(self, k):
        e = self.entries[k]
        if e.get('prep'):
            self.zero_apage()
        self.sync()
        if self.text:
            self._tbefore = self.text_snapshot()
        self._err = None
        self._cur = k
        self._key_before = self.mode_key()

    def on_trap(self, err, line):
        self._err = err

    def on_post(self, k):
        e = self.entries[k]
        if e.get('kind') == 'mode':
            # a mode switch replaces (and erases) all pages: nothing to diff; the shadow is rebuilt afterwards
            changed = {}
            self.shadow = None
        else:
            changed = self.sync(record=True)
        res = {'err': self._err, 'changed': changed, 'geom': self.geometry(), 'apagenum': self.display.apagenum,
               'key_before': self._key_before, 'key_after': self.mode_key()}
        if self.text:
            res['text_same'] = (self.text_snapshot() == self._tbefore)
        gv = self.gfx.graph_view
        if gv is not None:
            res['rect'] = tuple(gv._rect)
            res['abs'] = bool(gv._absolute)
        self.results.append(res)
        self._cur = None
        if self.online is not None:
            # judge at once: the bookkeeping (geometry included) must follow the statements as they run
            self.online(k, e, res)

    # --- program

    def run(self, entries, setup=()):
        """entries: list of dicts with key 'text' (one BASIC statement each).  Returns the list of results
        (shorter than entries if a host exception escaped; then the last element has key 'exc')."""
        s = self.session
        self.entries, self.results = entries, []
        self._cur = None
        lines = ['1 ON ERROR GOTO 60000']
        n = 2
        for t in setup:
            lines.append('%d %s' % (n, t))
            n += 1
        for k, e in enumerate(entries):
            base = 100 + 4 * k
            lines.append('%d _PRE %d' % (base, k))
            lines.append('%d %s' % (base + 1, e['text']))
            lines.append('%d _POST %d' % (base + 2, k))
        lines.append('59999 END')
        lines.append('60000 _TRAP ERR, ERL: RESUME NEXT')
        s.execute(b'NEW')
        for l in lines:
            out = s.execute(l.encode('latin-1'))
            if out.strip():
                raise RuntimeError('storing %r: %r' % (l, out))
        try:
            out = s.execute(b'RUN')
            if out.strip():
                self.results.append({'exc': 'output %r' % out})
        except Exception as e:   # a host exception escaping the interpreter
            self.results.append({'exc': '%s: %s' % (type(e).__name__, e), 'at': self._cur,
                                 'apagenum': self.display.apagenum})
        return self.results


SETUP_SPRITES = ['VIEW: WINDOW: DIM A%(120): DIM B%(700): DIM Z%(3)',
                 'LINE (0,0)-(79,29),1,BF: GET (0,0)-(8,6),A%: GET (0,0)-(39,29),B%',
                 'LINE (0,0)-(79,29),0,BF']
SPRITES = {'A%': (9, 7), 'B%': (40, 30)}


# ---------------------------------------------------------------------------------------------------------
# generators

def view_rects(rng, W, H):
    """Viewport rectangles (absolute, ordered): interior, touching each edge, tiny, full-size, random."""
    rs = [None,
          (10, 10, 50, 50),
          (0, 0, W // 2, H // 2),
          (W // 2, H // 2, W - 1, H - 1),
          (W - 3, H - 3, W - 1, H - 1),
          (0, 0, 1, 1),
          (1, 1, W - 2, H - 2),
          (0, 0, W - 1, H - 1)]
    for _ in range(3):
        x0, x1 = sorted(rng.sample(range(W), 2))
        y0, y1 = sorted(rng.sample(range(H), 2))
        rs.append((x0, y0, x1, y1))
    return rs


def coord_abs(rng, lo, hi, size):
    """One absolute coordinate: boundary-dense around the viewport [lo, hi] and the screen [0, size)."""
    k = rng.random()
    if k < 0.55:
        return rng.choice([-32768, -32767, -1000, -2, -1, 0, 1, lo - 2, lo - 1, lo, lo + 1, (lo + hi) // 2, hi - 1, hi,
                           hi + 1, hi + 2, size - 2, size - 1, size, size + 1, size + 1000, 32766, 32767])
    if k < 0.8:
        return rng.randint(lo, hi)
    if k < 0.95:
        return rng.randint(-50, size + 50)
    return rng.randint(-32768, 32767)


class Gen(object):
    def __init__(self, rng, r):
        self.rng, self.r = rng, r

    def off(self):
        r = self.r
        return (0, 0) if r.absolute else (r.rect[0], r.rect[1])

    def xy(self, clamp=True):
        """A point in viewport coordinates (integers)."""
        r = self.r
        ox, oy = self.off()
        x = coord_abs(self.rng, r.rect[0], r.rect[2], r.W) - ox
        y = coord_abs(self.rng, r.rect[1], r.rect[3], r.H) - oy
        if clamp:
            x, y = max(-32768, min(32767, x)), max(-32768, min(32767, y))
        return x, y

    def lxy(self):
        """A point for a statement: logical coordinates when a WINDOW is active."""
        rng, r = self.rng, self.r
        if r.window is None:
            if rng.random() < 0.03:
                return rng.choice([40000, -40000, 1e10, 32768, -32769]), rng.randint(-10, 10)
            return self.xy()
        x0, y0, x1, y1 = r.window
        k = rng.random()

        def one(a, b):
            if k < 0.6:
                return round(a + (b - a) * rng.uniform(-0.3, 1.3), 3)
            if k < 0.9:
                return rng.choice([a, b, a - (b - a), b + (b - a), (a + b) / 2.0])
            return rng.choice([1e6, -1e6, 1e20, -3e4, 3e4]) * (b - a)
        return one(x0, x1), one(y0, y1)

    def attr(self):
        rng = self.rng
        return rng.choice([0, 1, 1, 1, 2, 3, self.r.num_attr - 1, self.r.num_attr, 15, 255])


def fmt_num(v):
    if isinstance(v, float):
        t = repr(v).upper()
        if 'E' in t:
            m, e = t.split('E')
            return '%sE%d' % (m, int(e))
        return t
    return '%d' % v


def pt(p, step=False):
    return '%s(%s,%s)' % ('STEP' if step else '', fmt_num(p[0]), fmt_num(p[1]))


# ---------------------------------------------------------------------------------------------------------
# correspondence part: integer-exact statements, one zeroed page each

def model_prefix(r):
    return 'prim %d %d %d %d %d %d %d' % ((r.W, r.H) + tuple(r.rect) + (1 if r.absolute else 0,))


def gen_exact(rng, r, n):
    g = Gen(rng, r)
    entries = []
    for _ in range(n):
        kind = rng.choice(['pset', 'line', 'line', 'line', 'box', 'box', 'boxf', 'boxf', 'boxf', 'circle', 'put', 'put'])
        pre = model_prefix(r)
        if kind == 'pset':
            p = g.xy()
            e = {'text': '%s %s,1' % (rng.choice(['PSET', 'PSET', 'PRESET']), pt(p)), 'model': '%s pset %d %d' % ((pre,) + p)}
        elif kind in ('line', 'box', 'boxf'):
            p, q = g.xy(), g.xy()
            if rng.random() < 0.2:
                q = (p[0], q[1]) if rng.random() < 0.5 else (q[0], p[1])
            pat = rng.choice([0xffff, 0xffff, 0xaaaa, 0x8000, 0x0001, 0xf0f0, 0, rng.randrange(65536)])
            shape = {'line': '', 'box': 'B', 'boxf': 'BF'}[kind]
            text = 'LINE %s-%s,1,%s' % (pt(p), pt(q), shape)
            if pat != 0xffff or rng.random() < 0.2:
                text += ',%d' % s16(pat)
            elif not shape:
                text = text[:-1]
            if kind == 'boxf':
                mline = '%s boxf %d %d %d %d' % ((pre,) + p + q)
            else:
                mline = '%s %s %d %d %d %d %d' % ((pre, kind) + p + q + (pat,))
            e = {'text': text, 'model': mline}
        elif kind == 'circle':
            p = g.xy()
            rad = rng.choice([0, 1, 2, 3, 7, 20, 50, 200, rng.randrange(400), rng.randrange(1500)])
            e = {'text': 'CIRCLE %s,%d,1,,,1' % (pt(p), rad), 'model': '%s circle %d %d %d' % ((pre,) + p + (rad,))}
        else:
            p = g.xy()
            name = rng.choice(sorted(SPRITES))
            w, h = SPRITES[name]
            w *= r.wf
            if rng.random() < 0.4:
                # exactly fitting / one off at the far edges
                ox, oy = g.off()
                p = (r.rect[2] - w + 1 - ox + rng.choice([0, 0, 1, -1]), r.rect[3] - h + 1 - oy + rng.choice([0, 0, 1, -1]))
            e = {'text': 'PUT %s,%s,PSET' % (pt(p), name), 'model': '%s put %d %d %d %d' % ((pre,) + p + (w, h))}
        e['prep'] = True
        e['kind'] = 'gfx'
        entries.append(e)
    return entries


def impl_string(res, view=False):
    if 'exc' in res:
        return 'exc ' + res['exc'].split(':')[0]
    if res['err'] is not None:
        return 'err %d' % res['err']
    out = 'ok ' + runs_text(sorted(set().union(*[set(v) for v in res['changed'].values()]) if res['changed'] else []))
    if view:
        out += ' view %d %d %d %d %d' % (tuple(res['rect']) + (1 if res['abs'] else 0,))
    return out


# ---------------------------------------------------------------------------------------------------------
# the independent oracle

def judge(ctx, r, e, res, where):
    """Property statement applied to one executed statement.  r holds the harness's own bookkeeping of the
    viewport and active page *before* the statement; updated here from the statement issued."""
    kind = e.get('kind', 'gfx')
    case = dict(where, text=e['text'])
    if e.get('put_fit') is False:
        # a PUT whose sprite does not lie completely in the viewport: Illegal function call, nothing changes
        if 'exc' in res or res['err'] != 5 or res['changed']:
            got = res['exc'] if 'exc' in res else 'error %r, %d pages changed' % (res['err'], len(res['changed']))
            ctx.fail('put-not-fitting:%s' % (e['text'].split(',')[-1] if e['text'].count(',') > 2 else 'default'), case,
                     'the %dx%d sprite at %r does not fit in the viewport %r: expected Illegal function call and no change, got %s'
                     % (e['sprite'][0], e['sprite'][1], e['at'], r.rect, got))
    if 'exc' in res:
        # a host exception escaping Session.execute is C01's subject; here it matters when it breaks the page switch
        ctx.count('host-exception')
        ctx.notes.setdefault('host_exceptions', [])
        text = e['text'] if res.get('at') is not None else '(program prologue: VIEW/WINDOW/SCREEN ,,a restore)'
        if len(ctx.notes['host_exceptions']) < 5:
            ctx.notes['host_exceptions'].append({'text': text, 'exc': res['exc']})
        if kind == 'page' or res.get('at') is None:
            ctx.fail('page-switch-exception:' + res['exc'].split(':')[0], dict(case, text=text),
                     '%s escaped from a page switch (SCREEN ,,apage) with viewport %r; the viewport keeps pointing at the '
                     'old page while the active page number is %r' % (res['exc'].split(':')[0], r.rect, res.get('apagenum')))
        # resynchronise the bookkeeping with the implementation's documented state; the session is not used further
        r.broken = True
        r.apage = r.display.apagenum
        gv = r.gfx.graph_view
        r.rect, r.absolute = tuple(gv._rect), bool(gv._absolute)
        return
    err, changed = res['err'], res['changed']
    ctx.count('stmt:' + e['text'].split()[0].split('(')[0])
    ctx.count('result:' + ('err %d' % err if err is not None else 'ok'))
    ncells = sum(b - a + 1 for runs in changed.values() for (_, a, b) in runs)
    ctx.count('changed:none' if ncells == 0 else 'changed:some')
    if err == 2:
        # Syntax error is also what trailing text after a complete statement gives, and (as in GW-BASIC) it is raised
        # after the statement itself has been executed: `VIEW (a,b)-(c,d),1,2,3` sets the viewport, then fails.
        # Such a statement is judged as the executed statement it is.
        executed = False
        if kind == 'view' and e.get('rect') is not None and 'rect' in res:
            a, b, c, d = e['rect']
            executed = (tuple(res['rect']) == (min(a, c), min(b, d), max(a, c), max(b, d))
                        and bool(res['abs']) == bool(e.get('abs'))
                        and (tuple(res['rect']) != tuple(r.rect) or bool(res['abs']) != bool(r.absolute) or bool(changed)))
        elif kind in ('page', 'mode'):
            executed = (res.get('key_before') != res.get('key_after')
                        or (e.get('apage') is not None and res.get('apagenum') == e['apage'] != r.apage))
        elif kind == 'pcopy':
            executed = bool(changed)
        if executed:
            ctx.count('executed-then-syntax-error:' + e['text'].split()[0])
            err = None
    if e.get('expect_err'):
        ctx.count('rejected-form:' + ('rejected' if err is not None else 'ACCEPTED ' + e['text'].split()[0]))
    if err is not None and not r.text and kind != 'free':
        # a statement that raises an error must leave the viewport and the active page in force
        if 'rect' in res and (tuple(res['rect']) != tuple(r.rect) or bool(res['abs']) != bool(r.absolute)):
            ctx.fail('failed-statement-changed-viewport:%s' % e['text'].split()[0], case,
                     'statement failed with error %d but the viewport is %r abs=%r afterwards, it was %r abs=%r'
                     % (err, res['rect'], res['abs'], r.rect, r.absolute))
            r.rect, r.absolute = tuple(res['rect']), bool(res['abs'])
        if res.get('apagenum') is not None and res['apagenum'] != r.apage:
            ctx.fail('failed-statement-changed-page:%s' % e['text'].split()[0], case,
                     'statement failed with error %d but the active page is %r afterwards, it was %r'
                     % (err, res['apagenum'], r.apage))
            r.apage = res['apagenum']
    if kind in ('mode', 'page'):
        # Any SCREEN statement, judged by what Display.screen() does.  A statement that raised an error changed
        # nothing (checked above).  A successful one is a full mode reset - new erased pages, viewport and window
        # unset - exactly when the video mode or the colorswitch it asks for differs from the current one (an omitted
        # colorswitch counts as 0; on Olivetti/Hercules many mode numbers name the same mode); otherwise it only
        # selects pages: viewport, window and all pixels stay.  The active page is the one given, else the one
        # that was active (PCjr: page 0 if the new mode has too few pages).
        if err is None:
            reset = res.get('key_before') != res.get('key_after')
            if kind == 'mode':
                r.cur_mode = e['mode']
            r.set_geometry(res['geom'])
            if e.get('apage') is not None:
                r.apage = e['apage']
            elif r.apage >= r.num_pages:
                r.apage = 0
            if reset:
                r.rect, r.absolute, r.window = (0, 0, r.W - 1, r.H - 1), False, None
                ctx.count('screen:mode-reset')
            else:
                ctx.count('screen:pages-only')
                if changed:
                    ctx.fail('page-switch-changed-pixels', case,
                             'SCREEN without a change of mode or colorswitch changed pixels on pages %s' % sorted(changed))
            if 'rect' in res and (tuple(res['rect']) != tuple(r.rect) or bool(res['abs']) != bool(r.absolute)):
                ctx.fail('viewport-state:SCREEN', case, 'viewport is %r abs=%r after the SCREEN statement (%s), expected %r abs=%r'
                         % (res['rect'], res['abs'], 'mode reset' if reset else 'page selection only', r.rect, r.absolute))
                r.rect, r.absolute = tuple(res['rect']), bool(res['abs'])
            if res.get('apagenum') is not None and res['apagenum'] != r.apage:
                ctx.fail('active-page-state', case, 'active page is %r after the statement, expected %r'
                         % (res['apagenum'], r.apage))
                r.apage = res['apagenum']
        return
    if kind == 'pcopy':
        # PCOPY legitimately changes the destination page; a rejected one changes nothing
        if err is not None and changed:
            ctx.fail('failed-pcopy-changed-pixels', case, 'rejected PCOPY changed pixels on pages %s' % sorted(changed))
        return
    if r.text:
        if kind == 'gfx' or kind == 'view':
            if err != 5:
                ctx.fail('text-mode-no-ifc:' + e['text'].split()[0], case,
                         'text mode: expected Illegal function call, got %r' % (err,))
            if changed or not res.get('text_same', True):
                ctx.fail('text-mode-changed:' + e['text'].split()[0], case,
                         'text mode: statement changed the screen (pixels of pages %s)' % sorted(changed))
        return
    if kind == 'free':
        return
    # allowed region on the active page
    x0, y0, x1, y1 = r.rect
    frame = None
    if kind == 'view':
        if err is not None:
            allowed = None
        elif e.get('rect') is None:
            allowed = None
        else:
            a, b, c, d = e['rect']
            nx0, ny0, nx1, ny1 = min(a, c), min(b, d), max(a, c), max(b, d)
            allowed = (nx0, ny0, nx1, ny1) if e.get('fill') else None
            if e.get('border'):
                # border: the one-pixel frame around the new rectangle (and nothing beyond it)
                frame = (nx0 - 1, ny0 - 1, nx1 + 1, ny1 + 1)
    else:
        allowed = (x0, y0, x1, y1)
    for pg, runs in sorted(changed.items()):
        if pg != r.apage:
            ctx.fail('other-page:%s' % e['text'].split()[0], dict(case, page=pg, apage=r.apage),
                     'statement changed page %d while the active page is %d (%d runs, first %r)'
                     % (pg, r.apage, len(runs), runs[0]))
            continue
        for (y, xa, xb) in runs:
            ok = allowed is not None and allowed[1] <= y <= allowed[3] and allowed[0] <= xa and xb <= allowed[2]
            if not ok and frame is not None:
                ok = all(on_frame(x, y, frame, allowed) for x in range(xa, xb + 1))
            if not ok:
                ctx.fail('outside-viewport:%s' % e['text'].split()[0],
                         dict(case, page=pg, run=[y, xa, xb], viewport=list(r.rect), absolute=r.absolute),
                         'cells x=%d..%d of row %d changed; allowed region %r%s (viewport %r, page %d)'
                         % (xa, xb, y, allowed, ' + frame %r' % (frame,) if frame else '', r.rect, pg))
                break
    # bookkeeping from the statement issued
    if kind == 'view' and err is None:
        if e.get('rect') is None:
            r.rect, r.absolute = (0, 0, r.W - 1, r.H - 1), False
        else:
            a, b, c, d = e['rect']
            r.rect, r.absolute = (min(a, c), min(b, d), max(a, c), max(b, d)), bool(e.get('abs'))
    if kind == 'window' and err is None:
        r.window = e.get('window')
    # the implementation's own idea of the viewport must agree with the statements issued
    if 'rect' in res and (tuple(res['rect']) != tuple(r.rect) or bool(res['abs']) != bool(r.absolute)):
        ctx.fail('viewport-state:%s' % e['text'].split()[0], case,
                 'viewport is %r abs=%r after the statement, expected %r abs=%r'
                 % (res['rect'], res['abs'], r.rect, r.absolute))
        r.rect, r.absolute = tuple(res['rect']), bool(res['abs'])


def on_frame(x, y, frame, inner):
    """Inside the bounding box of the border (the border of reversed corners lies one pixel inside the new rectangle)."""
    fx0, fy0, fx1, fy1 = frame
    return fx0 <= x <= fx1 and fy0 <= y <= fy1


# ---------------------------------------------------------------------------------------------------------
# statement histories (oracle only)

def gen_view(rng, r, exact=False):
    W, H = r.W, r.H
    k = rng.random()
    if k < 0.12 and not exact:
        return {'text': 'VIEW', 'kind': 'view', 'rect': None}
    if k < 0.22:
        # rejected forms
        a, b, c, d = rng.choice([(-1, 0, 10, 10), (0, 0, W, 10), (0, 0, 10, H), (5, 5, 5, 20), (5, 5, 20, 5),
                                 (0, -1, 10, 10), (W, H, W + 5, H + 5)])
    else:
        rc = rng.choice(view_rects(rng, W, H)[1:])
        a, b, c, d = rc
        if rng.random() < 0.25:
            a, c = c, a
        if rng.random() < 0.25:
            b, d = d, b
    absolute = rng.random() < 0.5
    fill = rng.random() < 0.5
    border = rng.random() < 0.5
    if exact:
        fa = ba = 1
    else:
        fa, ba = rng.randrange(0, 4), rng.randrange(0, 4)
    if rng.random() < 0.2:
        # an attribute outside 0..255: Illegal function call, and the viewport in force must stay in force
        bad = rng.choice([256, 300, -1, 32767, -32768, 1000])
        which = rng.randrange(3)
        if which == 0:
            fill, fa = True, bad
        elif which == 1:
            border, ba = True, bad
        else:
            fill, border, fa, ba = True, True, rng.choice([1, bad]), bad
    text = 'VIEW %s(%d,%d)-(%d,%d)' % ('SCREEN ' if absolute else '', a, b, c, d)
    if fill or border:
        text += ',%s' % (fa if fill else '')
    if border:
        text += ',%d' % ba
    e = {'text': text, 'kind': 'view', 'rect': [a, b, c, d], 'abs': absolute, 'fill': fill, 'border': border}
    if exact:
        e['prep'] = True
        e['model'] = '%s viewa %d %d %d %d %d %s %s' % (model_prefix(r), a, b, c, d, absolute,
                                                       fa if fill else 'n', ba if border else 'n')
    return e


def gen_window(rng):
    k = rng.random()
    if k < 0.2:
        return {'text': 'WINDOW', 'kind': 'window', 'window': None}
    x0, x1 = sorted(rng.choice([(-100, 100), (0, 1), (-1, 1), (0, 639), (-32000, 32000), (1000, 1010), (-0.001, 0.001)]))
    y0, y1 = sorted(rng.choice([(-100, 100), (0, 1), (-1, 1), (0, 199), (-32000, 32000), (-5, 0.5)]))
    scr = rng.random() < 0.4
    return {'text': 'WINDOW %s(%s,%s)-(%s,%s)' % ('SCREEN ' if scr else '', fmt_num(x0), fmt_num(y0), fmt_num(x1), fmt_num(y1)),
            'kind': 'window', 'window': (x0, y0, x1, y1)}


DRAW_CMDS = 'UDLREFGH'


def gen_draw(rng, r):
    parts = []
    for _ in range(rng.randrange(1, 8)):
        k = rng.random()
        if k < 0.45:
            parts.append('%s%s%d' % (rng.choice(['', '', 'B', 'N']), rng.choice(DRAW_CMDS),
                                     rng.choice([0, 1, 3, 10, 50, 200, 1000, 9999, 32767, 99999])))
        elif k < 0.65:
            sign = rng.choice(['', '+', '-'])
            parts.append('%sM%s%d,%s%d' % (rng.choice(['', 'B', 'N']), sign, rng.choice([0, 5, 100, 700, 9999]),
                                          rng.choice(['', '-']) if sign else '', rng.choice([0, 5, 100, 700, 9999])))
        elif k < 0.75:
            parts.append('S%d' % rng.choice([1, 4, 8, 40, 255]))
        elif k < 0.85:
            parts.append(rng.choice(['A0', 'A1', 'A2', 'A3', 'TA45', 'TA-30', 'TA200', 'TA360']))
        elif k < 0.93:
            parts.append('C%d' % rng.randrange(0, max(2, r.num_attr)))
        else:
            parts.append('P%d,%d' % (rng.randrange(0, 4), rng.randrange(0, 4)))
    return {'text': 'DRAW "%s"' % ' '.join(parts), 'kind': 'gfx'}


def gen_history(rng, r, n, paints):
    g = Gen(rng, r)
    entries = []
    # r is updated only when the statements are judged; keep a local shadow for generation
    for i in range(n):
        k = rng.random()
        if k < 0.08:
            e = gen_view(rng, r)
        elif k < 0.13:
            e = gen_window(rng)
        elif k < 0.2 and r.num_pages > 1:
            a = rng.randrange(min(r.num_pages, 4))
            v = rng.randrange(min(r.num_pages, 4))
            if rng.random() < 0.1:
                a = r.num_pages   # rejected
            e = {'text': 'SCREEN ,,%d,%d' % (a, v), 'kind': 'page', 'apage': a}
        elif k < 0.3:
            e = {'text': '%s %s%s' % (rng.choice(['PSET', 'PRESET']), pt(g.lxy(), rng.random() < 0.2),
                                      rng.choice(['', ',%d' % g.attr()])), 'kind': 'gfx'}
        elif k < 0.55:
            p, q = g.lxy(), g.lxy()
            first = rng.choice([pt(p), pt(p), pt(p, True), ''])
            shape = rng.choice(['', '', 'B', 'BF'])
            style = rng.choice(['', '', ',%d' % s16(rng.randrange(65536))])
            e = {'text': 'LINE %s-%s,%s,%s%s' % (first, pt(q, rng.random() < 0.2), rng.choice(['', '%d' % g.attr()]),
                                                 shape, style), 'kind': 'gfx'}
        elif k < 0.7:
            rad = rng.choice([0, 1, 5, 30, 100, 300, 1000, rng.randrange(3000)])
            if r.window is not None:
                rad = round(abs(r.window[2] - r.window[0]) * rng.uniform(0, 1.5), 3)
            text = 'CIRCLE %s,%s,%s' % (pt(g.lxy(), rng.random() < 0.15), fmt_num(rad), rng.choice(['', '%d' % g.attr()]))
            if rng.random() < 0.6:
                a0 = rng.choice(['', '%.3f' % rng.uniform(-6.28, 6.28)])
                a1 = rng.choice(['', '%.3f' % rng.uniform(-6.28, 6.28)])
                asp = rng.choice(['', '1', '.1', '.5', '2', '10', '%.3f' % rng.uniform(0.01, 5)])
                text += ',%s,%s' % (a0, a1)
                if asp:
                    text += ',' + asp
            e = {'text': text, 'kind': 'gfx'}
        elif k < 0.76 and paints[0] > 0:
            paints[0] -= 1
            if rng.random() < 0.5:
                text = 'PAINT %s,%d,%d' % (pt(g.lxy(), rng.random() < 0.1), g.attr(), g.attr())
            else:
                tile = '+'.join('CHR$(%d)' % rng.randrange(256) for _ in range(rng.randrange(1, 9)))
                text = 'PAINT %s,%s,%d' % (pt(g.lxy()), tile, g.attr())
            e = {'text': text, 'kind': 'gfx'}
        elif k < 0.88:
            e = gen_draw(rng, r)
        else:
            name = rng.choice(sorted(SPRITES))
            e = {'text': 'PUT %s,%s%s' % (pt(g.lxy()), name, rng.choice(['', ',PSET', ',PRESET', ',AND', ',OR', ',XOR'])),
                 'kind': 'gfx'}
        e['text'] = e['text'].rstrip(',')
        entries.append(e)
        # generation follows the requested (not yet confirmed) viewport so that coordinates stay boundary-dense
        if e['kind'] == 'view' and e.get('rect') and 0 <= min(e['rect']) and max(e['rect'][0], e['rect'][2]) < r.W \
                and max(e['rect'][1], e['rect'][3]) < r.H and e['rect'][0] != e['rect'][2] and e['rect'][1] != e['rect'][3]:
            a, b, c, d = e['rect']
            shadow = Shadow(r, (min(a, c), min(b, d), max(a, c), max(b, d)), e['abs'], g.r.window)
            g = Gen(rng, shadow)
        elif e['kind'] == 'view' and e.get('rect') is None:
            g = Gen(rng, Shadow(r, (0, 0, r.W - 1, r.H - 1), False, g.r.window))
        elif e['kind'] == 'window':
            g = Gen(rng, Shadow(r, g.r.rect, g.r.absolute, e['window']))
    return entries


class Shadow(object):
    def __init__(self, r, rect, absolute, window):
        self.W, self.H, self.num_attr, self.num_pages = r.W, r.H, r.num_attr, r.num_pages
        self.rect, self.absolute, self.window = rect, absolute, window


# ---------------------------------------------------------------------------------------------------------
# direct calls of the anchored functions (arbitrary integers, arbitrary index expressions)

def ix_token(ix):
    if isinstance(ix, slice):
        return 's%s:%s' % ('n' if ix.start is None else ix.start, 'n' if ix.stop is None else ix.stop)
    return 'i%d' % ix


def gen_ix(rng, lo, hi, size, off):
    def bound():
        k = rng.random()
        if k < 0.1:
            return None
        if k < 0.85:
            return coord_abs(rng, lo, hi, size) - off
        return rng.choice([-size, -size - 1, -size + 1, -2 * size, 2 * size, -(lo + 1) - off, -off, -off - 1, -off - 5])
    if rng.random() < 0.3:
        b = bound()
        return b if b is not None else 0
    return slice(bound(), bound())


def direct_part(ctx, r, n):
    """graph_view[...] = 1 with arbitrary index expressions (model validation, includes wrapped negative stops that
    no call site produces), and primitives with integers beyond the 16-bit range (judged by the oracle too)."""
    rng = ctx.rng
    g = Gen(rng, r)
    gfx, gv = r.gfx, r.gfx.graph_view
    cases, outs, lines = [], [], []
    pre = model_prefix(r)
    ox, oy = g.off()
    for _ in range(n):
        kind = rng.choice(['setitem', 'setitem', 'setitem', 'ellipse', 'line', 'boxf', 'box', 'fill', 'cutoff', 'contains'])
        big = rng.random() < 0.3

        def P():
            x, y = g.xy(clamp=False)
            if big and kind == 'boxf':
                x, y = x + rng.choice([0, 10 ** 6, -10 ** 6, 2 ** 31, -2 ** 40]), y + rng.choice([0, 10 ** 5, -10 ** 7])
            elif big:
                # loops over the clamped range: keep a broken clamp from running (nearly) forever
                x, y = x + rng.choice([0, 70000, -70000, 100000]), y + rng.choice([0, 66000, -100000])
            return x, y
        judged = True
        if kind == 'setitem':
            yi = gen_ix(rng, r.rect[1], r.rect[3], r.H, oy)
            xi = gen_ix(rng, r.rect[0], r.rect[2], r.W, ox)
            line = '%s setitem %s %s' % (pre, ix_token(yi), ix_token(xi))
            judged = False

            def call():
                gv[yi, xi] = 1
        elif kind == 'ellipse':
            p = g.xy()
            rx, ry = rng.choice([0, 1, 2, 5, 30, 100, rng.randrange(300)]), rng.choice([0, 1, 2, 5, 30, 100, rng.randrange(300)])
            line = '%s ellipse %d %d %d %d' % (pre, p[0], p[1], rx, ry)

            def call():
                gfx._draw_ellipse(p[0], p[1], rx, ry, 1)
        elif kind in ('line', 'box', 'boxf'):
            p, q = P(), P()
            if kind == 'line' and max(abs(p[0]), abs(p[1]), abs(q[0]), abs(q[1])) > 10 ** 5:
                pass
            pat = rng.choice([0xffff, 0xffff, 0x5555, rng.randrange(65536)])
            if kind == 'boxf':
                line = '%s boxf %d %d %d %d' % ((pre,) + p + q)

                def call():
                    gfx._draw_box_filled(p[0], p[1], q[0], q[1], 1)
            elif kind == 'box':
                line = '%s box %d %d %d %d %d' % ((pre,) + p + q + (pat,))

                def call():
                    gfx._draw_box(p[0], p[1], q[0], q[1], 1, pat)
            else:
                line = '%s line %d %d %d %d %d' % ((pre,) + p + q + (pat,))

                def call():
                    gfx._draw_line(p[0], p[1], q[0], q[1], 1, pat)
        elif kind == 'fill':
            # the interval write of _flood_fill: x_left >= bound_x0, x_right <= bound_x1, y within bounds
            bx0, by0, bx1, by1 = gv.get_bounds()
            y = rng.randint(by0, by1)
            xl = rng.randint(bx0, bx1)
            xr = rng.randint(xl, bx1)
            line = '%s fill %d %d %d' % (pre, y, xl, xr)

            def call():
                gv[y, xl:xr + 1] = 1
        elif kind == 'cutoff':
            p = P()
            lines.append('%s cutoff %d %d' % ((pre,) + p))
            outs.append('ok %d %d' % tuple(gv.cutoff_coord(*p)))
            cases.append(lines[-1])
            ctx.case(lines[-1])
            continue
        else:
            p = g.xy()
            lines.append('%s contains %d %d' % ((pre,) + p))
            outs.append('ok %d' % int(bool(gv.contains(*p))))
            cases.append(lines[-1])
            ctx.case(lines[-1])
            continue
        r.zero_apage()
        r.sync()
        try:
            call()
            exc = None
        except Exception as e:
            exc = type(e).__name__
        changed = r.sync(record=True)
        res = {'err': None, 'changed': changed}
        out = ('exc ' + exc) if exc else impl_string(res)
        lines.append(line)
        outs.append(out)
        cases.append(line)
        ctx.case(line)
        ctx.count('direct:' + kind)
        if judged:
            judge(ctx, r, {'text': 'direct ' + line.split(' ', 8)[-1], 'kind': 'gfx'}, res,
                  {'video': r.video, 'mode': r.mode, 'direct': line})
            if exc:
                ctx.fail('direct-exception:' + kind, {'video': r.video, 'mode': r.mode, 'direct': line},
                         'primitive raised %s' % exc)
    ctx.compare(cases, outs, lines, label='direct %s/%d' % (r.video, r.mode))


# ---------------------------------------------------------------------------------------------------------

# ---------------------------------------------------------------------------------------------------------
# failing statements between a successful VIEW and later drawing

def failing_statements(rng, r):
    """Every error path of VIEW / VIEW SCREEN / WINDOW / SCREEN / PCOPY and of the drawing statements: bad coordinates,
    attributes outside 0..255, too many or too few arguments, wrong types, overflow.  Each is an entry with the meta
    data the oracle would need if the implementation accepted it."""
    W, H, np = r.W, r.H, r.num_pages
    x0, y0, x1, y1 = W // 4, H // 4, W // 2, H // 2
    out = []

    def view(text, rect=(x0, y0, x1, y1), absolute=False, fill=False, border=False):
        out.append({'text': text, 'kind': 'view', 'rect': list(rect), 'abs': absolute, 'fill': fill, 'border': border,
                    'expect_err': True, 'must': True})

    for bad in (256, 300, -1, 32767):
        view('VIEW (%d,%d)-(%d,%d),%d' % (x0, y0, x1, y1, bad), fill=True)
        view('VIEW (%d,%d)-(%d,%d),,%d' % (x0, y0, x1, y1, bad), border=True)
        view('VIEW SCREEN (%d,%d)-(%d,%d),1,%d' % (x0, y0, x1, y1, bad), absolute=True, fill=True, border=True)
        view('VIEW SCREEN (%d,%d)-(%d,%d),%d,1' % (x0, y0, x1, y1, bad), absolute=True, fill=True, border=True)
    for i, e in enumerate(out):
        e['must'] = i < 6 or i % 4 == rng.randrange(4)
    n_attr = len(out)
    view('VIEW (%d,%d)-(%d,%d)' % (-1, y0, x1, y1), rect=(-1, y0, x1, y1))
    view('VIEW (%d,%d)-(%d,%d),1,1' % (x0, y0, W, y1), rect=(x0, y0, W, y1), fill=True, border=True)
    view('VIEW SCREEN (%d,%d)-(%d,%d)' % (x0, y0, x1, H), rect=(x0, y0, x1, H), absolute=True)
    view('VIEW (%d,%d)-(%d,%d)' % (x0, y0, x0, y1), rect=(x0, y0, x0, y1))
    view('VIEW (%d,%d)-(%d,%d),2' % (x0, y0, x1, y0), rect=(x0, y0, x1, y0), fill=True)
    view('VIEW (1E10,0)-(5,5)', rect=(0, 0, 5, 5))
    view('VIEW (40000,0)-(5,5)', rect=(0, 0, 5, 5))
    view('VIEW (%d,%d)-(%d,%d),1,2,3' % (x0, y0, x1, y1), fill=True, border=True)
    view('VIEW (%d,%d)-(%d,%d),"a"' % (x0, y0, x1, y1), fill=True)
    view('VIEW (%d,%d)-(%d,%d),1,"b"' % (x0, y0, x1, y1), fill=True, border=True)
    view('VIEW (%d,%d)' % (x0, y0))
    view('VIEW (%d,%d)-(%d)' % (x0, y0, x1))
    view('VIEW SCREEN', rect=(0, 0, W - 1, H - 1), absolute=True)
    view('VIEW SCREEN (%d,%d)-(%d,%d),70000' % (x0, y0, x1, y1), absolute=True, fill=True)
    for e in out[n_attr:]:
        e['must'] = False

    def other(text, kind='gfx', **kw):
        out.append(dict({'text': text, 'kind': kind, 'expect_err': True, 'must': False}, **kw))

    other('WINDOW (1,1)-(1,5)', 'window', window=None)
    other('WINDOW SCREEN (1,1)-(5,1)', 'window', window=None)
    other('WINDOW (1,1)', 'window', window=None)
    other('WINDOW SCREEN', 'window', window=None)
    other('WINDOW (1,"a")-(2,2)', 'window', window=None)
    other('WINDOW (1,1)-(2,2),3', 'window', window=None)
    other('SCREEN ,,%d' % np, 'page', apage=np)
    other('SCREEN ,,0,%d' % np, 'page', apage=0)
    other('SCREEN ,,255,255', 'page', apage=255)
    other('SCREEN ,,256', 'page', apage=256)
    other('SCREEN ,,-1', 'page', apage=-1)
    other('SCREEN ,,"a"', 'page', apage=0)
    other('SCREEN 99', 'mode', mode=99, apage=None)
    other('SCREEN 256', 'mode', mode=256, apage=None)
    other('SCREEN %d,,%d' % (r.mode, np), 'mode', mode=r.mode, apage=np)
    other('SCREEN %d,1,0,0,0,0' % r.mode, 'mode', mode=r.mode, apage=0)
    other('PCOPY %d,0' % np, 'pcopy')
    other('PCOPY 0,%d' % np, 'pcopy')
    other('PCOPY 0', 'pcopy')
    other('PCOPY 0,1,2', 'pcopy')
    other('PCOPY -1,0', 'pcopy')
    other('PCOPY "a",0', 'pcopy')
    for t in ['PSET (1,1),256', 'PSET (1,1),-1', 'PRESET (1,1),300', 'PSET (40000,1)', 'PSET (1,1E10),1', 'PSET (1)',
              'PSET (1,1),1,2', 'PSET ("a",1)', 'PSET STEP(70000,0)',
              'LINE (1,1)-(2,2),256', 'LINE (1,1)-(2,2),-1,BF', 'LINE (1,1)-(2,2),1,Q', 'LINE (1,1)-(2,2),1,B,70000',
              'LINE (1,1)-(2,2),1,BF,1,2', 'LINE (1,1)-(40000,2)', 'LINE (1,1)', 'LINE -("a",2)', 'LINE (1,1)-(2,2),"c"',
              'CIRCLE (1,1),-5', 'CIRCLE (1,1),5,256', 'CIRCLE (1,1),5,-1', 'CIRCLE (1,1),5,1,7', 'CIRCLE (1,1),5,1,0,-7',
              'CIRCLE (1,1)', 'CIRCLE (1,1),5,1,0,1,1,1', 'CIRCLE (40000,1),5', 'CIRCLE (1,1),1E10', 'CIRCLE (1,1),"r"',
              'PAINT (1,1),256', 'PAINT (1,1),-1', 'PAINT (1,1),1,300', 'PAINT (1,1),""', 'PAINT (1,1),1,1,5',
              'PAINT (40000,1)', 'PAINT (1,1),CHR$(1),1,CHR$(1)', 'PAINT (1)', 'PAINT (1,1),1,"b"',
              'DRAW "Q"', 'DRAW "U99999999"', 'DRAW "S300"', 'DRAW "S0"', 'DRAW "M1"', 'DRAW "A4"', 'DRAW "TA999"',
              'DRAW "C100000"', 'DRAW "P1"', 'DRAW 5', 'DRAW', 'DRAW "U=QQ;"', 'DRAW "M10000,0"', 'DRAW "T5"',
              'PUT (1,1),Q%', 'PUT (1,1),A$', 'PUT (1,1)', 'PUT (1,1),A%,GOTO', 'PUT (%d,%d),B%%,PSET' % (W, H),
              'PUT (40000,1),A%', 'PUT (1,1),A%,PSET,1', 'GET (0,0)-(5,5),Q%', 'GET (0,0)-(%d,5),A%%' % (W + 5),
              'GET (0,0)-(39,29),Z%', 'GET (0,0),A%']:
        other(t)
    return out


def probe_drawing(rng, r, rect, absolute):
    """Drawing statements that would leave the viewport (and would be misplaced if relative coordinates were taken as
    absolute) if it were no longer in force."""
    W, H = r.W, r.H
    ox, oy = (0, 0) if absolute else (rect[0], rect[1])
    c = rng.randrange(1, max(2, r.num_attr))
    k = rng.randrange(6)
    if k == 0:
        t = 'LINE (%d,%d)-(%d,%d),%d,BF' % (-ox - 5, -oy - 5, W + 5 - ox, H + 5 - oy, c)
    elif k == 1:
        t = 'LINE (%d,%d)-(%d,%d),%d' % (-ox, -oy, W - 1 - ox, H - 1 - oy, c)
    elif k == 2:
        t = 'CIRCLE (%d,%d),%d,%d' % ((rect[0] + rect[2]) // 2 - ox, (rect[1] + rect[3]) // 2 - oy, max(W, H) // 3, c)
    elif k == 3:
        t = 'PSET (%d,%d),%d: PSET (%d,%d),%d: PSET (%d,%d),%d' % (
            rect[2] + 1 - ox, rect[1] - oy, c, rect[0] - ox, rect[3] + 1 - oy, c, 0 - ox, 0 - oy, c)
    elif k == 4:
        t = 'DRAW "BM%d,%d C%d R%d D%d L%d U%d"' % (max(0, rect[0] - ox + 1), max(0, rect[1] - oy + 1), c, W, H, 2 * W, 2 * H)
    else:
        t = 'LINE (%d,%d)-(%d,%d),%d,B' % (rect[0] - 1 - ox, rect[1] - 1 - oy, rect[2] + 1 - ox, rect[3] + 1 - oy, c)
    return {'text': t, 'kind': 'gfx'}


def failing_part(ctx, r, n_fail):
    """A viewport smaller than the screen is set; then rejected statements alternate with drawing that reaches outside
    it.  The oracle demands that the viewport and the active page stay in force (and, as always, that every changed
    cell lies in the viewport of the active page)."""
    rng = ctx.rng
    W, H = r.W, r.H
    rect = (W // 3, H // 3, 2 * W // 3, 2 * H // 3)
    absolute = rng.random() < 0.4
    apage = rng.randrange(min(r.num_pages, 3))
    family = failing_statements(rng, r)
    must = [e for e in family if e['must']]
    rest = [e for e in family if not e['must']]
    chosen = must + rng.sample(rest, min(len(rest), max(0, n_fail - len(must))))
    rng.shuffle(chosen)
    entries = [{'text': 'SCREEN ,,%d,0' % apage, 'kind': 'page', 'apage': apage},
               {'text': 'WINDOW', 'kind': 'window', 'window': None},
               setup_view_entry(rect, absolute)]
    for i, e in enumerate(chosen):
        entries.append(e)
        entries.append(probe_drawing(rng, r, rect, absolute))
        if i % 7 == 6:
            # a successful VIEW in between, so that the rejected ones meet different viewports
            rect = rng.choice([(W // 3, H // 3, 2 * W // 3, 2 * H // 3), (1, 1, W // 2, H // 2), (W // 2, H // 2, W - 2, H - 2)])
            absolute = not absolute
            entries.append(setup_view_entry(rect, absolute))
    where = {'video': r.video, 'mode': r.mode, 'part': 'failing', 'meta': entries, 'start': start_state(r)}
    results = r.run(entries, setup=SETUP_RESTORE(r))
    for k, (e, res) in enumerate(zip(entries, results)):
        judge(ctx, r, e, res, dict(where, index=k))
        ctx.case((r.video, r.mode, 'failing', k, e['text']))
        if e.get('expect_err'):
            ctx.count('failing:' + e['text'].split()[0])
    return results


# ---------------------------------------------------------------------------------------------------------
# GET / PUT at the edges of the viewport, every PUT verb

PUT_VERBS = ['PSET', 'PRESET', 'AND', 'OR', 'XOR', '']


def sprite_setup(r, sizes):
    W, H = r.W, r.H
    lines = ['VIEW: WINDOW: SCREEN ,,0,0: DIM S%(600): DIM T%(600)',
             'LINE (0,0)-(%d,%d),1,BF' % (W - 1, H - 1)]
    for name, (w, h) in zip(['S%', 'T%'], sizes):
        lines.append('GET (0,0)-(%d,%d),%s' % (w - 1, h - 1, name))
    lines.append('LINE (0,0)-(%d,%d),0,BF' % (W - 1, H - 1))
    return lines


def sprite_part(ctx, r, full):
    """Sprites fetched with GET are PUT with every verb at positions straddling each edge of the viewport by
    0, 1, half the sprite and all but one pixel.  The real size of a sprite is measured from an unambiguous PUT in the
    middle of the unset viewport (it is what PUT writes, e.g. twice the fetched width in Tandy SCREEN 6)."""
    W, H = r.W, r.H
    sizes = [(8, 6), (3, 2)]
    names = ['S%', 'T%']
    # 1. measure
    measure = [{'text': 'SCREEN ,,0,0', 'kind': 'page', 'apage': 0}, {'text': 'VIEW', 'kind': 'view', 'rect': None}]
    for name in names:
        measure.append({'text': 'PUT (%d,%d),%s,PSET' % (W // 4, H // 4, name), 'kind': 'gfx', 'prep': True})
    where = {'video': r.video, 'mode': r.mode, 'part': 'sprite', 'full': full}
    results = r.run(measure, setup=sprite_setup(r, sizes))
    # the prologue issued VIEW: WINDOW
    r.rect, r.absolute, r.window = (0, 0, W - 1, H - 1), False, None
    real = []
    for k, (e, res) in enumerate(zip(measure, results)):
        judge(ctx, r, e, res, dict(where, index=k, stage='measure'))
        if k >= 2:
            runs = [run for runs in res.get('changed', {}).values() for run in runs] if 'exc' not in res else []
            if not runs:
                real.append(None)
            else:
                real.append((max(b for _, a, b in runs) - min(a for _, a, b in runs) + 1,
                             max(y for y, _, _ in runs) - min(y for y, _, _ in runs) + 1))
    if r.broken or len(real) != 2 or None in real:
        ctx.count('sprite:not-measured')
        return
    for (w, h), (sw, sh) in zip(sizes, real):
        ctx.count('sprite:%dx%d-fetched-is-%dx%d' % (w, h, sw, sh))
    # 2. viewports
    sw, sh = real[0]
    views = [((W // 4, H // 4, min(W - 3, W // 4 + max(3 * sw, 20)), min(H - 3, H // 4 + max(3 * sh, 12))), False),
             ((W // 2, H // 2, W - 3, H - 2), True)]
    if full:
        views += [(None, False), ((1, 1, W - 2, H - 2), False), ((5, 5, 5 + sw - 2, 5 + sh), True),
                  ((0, 0, W // 3, H // 3), True), ((W // 3, 0, W - 1, H - 1), False)]
    for vi, (rect, absolute) in enumerate(views):
        if r.broken:
            return
        vr = rect if rect is not None else (0, 0, W - 1, H - 1)
        ox, oy = (0, 0) if (absolute or rect is None) else (vr[0], vr[1])
        apage = vi % min(r.num_pages, 3)
        entries = [{'text': 'SCREEN ,,%d,0' % apage, 'kind': 'page', 'apage': apage}, setup_view_entry(rect, absolute)]
        puts = []
        n = 0
        for si, (name, (w, h), (sw, sh)) in enumerate(zip(names, sizes, real)):
            if si > 0 and vi > 0 and not full:
                continue    # quick tier: the small sprite only in the first viewport
            inx, iny = vr[0] + 1, vr[1] + 1
            spots = []
            for d in sorted(set([0, 1, max(1, sw // 2), sw - 1, w])):
                spots.append((vr[0] - d, iny))                  # over the left edge by d
                spots.append((vr[2] - sw + 1 + d, iny))         # over the right edge by d
            for d in sorted(set([0, 1, max(1, sh // 2), sh - 1])):
                spots.append((inx, vr[1] - d))                  # over the top edge by d
                spots.append((inx, vr[3] - sh + 1 + d))         # over the bottom edge by d
            spots.append((vr[2] - sw + 2, vr[3] - sh + 2))      # over the corner by one
            spots.append((vr[2] - sw + 1, vr[3] - sh + 1))      # exactly in the corner
            for (ax, ay) in spots:
                fit = vr[0] <= ax and ax + sw - 1 <= vr[2] and vr[1] <= ay and ay + sh - 1 <= vr[3]
                verbs = PUT_VERBS if full else ['PSET', PUT_VERBS[1 + n % 5]]
                n += 1
                for verb in verbs:
                    x, y = ax - ox, ay - oy
                    e = {'text': 'PUT (%d,%d),%s%s' % (x, y, name, ',' + verb if verb else ''), 'kind': 'gfx', 'prep': True,
                         'put_fit': bool(fit), 'sprite': [sw, sh], 'at': [ax, ay], 'verb': verb}
                    if verb in ('PSET', 'OR', 'XOR', ''):
                        # on a zeroed page a sprite of attribute 1 changes exactly the cells it is written to
                        e['model'] = '%s put %d %d %d %d' % (model_prefix(r), x, y, sw, sh)
                    puts.append(e)
        # PSET / PRESET first: with the other verbs a sprite that is let through may raise a host exception
        puts.sort(key=lambda e: 0 if e['verb'] in ('PSET', 'PRESET') else 1)
        entries += puts
        results = r.run(entries, setup=sprite_setup(r, sizes))
        r.rect, r.absolute, r.window = (0, 0, W - 1, H - 1), False, None      # the prologue issued VIEW: WINDOW
        cases, outs, lines = [], [], []
        for k, (e, res) in enumerate(zip(entries, results)):
            before = model_prefix(r)
            judge(ctx, r, e, res, dict(where, index=k, view=vi))
            ctx.case((r.video, r.mode, 'sprite', vi, e['text']))
            if 'put_fit' in e:
                ctx.count('put:%s:%s' % (e['verb'] or 'default', 'fits' if e['put_fit'] else 'sticks-out'))
            if 'exc' in res:
                break
            if e.get('model'):
                lines.append(before + ' ' + e['model'].split(' ', 8)[-1])
                outs.append(impl_string(res))
                cases.append({'video': r.video, 'mode': r.mode, 'text': e['text']})
        if lines:
            ctx.compare(cases, outs, lines, label='sprite')


def start_state(r):
    return {'rect': list(r.rect), 'abs': r.absolute, 'apage': r.apage, 'window': r.window}


def setup_view_entry(rect, absolute):
    if rect is None:
        return {'text': 'VIEW', 'kind': 'view', 'rect': None}
    return {'text': 'VIEW %s(%d,%d)-(%d,%d)' % (('SCREEN ' if absolute else '',) + tuple(rect)), 'kind': 'view',
            'rect': list(rect), 'abs': absolute, 'fill': False, 'border': False}


def run_entries(ctx, r, entries, where, label):
    """Run the statements in the real session, judge each with the oracle and compare the exact ones with the model."""
    results = r.run(entries, setup=SETUP_RESTORE(r) if not r.text else ())
    cases, outs, lines = [], [], []
    for k, (e, res) in enumerate(zip(entries, results)):
        w = dict(where, index=k)
        before = model_prefix(r) if not r.text else ''
        judge(ctx, r, e, res, w)
        ctx.case((r.video, r.mode, label, where.get('hist'), k, e['text']))
        if 'exc' in res:
            break
        if e.get('model') and not r.text:
            # the model line was generated for the viewport expected at that point; regenerate the prefix from the
            # tracked state so that a rejected VIEW earlier in the list cannot desynchronise it
            mline = before + ' ' + e['model'].split(' ', 8)[-1]
            lines.append(mline)
            if e['kind'] == 'view' and res['err'] is not None:
                # a rejected VIEW: the error and the viewport it leaves in force
                outs.append('err %d view %d %d %d %d %d' % ((res['err'],) + tuple(res['rect']) + (1 if res['abs'] else 0,)))
            else:
                outs.append(impl_string(res, view=(e['kind'] == 'view')))
            cases.append({'video': r.video, 'mode': r.mode, 'text': e['text']})
    if lines:
        ctx.compare(cases, outs, lines, label=label)
    return results


def config_part(ctx, video, mode, n_exact, n_direct, n_hist, hist_len, n_paint, n_fail=14):
    rng = ctx.rng
    r = Runner(video, mode)
    try:
        ctx.count('config:%s/%d' % (video, mode))
        rects = view_rects(rng, r.W, r.H)
        # a few viewport/page set-ups per configuration
        picks = [None] + rng.sample(rects[1:], min(len(rects) - 1, 3 if ctx.quick else 7))
        for vi, rect in enumerate(picks):
            absolute = rng.random() < 0.5
            apage = rng.randrange(min(r.num_pages, 4))
            vpage = rng.randrange(min(r.num_pages, 4))
            where = {'video': video, 'mode': mode, 'setup': vi}
            pre = [{'text': 'SCREEN ,,%d,%d' % (apage, vpage), 'kind': 'page', 'apage': apage},
                   {'text': 'WINDOW', 'kind': 'window', 'window': None},
                   setup_view_entry(rect, absolute)]
            run_entries(ctx, r, pre, where, 'setup')
            if r.broken:
                ctx.count('config-aborted-after-host-exception')
                return
            entries = gen_exact(rng, r, n_exact)
            run_entries(ctx, r, entries, dict(where, part='exact', meta=entries, start=start_state(r)), 'exact')
            if r.broken:
                ctx.count('config-aborted-after-host-exception')
                return
            direct_part(ctx, r, n_direct)
            # VIEW statements themselves (fill and border on a zeroed page), each from the current viewport
            ventries = []
            for _ in range(4):
                ventries.append(gen_view(rng, r, exact=True))
            results = []
            for e in ventries:
                if r.broken:
                    ctx.count('config-aborted-after-host-exception')
                    return
                e['model'] = '%s %s' % (model_prefix(r), e['model'].split(' ', 8)[-1])
                results += run_entries(ctx, r, [e], dict(where, part='view', meta=[e], start=start_state(r)), 'view')
        if r.broken:
            return
        # rejected statements between a successful VIEW and later drawing
        failing_part(ctx, r, n_fail)
        if r.broken:
            return
        sprite_part(ctx, r, full=not ctx.quick)
        if r.broken:
            return
        # statement histories, oracle only
        paints = [n_paint]
        for hi in range(n_hist):
            if r.broken:
                ctx.count('config-aborted-after-host-exception')
                return
            hist = gen_history(rng, r, hist_len, paints)
            where = {'video': video, 'mode': mode, 'hist': hi, 'program': [e['text'] for e in hist],
                     'meta': hist, 'start': start_state(r)}
            results = r.run(hist, setup=SETUP_RESTORE(r))
            for k, (e, res) in enumerate(zip(hist, results)):
                judge(ctx, r, e, res, dict(where, index=k))
                ctx.case((video, mode, 'hist', hi, k, e['text']))
            if hi == 0 and vi >= 0:
                ctx.sample({'config': '%s SCREEN %d' % (video, mode), 'history': [e['text'] for e in hist[:6]],
                            'errors': [x.get('err') for x in results[:6]],
                            'changed_cells': [sum(b - a + 1 for v in x.get('changed', {}).values() for (_, a, b) in v)
                                              for x in results[:6]]})
    finally:
        r.close()


def SETUP_RESTORE(r):
    """Program prologue for histories: sprites are fetched with the viewport unset, then the tracked viewport, window
    and page are put back (RUN clears variables, not the screen state)."""
    lines = ['SCREEN ,,0,0'] + list(SETUP_SPRITES)
    if r.rect != (0, 0, r.W - 1, r.H - 1) or r.absolute:
        lines.append('VIEW %s(%d,%d)-(%d,%d)' % (('SCREEN ' if r.absolute else '',) + tuple(r.rect)))
    if r.window is not None:
        lines.append('WINDOW (%s,%s)-(%s,%s)' % tuple(fmt_num(v) for v in r.window))
        # the sign convention (WINDOW vs WINDOW SCREEN) is irrelevant to the oracle
    lines.append('SCREEN ,,%d' % r.apage)
    return lines


def text_part(ctx, video):
    rng = ctx.rng
    r = Runner(video, 0)
    try:
        ctx.count('config:%s/0' % video)
        r.session.execute(b'PRINT "some text on the screen"')
        stmts = ['PSET (1,1)', 'PRESET (1,1),0', 'LINE (0,0)-(10,10)', 'LINE -(10,10),1,BF', 'LINE (1,1)-(5,5),,B',
                 'CIRCLE (10,10),5', 'CIRCLE (10,10),5,1,0,3,2', 'PAINT (1,1)', 'PAINT (1,1),CHR$(85),1', 'DRAW "U5 R5"',
                 'DRAW "BM10,10"', 'PUT (0,0),Z%', 'PUT (0,0),Z%,PSET', 'GET (0,0)-(1,1),Z%', 'VIEW', 'VIEW (1,1)-(5,5)',
                 'VIEW SCREEN (1,1)-(5,5),1,2', 'WINDOW', 'WINDOW (0,0)-(1,1)', 'PSET (40000,1)', 'PSET STEP(1,1)',
                 'LINE (%d,%d)-(%d,%d),1' % tuple(rng.randint(-500, 900) for _ in range(4))]
        entries = [{'text': t, 'kind': 'gfx'} for t in stmts]
        results = r.run(entries, setup=['DIM Z%(20)'])
        for k, (e, res) in enumerate(zip(entries, results)):
            judge(ctx, r, e, res, {'video': video, 'mode': 0, 'text_mode': True, 'program': stmts, 'index': k})
            ctx.case((video, 0, 'text', e['text']))
    finally:
        r.close()


# ---------------------------------------------------------------------------------------------------------
# histories with video mode switches between multi-page modes (oracle only)

# (W, H, pages, attributes) used for *generating* coordinates and page numbers only; the oracle's bookkeeping takes the
# geometry from the mode the implementation reports after each switch
MODE_GEOM = {
    'ega': {0: (640, 350, 4, 16), 1: (320, 200, 8, 4), 2: (640, 200, 8, 2), 7: (320, 200, 32, 16), 8: (640, 200, 16, 16),
            9: (640, 350, 8, 16)},
    'vga': {0: (720, 400, 4, 16), 1: (320, 200, 8, 4), 2: (640, 200, 8, 2), 7: (320, 200, 32, 16), 8: (640, 200, 16, 16),
            9: (640, 350, 8, 16)},
    'tandy': {0: (640, 225, 4, 16), 1: (320, 200, 8, 4), 2: (640, 200, 8, 2), 3: (160, 200, 8, 16), 4: (320, 200, 8, 4),
              5: (320, 200, 4, 16), 6: (640, 200, 4, 4)},
    'pcjr': {0: (640, 200, 4, 16), 1: (320, 200, 8, 4), 2: (640, 200, 8, 2), 3: (160, 200, 8, 16), 4: (320, 200, 8, 4),
             5: (320, 200, 4, 16), 6: (640, 200, 4, 4)},
    'cga': {0: (640, 200, 4, 16), 1: (320, 200, 8, 4), 2: (640, 200, 8, 2)},
}
MODE_START = {'ega': 7, 'vga': 9, 'tandy': 5, 'pcjr': 4, 'cga': 1}


class GenState(object):
    """What the generator assumes about the session while it writes a history (never used by the oracle)."""

    def __init__(self, video, mode, apage=0):
        self.video = video
        self.set_mode(mode)
        self.apage = apage

    def set_mode(self, mode):
        self.mode = mode
        self.W, self.H, self.num_pages, self.num_attr = MODE_GEOM[self.video][mode]
        self.rect, self.absolute, self.window = (0, 0, self.W - 1, self.H - 1), False, None


def gen_mode_history(rng, video, start_mode, n_segments, seg_len, paints):
    """Segments of drawing statements separated by SCREEN mode switches.  The switch keeps, repeats or changes the
    active/visible page arguments; the first drawing statements after it go to whatever page is then active."""
    st = GenState(video, start_mode)
    modes = sorted(m for m in MODE_GEOM[video] if m != 0)
    entries = []
    for seg in range(n_segments):
        if seg > 0 or rng.random() < 0.5:
            k = rng.random()
            new_mode = rng.choice(modes) if k < 0.92 else 0
            npg = MODE_GEOM[video][new_mode][2]
            form = rng.random()
            a = v = None
            if form < 0.45:
                text = 'SCREEN %d' % new_mode                          # pages kept implicitly
            elif form < 0.6:
                a = st.apage
                text = 'SCREEN %d,,%d' % (new_mode, a)                  # active page repeated
            elif form < 0.75:
                a, v = st.apage, rng.randrange(min(npg, 4))
                text = 'SCREEN %d,,%d,%d' % (new_mode, a, v)
            elif form < 0.95:
                a, v = rng.randrange(min(npg, 4)), rng.randrange(min(npg, 4))
                text = 'SCREEN %d,,%d,%d' % (new_mode, a, v)
            else:
                a = npg                                                  # rejected: no such page
                text = 'SCREEN %d,,%d' % (new_mode, a)
            same = (new_mode == st.mode)
            entries.append({'text': text, 'kind': 'mode', 'mode': new_mode, 'apage': a, 'same_mode': same})
            ok = (a if a is not None else st.apage) < npg or (a is None and video == 'pcjr')
            if ok:
                keep = st.apage if a is None else a
                if not same:
                    st.set_mode(new_mode)
                st.apage = keep if keep < st.num_pages else 0
        if st.mode != 0:
            # drawing right after the switch, before any page statement: a filled box, and the sprites are fetched again
            # in the new mode's format (GET changes nothing)
            entries.append({'text': 'LINE (0,0)-(79,29),%d,BF' % rng.randrange(1, st.num_attr), 'kind': 'gfx'})
            entries.append({'text': 'GET (0,0)-(8,6),A%', 'kind': 'gfx'})
            entries.append({'text': 'GET (0,0)-(39,29),B%', 'kind': 'gfx'})
        if rng.random() < 0.4 and st.num_pages > 1:
            a, v = rng.randrange(min(st.num_pages, 4)), rng.randrange(min(st.num_pages, 4))
            entries.append({'text': 'SCREEN ,,%d,%d' % (a, v), 'kind': 'page', 'apage': a})
            st.apage = a
        body = gen_history(rng, st, seg_len, paints)
        for e in body:
            entries.append(e)
            if e['kind'] == 'page' and e['apage'] < st.num_pages:
                st.apage = e['apage']
    return entries


def run_online(ctx, r, entries, where, setup):
    """Run the entries and judge each one as soon as it has run (needed when the video mode changes on the way)."""
    def online(k, e, res):
        judge(ctx, r, e, res, dict(where, index=k))
        ctx.case((r.video, 'modes', where.get('hist'), k, e['text']))
    r.online = online
    try:
        results = r.run(entries, setup=setup)
    finally:
        r.online = None
    if results and 'exc' in results[-1]:
        k = min(len(results) - 1, len(entries) - 1)
        judge(ctx, r, entries[k], results[-1], dict(where, index=k))
    return results


def mode_part(ctx, video, n_hist, n_segments, seg_len, n_paint):
    rng = ctx.rng
    start = MODE_START[video]
    for hi in range(n_hist):
        r = Runner(video, start)
        try:
            ctx.count('modes:%s' % video)
            paints = [n_paint]
            hist = gen_mode_history(rng, video, start, n_segments, seg_len, paints)
            where = {'video': video, 'mode': start, 'modes': True, 'hist': hi, 'program': [e['text'] for e in hist],
                     'meta': hist}
            results = run_online(ctx, r, hist, where, setup=['DIM A%(120): DIM B%(700)'])
            for e in hist:
                if e['kind'] == 'mode':
                    ctx.count('modeswitch:%s' % ('same' if e['same_mode'] else 'pages-kept' if e['apage'] is None
                                                 else 'pages-given'))
            if hi == 0:
                ctx.sample({'config': '%s mode switches' % video, 'history': [e['text'] for e in hist[:8]],
                            'errors': [x.get('err') for x in results[:8]]})
        finally:
            r.close()


def run(ctx):
    translated.check_viewport(ctx)
    quick = ctx.quick
    configs = CONFIGS_QUICK if quick else CONFIGS_ALL
    for video in [v for v, _ in TEXT_CONFIGS]:
        text_part(ctx, video)
    for i, (video, mode) in enumerate(configs):
        if quick:
            config_part(ctx, video, mode, n_exact=24, n_direct=30, n_hist=2, hist_len=25, n_paint=2)
        else:
            config_part(ctx, video, mode, n_exact=150, n_direct=300, n_hist=10, hist_len=60, n_paint=25, n_fail=200)
        ctx.log('%s SCREEN %d done' % (video, mode))
    if quick:
        # the sprite formats of the configurations the quick tier does not otherwise visit
        for video, mode in [c for c in CONFIGS_ALL if c not in CONFIGS_QUICK]:
            if (video, mode) in SPRITE_EXTRA_QUICK:
                r = Runner(video, mode)
                try:
                    ctx.count('config-sprites-only:%s/%d' % (video, mode))
                    sprite_part(ctx, r, full=False)
                finally:
                    r.close()
    for video in ['ega', 'vga', 'tandy', 'pcjr', 'cga']:
        if quick:
            mode_part(ctx, video, n_hist=2, n_segments=5, seg_len=6, n_paint=1)
        else:
            mode_part(ctx, video, n_hist=12, n_segments=10, seg_len=10, n_paint=6)
        ctx.log('%s mode switches done' % video)


def replay(ctx, payload):
    """Re-run the recorded statement list (setup entries + program) in a fresh session and apply the oracle."""
    case = payload.get('case', {})
    sub = Sub(ctx)
    key = payload.get('key')
    if case.get('text_mode'):
        text_part(sub, case['video'])
    elif 'direct' in case:
        r = Runner(case['video'], case['mode'])
        try:
            toks = case['direct'].split()
            W, H, x0, y0, x1, y1, ab = [int(t) for t in toks[1:8]]
            if (x0, y0, x1, y1) != (0, 0, W - 1, H - 1) or ab:
                run_entries(sub, r, [setup_view_entry((x0, y0, x1, y1), bool(ab))], {}, 'setup')
            op, args = toks[8], [int(t) for t in toks[9:] if re.fullmatch(r'-?\d+', t)]
            g = r.gfx
            r.zero_apage()
            r.sync()
            try:
                if op == 'line':
                    g._draw_line(args[0], args[1], args[2], args[3], 1, args[4])
                elif op == 'box':
                    g._draw_box(args[0], args[1], args[2], args[3], 1, args[4])
                elif op == 'boxf':
                    g._draw_box_filled(args[0], args[1], args[2], args[3], 1)
                elif op == 'ellipse':
                    g._draw_ellipse(args[0], args[1], args[2], args[3], 1)
                elif op == 'fill':
                    g.graph_view[args[0], args[1]:args[2] + 1] = 1
            except Exception as e:
                sub.fail('direct-exception:' + op, case, 'primitive raised %s' % type(e).__name__)
            changed = r.sync(record=True)
            judge(sub, r, {'text': 'direct ' + ' '.join(toks[8:]), 'kind': 'gfx'}, {'err': None, 'changed': changed}, case)
        finally:
            r.close()
    elif case.get('part') == 'sprite':
        r = Runner(case['video'], case['mode'])
        try:
            sprite_part(sub, r, full=bool(case.get('full')))
        finally:
            r.close()
    elif case.get('modes'):
        r = Runner(case['video'], case['mode'])
        try:
            run_online(sub, r, case['meta'], {k: v for k, v in case.items() if k not in ('meta', 'program')},
                       setup=['DIM A%(120): DIM B%(700)'])
        finally:
            r.close()
    elif 'meta' in case:
        r = Runner(case['video'], case['mode'])
        try:
            st = case['start']
            pre = [{'text': 'SCREEN ,,%d' % st['apage'], 'kind': 'page', 'apage': st['apage']}]
            if tuple(st['rect']) != (0, 0, r.W - 1, r.H - 1) or st['abs']:
                pre.append(setup_view_entry(st['rect'], st['abs']))
            run_entries(sub, r, pre, {}, 'setup')
            if st.get('window'):
                r.window = tuple(st['window'])
            hist = case['meta']
            results = r.run(hist, setup=SETUP_RESTORE(r))
            for k, (e, res) in enumerate(zip(hist, results)):
                judge(sub, r, e, res, dict(case, index=k))
        finally:
            r.close()
    else:
        import random
        sub.rng = random.Random(payload.get('seed', 0))
        run(sub)
    hits = [f for f in sub.failures if f['key'] == key] or sub.failures
    return hits[0]['what'] if hits else None


class Sub(object):
    """thin proxy so that replay reuses the check code without touching the outer evidence"""

    def __init__(self, ctx):
        self.__dict__.update(ctx.__dict__)
        self._ctx = ctx
        self.failures = []
        self.disagreements = []
        self.notes = {}

    def __getattr__(self, name):
        return getattr(self._ctx.__class__, name).__get__(self)
