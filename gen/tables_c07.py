"""Generate lean/PcbV/Gen/DecConsts.lean: the text constants of the decimal conversions in numbers.py."""
from gen_tables import generator, HEADER, lean_bytes


@generator('DecConsts')
def gen_dec():
    from pcbasic.basic.values import numbers
    out = [HEADER, 'namespace PcbV.Gen.DecConsts\n']
    out.append('def blanks : List Nat := %s' % lean_bytes(numbers.BLANKS))
    out.append('def separators : List Nat := %s' % lean_bytes(numbers.SEPARATORS))
    for name, cls in (('single', numbers.Single), ('double', numbers.Double)):
        out.append('def %sSigil : Nat := %d' % (name, bytearray(cls.sigil)[0]))
        out.append('def %sExpSign : Nat := %d' % (name, bytearray(cls.exp_sign)[0]))
    out.append('def integerSigil : Nat := %d' % bytearray(numbers.Integer.sigil)[0])
    out.append('\nend PcbV.Gen.DecConsts\n')
    return '\n'.join(out)
