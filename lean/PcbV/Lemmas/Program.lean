import PcbV.Model.Program
/-
  Lemmas about PcbV.Model.Program used by Props/C13.lean: byte helpers, the line scanner on
  well-formed bodies, serialisation of record lists (append laws), rescan/parse of a serialisation,
  the update_line_dict walk on a serialised suffix, sorted-list decomposition, dict bookkeeping.
-/
namespace PcbV.Program
open PcbV PcbV.Gen

/-! ### bytes -/

theorem le16_lo_hi (n : Nat) (h : n < 65536) : le16 (lo n) (hi n) = n := by
  unfold le16 lo hi; omega

theorem lo_hi_not_zero (n : Nat) (h0 : 0 < n) (h : n < 65536) : ¬ (lo n = 0 ∧ hi n = 0) := by
  unfold lo hi; omega

/-! ### scanner -/

theorem scanStep_zero (st : Scan) (h : st.skip = 0) : scanStep false st 0 = none := by
  unfold scanStep; simp [h]

theorem scanEol_body (b : Bytes) : ∀ (st st' : Scan) (rest : Bytes),
    scanAll false st b = some st' → st'.skip = 0 → scanEol false st (b ++ 0 :: rest) = b.length := by
  induction b with
  | nil =>
    intro st st' rest h hs
    simp only [scanAll, Option.some.injEq] at h
    subst h
    simp [scanEol, scanStep_zero st hs]
  | cons c t ih =>
    intro st st' rest h hs
    simp only [scanAll] at h
    simp only [List.cons_append, scanEol, List.length_cons]
    cases hstep : scanStep false st c with
    | none => rw [hstep] at h; cases h
    | some st1 =>
      rw [hstep] at h
      simp only
      rw [ih st1 st' rest h hs]; omega

theorem wf_scan (b : Bytes) (h : wfBody b = true) (rest : Bytes) :
    scanEol false Scan.init (b ++ 0 :: rest) = b.length := by
  unfold wfBody at h
  cases hs : scanAll false Scan.init b with
  | none => rw [hs] at h; cases h
  | some st' =>
    rw [hs] at h
    simp only [beq_iff_eq] at h
    exact scanEol_body b Scan.init st' rest hs h

/-! ### serialisation: append laws -/

theorem size_append (xs ys : List Rec) : size (xs ++ ys) = size xs + size ys := by
  induction xs with
  | nil => simp [size]
  | cons r t ih => simp only [List.cons_append, size, ih]; omega

theorem serRecs_append (xs ys : List Rec) : ∀ a, serRecs a (xs ++ ys) = serRecs a xs ++ serRecs (a + size xs) ys := by
  induction xs with
  | nil => intro a; simp [serRecs, size]
  | cons r t ih =>
    intro a
    simp only [List.cons_append, serRecs, size, ih, List.append_assoc]
    have : a + recSize r + size t = a + (recSize r + size t) := by omega
    rw [this]

theorem length_serRecs (rs : List Rec) : ∀ a, (serRecs a rs).length = size rs := by
  induction rs with
  | nil => intro a; simp [serRecs, size]
  | cons r t ih =>
    intro a
    simp only [serRecs, size, List.length_cons, List.length_append, ih, recSize]; omega

theorem offs_append (xs ys : List Rec) : ∀ p, offs p (xs ++ ys) = offs p xs ++ offs (p + size xs) ys := by
  induction xs with
  | nil => intro p; simp [offs, size]
  | cons r t ih =>
    intro p
    simp only [List.cons_append, offs, size, ih]
    have : p + recSize r + size t = p + (recSize r + size t) := by omega
    rw [this]

theorem ser_head (a : Nat) (rs : List Rec) : ∃ tl, ser a rs = 0 :: tl := by
  cases rs with
  | nil => exact ⟨[0, 0], rfl⟩
  | cons r t => exact ⟨_, rfl⟩

theorem ser_cons (a : Nat) (r : Rec) (rs : List Rec) :
    ser a (r :: rs) = 0 :: lo (a + recSize r) :: hi (a + recSize r) :: lo r.1 :: hi r.1 ::
      (r.2 ++ ser (a + recSize r) rs) := by
  simp [ser, serRecs]

theorem length_ser (a : Nat) (rs : List Rec) : (ser a rs).length = size rs + 3 := by
  simp [ser, length_serRecs]

theorem ser_append (a : Nat) (xs ys : List Rec) : ser a (xs ++ ys) = serRecs a xs ++ ser (a + size xs) ys := by
  simp [ser, serRecs_append]

/-- records are admissible at address `a`: 16-bit line numbers, well-formed bodies, all addresses 16-bit -/
def GoodRecs (a : Nat) (rs : List Rec) : Prop :=
  (∀ r ∈ rs, r.1 ≤ 65535 ∧ wfBody r.2 = true) ∧ a + size rs < 65536

theorem GoodRecs.tail {a : Nat} {r : Rec} {rs : List Rec} (h : GoodRecs a (r :: rs)) :
    GoodRecs (a + recSize r) rs := by
  refine ⟨fun x hx => h.1 x (List.mem_cons_of_mem _ hx), ?_⟩
  have := h.2; simp only [size] at this; omega

/-! ### reading a serialisation back -/

theorem rescanAux_ser (rs : List Rec) : ∀ (fuel p a : Nat), rs.length < fuel → GoodRecs a rs →
    rescanAux false fuel p (ser a rs) = offs p rs ++ [(65536, p + size rs)] := by
  induction rs with
  | nil =>
    intro fuel p a hf _
    obtain ⟨f, rfl⟩ : ∃ f, fuel = f + 1 := ⟨fuel - 1, by simp at hf; omega⟩
    simp [ser, serRecs, rescanAux, offs, size]
  | cons r t ih =>
    intro fuel p a hf hg
    obtain ⟨f, rfl⟩ : ∃ f, fuel = f + 1 := ⟨fuel - 1, by simp at hf; omega⟩
    have hr := hg.1 r (List.mem_cons_self ..)
    have hsz := hg.2
    simp only [size] at hsz
    obtain ⟨tl, htl⟩ := ser_head (a + recSize r) t
    rw [ser_cons, htl]
    simp only [rescanAux]
    have hnz := lo_hi_not_zero (a + recSize r) (by unfold recSize; omega) (by omega)
    rw [if_neg hnz]
    simp only [wf_scan r.2 hr.2 tl, le16_lo_hi r.1 (by omega), List.drop_left, offs, List.cons_append, size]
    rw [← htl, ih f (p + 5 + r.2.length) (a + recSize r) (by simp at hf; omega) hg.tail]
    unfold recSize
    have e1 : p + 5 + r.2.length = p + (5 + r.2.length) := by omega
    have e2 : p + (5 + r.2.length) + size t = p + (5 + r.2.length + size t) := by omega
    rw [e1, e2]

theorem parseAux_ser (rs : List Rec) : ∀ (fuel a : Nat), rs.length < fuel → GoodRecs a rs →
    parseAux fuel (ser a rs) = rs := by
  induction rs with
  | nil =>
    intro fuel a hf _
    obtain ⟨f, rfl⟩ : ∃ f, fuel = f + 1 := ⟨fuel - 1, by simp at hf; omega⟩
    simp [ser, serRecs, parseAux]
  | cons r t ih =>
    intro fuel a hf hg
    obtain ⟨f, rfl⟩ : ∃ f, fuel = f + 1 := ⟨fuel - 1, by simp at hf; omega⟩
    have hr := hg.1 r (List.mem_cons_self ..)
    have hsz := hg.2
    simp only [size] at hsz
    obtain ⟨tl, htl⟩ := ser_head (a + recSize r) t
    rw [ser_cons, htl]
    simp only [parseAux]
    have hnz := lo_hi_not_zero (a + recSize r) (by unfold recSize; omega) (by omega)
    rw [if_neg hnz]
    simp only [wf_scan r.2 hr.2 tl, le16_lo_hi r.1 (by omega), List.drop_left, List.take_left]
    rw [← htl, ih f (a + recSize r) (by simp at hf; omega) hg.tail]

theorem length_le_size (rs : List Rec) : rs.length ≤ size rs := by
  induction rs with
  | nil => simp [size]
  | cons r t ih => simp only [List.length_cons, size, recSize]; omega

theorem rescan_ser (a : Nat) (rs : List Rec) (hg : GoodRecs a rs) : rescan (ser a rs) = dictOf rs := by
  unfold rescan rescanG dictOf
  rw [rescanAux_ser rs _ 0 a (by rw [length_ser]; have := length_le_size rs; omega) hg]
  simp

theorem parse_ser (a : Nat) (rs : List Rec) (hg : GoodRecs a rs) : parse (ser a rs) = rs := by
  unfold parse
  exact parseAux_ser rs _ a (by rw [length_ser]; have := length_le_size rs; omega) hg

end PcbV.Program
