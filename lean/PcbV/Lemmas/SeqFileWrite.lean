/-
  Lemmas about the writer of PcbV.Model.SeqFile (width 255 = no wrapping), about the newline normalisation on
  files that contain LF only in CR LF line ends, and the token form of WRITE# output.
-/
import PcbV.Lemmas.SeqFileEntry
namespace PcbV.SeqFile
open PcbV

/-! ### writer -/

theorem putChars_spec : ∀ (s : Bytes) (w : Wr),
    (putChars s w).content = w.content ++ s ∧ (putChars s w).width = w.width := by
  intro s
  induction s with
  | nil => intro w; simp [putChars]
  | cons c cs ih =>
    intro w
    simp only [putChars]
    split
    · have := ih { w with content := w.content ++ [c], col := 1 }
      simp at this ⊢; exact this
    · have := ih { w with content := w.content ++ [c],
                          col := if c ≥ 32 then (if w.col + 1 = 257 then 1 else w.col + 1) else w.col }
      simp at this ⊢; exact this

/-- with the default width 255 a write appends exactly its argument -/
theorem write_255 (w : Wr) (s : Bytes) (b : Bool) (hw : w.width = 255) :
    (w.write s b).content = w.content ++ s ∧ (w.write s b).width = 255 := by
  simp [Wr.write, hw]
  have := putChars_spec s w
  rw [this.1, this.2, hw]; simp

/-- the host bytes of a sequence of WRITE# statements -/
def stmtsBytes (ss : List (List Item)) : Bytes := (ss.map (fun st => writeText st ++ [13, 10])).flatten

/-- the host bytes of a sequence of PRINT# lines -/
def linesBytes (ls : List Bytes) : Bytes := (ls.map (fun l => l ++ [13, 10])).flatten

theorem writeAll_spec : ∀ (ss : List (List Item)) (w : Wr), w.width = 255 →
    (writeAll ss w).content = w.content ++ stmtsBytes ss ∧ (writeAll ss w).width = 255 := by
  intro ss
  induction ss with
  | nil => intro w hw; simp [writeAll, stmtsBytes, hw]
  | cons st ss ih =>
    intro w hw
    have h := write_255 w (writeText st ++ [13, 10]) true hw
    have := ih (w.writeStmt st) (by simpa [Wr.writeStmt, Wr.writeLine] using h.2)
    simp only [writeAll]
    rw [this.1, this.2]
    simp [Wr.writeStmt, Wr.writeLine, h.1, stmtsBytes]

theorem printAll_spec : ∀ (ls : List Bytes) (w : Wr), w.width = 255 →
    (printAll ls w).content = w.content ++ linesBytes ls ∧ (printAll ls w).width = 255 := by
  intro ls
  induction ls with
  | nil => intro w hw; simp [printAll, linesBytes, hw]
  | cons l ls ih =>
    intro w hw
    have h1 := write_255 w l true hw
    have h2 := write_255 (w.write l) ([] ++ [13, 10]) true h1.2
    have := ih (w.printLine l) (by simpa [Wr.printLine, Wr.writeLine] using h2.2)
    simp only [printAll]
    rw [this.1, this.2]
    simp [Wr.printLine, Wr.writeLine] at h2 ⊢
    simp [h2.1, h1.1, linesBytes]

theorem stripEof_snoc (d : Bytes) : stripEof (d ++ [26]) = d := by
  simp [stripEof]

theorem stripEof_other (f : Bytes) (h : f.getLast? ≠ some 26) : stripEof f = f := by
  simp [stripEof, h]

/-! ### newline normalisation -/

theorem norm_noLF : ∀ (a : Bytes) (last : Option Nat), 10 ∉ a → norm last a = a := by
  intro a
  induction a with
  | nil => intro last _; simp [norm]
  | cons x a ih =>
    intro last h
    simp at h
    have hx : x ≠ 10 := fun e => h.1 e.symm
    simp [norm, hx, lf2cr, ih (some x) h.2]

theorem norm_line : ∀ (a : Bytes) (last : Option Nat) (b : Bytes), 10 ∉ a →
    norm last (a ++ 13 :: 10 :: b) = a ++ 13 :: norm (some 10) b := by
  intro a
  induction a with
  | nil => intro last b _; simp [norm, lf2cr]
  | cons x a ih =>
    intro last b h
    simp at h
    have hx : x ≠ 10 := fun e => h.1 e.symm
    simp [norm, hx, lf2cr, ih (some x) b h.2]

/-- a file made of LF-free lines ended by CR LF, then the EOF byte, is seen with bare CR line ends -/
theorem norm_lines : ∀ (ls : List Bytes) (last : Option Nat), (∀ l ∈ ls, 10 ∉ l) →
    norm last ((ls.map (fun l => l ++ [13, 10])).flatten ++ [26]) = (ls.map (fun l => l ++ [13])).flatten ++ [26] := by
  intro ls
  induction ls with
  | nil => intro last _; simp [norm, lf2cr]
  | cons l ls ih =>
    intro last h
    have hl := h l (by simp)
    have := ih (some 10) (fun l' hl' => h l' (by simp; right; exact hl'))
    simp only [List.map_cons, List.flatten_cons, List.append_assoc]
    have e : l ++ ([13, 10] ++ ((ls.map (fun l => l ++ [13, 10])).flatten ++ [26]))
        = l ++ 13 :: 10 :: ((ls.map (fun l => l ++ [13, 10])).flatten ++ [26]) := by simp
    rw [e, norm_line l last _ hl, this]
    simp

/-! ### WRITE# output as a token stream -/

def Item.isStr : Item → Bool
  | .str _ => true
  | .num _ => false

/-- the word INPUT# hands to the value conversion -/
def Item.payload : Item → Bytes
  | .str s => s
  | .num t => t

/-- the exclusions the code needs, per item -/
def itemOk : Item → Prop
  | .str s => strOk s
  | .num t => numOk t

/-- items with the separator that follows each in the file -/
def stmtToks (le : Bytes) : List Item → List (Item × Bytes)
  | [] => []
  | [a] => [(a, le)]
  | a :: b :: rest => (a, [44]) :: stmtToks le (b :: rest)

def serToks (toks : List (Item × Bytes)) : Bytes := (toks.map (fun p => p.1.bytes ++ p.2)).flatten

theorem writeText_toks (le : Bytes) : ∀ (st : List Item), st ≠ [] →
    writeText st ++ le = serToks (stmtToks le st) := by
  intro st
  induction st with
  | nil => intro h; exact absurd rfl h
  | cons a st ih =>
    intro _
    cases st with
    | nil => simp [writeText, joinComma, stmtToks, serToks]
    | cons b rest =>
      have := ih (by simp)
      simp [writeText, joinComma, stmtToks, serToks] at this ⊢
      exact this

theorem stmtToks_items (le : Bytes) : ∀ (st : List Item), (stmtToks le st).map (·.1) = st := by
  intro st
  induction st with
  | nil => rfl
  | cons a st ih =>
    cases st with
    | nil => rfl
    | cons b rest => simp [stmtToks] at ih ⊢; exact ih

theorem stmtToks_sep (le : Bytes) : ∀ (st : List Item), ∀ p ∈ stmtToks le st, p.1 ∈ st ∧ (p.2 = [44] ∨ p.2 = le) := by
  intro st
  induction st with
  | nil => intro p hp; simp [stmtToks] at hp
  | cons a st ih =>
    cases st with
    | nil => intro p hp; simp [stmtToks] at hp; subst hp; simp
    | cons b rest =>
      intro p hp
      simp only [stmtToks, List.mem_cons] at hp
      rcases hp with rfl | hp
      · simp
      · have := ih p (by simpa [stmtToks] using hp)
        exact ⟨by simp at this ⊢; right; exact this.1, this.2⟩

def allToks (le : Bytes) (ss : List (List Item)) : List (Item × Bytes) := (ss.map (stmtToks le)).flatten

theorem allToks_ser (le : Bytes) : ∀ (ss : List (List Item)), (∀ st ∈ ss, st ≠ []) →
    (ss.map (fun st => writeText st ++ le)).flatten = serToks (allToks le ss) := by
  intro ss
  induction ss with
  | nil => intro _; rfl
  | cons st ss ih =>
    intro h
    have h1 := writeText_toks le st (h st (by simp))
    have h2 := ih (fun s hs => h s (by simp; right; exact hs))
    simp only [List.map_cons, List.flatten_cons, allToks] at h2 ⊢
    rw [h1, h2]
    simp [serToks]

theorem allToks_items (le : Bytes) : ∀ (ss : List (List Item)), (allToks le ss).map (·.1) = ss.flatten := by
  intro ss
  induction ss with
  | nil => rfl
  | cons st ss ih =>
    simp only [allToks, List.map_cons, List.flatten_cons, List.map_append] at ih ⊢
    rw [stmtToks_items, ih]

theorem allToks_ok (le : Bytes) (ss : List (List Item)) (hok : ∀ st ∈ ss, ∀ it ∈ st, itemOk it) :
    ∀ p ∈ allToks le ss, itemOk p.1 ∧ (p.2 = [44] ∨ p.2 = le) := by
  intro p hp
  simp only [allToks, List.mem_flatten, List.mem_map] at hp
  obtain ⟨l, ⟨st, hst, rfl⟩, hp⟩ := hp
  have := stmtToks_sep le st p hp
  exact ⟨hok st hst p.1 this.1, this.2⟩

/-- what INPUT# returns for a list of items, with EOF() after each: true exactly after the last one -/
def expect : List Item → List (R Bytes × Bool)
  | [] => []
  | it :: rest => (.ok it.payload, rest.isEmpty) :: expect rest

theorem item_first (it : Item) (h : itemOk it) : ∃ x t, it.bytes = x :: t ∧ x ≠ 10 ∧ x ≠ 26 := by
  cases it with
  | str s => exact ⟨34, s ++ [34], by simp [Item.bytes], by decide, by decide⟩
  | num t =>
    obtain ⟨hne, hb, _⟩ := h
    cases t with
    | nil => exact absurd rfl hne
    | cons x t' =>
      have := hb x (by simp)
      exact ⟨x, t', rfl, this.2.2.1, this.2.2.2.2.2⟩

theorem serToks_head (toks : List (Item × Bytes)) (hok : ∀ p ∈ toks, itemOk p.1) :
    (serToks toks ++ [26]).head? ≠ some 10 ∧
    (decide ((serToks toks ++ [26]).head? = none ∨ (serToks toks ++ [26]).head? = some 26) = toks.isEmpty) := by
  cases toks with
  | nil => simp [serToks]
  | cons p more =>
    obtain ⟨x, t, hx, h10, h26⟩ := item_first p.1 (hok p (by simp))
    simp [serToks, hx, h10, h26]

/-- INPUT# over a token stream returns the payloads, EOF exactly after the last, and never changes LOF -/
theorem readEntries_toks (le : Bytes) (hle : le = [13, 10] ∨ le = [13]) :
    ∀ (toks : List (Item × Bytes)) (r : Rd), r.view = serToks toks ++ [26] →
    (∀ p ∈ toks, itemOk p.1 ∧ (p.2 = [44] ∨ p.2 = le)) →
    (readEntries (toks.map (·.1.isStr)) r).1 = expect (toks.map (·.1)) ∧
    (readEntries (toks.map (·.1.isStr)) r).2.size = r.size := by
  intro toks
  induction toks with
  | nil => intro r _ _; simp [readEntries, expect]
  | cons p more ih =>
    intro r hv hok
    have hp := hok p (by simp)
    have hmore : ∀ q ∈ more, itemOk q.1 ∧ (q.2 = [44] ∨ q.2 = le) := fun q hq => hok q (by simp; right; exact hq)
    have hh := serToks_head more (fun q hq => (hmore q hq).1)
    have hsep : SepOk p.2 (serToks more ++ [26]) := by
      rcases hp.2 with h | h
      · exact Or.inl h
      · rcases hle with h' | h'
        · exact Or.inr (Or.inl (by rw [h, h']))
        · exact Or.inr (Or.inr ⟨by rw [h, h'], hh.1⟩)
    have hv' : r.view = p.1.bytes ++ p.2 ++ (serToks more ++ [26]) := by
      rw [hv]; simp [serToks]
    have hentry : ∃ r', r.inputEntry p.1.isStr = (.ok (p.1.payload, p.2.take 1), r') ∧
        r'.view = serToks more ++ [26] ∧ r'.size = r.size := by
      obtain ⟨it, sep⟩ := p
      cases it with
      | str s =>
        obtain ⟨r', h1, h2, h3, _⟩ := entry_str (r := r) (s := s) (sep := sep) (rest := serToks more ++ [26])
          (by simpa [Item.bytes] using hv') hp.1 hsep
        exact ⟨r', h1, h2, h3⟩
      | num t =>
        obtain ⟨r', h1, h2, h3, _⟩ := entry_num (r := r) (t := t) (sep := sep) (rest := serToks more ++ [26])
          (by simpa [Item.bytes] using hv') hp.1 hsep
        exact ⟨r', h1, h2, h3⟩
    obtain ⟨r', h1, h2, h3⟩ := hentry
    obtain ⟨e1, e2, _, _, e5⟩ := eof_spec r'
    have := ih r'.eof.2 (by rw [e2, h2]) hmore
    simp only [List.map_cons, readEntries, expect, h1]
    refine ⟨?_, by rw [this.2, e5, h3]⟩
    rw [this.1, e1, h2, hh.2]
    simp [Except.map]

/-! ### PRINT# lines -/

def serLines (le : Bytes) (ls : List Bytes) : Bytes := (ls.map (fun l => l ++ le)).flatten

/-- what LINE INPUT# returns for a list of lines, with EOF() after each -/
def expectLines : List Bytes → List (R Bytes × Bool)
  | [] => []
  | l :: rest => (.ok l, rest.isEmpty) :: expectLines rest

theorem serLines_head (le : Bytes) (hle : le = [13, 10] ∨ le = [13]) (ls : List Bytes)
    (hok : ∀ l ∈ ls, lineOk l ∧ (le = [13] → 10 ∉ l)) :
    (le = [13] → (serLines le ls ++ [26]).head? ≠ some 10) ∧
    (decide ((serLines le ls ++ [26]).head? = none ∨ (serLines le ls ++ [26]).head? = some 26) = ls.isEmpty) := by
  cases ls with
  | nil => simp [serLines]
  | cons l more =>
    have hl := hok l (by simp)
    cases l with
    | nil =>
      rcases hle with rfl | rfl <;> simp [serLines]
    | cons x t =>
      have h26 : x ≠ 26 := (hl.1.1 x (by simp)).2
      refine ⟨?_, by simp [serLines, h26]⟩
      intro h
      have := hl.2 h
      simp at this
      simp [serLines]
      exact fun e => this.1 e.symm

theorem readLines_lines (le : Bytes) (hle : le = [13, 10] ∨ le = [13]) :
    ∀ (ls : List Bytes) (r : Rd), r.view = serLines le ls ++ [26] →
    (∀ l ∈ ls, lineOk l ∧ (le = [13] → 10 ∉ l)) → r.cur ≠ [10] →
    (readLines ls.length r).1 = expectLines ls ∧ (readLines ls.length r).2.size = r.size := by
  intro ls
  induction ls with
  | nil => intro r _ _ _; simp [readLines, expectLines]
  | cons l more ih =>
    intro r hv hok hc
    have hl := hok l (by simp)
    have hmore : ∀ l' ∈ more, lineOk l' ∧ (le = [13] → 10 ∉ l') := fun q hq => hok q (by simp; right; exact hq)
    have hh := serLines_head le hle more hmore
    have hsep : LineSep le (serLines le more ++ [26]) := by
      rcases hle with h | h
      · exact Or.inl h
      · exact Or.inr ⟨h, hh.1 h⟩
    have hv' : r.view = l ++ le ++ (serLines le more ++ [26]) := by
      rw [hv]; simp [serLines]
    obtain ⟨r', h1, h2, h3, h4⟩ := lineInput_line hv' hl.1 hc hsep
    obtain ⟨e1, e2, e3, _, e5⟩ := eof_spec r'
    have := ih r'.eof.2 (by rw [e2, h2]) hmore (by rw [e3, h3]; decide)
    simp only [List.length_cons, readLines, expectLines, h1]
    refine ⟨?_, by rw [this.2, e5, h4]⟩
    rw [this.1, e1, h2, hh.2]

/-! ### whole files -/

theorem close_writeAll (ss : List (List Item)) (w : Wr) (hw : w.width = 255) :
    (writeAll ss w).close = w.content ++ stmtsBytes ss ++ [26] := by
  simp [Wr.close, (writeAll_spec ss w hw).1]

theorem close_printAll (ls : List Bytes) (w : Wr) (hw : w.width = 255) :
    (printAll ls w).close = w.content ++ linesBytes ls ++ [26] := by
  simp [Wr.close, (printAll_spec ls w hw).1]

theorem view_openIn_soft (f : Bytes) : (openIn true f).view = f := by
  simp [openIn, Rd.view]

theorem view_openIn_wrap (f : Bytes) : (openIn false f).view = norm none f := by
  simp [openIn, Rd.view]

theorem writeText_noLF : ∀ (st : List Item), (∀ it ∈ st, 10 ∉ it.bytes) → 10 ∉ writeText st := by
  intro st
  induction st with
  | nil => intro _; simp [writeText, joinComma]
  | cons a st ih =>
    intro h
    cases st with
    | nil => simpa [writeText, joinComma] using h a (by simp)
    | cons b rest =>
      have h1 := h a (by simp)
      have h2 := ih (fun it hit => h it (by simp; right; simpa using hit))
      simp [writeText, joinComma] at h2 ⊢
      exact ⟨h1, h2⟩

/-- the stream INPUT# sees after OPEN FOR INPUT on a file made by WRITE# statements -/
theorem view_written (soft : Bool) (ss : List (List Item)) (hne : ∀ st ∈ ss, st ≠ [])
    (hlf : soft = false → ∀ st ∈ ss, ∀ it ∈ st, 10 ∉ it.bytes) :
    (openIn soft (stmtsBytes ss ++ [26])).view = serToks (allToks (if soft then [13, 10] else [13]) ss) ++ [26] := by
  cases soft with
  | true =>
    rw [view_openIn_soft]
    simp only [stmtsBytes, if_true]
    rw [allToks_ser [13, 10] ss hne]
  | false =>
    rw [view_openIn_wrap]
    have h := norm_lines (ss.map writeText) none (by
      intro l hl
      simp at hl
      obtain ⟨st, hst, rfl⟩ := hl
      exact writeText_noLF st (hlf rfl st hst))
    simp only [List.map_map, stmtsBytes] at h ⊢
    have e : (fun l => l ++ [13, 10]) ∘ writeText = fun st => writeText st ++ [13, 10] := rfl
    have e' : (fun l => l ++ [13]) ∘ writeText = fun st => writeText st ++ [13] := rfl
    rw [e, e'] at h
    rw [h]
    simp only [Bool.false_eq_true, if_false]
    rw [allToks_ser [13] ss hne]

/-- core of the WRITE#/INPUT# round trip on the file bytes -/
theorem roundtrip_core (soft : Bool) (ss : List (List Item)) (hne : ∀ st ∈ ss, st ≠ [])
    (hok : ∀ st ∈ ss, ∀ it ∈ st, itemOk it) (hlf : soft = false → ∀ st ∈ ss, ∀ it ∈ st, 10 ∉ it.bytes) :
    (readEntries (ss.flatten.map Item.isStr) (openIn soft (stmtsBytes ss ++ [26]))).1 = expect ss.flatten ∧
    (readEntries (ss.flatten.map Item.isStr) (openIn soft (stmtsBytes ss ++ [26]))).2.lof = (stmtsBytes ss ++ [26]).length ∧
    (openIn soft (stmtsBytes ss ++ [26])).eof.1 = ss.flatten.isEmpty := by
  have hle : (if soft then [13, 10] else [13]) = [13, 10] ∨ (if soft then [13, 10] else [13]) = ([13] : Bytes) := by
    cases soft <;> simp
  have hv := view_written soft ss hne hlf
  have htok := allToks_ok (if soft then [13, 10] else [13]) ss hok
  have h := readEntries_toks _ hle (allToks (if soft then [13, 10] else [13]) ss) _ hv htok
  have hi := allToks_items (if soft then [13, 10] else [13]) ss
  have hk : (allToks (if soft then [13, 10] else [13]) ss).map (·.1.isStr) = ss.flatten.map Item.isStr := by
    rw [← hi]; simp
  rw [hk, hi] at h
  refine ⟨h.1, by rw [Rd.lof, h.2]; simp [openIn], ?_⟩
  have he := (eof_spec (openIn soft (stmtsBytes ss ++ [26]))).1
  rw [he, hv, (serToks_head _ (fun p hp => (htok p hp).1)).2, ← hi]
  simp

/-- the stream LINE INPUT# sees after OPEN FOR INPUT on a file made by PRINT# lines -/
theorem view_printed (soft : Bool) (ls : List Bytes) (hlf : soft = false → ∀ l ∈ ls, 10 ∉ l) :
    (openIn soft (linesBytes ls ++ [26])).view = serLines (if soft then [13, 10] else [13]) ls ++ [26] := by
  cases soft with
  | true => rw [view_openIn_soft]; simp [linesBytes, serLines]
  | false =>
    rw [view_openIn_wrap]
    have h := norm_lines ls none (hlf rfl)
    simp only [linesBytes, serLines, Bool.false_eq_true, if_false]
    exact h

theorem lines_core (soft : Bool) (ls : List Bytes) (hok : ∀ l ∈ ls, lineOk l)
    (hlf : soft = false → ∀ l ∈ ls, 10 ∉ l) :
    (readLines ls.length (openIn soft (linesBytes ls ++ [26]))).1 = expectLines ls ∧
    (readLines ls.length (openIn soft (linesBytes ls ++ [26]))).2.lof = (linesBytes ls ++ [26]).length ∧
    (openIn soft (linesBytes ls ++ [26])).eof.1 = ls.isEmpty := by
  have hle : (if soft then [13, 10] else [13]) = [13, 10] ∨ (if soft then [13, 10] else [13]) = ([13] : Bytes) := by
    cases soft <;> simp
  have hv := view_printed soft ls hlf
  have hok' : ∀ l ∈ ls, lineOk l ∧ ((if soft then [13, 10] else [13]) = ([13] : Bytes) → 10 ∉ l) := by
    intro l hl
    refine ⟨hok l hl, ?_⟩
    intro h
    cases soft with
    | true => simp at h
    | false => exact hlf rfl l hl
  have h := readLines_lines _ hle ls _ hv hok' (by simp [openIn])
  refine ⟨h.1, by rw [Rd.lof, h.2]; simp [openIn], ?_⟩
  have he := (eof_spec (openIn soft (linesBytes ls ++ [26]))).1
  rw [he, hv, (serLines_head _ hle ls hok').2]

theorem expect_flags : ∀ (its : List Item), (expect its).map (·.2) = its.zipIdx.map (fun p => decide (p.2 + 1 = its.length)) := by
  intro its
  suffices h : ∀ (its : List Item) (k n : Nat), n = k + its.length →
      (expect its).map (·.2) = (its.zipIdx k).map (fun p => decide (p.2 + 1 = n)) by
    have := h its 0 its.length (by simp)
    simpa using this
  intro its
  induction its with
  | nil => intro k n _; simp [expect]
  | cons it rest ih =>
    intro k n hn
    simp only [expect, List.map_cons, List.zipIdx_cons]
    rw [ih (k + 1) n (by simp at hn; omega)]
    simp at hn
    cases rest with
    | nil => simp at hn ⊢; omega
    | cons b r' => simp at hn ⊢; omega

theorem expectLines_flags : ∀ (ls : List Bytes),
    (expectLines ls).map (·.2) = ls.zipIdx.map (fun p => decide (p.2 + 1 = ls.length)) := by
  intro ls
  suffices h : ∀ (ls : List Bytes) (k n : Nat), n = k + ls.length →
      (expectLines ls).map (·.2) = (ls.zipIdx k).map (fun p => decide (p.2 + 1 = n)) by
    have := h ls 0 ls.length (by simp)
    simpa using this
  intro ls
  induction ls with
  | nil => intro k n _; simp [expectLines]
  | cons l rest ih =>
    intro k n hn
    simp only [expectLines, List.map_cons, List.zipIdx_cons]
    rw [ih (k + 1) n (by simp at hn; omega)]
    simp at hn
    cases rest with
    | nil => simp at hn ⊢; omega
    | cons b r' => simp at hn ⊢; omega

theorem expect_words : ∀ (its : List Item), (expect its).map (·.1) = its.map (fun it => .ok it.payload) := by
  intro its; induction its with
  | nil => rfl
  | cons it rest ih => simp [expect, ih]

theorem expectLines_words : ∀ (ls : List Bytes), (expectLines ls).map (·.1) = ls.map (fun l => .ok l) := by
  intro ls; induction ls with
  | nil => rfl
  | cons l rest ih => simp [expectLines, ih]
