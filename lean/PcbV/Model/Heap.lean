import PcbV.Basic
import PcbV.Gen.Errors
/-
  PcbV.Heap — executable model of the BASIC string heap:
    pcbasic/basic/values/strings.py   StringSpace (store, collect_garbage, fix_temporaries,
                                      reset_temporaries, _delete_last, is_permanent, check_modify),
                                      String.lset / String.midset
    pcbasic/basic/memory/memory.py    DataSegment (check_free, _collect_garbage, let_, lset_, rset_, mid_,
                                      swap_, fre_, clear, set_basic_memory_size, get_stack)
    pcbasic/basic/memory/scalars.py   Scalars.set / get / get_strings
    pcbasic/basic/memory/arrays.py    Arrays.allocate / check_dim / erase_ / get_strings
    pcbasic/basic/parser/expressions.py  the part of `parse` that matters to the heap: the evaluation
                                      stack (`units` deques = collector roots), `+` on strings,
                                      reset_temporaries at the start of every expression.

  Only what the collector can see is modelled: string scalars (insertion ordered), one-dimensional
  string arrays, the string space (address ↦ bytes, newest first), `current`, the temporaries
  boundary `temp`, and the evaluation stack.  Other variables only occupy bytes (`scalBytes`,
  `arrBytes`; op `allocNum`).  A stack item is either an own 3-byte pointer (`Item.own`: a literal or
  an intermediate result) or a *view* of a variable's pointer cell (`Item.ref`), as in the Python
  code, where the collector rewrites pointers through memoryviews.

  This is the model of the REPAIRED code (pending fixes C10-*): the boundary `temp` is always an
  integer (defect D16), and the evaluation stacks are unwound when a statement fails
  (`get_stack` try/finally).  `collectOld`, `isPermanentOld`, `stepOld` transcribe the code before
  the repairs (used by the counterexample theorems only).

  A statement that fails returns `.error (e, s')` with the state `s'` the interpreter is left in.
  Error 999 = a Python KeyError 'Dereferencing detached string' would escape (impossible when `WF`).
-/
namespace PcbV.Heap
open PcbV

structure Ptr where
  len : Nat
  addr : Nat
deriving DecidableEq, Repr, Inhabited

def Ptr.null : Ptr := ⟨0, 0⟩

/-- a pointer cell of a variable: scalar number `i` / element `i` of array number `a` (dict order) -/
inductive VLoc
  | sc (i : Nat)
  | el (a i : Nat)
deriving DecidableEq, Repr

inductive Item
  | own (p : Ptr)
  | ref (l : VLoc)
deriving DecidableEq, Repr

structure Heap where
  codeStart : Nat
  varStart : Nat
  total : Nat                       -- DataSegment.total_memory
  stackSize : Nat                   -- DataSegment.stack_size
  code : List (Nat × Bytes)         -- string literals inside the program text (read only)
  scalars : List (Bytes × Ptr)      -- Scalars._vars restricted to `$` names, insertion order
  scalBytes : Nat                   -- Scalars.current
  arrays : List (Bytes × List Ptr)  -- Arrays._buffers restricted to `$` names, insertion order
  arrBytes : Nat                    -- Arrays.current
  strs : List (Nat × Bytes)         -- StringSpace._strings, newest first
  current : Nat                     -- StringSpace.current
  temp : Nat                        -- StringSpace._temp
  stack : List Item                 -- DataSegment._stack, all deques flattened, oldest first
deriving Repr

/-- `DataSegment.stack_start()` -/
def Heap.top (s : Heap) : Nat := s.total - s.stackSize - 2

def lookup : List (Nat × Bytes) → Nat → Option Bytes
  | [], _ => none
  | (k, v) :: r, a => if k = a then some v else lookup r a

/-- replace the bytes stored under key `a` (in-place write through a memoryview) -/
def update : List (Nat × Bytes) → Nat → Bytes → List (Nat × Bytes)
  | [], _, _ => []
  | (k, v) :: r, a, b => if k = a then (k, b) :: r else (k, v) :: update r a b

def remove : List (Nat × Bytes) → Nat → List (Nat × Bytes)
  | [], _ => []
  | (k, v) :: r, a => if k = a then r else (k, v) :: remove r a

def setAt : List α → Nat → α → List α
  | [], _, _ => []
  | _ :: r, 0, x => x :: r
  | y :: r, n + 1, x => y :: setAt r n x

def getV (s : Heap) : VLoc → Option Ptr
  | .sc i => (s.scalars[i]?).map (·.2)
  | .el a i => (s.arrays[a]?).bind (fun x => x.2[i]?)

def setV (s : Heap) (l : VLoc) (p : Ptr) : Heap :=
  match l with
  | .sc i =>
    match s.scalars[i]? with
    | some x => { s with scalars := setAt s.scalars i (x.1, p) }
    | none => s
  | .el a i =>
    match s.arrays[a]? with
    | some x => { s with arrays := setAt s.arrays a (x.1, setAt x.2 i p) }
    | none => s

def itemPtr (s : Heap) : Item → Ptr
  | .own p => p
  | .ref l => (getV s l).getD Ptr.null

/-- `String.dereference` / `StringSpace.view(...).tobytes()`; a detached pointer reads as empty here,
    `collect` reports it as error 999 -/
def deref (s : Heap) (p : Ptr) : Bytes :=
  if p.len = 0 then []
  else if s.varStart ≤ p.addr then (lookup s.strs p.addr).getD []
  else if s.codeStart ≤ p.addr then ((lookup s.code p.addr).getD []).take p.len
  else []

def itemVal (s : Heap) (it : Item) : Bytes := deref s (itemPtr s it)

/-! ### the collector -/

/-- a root: stack index or variable cell -/
inductive Loc
  | v (l : VLoc)
  | s (k : Nat)
deriving DecidableEq, Repr

def getLoc (s : Heap) : Loc → Option Ptr
  | .v l => getV s l
  | .s k => match s.stack[k]? with
            | some (.own p) => some p
            | _ => none

def setLoc (s : Heap) (l : Loc) (p : Ptr) : Heap :=
  match l with
  | .v l => setV s l p
  | .s k => match s.stack[k]? with
            | some (.own _) => { s with stack := setAt s.stack k (.own p) }
            | _ => s

structure Entry where
  loc : Loc
  plen : Nat
  addr : Nat
  bytes : Bytes
deriving Repr

def enumFrom : Nat → List α → List (Nat × α)
  | _, [] => []
  | n, x :: r => (n, x) :: enumFrom (n + 1) r

/-- `scalars.get_strings() + arrays.get_strings() + stack_strings` as (location, pointer) -/
def rootLocs (s : Heap) : List Loc :=
  (enumFrom 0 s.scalars).map (fun x => Loc.v (.sc x.1))
  ++ ((enumFrom 0 s.arrays).map (fun x => (enumFrom 0 x.2.2).map (fun y => Loc.v (.el x.1 y.1)))).flatten
  ++ (enumFrom 0 s.stack).map (fun x => match x.2 with
                                         | .own _ => Loc.s x.1
                                         | .ref l => Loc.v l)

/-- `StringSpace._retrieve` -/
def retrieve (s : Heap) (p : Ptr) : Option Bytes :=
  if p.len = 0 then some [] else lookup s.strs p.addr

/-- first loop of `collect_garbage`: the strings located in string space; `none` = KeyError -/
def entriesOf (s : Heap) : List Loc → Option (List Entry)
  | [] => some []
  | l :: r =>
    match getLoc s l with
    | none => entriesOf s r
    | some p =>
      if s.varStart ≤ p.addr then
        match retrieve s p, entriesOf s r with
        | some b, some es => some (⟨l, p.len, p.addr, b⟩ :: es)
        | _, _ => none
      else entriesOf s r

/-- the sentinel: lowest-address permanent string among the roots -/
def sentinel (temp : Nat) : List Entry → Nat → Option Loc → Option Loc
  | [], _, v => v
  | e :: r, lastPerm, v =>
    if e.plen > 0 ∧ e.addr > temp ∧ e.addr < lastPerm then sentinel temp r e.addr (some e.loc)
    else sentinel temp r lastPerm v

/-- stable sort, largest address first (`list.sort(key=addr, reverse=True)`) -/
def insertDesc (e : Entry) : List Entry → List Entry
  | [] => [e]
  | x :: r => if x.addr > e.addr then x :: insertDesc e r else e :: x :: r

def sortDesc : List Entry → List Entry
  | [] => []
  | e :: r => insertDesc e (sortDesc r)

/-- `StringSpace.store(..., check_free=False)` without the length check -/
def storeRaw (s : Heap) (b : Bytes) : Heap × Ptr :=
  let cur := s.current - b.length
  let s' := { s with current := cur,
                     strs := if b.length > 0 then (cur + 1, b) :: s.strs else s.strs }
  (s', ⟨b.length, cur + 1⟩)

/-- second loop of `collect_garbage` (repaired): re-store the strings in sorted order and rewrite the
    pointers; `last` = old address and new pointer of the last non-empty string stored, so that a
    second reference to the same string (a view of a variable on the evaluation stack) is not
    stored twice -/
def restore (s : Heap) (last : Option (Nat × Ptr)) : List Entry → Heap
  | [] => s
  | e :: r =>
    match last with
    | some (a, p) =>
      if e.bytes.length > 0 ∧ e.addr = a then restore (setLoc s e.loc p) last r
      else
        let sp := storeRaw s e.bytes
        restore (setLoc sp.1 e.loc sp.2) (if e.bytes.length > 0 then some (e.addr, sp.2) else last) r
    | none =>
      let sp := storeRaw s e.bytes
      restore (setLoc sp.1 e.loc sp.2) (if e.bytes.length > 0 then some (e.addr, sp.2) else last) r

/-- the loop before the repair: every reference is stored again -/
def restoreOld (s : Heap) : List Entry → Heap
  | [] => s
  | e :: r =>
    let sp := storeRaw s e.bytes
    restoreOld (setLoc sp.1 e.loc sp.2) r

abbrev HR := Except (Nat × Heap) Heap

def crash : Nat := 999

/-- `DataSegment._collect_garbage` + `StringSpace.collect_garbage` (repaired: `_temp` stays an integer) -/
def collect (s : Heap) : HR :=
  match entriesOf s (rootLocs s) with
  | none => .error (crash, s)
  | some es =>
    let sent := sentinel s.temp es (s.top + 1) none
    let s1 := restore { s with strs := [], current := s.top } none (sortDesc es)
    match sent with
    | none => .ok { s1 with temp := s.top }
    | some l =>
      if s.temp ≠ s.top then .ok { s1 with temp := ((getLoc s1 l).getD Ptr.null).addr - 1 }
      else .ok s1

def used (s : Heap) : Nat := s.varStart + s.scalBytes + s.arrBytes

/-- `_get_free() <= size` -/
def lowMem (s : Heap) (size : Nat) : Bool := s.current ≤ used s + size

/-- `_get_free()` (not negative in any state reached from a sane configuration) -/
def free (s : Heap) : Nat := s.current - used s

/-- `DataSegment.check_free` -/
def checkFree (size err : Nat) (s : Heap) : HR :=
  if lowMem s size then
    match collect s with
    | .error x => .error x
    | .ok s' => if lowMem s' size then .error (err, s') else .ok s'
  else .ok s

def push (s : Heap) (it : Item) : Heap := { s with stack := s.stack ++ [it] }
def pop (s : Heap) : Heap := { s with stack := s.stack.dropLast }
def topItem (s : Heap) : Item := s.stack.getLast?.getD (.own Ptr.null)

/-- `StringSpace.store` of a new string; the pointer is left on the evaluation stack -/
def allocPush (b : Bytes) (s : Heap) : HR :=
  if b.length > 255 then .error (Gen.E.string_too_long, s) else
  match checkFree b.length Gen.E.out_of_string_space s with
  | .error x => .error x
  | .ok s1 => let sp := storeRaw s1 b; .ok (push sp.1 (.own sp.2))

/-- `StringSpace._delete_last` -/
def deleteLast (s : Heap) : Heap :=
  match lookup s.strs (s.current + 1) with
  | some b => { s with current := s.current + b.length, strs := remove s.strs (s.current + 1) }
  | none => s

/-- `StringSpace.reset_temporaries` -/
def resetTemps (s : Heap) : Heap :=
  let s1 := if s.temp ≠ s.current then deleteLast s else s
  { s1 with temp := s1.current }

/-- `StringSpace.fix_temporaries` -/
def fixTemps (s : Heap) : Heap := { s with temp := s.current }

/-! ### variables -/

def findIdx (name : Bytes) : List (Bytes × α) → Nat → Option Nat
  | [], _ => none
  | (n, _) :: r, i => if n = name then some i else findIdx name r (i + 1)

def scalarSize (name : Bytes) : Nat := max 3 name.length + 1 + 3
def arraySize (name : Bytes) (n : Nat) : Nat := 1 + max 3 name.length + 3 + 2 + (n + 1) * 3

/-- `Scalars.set(name)` with no value: allocate the record if the name is new -/
def ensureScalar (name : Bytes) (s : Heap) : HR :=
  match findIdx name s.scalars 0 with
  | some _ => .ok s
  | none =>
    match checkFree (scalarSize name) Gen.E.out_of_memory s with
    | .error x => .error x
    | .ok s1 => .ok { s1 with scalBytes := s1.scalBytes + scalarSize name,
                              scalars := s1.scalars ++ [(name, Ptr.null)] }

/-- `Arrays.allocate(name, [n])` -/
def allocArray (name : Bytes) (n : Nat) (s : Heap) : HR :=
  match findIdx name s.arrays 0 with
  | some _ => .error (Gen.E.duplicate_definition, s)
  | none =>
    match checkFree (arraySize name n) Gen.E.out_of_memory s with
    | .error x => .error x
    | .ok s1 => .ok { s1 with arrBytes := s1.arrBytes + arraySize name n,
                              arrays := s1.arrays ++ [(name, List.replicate (n + 1) Ptr.null)] }

/-- `Arrays.check_dim(name, [i])`: auto-dimension to 10, then the bounds check -/
def checkDim (name : Bytes) (i : Nat) (s : Heap) : HR :=
  let r : HR := match findIdx name s.arrays 0 with
                | some _ => .ok s
                | none => allocArray name 10 s
  match r with
  | .error x => .error x
  | .ok s1 =>
    match findIdx name s1.arrays 0 with
    | none => .error (crash, s1)
    | some a =>
      if i < ((s1.arrays[a]?).map (·.2.length)).getD 0 then .ok s1
      else .error (Gen.E.subscript_out_of_range, s1)

inductive Dst
  | sc (name : Bytes)
  | el (name : Bytes) (i : Nat)
deriving DecidableEq, Repr

/-- `DataSegment._preallocate` -/
def prealloc (d : Dst) (s : Heap) : HR :=
  match d with
  | .sc name => ensureScalar name s
  | .el name i => checkDim name i s

def dstLoc (s : Heap) : Dst → Option VLoc
  | .sc name => (findIdx name s.scalars 0).map VLoc.sc
  | .el name i => (findIdx name s.arrays 0).map (fun a => VLoc.el a i)

/-- `view_or_create_variable` inside an expression or at the head of LSET/RSET: a view of the cell,
    or a fresh null string when the scalar does not exist (it is *not* created) -/
def viewDst (d : Dst) (s : Heap) : Except (Nat × Heap) (Heap × Item) :=
  match d with
  | .sc name =>
    match findIdx name s.scalars 0 with
    | some i => .ok (s, .ref (.sc i))
    | none => .ok (s, .own Ptr.null)
  | .el name i =>
    match checkDim name i s with
    | .error x => .error x
    | .ok s1 =>
      match findIdx name s1.arrays 0 with
      | some a => .ok (s1, .ref (.el a i))
      | none => .error (crash, s1)

/-! ### expressions (what the shunting-yard evaluator does to the heap) -/

inductive Expr
  | lit (b : Bytes)            -- "..." in a direct statement: stored in string space
  | var (d : Dst)              -- a string variable or array element
  | rep (n c : Nat)            -- STRING$(n, c)
  | frestr                     -- STR$(FRE("")): forces a collection in the middle of the expression
  | cat (a b : Expr)           -- a + b   (b an atom or a parenthesised expression)
deriving Repr

def digits : Nat → Nat → List Nat
  | 0, _ => []
  | fuel + 1, n => if n < 10 then [48 + n] else digits fuel (n / 10) ++ [48 + n % 10]

/-- `STR$` of a non-negative whole number below 10^7 -/
def strOfNat (n : Nat) : Bytes := 32 :: digits 8 n

def eval : Expr → Heap → HR
  | .lit b, s => allocPush b s
  | .var d, s =>
    match viewDst d s with
    | .error x => .error x
    | .ok (s1, it) => .ok (push s1 it)
  | .rep n c, s => allocPush (List.replicate n c) s
  | .frestr, s =>
    match allocPush [] s with
    | .error x => .error x
    | .ok s1 =>
      match collect (pop s1) with
      | .error x => .error x
      | .ok s2 => allocPush (strOfNat (free s2)) s2
  | .cat a b, s =>
    match eval a s with
    | .error x => .error x
    | .ok s1 =>
      match eval b s1 with
      | .error x => .error x
      | .ok s2 =>
        let y := topItem s2
        let x := topItem (pop s2)
        let bytes := itemVal s2 x ++ itemVal s2 y
        allocPush bytes (pop (pop s2))

/-! ### statements -/

/-- `StringSpace.is_permanent(v) or is_field_string(v)` -/
def needsCopy (s : Heap) (p : Ptr) : Bool := p.addr > s.temp || p.addr < s.codeStart

/-- `StringSpace.check_modify`: a program literal is copied into string space before it is modified;
    returns the state and the pointer to modify -/
def checkModify (p : Ptr) (s : Heap) : Except (Nat × Heap) (Heap × Ptr) :=
  if s.codeStart ≤ p.addr ∧ p.addr < s.varStart then
    match allocPush (deref s p) s with
    | .error x => .error x
    | .ok s1 => .ok (pop s1, itemPtr s1 (topItem s1))
  else .ok (s, p)

/-- `Scalars.set(name, value)` / `Arrays.set(name, index, value)` for a string value -/
def assignDst (d : Dst) (p : Ptr) (s : Heap) : HR :=
  let s1 := fixTemps s
  match d with
  | .sc name =>
    match ensureScalar name s1 with
    | .error x => .error x
    | .ok s2 =>
      match dstLoc s2 d with
      | some l => .ok (setV s2 l p)
      | none => .error (crash, s2)
  | .el name i =>
    match checkDim name i s1 with
    | .error x => .error x
    | .ok s2 =>
      match dstLoc s2 d with
      | some l => .ok (setV s2 l p)
      | none => .error (crash, s2)

/-- `DataSegment.let_` -/
def letStmt (d : Dst) (e : Expr) (s : Heap) : HR :=
  match prealloc d s with
  | .error x => .error x
  | .ok s1 =>
    match eval e (resetTemps s1) with
    | .error x => .error x
    | .ok s2 =>
      let it := topItem s2
      let p := itemPtr s2 it
      let s3 := pop s2
      if needsCopy s3 p then
        match allocPush (deref s3 p) s3 with
        | .error x => .error x
        | .ok s4 => assignDst d (itemPtr s4 (topItem s4)) s4   -- set_variable keeps the value on a stack
      else assignDst d p (push s3 it)

def ljust (b : Bytes) (n : Nat) : Bytes := (b.take n) ++ List.replicate (n - (b.take n).length) 32
def rjust (b : Bytes) (n : Nat) : Bytes := List.replicate (n - (b.take n).length) 32 ++ (b.take n)

/-- `DataSegment.lset_/rset_` + `String.lset` -/
def lsetStmt (d : Dst) (right : Bool) (e : Expr) (s : Heap) : HR :=
  match viewDst d s with
  | .error x => .error x
  | .ok (s1, v) =>
    match eval e (resetTemps s1) with     -- v is held by the handler, not by a stack: a view of the
    | .error x => .error x                -- cell (rewritten in place by a collection) or a null string
    | .ok s2 =>
      let src := itemVal s2 (topItem s2)
      let s3 := pop s2
      let vp := itemPtr s3 v
      let inStr := if right then rjust src vp.len else ljust src vp.len
      match checkModify vp s3 with
      | .error x => .error x
      | .ok (s4, tgt) =>
        let s5 := if tgt.len = 0 then s4 else { s4 with strs := update s4.strs tgt.addr inStr }
        assignDst d tgt s5

/-- the byte-by-byte copy of `midset` when source and target are the same string -/
def propagate : Nat → Nat → Nat → Bytes → Bytes
  | 0, _, _, b => b
  | n + 1, i, off, b => propagate n (i + 1) off (setAt b (i + off) (b.getD i 0))

def splice (tgt : Bytes) (off num : Nat) (src : Bytes) : Bytes :=
  tgt.take off ++ src.take num ++ tgt.drop (off + num)

/-- `DataSegment.mid_` + `String.midset` (repaired: the source stays a root during check_modify) -/
def midStmt (d : Dst) (start : Nat) (num : Option Nat) (e : Expr) (s : Heap) : HR :=
  match prealloc d s with
  | .error x => .error x
  | .ok s1 =>
    let s1 := resetTemps s1
    let s1 := match num with
              | some _ => resetTemps s1
              | none => s1
    let n := num.getD 255
    match dstLoc s1 d with
    | none => .error (crash, s1)
    | some l =>
      let cur := deref s1 ((getV s1 l).getD Ptr.null)
      if n > 255 then .error (Gen.E.ifc, s1) else
      if start < 1 ∨ start > 255 then .error (Gen.E.ifc, s1) else
      if n > 0 ∧ start > cur.length then .error (Gen.E.ifc, s1) else
      match eval e (resetTemps s1) with
      | .error x => .error x
      | .ok s2 =>
        let vp := (getV s2 l).getD Ptr.null
        let off := start - 1
        let n1 := min n (itemPtr s2 (topItem s2)).len
        let n2 := if off + n1 > vp.len then vp.len - off else n1
        if n2 = 0 ∨ n = 0 then assignDst d vp s2 else
        match checkModify vp s2 with
        | .error x => .error x
        | .ok (s3, tgt) =>
          let s3 := setV s3 l tgt
          let sp := itemPtr s3 (topItem s3)
          let tb := deref s3 tgt
          let nb := if sp = tgt then propagate n2 0 off tb else splice tb off n2 (deref s3 sp)
          assignDst d tgt { s3 with strs := update s3.strs tgt.addr nb }

/-- `DataSegment._view_buffer` -/
def viewBuffer (d : Dst) (emptyErr : Bool) (s : Heap) : HR :=
  match d with
  | .sc name =>
    match findIdx name s.scalars 0 with
    | some _ => .ok s
    | none =>
      match ensureScalar name s with
      | .error x => .error x
      | .ok s1 => if emptyErr then .error (Gen.E.ifc, s1) else .ok s1
  | .el name i => checkDim name i s

/-- `DataSegment.swap_` -/
def swapStmt (a b : Dst) (s : Heap) : HR :=
  match viewBuffer a false s with
  | .error x => .error x
  | .ok s1 =>
    match viewBuffer b true s1 with
    | .error x => .error x
    | .ok s2 =>
      match dstLoc s2 a, dstLoc s2 b with
      | some la, some lb =>
        let pa := (getV s2 la).getD Ptr.null
        let pb := (getV s2 lb).getD Ptr.null
        .ok (setV (setV s2 la pb) lb pa)
      | _, _ => .error (crash, s2)

def eraseAt : List α → Nat → List α
  | [], _ => []
  | _ :: r, 0 => r
  | x :: r, n + 1 => x :: eraseAt r n

/-- `Arrays.erase_` -/
def eraseStmt (name : Bytes) (s : Heap) : HR :=
  match findIdx name s.arrays 0 with
  | none => .error (Gen.E.ifc, s)
  | some a =>
    let n := ((s.arrays[a]?).map (·.2.length)).getD 0
    .ok { s with arrays := eraseAt s.arrays a, arrBytes := s.arrBytes - arraySize name (n - 1) }

/-- `CLEAR ,n` : `set_basic_memory_size` + `DataSegment.clear` -/
def clearStmt (n : Nat) (s : Heap) : HR :=
  let s := resetTemps s
  if n = 0 then .error (Gen.E.ifc, s) else
  if n > s.total then .error (Gen.E.out_of_memory, s) else
  .ok { s with total := n, scalars := [], scalBytes := 0, arrays := [], arrBytes := 0, strs := [],
               current := n - s.stackSize - 2 }

/-- a variable that is not a string (or any other consumer of variable space) -/
def allocNum (nbytes : Nat) (s : Heap) : HR :=
  match checkFree nbytes Gen.E.out_of_memory s with
  | .error x => .error x
  | .ok s1 => .ok { s1 with scalBytes := s1.scalBytes + nbytes }

/-- `V$ = "literal"` inside a program: the pointer into the program text is assigned as it is -/
def letCode (d : Dst) (len addr : Nat) (s : Heap) : HR :=
  match prealloc d s with
  | .error x => .error x
  | .ok s1 =>
    let s2 := resetTemps s1
    let p : Ptr := ⟨len, addr⟩
    if needsCopy s2 p then
      match allocPush (deref s2 p) s2 with
      | .error x => .error x
      | .ok s4 => assignDst d (itemPtr s4 (topItem s4)) s4
    else assignDst d p (push s2 (.own p))

inductive Op
  | letE (d : Dst) (e : Expr)
  | mid (d : Dst) (start : Nat) (num : Option Nat) (e : Expr)
  | lset (d : Dst) (right : Bool) (e : Expr)
  | swap (a b : Dst)
  | erase (name : Bytes)
  | dim (name : Bytes) (n : Nat)
  | freStr                       -- PRINT FRE("")
  | fre0                         -- PRINT FRE(0)
  | clear (n : Nat)
  | allocNum (nbytes : Nat)
  | letCode (d : Dst) (len addr : Nat)
deriving Repr

/-- what the statement prints: nothing or the FRE value -/
def stmt : Op → Heap → Except (Nat × Heap) (Heap × Option Nat)
  | .letE d e, s => (letStmt d e s).map (·, none)
  | .mid d st n e, s => (midStmt d st n e s).map (·, none)
  | .lset d r e, s => (lsetStmt d r e s).map (·, none)
  | .swap a b, s => (swapStmt a b s).map (·, none)
  | .erase n, s => (eraseStmt n s).map (·, none)
  | .dim name n, s => (allocArray name n s).map (·, none)
  | .freStr, s =>
    match allocPush [] (resetTemps s) with
    | .error x => .error x
    | .ok s1 =>
      match collect (pop s1) with
      | .error x => .error x
      | .ok s2 => .ok (s2, some (free s2))
  | .fre0, s => let s1 := resetTemps s; .ok (s1, some (free s1))
  | .clear n, s => (clearStmt n s).map (·, none)
  | .allocNum n, s => (allocNum n s).map (·, none)
  | .letCode d len addr, s => (letCode d len addr s).map (·, none)

inductive Outcome
  | ok
  | val (n : Nat)
  | err (e : Nat)
deriving DecidableEq, Repr

/-- one statement; afterwards every evaluation stack is unwound (repaired `get_stack`) -/
def step (s : Heap) (op : Op) : Heap × Outcome :=
  match stmt op s with
  | .ok (s', none) => ({ s' with stack := [] }, .ok)
  | .ok (s', some n) => ({ s' with stack := [] }, .val n)
  | .error (e, s') => ({ s' with stack := [] }, .err e)

def run (s : Heap) : List Op → Heap
  | [] => s
  | op :: r => run (step s op).1 r

/-- a fresh session / the state after `CLEAR ,total` -/
def init (codeStart varStart total stackSize : Nat) (code : List (Nat × Bytes)) : Heap :=
  { codeStart := codeStart, varStart := varStart, total := total, stackSize := stackSize, code := code,
    scalars := [], scalBytes := 0, arrays := [], arrBytes := 0, strs := [],
    current := total - stackSize - 2, temp := total - stackSize - 2, stack := [] }

/-! ### what BASIC can see -/

def readDst (s : Heap) (d : Dst) : Bytes :=
  match dstLoc s d with
  | some l => deref s ((getV s l).getD Ptr.null)
  | none => []

def absScalars (s : Heap) : List (Bytes × Bytes) := s.scalars.map (fun x => (x.1, deref s x.2))
def absArrays (s : Heap) : List (Bytes × List Bytes) := s.arrays.map (fun x => (x.1, x.2.map (deref s)))
def absStack (s : Heap) : List Bytes := s.stack.map (itemVal s)

/-! ### the code before the repairs (for the counterexample theorems) -/

/-- the unrepaired `collect_garbage`: every reference is stored again, the sentinel search starts at
    `stack_start`, and `_temp` becomes `None` (second component) when no sentinel was found -/
def collectOld (s : Heap) : Option (Heap × Option Nat) :=
  match entriesOf s (rootLocs s) with
  | none => none
  | some es =>
    let s1 := restoreOld { s with strs := [], current := s.top } (sortDesc es)
    match sentinel s.temp es s.top none with
    | none => some (s1, none)
    | some l =>
      if s.temp ≠ s.top then some (s1, some (((getLoc s1 l).getD Ptr.null).addr - 1))
      else some (s1, some s.temp)

/-- `is_permanent` compares an address with `_temp`; `none` = Python 3 TypeError -/
def isPermanentOld (temp : Option Nat) (addr : Nat) : Option Bool := temp.map (fun t => decide (addr > t))

/-- the unrepaired `get_stack` leaves the deque of a failed statement in `DataSegment._stack` -/
def stepOld (s : Heap) (op : Op) : Heap × Outcome :=
  match stmt op s with
  | .ok (s', none) => ({ s' with stack := s'.stack.take s.stack.length }, .ok)
  | .ok (s', some n) => ({ s' with stack := s'.stack.take s.stack.length }, .val n)
  | .error (e, s') => (s', .err e)

end PcbV.Heap
