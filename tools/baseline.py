#!/usr/bin/env python3
"""Run the pinned baseline suite of /repo (guard off) and compare with /root/.vp/BASELINE.json.
Exit 0 iff every stable_pass test passed."""
import json, os, subprocess, sys, tempfile, xml.etree.ElementTree as ET
repo = sys.argv[1] if len(sys.argv) > 1 else '/repo'
base = json.load(open('/root/.vp/BASELINE.json'))
fd, junit = tempfile.mkstemp(suffix='.xml'); os.close(fd)
env = dict(os.environ); env.pop('PCBASIC_VERIF', None)
p = subprocess.run(['/venv/bin/python', '-m', 'pytest', '-ra', '-q', '-p', 'no:cacheprovider', '--timeout=900',
                    '--continue-on-collection-errors', '--junitxml=' + junit], cwd=repo, env=env,
                   stdout=subprocess.PIPE, stderr=subprocess.STDOUT, text=True)
passed = set()
for tc in ET.parse(junit).getroot().iter('testcase'):
    if not any(c.tag in ('failure', 'error', 'skipped') for c in tc):
        passed.add('%s::%s' % (tc.get('classname'), tc.get('name')))
os.unlink(junit)
missing = [t for t in base['stable_pass'] if t not in passed]
# a timing-sensitive test (test_dos test_interactive_shell) fails under heavy machine load: retry missing tests alone
for attempt in range(3):
    if not missing:
        break
    still = []
    for t in missing:
        mod, name = t.split('::')
        path = mod.rsplit('.', 1)[0].replace('.', '/') + '.py'
        cls = mod.rsplit('.', 1)[1]
        q = subprocess.run(['/venv/bin/python', '-m', 'pytest', '-q', '-p', 'no:cacheprovider', '--timeout=900',
                            '--continue-on-collection-errors', '%s::%s::%s' % (path, cls, name)], cwd=repo, env=env,
                           stdout=subprocess.PIPE, stderr=subprocess.STDOUT, text=True)
        if ' passed' not in q.stdout.splitlines()[-1]:
            still.append(t)
        else:
            print('  (passed on retry: %s)' % t)
    missing = still
print('baseline: %d/%d stable tests passed' % (len(base['stable_pass']) - len(missing), len(base['stable_pass'])))
for t in missing:
    print('  MISSING', t)
# the suite rewrites this tracked file; restore it
subprocess.run(['git', 'checkout', '--', 'tests/proposed/numbers_rounding/output/GWBROUND.DAT'], cwd=repo,
               stdout=subprocess.DEVNULL, stderr=subprocess.DEVNULL)
sys.exit(1 if missing else 0)
