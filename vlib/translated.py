"""
Correspondence for the mechanically translated definitions (lean/PcbV/Gen/Translated.lean, regenerated on
every run from the current Python AST by gen/py2lean.py) and for the PcbV.PyInt operators they are built from:
the compiled Lean definitions (driver prefix `TR`, lean/PcbV/Drv/Translated.lean) are run on the same inputs as
the REAL Python code.  Together with the theorems `translated_*_eq` of Props/C02, C15, C39 (translated =
hand-written model) this ties the hand-written models to the source text: an edit of one of the translated
functions changes Translated.lean and thereby breaks a proof obligation, while a translator or PyInt
semantics error shows up here as a disagreement.

check_cycle(ctx)    Randomiser._cycle on a real Randomiser object          (C39)
check_protect(ctx)  protect / unprotect of converter/protect.py on streams  (C15)
check_intdiv(ctx)   Integer.idiv_int / Integer.imod on real Integer objects (C02)
Each also checks Python's own `^ & |` against PyInt.xor / land / lor.
"""
import binascii
import importlib
import io
import random
import struct

PREFIX = 'TR'
# order of the flags in the reply to `TR supported`
FLAGS = ['cycle', 'unprotNextIndex', 'protNextIndex', 'unprotStep', 'protStep', 'idivCore', 'imodCore']


def _boundary_ints(bits=40):
    vals = {0, 1, -1, 2, -2, 255, 256, -255, -256, -257, 0x7fff, 0x8000, -0x8000, -0x8001, 0xffff, 0x10000}
    for k in range(bits + 1):
        for d in (-1, 0, 1):
            vals.add((1 << k) + d)
            vals.add(-(1 << k) + d)
    return sorted(vals)


def _supported(ctx, names):
    """The `_supported` flags of the generated file; unsupported functions are reported, not compared
    (the theorem `translated_*_supported` is then the broken obligation)."""
    out = ctx.model(['supported'], prefix=PREFIX)
    if out is None:
        return None
    if not out[0].startswith('ok ') or len(out[0]) != 3 + len(FLAGS):
        ctx.disagree({'label': 'translated:supported', 'line': 'supported'}, 'ok <%d flags>' % len(FLAGS), out[0])
        return {}
    flags = dict(zip(FLAGS, (c == '1' for c in out[0][3:])))
    for n in names:
        ctx.count('translated:%s:%s' % (n, 'supported' if flags[n] else 'UNSUPPORTED'))
        if not flags[n]:
            ctx.notes.setdefault('translated_unsupported', []).append(n)
    return flags


class _Batch(object):
    """Collects (case, implementation reply, driver line) and compares them in one driver call."""

    def __init__(self, ctx, label):
        self.ctx, self.label = ctx, label
        # derived from VERIF_SEED only; does not advance ctx.rng, so the property's own generators are unchanged
        self.rng = random.Random('%s:%d' % (label, ctx.seed))
        self.cases, self.outs, self.lines = [], [], []

    def add(self, tag, case, impl, line):
        self.cases.append(case)
        self.outs.append(impl)
        self.lines.append(line)
        self.ctx.case(('TR', line))
        self.ctx.count('translated:' + tag)

    def pyint(self, n_random=400, bits=40):
        """Python's ^ & | on positive and negative ints against PyInt.xor/land/lor."""
        rng = self.rng
        bv = _boundary_ints(bits)
        pairs = [(rng.choice(bv), rng.choice(bv)) for _ in range(n_random)]
        pairs += [(rng.randrange(-(1 << bits), 1 << bits), rng.randrange(-(1 << bits), 1 << bits))
                  for _ in range(n_random)]
        pairs += [(rng.randrange(-300, 300), rng.randrange(-300, 300)) for _ in range(n_random // 2)]
        pairs += [(a, b) for a in (-2, -1, 0, 1, 255, -256) for b in (-2, -1, 0, 1, 255, -256)]
        for a, b in pairs:
            for op, val in (('xor', a ^ b), ('and', a & b), ('or', a | b)):
                self.add('pyint:%s:%s' % (op, 'neg' if a < 0 or b < 0 else 'nonneg'),
                         {'pyint': op, 'a': a, 'b': b}, 'ok %d' % val, '%s %d %d' % (op, a, b))

    def run(self, fix_model=None):
        """Compare with the driver's replies (optionally mapped by fix_model(case, reply))."""
        ctx = self.ctx
        if fix_model is None:
            return ctx.compare(self.cases, self.outs, self.lines, label=self.label, prefix=PREFIX)
        mouts = ctx.model(self.lines, prefix=PREFIX)
        if mouts is None:
            return 0
        n = 0
        for c, i, l, m in zip(self.cases, self.outs, self.lines, mouts):
            m = fix_model(c, m)
            if i != m:
                n += 1
                ctx.disagree({'label': self.label, 'input': c, 'line': l}, i, m)
        return n


# ---------------------------------------------------------------------------------------------
# C39: Randomiser._cycle

def check_cycle(ctx):
    from pcbasic.basic.values import values, randomiser
    flags = _supported(ctx, ['cycle'])
    if flags is None:
        return
    vs = values.Values(None, False)
    vs.set_handler(values.FloatErrorHandler(None))
    r = randomiser.Randomiser(vs)
    period = randomiser.Randomiser._period
    b = _Batch(ctx, 'translated-cycle')
    rng = b.rng
    if flags.get('cycle'):
        seeds = [0, 1, 2, 255, 256, period - 1, period, period + 1, period // 2, r._seed, -1, -period, -period - 1]
        seeds += [rng.randrange(period) for _ in range(3000)]
        seeds += [rng.choice(_boundary_ints(40)) for _ in range(300)]
        seeds += [rng.randrange(-(1 << 40), 1 << 40) for _ in range(300)]
        for s in seeds:
            r._seed = s
            r._cycle()
            b.add('cycle:' + ('state' if 0 <= s < period else 'outside'), {'cycle': s}, 'ok %d' % r._seed,
                  'cycle %d' % s)
        # a walk on the real object, each state fed to the translated definition
        r = randomiser.Randomiser(vs)
        for _ in range(500):
            s = r._seed
            r._cycle()
            b.add('cycle:walk', {'cycle': s}, 'ok %d' % r._seed, 'cycle %d' % s)
    b.pyint()
    b.run()


# ---------------------------------------------------------------------------------------------
# C15: protect / unprotect loop bodies

def _hx(b):
    return binascii.hexlify(bytes(b)).decode() or '-'


def _cipher(fn, data):
    outs = io.BytesIO()
    try:
        fn(io.BytesIO(data), outs)
    except Exception as e:  # observable; the check of C15 has its own oracle for this
        return None, type(e).__name__
    return outs.getvalue(), None


def check_protect(ctx):
    pm = importlib.import_module('pcbasic.basic.converter.protect')
    flags = _supported(ctx, ['protStep', 'unprotStep', 'protNextIndex', 'unprotNextIndex'])
    if flags is None:
        return
    b = _Batch(ctx, 'translated-protect')
    rng = b.rng
    dirs = []
    if flags.get('protStep'):
        dirs.append(('prot', pm.protect, b''))
    if flags.get('unprotStep'):
        # unprotect decodes a byte once its successor is read: one more byte follows
        dirs.append(('unprot', pm.unprotect, b'\x1a'))
    # one byte at a given stream index (index < 143: the real index never leaves 0..142)
    pairs = [(i, c) for i in (0, 1, 10, 11, 12, 13, 14, 21, 22, 25, 26, 65, 66, 130, 131, 132, 141, 142)
             for c in (0, 1, 2, 10, 11, 12, 13, 14, 127, 128, 242, 243, 244, 245, 253, 254, 255)]
    pairs += [(rng.randrange(143), rng.randrange(256)) for _ in range(1200)]
    for op, fn, tail in dirs:
        for i, c in pairs:
            filler = bytes((rng.randrange(256),)) * i
            out, exc = _cipher(fn, filler + bytes((c,)) + tail)
            impl = 'exc ' + exc if exc else ('ok %d' % out[i] if len(out) > i else 'short %d' % len(out))
            b.add('%s:byte' % op, {'cipher': op, 'index': i, 'byte': c}, impl, '%s %d %d' % (op, c, i))
    # longer streams against the iteration of the translated step and next-index
    lengths = [0, 1, 2, 142, 143, 144, 285, 286, 287, 429, 600] + [rng.randrange(0, 700) for _ in range(40)]
    for op, fn, tail in dirs:
        nxt = 'protNextIndex' if op == 'prot' else 'unprotNextIndex'
        if not flags.get(nxt):
            continue
        for ln in lengths:
            data = bytes(rng.randrange(256) for _ in range(ln))
            out, exc = _cipher(fn, data + tail)
            if exc and ln == 0:
                continue    # the empty stream is the subject of C15's own oracle (pending fix), no step is run
            impl = 'exc ' + exc if exc else 'ok ' + (','.join(str(x) for x in out) or '-')
            b.add('%s:stream' % op, {'cipher': op, 'stream': _hx(data)}, impl,
                  '%sstream %s' % ('p' if op == 'prot' else 'u', _hx(data)))
    b.pyint()
    b.run()


# ---------------------------------------------------------------------------------------------
# C02: Integer.idiv_int / Integer.imod

def check_intdiv(ctx):
    from pcbasic.basic.values import values, numbers
    from pcbasic.basic.base import error
    flags = _supported(ctx, ['idivCore', 'imodCore'])
    if flags is None:
        return
    vs = values.Values(None, False)
    vs.set_handler(values.FloatErrorHandler(None))

    def integer(n):
        return numbers.Integer(None, vs).from_bytes(struct.pack('<h', n))

    bv = sorted(set(v for k in range(16) for d in (-2, -1, 0, 1, 2) for s in (1, -1)
                    for v in [s * (1 << k) + d] if -32768 <= v <= 32767)
                | {0, 3, 7, 10, 100, 255, 256, 257, 32767, -32768, -32767, 30000, -30000})
    b = _Batch(ctx, 'translated-intdiv')
    rng = b.rng
    pairs = [(rng.choice(bv), rng.choice(bv)) for _ in range(1500)]
    pairs += [(rng.randrange(-32768, 32768), rng.randrange(-32768, 32768)) for _ in range(1000)]
    pairs += [(rng.randrange(-32768, 32768), rng.randrange(-20, 21)) for _ in range(500)]
    pairs += [(-32768, -1), (-32768, 1), (32767, -1), (-7, 2), (7, -2), (-7, -2), (7, 2), (0, -5), (-1, 32767)]
    for op, meth, flag in (('idiv', 'idiv_int', 'idivCore'), ('imod', 'imod', 'imodCore')):
        if not flags.get(flag):
            continue
        for x, y in pairs:
            if y == 0:
                continue    # the translated part starts behind the zero test
            try:
                r = getattr(integer(x), meth)(integer(y))
                impl = 'ok %d' % r.to_int()
            except error.BASICError as e:
                impl = 'err %d' % e.err
            except Exception as e:
                impl = 'exc %s' % type(e).__name__
            b.add('%s:%s' % (op, impl.split()[0]), {'op': op, 'a': x, 'b': y}, impl, '%s %d %d' % (op, x, y))
    b.pyint()

    def through_from_int(case, m):
        # the translated value is the argument of self.from_int(): range check of Integer.from_int
        if 'op' in case and m.startswith('ok '):
            q = int(m[3:])
            return m if -0x8000 <= q <= 0x7fff else 'err %d' % error.OVERFLOW
        return m
    b.run(through_from_int)
