import PcbV.Model.Cassette
namespace PcbV.CassetteLemmas
open PcbV PcbV.Cassette

theorem blocksAux_nil (f : Nat) : blocksAux f [] = [] := by cases f <;> rfl

theorem blocksAux_succ (f : Nat) (d : Bytes) (h : d ≠ []) :
    blocksAux (f+1) d = padBlock (d.take 256) :: blocksAux f (d.drop 256) := by
  cases d with
  | nil => exact absurd rfl h
  | cons a t => rfl

theorem padBlock_full (l : Bytes) (h : l.length = 256) : padBlock l = l := by
  unfold padBlock; rw [h]; simp

theorem length_pos_of_ne_nil' {l : Bytes} (h : l ≠ []) : 0 < l.length := List.length_pos_iff.mpr h

theorem writeRecord_short (l : Bytes) (h0 : l ≠ []) (h : l.length ≤ 256) :
    writeRecord l = [padBlock l] := by
  unfold writeRecord
  have hp := length_pos_of_ne_nil' h0
  obtain ⟨n, hn⟩ : ∃ n, l.length = n + 1 := ⟨l.length - 1, by omega⟩
  rw [hn, blocksAux_succ _ _ h0, List.take_of_length_le h, List.drop_of_length_le h, blocksAux_nil]

theorem writeRecord_256 (l : Bytes) (h : l.length = 256) : writeRecord l = [l] := by
  have h0 : l ≠ [] := by intro e; subst e; simp at h
  rw [writeRecord_short l h0 (by omega), padBlock_full l h]

theorem blocks_flatten (f : Nat) : ∀ d : Bytes, d.length ≤ f → ∃ pad, (blocksAux f d).flatten = d ++ pad := by
  induction f with
  | zero => intro d h; have : d = [] := List.eq_nil_of_length_eq_zero (by omega); subst this; exact ⟨[], rfl⟩
  | succ f ih =>
    intro d h
    by_cases h0 : d = []
    · subst h0; exact ⟨[], rfl⟩
    · have hp := length_pos_of_ne_nil' h0
      rw [blocksAux_succ _ _ h0, List.flatten_cons]
      obtain ⟨pad', hp'⟩ := ih (d.drop 256) (by rw [List.length_drop]; omega)
      rw [hp']
      by_cases hl : d.length ≤ 256
      · rw [List.take_of_length_le hl, List.drop_of_length_le hl]
        exact ⟨_, by unfold padBlock; rw [List.append_assoc]⟩
      · have h3 : (d.take 256).length = 256 := by rw [List.length_take]; omega
        rw [padBlock_full _ h3]
        refine ⟨pad', ?_⟩
        rw [← List.append_assoc, List.take_append_drop]

theorem readRecordLen_writeRecord (d : Bytes) : readRecordLen d.length (writeRecord d) = .ok d := by
  obtain ⟨pad, hp⟩ := blocks_flatten d.length d (Nat.le_refl _)
  unfold readRecordLen writeRecord
  rw [hp]
  simp

theorem padBlock_length (l : Bytes) (h : l.length ≤ 256) : (padBlock l).length = 256 := by
  unfold padBlock; rw [List.length_append, List.length_replicate]; omega

theorem readLoop_none_cons (bin : Bool) (len : Nat) (r : Rec) (rest : Tape) (c buf : Bytes) :
    readLoop bin len none (r :: rest) c buf false =
      match fillFrom bin len r with
      | .error e => .error e
      | .ok (nb, compl) => readLoop bin len none rest (c ++ buf) nb compl := by
  rw [readLoop.eq_def]
  simp
  cases fillFrom bin len r <;> rfl

theorem readLoop_none_complete (bin : Bool) (len : Nat) (ahead : Tape) (c buf : Bytes) :
    readLoop bin len none ahead c buf true = .ok (c ++ buf, [], true, ahead) := by
  rw [readLoop.eq_def]
  simp

theorem readLoop_none_nil (bin : Bool) (len : Nat) (c buf : Bytes) :
    readLoop bin len none [] c buf false = .ok (c ++ buf, [], false, []) := by
  rw [readLoop.eq_def]
  simp

theorem readRecordLen_single (l : Bytes) (h : l.length = 256) : readRecordLen 256 [l] = .ok l := by
  unfold readRecordLen
  simp [h, List.take_of_length_le]

theorem fillFrom_full (len : Nat) (chunk : Bytes) (h : chunk.length = 255) :
    fillFrom false len (writeRecord (0 :: chunk)) = .ok (chunk, false) := by
  have hl : (0 :: chunk).length = 256 := by rw [List.length_cons]; omega
  rw [writeRecord_256 _ hl]
  unfold fillFrom
  rw [readRecordLen_single _ hl]
  simp

theorem fillFrom_last (len : Nat) (data : Bytes) (h0 : data ≠ []) (h : data.length ≤ 255) :
    fillFrom false len (writeRecord (data.length :: data)) = .ok (data.dropLast, true) := by
  have hp := length_pos_of_ne_nil' h0
  have hl : (data.length :: data).length ≤ 256 := by rw [List.length_cons]; omega
  rw [writeRecord_short _ (by simp) hl]
  unfold fillFrom
  rw [readRecordLen_single _ (padBlock_length _ hl)]
  have hne : (data.length != 0) = true := by simp; omega
  simp only [padBlock, List.cons_append, List.headD_cons, hne, if_true, Bool.false_eq_true, if_false,
    List.drop_succ_cons, List.drop_zero]
  rw [List.take_append_of_le_length (by omega), List.dropLast_eq_take]

/-- reading text records from a state with pending buffer = same with the buffer already delivered -/
theorem readLoop_shift (len : Nat) (tail : Tape) (c buf : Bytes) :
    readLoop false len none tail c buf false = readLoop false len none tail (c ++ buf) [] false := by
  cases tail with
  | nil => rw [readLoop_none_nil, readLoop_none_nil]; simp
  | cons r rest => rw [readLoop_none_cons, readLoop_none_cons]; simp

theorem keep_true (n : Nat) : keep true n = decide (n ≤ 255) := by simp [keep]

theorem flush_spec (f : Nat) : ∀ d : Bytes, ∃ pre, d = pre ++ (flushAux true f d).2 ∧
    ∀ (len : Nat) (tail : Tape) (c : Bytes),
      readLoop false len none ((flushAux true f d).1 ++ tail) c [] false
        = readLoop false len none tail (c ++ pre) [] false := by
  induction f with
  | zero => intro d; exact ⟨[], by simp [flushAux], by intro len tail c; simp [flushAux]⟩
  | succ f ih =>
    intro d
    by_cases hk : d.length ≤ 255
    · refine ⟨[], ?_, ?_⟩
      · simp [flushAux, keep_true, hk]
      · intro len tail c; simp [flushAux, keep_true, hk]
    · obtain ⟨pre', h1, h2⟩ := ih (d.drop 255)
      have hfl : flushAux true (f+1) d =
          (writeRecord (0 :: d.take 255) :: (flushAux true f (d.drop 255)).1, (flushAux true f (d.drop 255)).2) := by
        simp [flushAux, keep_true, hk]
      have hlen : (d.take 255).length = 255 := by rw [List.length_take]; omega
      refine ⟨d.take 255 ++ pre', ?_, ?_⟩
      · rw [hfl]; simp only []
        rw [List.append_assoc, ← h1, List.take_append_drop]
      · intro len tail c
        rw [hfl]; simp only [List.cons_append]
        rw [readLoop_none_cons, fillFrom_full _ _ hlen]
        simp only []
        rw [readLoop_shift, h2, List.append_nil, List.append_assoc]

theorem flush_rest_le (f : Nat) : ∀ d : Bytes, d.length ≤ f → (flushAux true f d).2.length ≤ 255 := by
  induction f with
  | zero => intro d h; simp [flushAux]; omega
  | succ f ih =>
    intro d h
    by_cases hk : d.length ≤ 255
    · simp [flushAux, keep_true, hk]
    · have := ih (d.drop 255) (by rw [List.length_drop]; omega)
      simpa [flushAux, keep_true, hk] using this

theorem flush_rest_ne (f : Nat) : ∀ d : Bytes, d ≠ [] → (flushAux true f d).2 ≠ [] := by
  induction f with
  | zero => intro d h; simpa [flushAux] using h
  | succ f ih =>
    intro d h
    by_cases hk : d.length ≤ 255
    · simpa [flushAux, keep_true, hk] using h
    · have hne : d.drop 255 ≠ [] := by
        intro e
        have := congrArg List.length e
        rw [List.length_drop] at this; simp at this; omega
      have := ih (d.drop 255) hne
      simpa [flushAux, keep_true, hk] using this

/-- pure projection of `write` on a text file open for output: (records written, pending buffer) -/
def wstep (p : List Rec × Bytes) (c : Bytes) : List Rec × Bytes :=
  (p.1 ++ (flushBytes true (p.2 ++ c)).1, (flushBytes true (p.2 ++ c)).2)

/-- pure projection of `CASTextFile.close`: NUL, then the closing record -/
def wclose (p : List Rec × Bytes) : List Rec :=
  (wstep p [0]).1 ++ [writeRecord ((wstep p [0]).2.length :: (wstep p [0]).2)]

/-- the written records deliver `data` minus the pending buffer, then go on with what follows -/
def Good (p : List Rec × Bytes) (data : Bytes) : Prop :=
  p.2.length ≤ 255 ∧ ∃ pre, data = pre ++ p.2 ∧
    ∀ (len : Nat) (tail : Tape) (c : Bytes),
      readLoop false len none (p.1 ++ tail) c [] false = readLoop false len none tail (c ++ pre) [] false

theorem good_init : Good ([], []) [] := ⟨by simp, [], rfl, by intro len tail c; simp⟩

theorem good_step (p : List Rec × Bytes) (data c : Bytes) (h : Good p data) : Good (wstep p c) (data ++ c) := by
  obtain ⟨_, pre, hd, hr⟩ := h
  obtain ⟨pre2, h1, h2⟩ := flush_spec (p.2 ++ c).length (p.2 ++ c)
  refine ⟨flush_rest_le _ _ (Nat.le_refl _), pre ++ pre2, ?_, ?_⟩
  · show data ++ c = (pre ++ pre2) ++ (flushAux true (p.2 ++ c).length (p.2 ++ c)).2
    rw [List.append_assoc, ← h1, hd, List.append_assoc]
  · intro len tail c'
    show readLoop false len none ((p.1 ++ (flushAux true (p.2 ++ c).length (p.2 ++ c)).1) ++ tail) c' [] false = _
    rw [List.append_assoc, hr, h2, List.append_assoc]

theorem good_foldl (cs : List Bytes) : ∀ (p : List Rec × Bytes) (data : Bytes), Good p data →
    Good (cs.foldl wstep p) (data ++ cs.flatten) := by
  induction cs with
  | nil => intro p data h; simpa using h
  | cons c cs ih =>
    intro p data h
    have := ih _ _ (good_step p data c h)
    simpa [List.append_assoc] using this

theorem good_close (p : List Rec × Bytes) (data : Bytes) (h : Good p data)
    (len : Nat) (tail : Tape) (c : Bytes) :
    readLoop false len none (wclose p ++ tail) c [] false = .ok (c ++ data, [], true, tail) := by
  obtain ⟨hle, pre, hd, hr⟩ := good_step p data [0] h
  have hne : (wstep p [0]).2 ≠ [] := flush_rest_ne _ _ (by simp)
  unfold wclose
  rw [List.append_assoc, hr]
  simp only [List.cons_append, List.nil_append]
  rw [readLoop_none_cons, fillFrom_last _ _ hne hle]
  simp only []
  rw [readLoop_none_complete]
  have : pre ++ (wstep p [0]).2.dropLast = data := by
    rw [← List.dropLast_append_of_ne_nil hne, ← hd, List.dropLast_concat]
  simp [List.append_assoc, this]

theorem padName_length (name : Bytes) : (padName name).length = 8 := by
  unfold padName; rw [List.length_append, List.length_take, List.length_replicate]; omega

theorem unle16_le16 (n : Nat) (h : n < 65536) : unle16 (n % 256) (n / 256 % 256) = n := by
  unfold unle16; omega

theorem header_length (name : Bytes) (tok len seg offs : Nat) : (header name tok len seg offs).length = 18 := by
  simp [header, padName_length, le16]

theorem parse_header_block (name : Bytes) (tok len seg offs : Nat)
    (hl : len < 65536) (hs : seg < 65536) (ho : offs < 65536) :
    parseHeader (padBlock (header name tok len seg offs)) = ⟨padName name, tok, len, seg, offs⟩ := by
  have h8 := padName_length name
  unfold parseHeader padBlock header
  simp only [List.cons_append, List.append_assoc, List.drop_succ_cons, List.drop_zero]
  rw [List.take_left' h8]
  have hd : ∀ (Y : Bytes), List.drop 8 (padName name ++ Y) = Y := fun Y => List.drop_left' h8
  rw [hd]
  simp [nth, le16, unle16_le16 _ hl, unle16_le16 _ hs, unle16_le16 _ ho]

theorem header_block_head (name : Bytes) (tok len seg offs : Nat) :
    (padBlock (header name tok len seg offs)).headD 0 = 0xa5 ∧ (padBlock (header name tok len seg offs)).isEmpty = false := by
  simp [padBlock, header]

/-- a file as it lies on the tape: name, type, content and the three numeric header fields -/
structure TFile where
  name : Bytes
  ftype : Nat
  content : Bytes
  hlen : Nat
  hseg : Nat
  hoffs : Nat

def validType (t : Nat) : Prop := t = tA ∨ t = tB ∨ t = tD ∨ t = tM ∨ t = tP

def TFile.wf (f : TFile) : Prop :=
  validType f.ftype ∧ (isBin f.ftype = true → f.hlen = f.content.length) ∧
  f.hlen < 65536 ∧ f.hseg < 65536 ∧ f.hoffs < 65536

/-- records of a text file body whose content was written in the chunks `cs` -/
def textRecs (cs : List Bytes) : List Rec := wclose (cs.foldl wstep ([], []))
def bodyRecs (f : TFile) : List Rec :=
  if isBin f.ftype then [writeRecord f.content] else textRecs [f.content]
def hdrRec (f : TFile) : Rec := writeRecord (header f.name (typeToken f.ftype) f.hlen f.hseg f.hoffs)
def fileRecs (f : TFile) : List Rec := hdrRec f :: bodyRecs f
def encode : List TFile → Tape
  | [] => []
  | f :: fs => fileRecs f ++ encode fs
def hdrOf (f : TFile) : Hdr := ⟨padName f.name, typeToken f.ftype, f.hlen, f.hseg, f.hoffs⟩

theorem tokenType_typeToken (t : Nat) (h : validType t) : tokenType (typeToken t) = some t := by
  rcases h with h | h | h | h | h <;> subst h <;> decide

theorem hdrRec_eq (f : TFile) :
    hdrRec f = [padBlock (header f.name (typeToken f.ftype) f.hlen f.hseg f.hoffs)] := by
  unfold hdrRec
  have hl := header_length f.name (typeToken f.ftype) f.hlen f.hseg f.hoffs
  exact writeRecord_short _ (by intro e; rw [e] at hl; simp at hl) (by omega)

theorem textRecs_read (cs : List Bytes) (len : Nat) (tail : Tape) (c : Bytes) :
    readLoop false len none (textRecs cs ++ tail) c [] false = .ok (c ++ cs.flatten, [], true, tail) := by
  have := good_close _ _ (good_foldl cs _ _ good_init) len tail c
  simpa [textRecs] using this

/-- state after `open_read` has found the header of `f` -/
def afterOpen (s : St) (done : Tape) (f : TFile) (tail : Tape) : St :=
  { s with done := done, ahead := bodyRecs f ++ tail, buf := [], complete := false, writing := false,
           length := f.hlen, ftype := f.ftype, isOpen := true }

theorem openRead_file (s : St) (f : TFile) (tail : Tape) (hf : f.wf)
    (hs : s.ahead = fileRecs f ++ tail) :
    openRead s = .ok (afterOpen s (s.done ++ [hdrRec f]) f tail, hdrOf f) := by
  obtain ⟨hv, _, hl, hsg, ho⟩ := hf
  have hh := header_block_head f.name (typeToken f.ftype) f.hlen f.hseg f.hoffs
  unfold openRead
  rw [hs]
  simp only [fileRecs, List.cons_append]
  rw [hdrRec_eq]
  simp only [scanHeader, readRecordOne, hh.1, hh.2]
  simp [parse_header_block _ _ _ _ _ hl hsg ho, tokenType_typeToken _ hv, afterOpen, hdrOf]

theorem fillFrom_bin (d : Bytes) : fillFrom true d.length (writeRecord d) = .ok (d, true) := by
  simp [fillFrom, readRecordLen_writeRecord]

theorem readLoop_body (f : TFile) (tail : Tape) (hf : f.wf) :
    readLoop (isBin f.ftype) f.hlen none (bodyRecs f ++ tail) [] [] false = .ok (f.content, [], true, tail) := by
  by_cases hbin : isBin f.ftype = true
  · have hlen := hf.2.1 hbin
    have hbody : bodyRecs f = [writeRecord f.content] := by simp [bodyRecs, hbin]
    rw [hbin, hbody]
    simp only [List.cons_append, List.nil_append]
    rw [readLoop_none_cons, hlen, fillFrom_bin]
    simp only []
    rw [readLoop_none_complete]
    simp
  · have hbin' : isBin f.ftype = false := by simpa using hbin
    have hbody : bodyRecs f = textRecs [f.content] := by simp [bodyRecs, hbin']
    rw [hbin', hbody, textRecs_read]
    simp

theorem read_body (s : St) (f : TFile) (tail : Tape) (hf : f.wf)
    (ha : s.ahead = bodyRecs f ++ tail) (hb : s.buf = []) (hc : s.complete = false)
    (ht : s.ftype = f.ftype) (hl : s.length = f.hlen) :
    Cassette.read s none = .ok (f.content,
      { s with buf := [], complete := true, done := s.done ++ bodyRecs f, ahead := tail }) := by
  have htake : (bodyRecs f ++ tail).take ((bodyRecs f ++ tail).length - tail.length) = bodyRecs f := by
    rw [List.length_append, Nat.add_sub_cancel]; exact List.take_left' rfl
  unfold Cassette.read
  rw [ha, hb, hc, ht, hl, readLoop_body f tail hf]
  simp only []
  rw [htake]

def skippedMsg (g : TFile) : Msg := ⟨false, padName g.name, g.ftype⟩
def foundMsg (f : TFile) : Msg := ⟨true, padName f.name, f.ftype⟩

theorem search_finds (req types : Bytes) (f : TFile) (post : Tape) (hf : f.wf)
    (hm : nameMatches req types (padName f.name) f.ftype = true) :
    ∀ (pre : List TFile),
      (∀ g ∈ pre, g.wf ∧ nameMatches req types (padName g.name) g.ftype = false) →
      ∀ (s : St) (fuel : Nat), pre.length < fuel → s.ahead = encode pre ++ (fileRecs f ++ post) →
        search true true fuel s req types =
          (pre.map skippedMsg ++ [foundMsg f],
           afterOpen s (s.done ++ encode pre ++ [hdrRec f]) f post, .ok (hdrOf f)) := by
  intro pre
  induction pre with
  | nil =>
    intro _ s fuel hfuel hs
    obtain ⟨k, rfl⟩ : ∃ k, fuel = k + 1 := ⟨fuel - 1, by simp at hfuel; omega⟩
    simp only [encode, List.nil_append] at hs
    unfold search
    rw [openRead_file s f post hf hs]
    simp [afterOpen, hdrOf, hm, foundMsg, encode]
  | cons g pre ih =>
    intro hpre s fuel hfuel hs
    obtain ⟨k, rfl⟩ : ∃ k, fuel = k + 1 := ⟨fuel - 1, by simp at hfuel; omega⟩
    have hg := hpre g (by simp)
    have hs' : s.ahead = fileRecs g ++ (encode pre ++ (fileRecs f ++ post)) := by
      rw [hs]; simp [encode, List.append_assoc]
    unfold search
    rw [openRead_file s g _ hg.1 hs']
    have hnm : nameMatches req types (hdrOf g).trunk (afterOpen s (s.done ++ [hdrRec g]) g
        (encode pre ++ (fileRecs f ++ post))).ftype = false := by simpa [hdrOf, afterOpen] using hg.2
    simp only [hnm, Bool.false_eq_true, if_false, if_true]
    rw [read_body (afterOpen s (s.done ++ [hdrRec g]) g (encode pre ++ (fileRecs f ++ post))) g
        (encode pre ++ (fileRecs f ++ post)) hg.1 rfl rfl rfl rfl rfl]
    simp only []
    rw [ih (fun x hx => hpre x (by simp [hx])) _ k (by simp at hfuel; omega) rfl]
    simp [afterOpen, skippedMsg, hdrOf, encode, fileRecs, List.append_assoc]

theorem isText_not_bin (t : Nat) (h : isText t = true) : isBin t = false := by
  have : t = tA ∨ t = tD := by simpa [isText] using h
  rcases this with h | h <;> subst h <;> decide

theorem flushBytes_small (d : Bytes) (h : d.length ≤ 255) : flushBytes true d = ([], d) := by
  unfold flushBytes
  cases hd : d.length with
  | zero => rfl
  | succ n => simp [flushAux, keep_true, h]

theorem wstep_prefix (cs : List Bytes) : ∀ (a x : List Rec) (b : Bytes),
    cs.foldl wstep (a ++ x, b) = (a ++ (cs.foldl wstep (x, b)).1, (cs.foldl wstep (x, b)).2) := by
  induction cs with
  | nil => intro a x b; rfl
  | cons c cs ih =>
    intro a x b
    simp only [List.foldl_cons, wstep]
    rw [List.append_assoc, ih]

theorem write_text (s : St) (c : Bytes) (hw : s.writing = true) (hb : isBin s.ftype = false) :
    write true s c = { s with done := (wstep (s.done, s.buf) c).1, buf := (wstep (s.done, s.buf) c).2 } := by
  simp [write, flush, hw, hb, wstep]

theorem foldl_write_text (cs : List Bytes) : ∀ (s : St), s.writing = true → isBin s.ftype = false →
    cs.foldl (write true) s =
      { s with done := (cs.foldl wstep (s.done, s.buf)).1, buf := (cs.foldl wstep (s.done, s.buf)).2 } := by
  induction cs with
  | nil => intro s _ _; rfl
  | cons c cs ih =>
    intro s hw hb
    simp only [List.foldl_cons]
    rw [write_text s c hw hb]
    exact ih { s with done := (wstep (s.done, s.buf) c).1, buf := (wstep (s.done, s.buf) c).2 } hw hb

theorem closeFile_text (s : St) (ho : s.isOpen = true) (hw : s.writing = true) (ht : isText s.ftype = true) :
    closeFile true s = { s with done := s.done ++ wclose ([], s.buf), buf := [], complete := true,
                                isOpen := false, writing := false } := by
  have hb := isText_not_bin _ ht
  have hle : (flushBytes true (s.buf ++ [0])).2.length ≤ 255 := flush_rest_le _ _ (Nat.le_refl _)
  have hne : (flushBytes true (s.buf ++ [0])).2 ≠ [] := flush_rest_ne _ _ (by simp)
  have hne' : (flushBytes true (s.buf ++ [0])).2.isEmpty = false := by simpa using hne
  simp [closeFile, closeFileWith, ho, hw, ht, write_text s [0] hw hb, closeStream, closeStreamWith, flush, hb, wstep, wclose,
    flushBytes_small _ hle, hne', putRecord]

/-- every history of `write` calls on a text file, then CLOSE, puts exactly `textRecs cs` on the tape -/
theorem stream_text_records (s : St) (cs : List Bytes) (ho : s.isOpen = true) (hw : s.writing = true)
    (ht : isText s.ftype = true) (hbuf : s.buf = []) :
    closeFile true (cs.foldl (write true) s) =
      { s with done := s.done ++ textRecs cs, buf := [], complete := true, isOpen := false, writing := false } := by
  have hb := isText_not_bin _ ht
  rw [foldl_write_text cs s hw hb]
  rw [closeFile_text { s with done := (cs.foldl wstep (s.done, s.buf)).1,
                              buf := (cs.foldl wstep (s.done, s.buf)).2 } ho hw ht, hbuf]
  have h1 := wstep_prefix cs s.done [] []
  simp only [List.append_nil] at h1
  rw [h1]
  simp only [textRecs, wclose]
  have h2 : ∀ (a x : List Rec) (b c : Bytes), wstep (a ++ x, b) c = (a ++ (wstep (x, b) c).1, (wstep (x, b) c).2) := by
    intro a x b c; simp [wstep, List.append_assoc]
  have h3 := h2 [] (List.foldl wstep ([], []) cs).1 (List.foldl wstep ([], []) cs).2 [0]
  simp [wstep, List.append_assoc]

/-- how a written `File` lies on the tape: text files carry the numbers of the last binary file -/
def annot1 (last : Nat × Nat × Nat) (f : File) : TFile :=
  if isText f.ftype then ⟨f.name, f.ftype, f.content, last.2.2, last.1, last.2.1⟩
  else ⟨f.name, f.ftype, f.content, f.content.length, f.seg, f.offs⟩

def newLast (last : Nat × Nat × Nat) (f : File) : Nat × Nat × Nat :=
  if isText f.ftype then last else (f.seg, f.offs, f.content.length)

def annot : Nat × Nat × Nat → List File → List TFile
  | _, [] => []
  | last, f :: fs => annot1 last f :: annot (newLast last f) fs

def fileOk (f : File) : Prop :=
  validType f.ftype ∧ f.name.any (· < 32) = false ∧ f.content.length < 65536 ∧ f.seg < 65536 ∧ f.offs < 65536

def lastOk (l : Nat × Nat × Nat) : Prop := l.1 < 65536 ∧ l.2.1 < 65536 ∧ l.2.2 < 65536

theorem validType_cases (t : Nat) (h : validType t) : (isText t = true ∧ isBin t = false) ∨ (isText t = false ∧ isBin t = true) := by
  rcases h with h | h | h | h | h <;> subst h <;> decide

theorem annot1_wf (last : Nat × Nat × Nat) (f : File) (hf : fileOk f) (hl : lastOk last) : (annot1 last f).wf := by
  obtain ⟨hv, _, hc, hs, ho⟩ := hf
  rcases validType_cases _ hv with ⟨ht, hb⟩ | ⟨ht, hb⟩
  · simp only [annot1, ht, if_true]
    exact ⟨hv, by simp [hb], hl.2.2, hl.1, hl.2.1⟩
  · simp only [annot1, ht, Bool.false_eq_true, if_false]
    exact ⟨hv, fun _ => rfl, hc, hs, ho⟩

theorem newLast_ok (last : Nat × Nat × Nat) (f : File) (hf : fileOk f) (hl : lastOk last) : lastOk (newLast last f) := by
  unfold newLast; split
  · exact hl
  · exact ⟨hf.2.2.2.1, hf.2.2.2.2, hf.2.2.1⟩

theorem annot1_fields (last : Nat × Nat × Nat) (f : File) :
    (annot1 last f).name = f.name ∧ (annot1 last f).ftype = f.ftype ∧ (annot1 last f).content = f.content := by
  unfold annot1; split <;> simp

/-- state after `open_write` of a text file -/
def openedW (s : St) (f : File) : St :=
  { s with done := s.done ++ [hdrRec (annot1 s.last f)], buf := [], complete := false, writing := true,
           ftype := f.ftype, isOpen := true }

/-- state after the file has been written and closed -/
def closedW (s : St) (f : File) : St :=
  { s with done := s.done ++ fileRecs (annot1 s.last f), buf := [], complete := true,
           ftype := f.ftype, writing := false, isOpen := false, last := newLast s.last f }

theorem writeFile_spec (s : St) (f : File) (hf : fileOk f) (ho : s.isOpen = false) (ha : s.ahead = []) :
    writeFile true s f = .ok (closedW s f) := by
  obtain ⟨hv, hn, _, _, _⟩ := hf
  have hn' : (f.name.any fun x => decide (x < 32)) = false := hn
  rcases validType_cases _ hv with ⟨ht, hb⟩ | ⟨ht, hb⟩
  · -- text file
    have hopen : openWrite s f.name f.ftype f.seg f.offs f.content.length = .ok (openedW s f) := by
      simp [openWrite, ho, hn', ha, ht, putRecord, hdrRec, annot1, openedW]
    unfold writeFile
    rw [hopen]
    simp only []
    have := stream_text_records (openedW s f) [f.content] rfl rfl ht rfl
    simp only [List.foldl_cons, List.foldl_nil] at this
    rw [this]
    simp [fileRecs, bodyRecs, annot1, ht, hb, newLast, openedW, closedW]
  · -- binary file
    simp [writeFile, openWrite, ho, hn', ha, ht, putRecord, write, flush, hb, closeFile, closeFileWith, closeStream, closeStreamWith,
      fileRecs, bodyRecs, hdrRec, annot1, newLast, closedW]

theorem writeFiles_tape (fs : List File) : ∀ (s : St), (∀ f ∈ fs, fileOk f) → s.isOpen = false → s.ahead = [] →
    ∃ s', writeFiles true s fs = .ok s' ∧ s'.done = s.done ++ encode (annot s.last fs) ∧
          s'.ahead = [] ∧ s'.isOpen = false := by
  induction fs with
  | nil => intro s _ ho ha; exact ⟨s, rfl, by simp [annot, encode], ha, ho⟩
  | cons f fs ih =>
    intro s hfs ho ha
    have hf := hfs f (by simp)
    obtain ⟨s', h1, h2, h3, h4⟩ := ih (closedW s f) (fun g hg => hfs g (by simp [hg])) rfl ha
    refine ⟨s', ?_, ?_, h3, h4⟩
    · simp only [writeFiles]
      rw [writeFile_spec s f hf ho ha]
      exact h1
    · rw [h2]; simp [annot, encode, List.append_assoc, closedW]

theorem encode_append (a b : List TFile) : encode (a ++ b) = encode a ++ encode b := by
  induction a with
  | nil => rfl
  | cons f a ih => simp [encode, ih, List.append_assoc]

theorem encode_length (a : List TFile) : a.length ≤ (encode a).length := by
  induction a with
  | nil => simp [encode]
  | cons f a ih => simp [encode, fileRecs]; omega

theorem annot_wf (fs : List File) : ∀ (last : Nat × Nat × Nat), (∀ f ∈ fs, fileOk f) → lastOk last →
    ∀ g ∈ annot last fs, g.wf := by
  induction fs with
  | nil => intro _ _ _ g hg; simp [annot] at hg
  | cons f fs ih =>
    intro last hfs hl g hg
    simp only [annot, List.mem_cons] at hg
    rcases hg with rfl | hg
    · exact annot1_wf last f (hfs f (by simp)) hl
    · exact ih _ (fun x hx => hfs x (by simp [hx])) (newLast_ok last f (hfs f (by simp)) hl) g hg

theorem annot_fields (fs : List File) : ∀ (last : Nat × Nat × Nat),
    (annot last fs).map (fun g => (g.name, g.ftype, g.content)) = fs.map (fun f => (f.name, f.ftype, f.content)) := by
  induction fs with
  | nil => intro _; rfl
  | cons f fs ih =>
    intro last
    have := annot1_fields last f
    simp [annot, ih, this.1, this.2.1, this.2.2]

theorem annot_append (a b : List File) : ∀ (last : Nat × Nat × Nat),
    annot last (a ++ b) = annot last a ++ annot (a.foldl newLast last) b := by
  induction a with
  | nil => intro _; rfl
  | cons f a ih => intro last; simp [annot, ih]

theorem foldl_newLast_ok (a : List File) : ∀ (last : Nat × Nat × Nat), (∀ f ∈ a, fileOk f) → lastOk last →
    lastOk (a.foldl newLast last) := by
  induction a with
  | nil => intro _ _ h; exact h
  | cons f a ih =>
    intro last hfs hl
    exact ih _ (fun x hx => hfs x (by simp [hx])) (newLast_ok last f (hfs f (by simp)) hl)

theorem annot_skipped (a : List File) : ∀ (last : Nat × Nat × Nat),
    (annot last a).map skippedMsg = a.map (fun g => (⟨false, padName g.name, g.ftype⟩ : Msg)) := by
  induction a with
  | nil => intro _; rfl
  | cons f a ih =>
    intro last
    have := annot1_fields last f
    simp [annot, ih, skippedMsg, this.1, this.2.1]

theorem annot_nomatch (req types : Bytes) (a : List File) : ∀ (last : Nat × Nat × Nat),
    (∀ f ∈ a, fileOk f) → lastOk last →
    (∀ g ∈ a, nameMatches req types (padName g.name) g.ftype = false) →
    ∀ g ∈ annot last a, g.wf ∧ nameMatches req types (padName g.name) g.ftype = false := by
  induction a with
  | nil => intro _ _ _ _ g hg; simp [annot] at hg
  | cons f a ih =>
    intro last hfs hl hnm g hg
    simp only [annot, List.mem_cons] at hg
    rcases hg with rfl | hg
    · have := annot1_fields last f
      exact ⟨annot1_wf last f (hfs f (by simp)) hl, by rw [this.1, this.2.1]; exact hnm f (by simp)⟩
    · exact ih _ (fun x hx => hfs x (by simp [hx])) (newLast_ok last f (hfs f (by simp)) hl)
        (fun x hx => hnm x (by simp [hx])) g hg

theorem openRead_end (s : St) (h : s.ahead = []) : openRead s = .error endOfTape := by
  simp [openRead, h, scanHeader]

/-- a search that no file on the rest of the tape answers: Skipped for each of them, Device Timeout,
    and (repaired code) the tape is rewound AND the stream is closed -/
theorem search_fails (req types : Bytes) :
    ∀ (pre : List TFile),
      (∀ g ∈ pre, g.wf ∧ nameMatches req types (padName g.name) g.ftype = false) →
      ∀ (s : St) (fuel : Nat), pre.length < fuel → s.ahead = encode pre →
        ∃ s', search true true fuel s req types = (pre.map skippedMsg, s', .error Gen.E.device_timeout) ∧
          s'.isOpen = false ∧ s'.done = [] ∧ s'.ahead = s.done ++ s.ahead ∧ s'.last = s.last := by
  intro pre
  induction pre with
  | nil =>
    intro _ s fuel hfuel hs
    obtain ⟨k, rfl⟩ : ∃ k, fuel = k + 1 := ⟨fuel - 1, by simp at hfuel; omega⟩
    simp only [encode] at hs
    refine ⟨{ s with ahead := s.done ++ s.ahead, done := [], buf := [], complete := false, writing := false,
                     isOpen := false }, ?_, rfl, rfl, rfl, rfl⟩
    unfold search
    rw [openRead_end s hs]
    simp [endOfTape]
  | cons g pre ih =>
    intro hpre s fuel hfuel hs
    obtain ⟨k, rfl⟩ : ∃ k, fuel = k + 1 := ⟨fuel - 1, by simp at hfuel; omega⟩
    have hg := hpre g (by simp)
    have hs' : s.ahead = fileRecs g ++ encode pre := by rw [hs]; simp [encode]
    obtain ⟨s', h1, h2, h3, h4, h5⟩ := ih (fun x hx => hpre x (by simp [hx]))
      { afterOpen s (s.done ++ [hdrRec g]) g (encode pre) with
        buf := [], complete := true, done := s.done ++ [hdrRec g] ++ bodyRecs g, ahead := encode pre }
      k (by simp at hfuel; omega) rfl
    refine ⟨s', ?_, h2, h3, ?_, ?_⟩
    · unfold search
      rw [openRead_file s g _ hg.1 hs']
      have hnm : nameMatches req types (hdrOf g).trunk (afterOpen s (s.done ++ [hdrRec g]) g (encode pre)).ftype
          = false := by simpa [hdrOf, afterOpen] using hg.2
      simp only [hnm, Bool.false_eq_true, if_false, if_true]
      rw [read_body (afterOpen s (s.done ++ [hdrRec g]) g (encode pre)) g (encode pre) hg.1 rfl rfl rfl rfl rfl]
      simp only []
      have : ({ afterOpen s (s.done ++ [hdrRec g]) g (encode pre) with
          buf := [], complete := true,
          done := (afterOpen s (s.done ++ [hdrRec g]) g (encode pre)).done ++ bodyRecs g,
          ahead := encode pre } : St) =
        { afterOpen s (s.done ++ [hdrRec g]) g (encode pre) with
          buf := [], complete := true, done := s.done ++ [hdrRec g] ++ bodyRecs g, ahead := encode pre } := by
        simp [afterOpen]
      rw [this, h1]
      simp [skippedMsg, hdrOf, afterOpen]
    · rw [h4, hs']; simp [fileRecs, List.append_assoc]
    · rw [h5]; simp [afterOpen]

/-- what a read-to-the-end leaves behind (buffer, complete flag, records left) does not depend on the
    bytes collected so far nor on how much of the current buffer has been delivered -/
theorem readLoop_none_indep (bin : Bool) (len : Nat) : ∀ (ahead : Tape) (c c' buf buf' : Bytes) (k : Bool),
    (readLoop bin len none ahead c buf k).map (·.2) = (readLoop bin len none ahead c' buf' k).map (·.2) := by
  intro ahead
  induction ahead with
  | nil =>
    intro c c' buf buf' k
    cases k
    · rw [readLoop_none_nil, readLoop_none_nil]; rfl
    · rw [readLoop_none_complete, readLoop_none_complete]; rfl
  | cons r rest ih =>
    intro c c' buf buf' k
    cases k
    · rw [readLoop_none_cons, readLoop_none_cons]
      cases hfill : fillFrom bin len r with
      | error e => rfl
      | ok v => exact ih _ _ _ _ _
    · rw [readLoop_none_complete, readLoop_none_complete]; rfl

theorem readLoop_some_then_none (bin : Bool) (len n : Nat) : ∀ (ahead : Tape) (c buf : Bytes) (k : Bool)
    (y b' : Bytes) (k' : Bool) (left : Tape),
    readLoop bin len (some n) ahead c buf k = .ok (y, b', k', left) →
    ∀ (c2 c3 : Bytes), (readLoop bin len none left c3 b' k').map (·.2)
      = (readLoop bin len none ahead c2 buf k).map (·.2) := by
  intro ahead
  induction ahead with
  | nil =>
    intro c buf k y b' k' left h c2 c3
    rw [readLoop.eq_def] at h
    simp only [] at h
    split at h
    · simp only [Except.ok.injEq, Prod.mk.injEq] at h
      obtain ⟨_, rfl, rfl, rfl⟩ := h
      exact readLoop_none_indep bin len _ _ _ _ _ _
    · simp only [Except.ok.injEq, Prod.mk.injEq] at h
      obtain ⟨_, rfl, rfl, rfl⟩ := h
      exact readLoop_none_indep bin len _ _ _ _ _ _
  | cons r rest ih =>
    intro c buf k y b' k' left h c2 c3
    rw [readLoop.eq_def] at h
    simp only [] at h
    split at h
    · simp only [Except.ok.injEq, Prod.mk.injEq] at h
      obtain ⟨_, rfl, rfl, rfl⟩ := h
      exact readLoop_none_indep bin len _ _ _ _ _ _
    · rename_i hcond
      have hk : k = false := by
        cases k
        · rfl
        · simp at hcond
      subst hk
      rw [readLoop_none_cons]
      cases hfill : fillFrom bin len r with
      | error e => rw [hfill] at h; simp at h
      | ok v =>
        obtain ⟨nb, compl⟩ := v
        rw [hfill] at h
        simp only [] at h
        exact ih _ _ _ _ _ _ _ h _ _

/-- a history of partial reads (`INPUT$`, `LINE INPUT#` … each a `read(n)` of the stream) -/
def reads : St → List Nat → R St
  | s, [] => .ok s
  | s, n :: ns =>
    match Cassette.read s (some n) with
    | .error e => .error e
    | .ok (_, s') => reads s' ns

/-- reading the open file to its end leaves exactly `post` ahead -/
def Drains (s : St) (post : Tape) : Prop :=
  ∃ x b k, readLoop (isBin s.ftype) s.length none s.ahead [] s.buf s.complete = .ok (x, b, k, post)

theorem drains_read (s s' : St) (post : Tape) (n : Nat) (y : Bytes) (hd : Drains s post)
    (hr : Cassette.read s (some n) = .ok (y, s')) :
    Drains s' post ∧ s'.isOpen = s.isOpen ∧ s'.writing = s.writing ∧ s'.last = s.last := by
  obtain ⟨x, b, k, hx⟩ := hd
  unfold Cassette.read at hr
  cases hl : readLoop (isBin s.ftype) s.length (some n) s.ahead [] s.buf s.complete with
  | error e => rw [hl] at hr; simp at hr
  | ok v =>
    obtain ⟨y', b', k', left⟩ := v
    rw [hl] at hr
    simp only [Except.ok.injEq, Prod.mk.injEq] at hr
    obtain ⟨_, rfl⟩ := hr
    have h := readLoop_some_then_none _ _ _ _ _ _ _ _ _ _ _ hl [] []
    rw [hx] at h
    refine ⟨?_, rfl, rfl, rfl⟩
    unfold Drains
    simp only []
    cases hn : readLoop (isBin s.ftype) s.length none left [] b' k' with
    | error e => rw [hn] at h; simp [Except.map] at h
    | ok w =>
      obtain ⟨x', b2, k2, l2⟩ := w
      rw [hn] at h
      simp only [Except.map, Except.ok.injEq, Prod.mk.injEq] at h
      obtain ⟨rfl, rfl, rfl⟩ := h
      exact ⟨x', _, _, rfl⟩

theorem drains_reads (ns : List Nat) : ∀ (s s' : St) (post : Tape), Drains s post → reads s ns = .ok s' →
    Drains s' post ∧ s'.isOpen = s.isOpen ∧ s'.writing = s.writing ∧ s'.last = s.last := by
  induction ns with
  | nil =>
    intro s s' post hd h
    simp only [reads, Except.ok.injEq] at h
    subst h; exact ⟨hd, rfl, rfl, rfl⟩
  | cons n ns ih =>
    intro s s' post hd h
    simp only [reads] at h
    cases hr : Cassette.read s (some n) with
    | error e => rw [hr] at h; simp at h
    | ok v =>
      obtain ⟨y, s1⟩ := v
      rw [hr] at h
      simp only [] at h
      obtain ⟨h1, h2, h3, h4⟩ := drains_read s s1 post n y hd hr
      obtain ⟨g1, g2, g3, g4⟩ := ih s1 s' post h1 h
      exact ⟨g1, g2.trans h2, g3.trans h3, g4.trans h4⟩

/-- CLOSE of a file open for reading (repaired code): the rest of the file is played past -/
theorem drains_close (s : St) (post : Tape) (hd : Drains s post) (ho : s.isOpen = true) (hw : s.writing = false) :
    (closeFile true s).ahead = post ∧ (closeFile true s).isOpen = false ∧ (closeFile true s).buf = [] ∧
    (closeFile true s).last = s.last := by
  obtain ⟨x, b, k, hx⟩ := hd
  simp [closeFile, closeFileWith, closeStreamWith, ho, hw, Cassette.read, hx]

theorem drains_afterOpen (s : St) (d : Tape) (f : TFile) (post : Tape) (hf : f.wf) :
    Drains (afterOpen s d f post) post :=
  ⟨f.content, [], true, by simpa [afterOpen] using readLoop_body f post hf⟩

theorem drains_complete (s : St) (h : s.complete = true) : Drains s s.ahead :=
  ⟨[] ++ s.buf, [], true, by rw [h]; exact readLoop_none_complete _ _ _ _ _⟩

end PcbV.CassetteLemmas
