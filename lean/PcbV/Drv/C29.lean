import PcbV.Model.Cassette
namespace PcbV.Drv.C29
open PcbV PcbV.Cassette

/-  Request: `<fixed:0|1><skipBody:0|1><rel:0|1><drain:0|1> op;op;…` — a whole tape history in one line.
    ops:  ow,<namehex>,<type letter value>,<seg>,<offs>,<len>   open for output
          w,<hex>                                               CassetteStream.write
          c                                                     close the BASIC file
          re                                                    eject, attach the image again (fresh Session)
          or,<namehex>,<typeshex>                               open for input (search)
          r,<n> | ra                                            read n bytes / read all
          t                                                     dump the records on the tape
    Reply: one word per op. -/

def showMsg (m : Msg) : String :=
  (if m.found then "F" else "S") ++ toHex m.trunk ++ "." ++ toString m.ftype

def showTape (t : Tape) : String :=
  if t.isEmpty then "t:-" else "t:" ++ "/".intercalate (t.map fun r => toString r.length ++ "x" ++ toHex r.flatten)

def step (fixed skip rel drain : Bool) (s : St) (op : String) : St × String :=
  match op.splitOn "," with
  | ["ow", name, ft, seg, offs, len] =>
    match ofHex name, ft.toNat?, seg.toNat?, offs.toNat?, len.toNat? with
    | some name, some ft, some seg, some offs, some len =>
      match openWrite s name ft seg offs len with
      | .ok s' => (s', "ow")
      | .error e => (s, "e" ++ toString e)
    | _, _, _, _, _ => (s, "bad-op")
  | ["w", hex] =>
    match ofHex hex with
    | some d => (write fixed s d, "w")
    | none => (s, "bad-op")
  | ["c"] => (closeFileWith drain fixed s, "c")
  | ["re"] => (attach (closeStreamWith drain fixed s).tape, "re")
  | ["or", name, types] =>
    match ofHex name, ofHex types with
    | some name, some types =>
      let (ms, s', r) := openInput skip rel s name types
      let tail := match r with
        | .ok _ => ""
        | .error e => ",e" ++ toString e
      (s', "or:" ++ ",".intercalate (ms.map showMsg) ++ tail)
    | _, _ => (s, "bad-op")
  | ["ra"] =>
    match read s none with
    | .ok (d, s') => (s', "d" ++ toHex d)
    | .error e => (s, "e" ++ toString e)
  | ["r", n] =>
    match n.toNat? with
    | some n =>
      match read s (some n) with
      | .ok (d, s') => (s', "d" ++ toHex d)
      | .error e => (s, "e" ++ toString e)
    | none => (s, "bad-op")
  | ["t"] => (s, showTape s.tape)
  | _ => (s, "bad-op")

def runOps (fixed skip rel drain : Bool) : St → List String → List String
  | _, [] => []
  | s, op :: ops => let (s', out) := step fixed skip rel drain s op; out :: runOps fixed skip rel drain s' ops

def handle : List String → String
  | [flags, ops] =>
    match flags.toList with
    | [a, b, c, d] =>
      " ".intercalate (runOps (a == '1') (b == '1') (c == '1') (d == '1') (attach []) (ops.splitOn ";"))
    | _ => "bad-op"
  | _ => "bad-op"

end PcbV.Drv.C29
