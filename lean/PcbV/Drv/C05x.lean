import PcbV.Drv.MbfCommon
import PcbV.Model.Promote
/-
  Driver operations of C05 beyond the shared MBF protocol:
    v <op> <t> <hex>            op ∈ neg abs sgn            t ∈ i s d
    v <op> <t> <hex> <t> <hex>  op ∈ add sub mul div mulold
  reply: `ok <t> <hex>` or `err <n> <t> <hex>` (value substituted by the error handler).
  Integers are two bytes, little endian.
-/
namespace PcbV.Drv.C05x
open PcbV PcbV.Mbf PcbV.Promote PcbV.Drv.MbfCommon

def parseV (t s : String) : Option V :=
  match t, ofHex s with
  | "i", some [a, b] => some (.int (a + 256 * b))
  | "s", some b => if b.length = 4 then some (.sng (ofBytes b)) else none
  | "d", some b => if b.length = 8 then some (.dbl (ofBytes b)) else none
  | _, _ => none

def showV : V → String
  | .int w => "i " ++ toHex [w % 256, w / 256 % 256]
  | .sng x => "s " ++ toHex (toBytes single x)
  | .dbl x => "d " ++ toHex (toBytes double x)

def showVR : VR → String
  | .ok v => "ok " ++ showV v
  | .error (c, v) => "err " ++ toString c ++ " " ++ showV v

def handle : List String → String
  | [op, ta, a] =>
    match parseV ta a with
    | none => "bad-op"
    | some x =>
      match op with
      | "neg" => "ok " ++ showV (neg x)
      | "abs" => "ok " ++ showV (abs x)
      | "sgn" => "ok " ++ showV (sgn x)
      | _ => "bad-op"
  | [op, ta, a, tb, b] =>
    match parseV ta a, parseV tb b with
    | some x, some y =>
      match op with
      | "add" => showVR (add x y)
      | "sub" => showVR (sub x y)
      | "mul" => showVR (mul x y)
      | "mulold" => showVR (mulOld x y)
      | "div" => showVR (div x y)
      | _ => "bad-op"
    | _, _ => "bad-op"
  | _ => "bad-op"

end PcbV.Drv.C05x
