import PcbV.PyInt
/-
  Lemmas about `PcbV.PyInt` (Python's bitwise operators on unbounded ints) that are needed to prove
  "mechanically translated code = hand-written model" (`PcbV.Gen.Translated` against the models):
  the low byte of `x ^ k` for a byte `k` is the xor of the low byte of `x` with `k`, also for
  negative `x` (two's complement), and the shape `(((b - d) ^ k1) ^ k2) + e) % 256` that the
  protection cipher uses equals the mod-256 computation on naturals.
-/
namespace PcbV.PyIntLemmas
open PcbV

theorem fmod_256 (x : Int) : Int.fmod x 256 = x % 256 :=
  Int.fmod_eq_emod_of_nonneg _ (by decide)

/-- Python `i % n` for naturals -/
theorem fmod_natCast (i n : Nat) : Int.fmod (i : Int) (n : Int) = ((i % n : Nat) : Int) := by
  rw [Int.fmod_eq_emod_of_nonneg _ (Int.natCast_nonneg n)]; exact (Int.natCast_emod i n).symm

/-- complement of a byte is xor with 255 -/
theorem compl_byte : ∀ a < 256, 255 - a = 255 ^^^ a := by decide +kernel

theorem xor_byte_lt (a k : Nat) (ha : a < 256) (hk : k < 256) : a ^^^ k < 256 :=
  Nat.xor_lt_two_pow (n := 8) ha hk

theorem compl_xor (a k : Nat) (ha : a < 256) (hk : k < 256) : 255 - (a ^^^ k) = (255 - a) ^^^ k := by
  rw [compl_byte _ (xor_byte_lt a k ha hk), compl_byte a ha, Nat.xor_assoc]

theorem xor_mod_byte (m k : Nat) (hk : k < 256) : (m ^^^ k) % 256 = m % 256 ^^^ k := by
  have h : (256 : Nat) = 2 ^ 8 := rfl
  rw [h, Nat.xor_mod_two_pow, ← h, Nat.mod_eq_of_lt hk]

/-- **key lemma**: the low byte of Python's `x ^ k` (any int `x`, byte `k`) -/
theorem xor_fmod (x : Int) (k : Nat) (hk : k < 256) :
    Int.fmod (PyInt.xor x (k : Int)) 256 = (((Int.fmod x 256).toNat ^^^ k : Nat) : Int) := by
  rw [fmod_256, fmod_256]
  cases x with
  | ofNat m =>
    show ((m ^^^ k : Nat) : Int) % 256 = _
    have h1 : ((m : Int) % 256).toNat = m % 256 := by omega
    rw [show Int.ofNat m = (m : Int) from rfl, h1, ← xor_mod_byte m k hk]
    omega
  | negSucc m =>
    show Int.negSucc (m ^^^ k) % 256 = _
    have h1 : (Int.negSucc m % 256).toNat = 255 - m % 256 := by
      have : Int.negSucc m = -((m : Int) + 1) := rfl
      omega
    have h2 : Int.negSucc (m ^^^ k) % 256 = ((255 - (m ^^^ k) % 256 : Nat) : Int) := by
      have : Int.negSucc (m ^^^ k) = -(((m ^^^ k : Nat) : Int) + 1) := rfl
      omega
    rw [h1, h2, xor_mod_byte m k hk, compl_xor _ _ (Nat.mod_lt _ (by decide)) hk]

/-- the low byte as a natural number -/
theorem fmod_toNat_cast (x : Int) : ((Int.fmod x 256).toNat : Int) = Int.fmod x 256 := by
  rw [fmod_256]; omega

/-- The computation of one cipher step on Python ints (`c -= d; c ^= k1; c ^= k2; c += e; c % 256`)
    equals the mod-256 computation on naturals of the hand-written model. -/
theorem cipher_step (b d e k1 k2 : Nat) (hd : d ≤ 256) (h1 : k1 < 256) (h2 : k2 < 256) :
    Int.fmod (PyInt.xor (PyInt.xor ((b : Int) - (d : Int)) (k1 : Int)) (k2 : Int) + (e : Int)) 256
      = (((((b + 256 - d) % 256 ^^^ k1) ^^^ k2) + e) % 256 : Nat) := by
  have hx := xor_fmod (PyInt.xor ((b : Int) - (d : Int)) (k1 : Int)) k2 h2
  rw [xor_fmod _ k1 h1, Int.toNat_natCast] at hx
  have h0 : (Int.fmod ((b : Int) - (d : Int)) 256).toNat = (b + 256 - d) % 256 := by
    rw [fmod_256]; omega
  rw [h0] at hx
  rw [fmod_256] at hx ⊢
  generalize PyInt.xor (PyInt.xor ((b : Int) - (d : Int)) (k1 : Int)) (k2 : Int) = X at hx ⊢
  generalize ((b + 256 - d) % 256 ^^^ k1) ^^^ k2 = Y at hx ⊢
  omega

/-- the same with the two keys read from tables of Python ints that agree with tables of bytes -/
theorem cipher_step_tab (T1 T2 : List Int) (k1 k2 : Nat → Nat) (j1 j2 b d e : Nat) (hd : d ≤ 256)
    (h1 : T1.getD j1 0 = ((k1 j1 : Nat) : Int)) (h1' : k1 j1 < 256)
    (h2 : T2.getD j2 0 = ((k2 j2 : Nat) : Int)) (h2' : k2 j2 < 256) :
    Int.fmod (PyInt.xor (PyInt.xor ((b : Int) - (d : Int)) (T1.getD j1 0)) (T2.getD j2 0) + (e : Int)) 256
      = (((((b + 256 - d) % 256 ^^^ k1 j1) ^^^ k2 j2) + e) % 256 : Nat) := by
  rw [h1, h2]; exact cipher_step b d e _ _ hd h1' h2'

/-! ### lemmas for the byte-level code of `numbers.Integer` and for divmod chains on naturals -/

theorem fdiv_natCast (a b : Nat) : Int.fdiv (a : Int) (b : Int) = ((a / b : Nat) : Int) := by
  rw [Int.fdiv_eq_ediv_of_nonneg _ (Int.natCast_nonneg b)]; exact (Int.natCast_ediv a b).symm

theorem land_natCast (m k : Nat) : PyInt.land (m : Int) (k : Int) = ((m &&& k : Nat) : Int) := rfl
theorem xor_natCast (m k : Nat) : PyInt.xor (m : Int) (k : Int) = ((m ^^^ k : Nat) : Int) := rfl

/-- `x & 0xff` of a non-negative int -/
theorem land_255 (x : Int) (h : 0 ≤ x) : PyInt.land x 255 = x % 256 := by
  obtain ⟨m, rfl⟩ := Int.eq_ofNat_of_zero_le h
  have h2 : m &&& 255 = m % 256 := Nat.and_two_pow_sub_one_eq_mod m 8
  show ((m &&& 255 : Nat) : Int) = _
  rw [h2]; omega

/-- `x & 0x7f` of a non-negative int -/
theorem land_127 (x : Int) (h : 0 ≤ x) : PyInt.land x 127 = x % 128 := by
  obtain ⟨m, rfl⟩ := Int.eq_ofNat_of_zero_le h
  have h2 : m &&& 127 = m % 128 := Nat.and_two_pow_sub_one_eq_mod m 7
  show ((m &&& 127 : Nat) : Int) = _
  rw [h2]; omega

theorem and_128_byte : ∀ a < 256, a &&& 128 = if a ≥ 128 then 128 else 0 := by decide +kernel

/-- `b & 0x80` of a byte -/
theorem land_128 (x : Int) (h : 0 ≤ x) (h' : x < 256) : PyInt.land x 128 = if x ≥ 128 then 128 else 0 := by
  obtain ⟨m, rfl⟩ := Int.eq_ofNat_of_zero_le h
  show ((m &&& 128 : Nat) : Int) = _
  rw [and_128_byte m (by omega)]
  split <;> split <;> omega

/-- `b ^ 0xff` of a byte -/
theorem xor_255 (x : Int) (h : 0 ≤ x) (h' : x < 256) : PyInt.xor x 255 = 255 - x := by
  obtain ⟨m, rfl⟩ := Int.eq_ofNat_of_zero_le h
  show ((m ^^^ 255 : Nat) : Int) = _
  rw [Nat.xor_comm, ← compl_byte m (by omega)]; omega

end PcbV.PyIntLemmas
