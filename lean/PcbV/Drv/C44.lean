import PcbV.Model.Clock
namespace PcbV.Drv.C44
open PcbV PcbV.Clock

def envRun : Env → List String → List String → String
  | _, [], acc => joinWith ";" acc.reverse
  | env, op :: ops, acc =>
    match op.splitOn ":" with
    | ["s", h] =>
      match ofHex h with
      | some b =>
        match environSet env b with
        | .ok env' => envRun env' ops ("ok" :: acc)
        | .error e => envRun env ops (("err " ++ toString e) :: acc)
      | none => "bad-op"
    | ["g", h] =>
      match ofHex h with
      | some b => envRun env ops (showR toHex (environGet env b) :: acc)
      | none => "bad-op"
    | _ => "bad-op"

def handle : List String → String
  | ["timeset", host, off, s] =>
    match host.toInt?, off.toInt?, ofHex s with
    | some host, some off, some b => showR toString (timeSet host off b)
    | _, _, _ => "bad-op"
  | ["timefn", host, off] =>
    match host.toInt?, off.toInt? with
    | some host, some off => "ok " ++ toHex (timeFn host off)
    | _, _ => "bad-op"
  | ["dateset", host, off, s] =>
    match host.toInt?, off.toInt?, ofHex s with
    | some host, some off, some b => showR toString (dateSet greg host off b)
    | _, _, _ => "bad-op"
  | ["datefn", host, off] =>
    match host.toInt?, off.toInt? with
    | some host, some off => "ok " ++ toHex (dateFn greg host off)
    | _, _ => "bad-op"
  | ["env", hist] => envRun [] (hist.splitOn ";") []
  | _ => "bad-op"

end PcbV.Drv.C44
