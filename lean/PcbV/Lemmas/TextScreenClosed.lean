import PcbV.Lemmas.TextScreenWrite
/-
  Lemmas for C36, part 3: the closed form of the reference typewriter `TW`.  After `j` characters typed from
  the first cell of a blank window (`bottom ≤ 25`: row 25 may belong to it, as on Tandy/PCjr) of `h = bottom − top + 1` rows and `W` columns (`W` = 40 or 80):
  the window has scrolled `twScrolls W h j` times, the character number `q` (0-based) is on screen row
  `top + q / W − scrolls`, column `q % W + 1` (if that row has not scrolled out), every other cell of the
  window is blank, rows outside the window are untouched.
-/
namespace PcbV.TextScreen
open PcbV

/-! ### cells of a list of rows -/

theorem cellL_put_same {ch : List (List Nat)} {w r c : Nat} (v : Nat) (hl : ∀ x ∈ ch, x.length = w)
    (r1 : 1 ≤ r) (r2 : r ≤ ch.length) (c1 : 1 ≤ c) (c2 : c ≤ w) : cell (putCell ch r c v) r c = v := by
  rw [cell_eq, getElem?_putCell, if_pos rfl]
  have hr : r - 1 < ch.length := by omega
  rw [List.getElem?_eq_getElem hr]
  have := hl _ (List.getElem_mem hr)
  simp only [Option.map_some, Option.getD_some]
  rw [List.getD_eq_getElem?_getD, List.getElem?_set_self (by omega)]
  rfl

theorem cellL_put_other (ch : List (List Nat)) (r c v r' c' : Nat) (r1 : 1 ≤ r) (c1 : 1 ≤ c) (r1' : 1 ≤ r')
    (c1' : 1 ≤ c') (h : r' ≠ r ∨ c' ≠ c) : cell (putCell ch r c v) r' c' = cell ch r' c' := by
  rw [cell_eq, cell_eq, getElem?_putCell]
  split
  · rename_i e
    have hc : c' ≠ c := by rcases h with h | h <;> omega
    cases hx : ch[r' - 1]? with
    | none => rfl
    | some x =>
      simp only [Option.map_some, Option.getD_some]
      rw [List.getD_eq_getElem?_getD, List.getD_eq_getElem?_getD, List.getElem?_set_ne (by omega)]
  · rfl

theorem cellL_scroll (W : Nat) (ch : List (List Nat)) (top bottom r c : Nat) (h1 : 1 ≤ top) (h2 : top ≤ bottom)
    (h3 : bottom ≤ ch.length) (r1 : 1 ≤ r) :
    cell (scrollUpChars W ch top bottom) r c =
      if top ≤ r ∧ r < bottom then cell ch (r + 1) c
      else if r = bottom then 32 else cell ch r c := by
  rw [cell_eq]
  unfold scrollUpChars
  rw [getElem?_pyDel, getElem?_pyInsert _ _ _ (by omega)]
  by_cases ha : top ≤ r ∧ r < bottom
  · rw [if_pos ha, if_neg (by omega), getElem?_pyInsert _ _ _ (by omega), if_pos (by omega), cell_eq]
    congr 3; omega
  · rw [if_neg ha]
    by_cases hb : r = bottom
    · rw [if_pos hb, if_neg (by omega), getElem?_pyInsert _ _ _ (by omega), if_neg (by omega), if_pos (by omega)]
      simp only [Option.getD_some, blankRow]
      rw [List.getD_eq_getElem?_getD, List.getElem?_replicate]
      split <;> rfl
    · rw [if_neg hb, cell_eq]
      by_cases hc : r < top
      · rw [if_pos (by omega), if_pos (by omega)]
      · rw [if_neg (by omega), getElem?_pyInsert _ _ _ (by omega), if_neg (by omega), if_neg (by omega)]
        congr 3

theorem length_scrollUpChars (W : Nat) (ch : List (List Nat)) (top bottom : Nat) (h1 : 1 ≤ top)
    (h2 : top ≤ bottom) (h3 : bottom ≤ ch.length) : (scrollUpChars W ch top bottom).length = ch.length := by
  unfold scrollUpChars
  rw [length_pyDel, length_pyInsert]
  · omega
  · rw [length_pyInsert]; omega

theorem rlen_scrollUpChars {W : Nat} {ch : List (List Nat)} (h : ∀ x ∈ ch, x.length = W) (top bottom : Nat) :
    ∀ x ∈ scrollUpChars W ch top bottom, x.length = W := by
  intro x hx
  rcases mem_pyInsert (mem_pyDel hx) with e | e
  · rw [e, length_blankRow]
  · exact h x e

/-! ### the closed form -/

/-- how often a window of `h` rows has scrolled after `j` characters typed from its first cell -/
def twScrolls (W h j : Nat) : Nat := if j = 0 then 0 else ((j - 1) / W + 1) - h

/-- the state of the typewriter after the first `j` characters of `txt`, started at `(top, 1)` on the sheet
    `rows0` whose window `[top, bottom]` is blank -/
structure TWInv (W top bottom : Nat) (rows0 : List (List Nat)) (txt : List Nat) (j : Nat) (t : TW) : Prop where
  len : t.rows.length = 25
  rlen : ∀ x ∈ t.rows, x.length = W
  out : SameOutside top bottom t.rows rows0
  pos0 : j = 0 → t.r = top ∧ t.c = 1
  pos : 0 < j → t.r = top + (j - 1) / W - twScrolls W (bottom - top + 1) j ∧ t.c = (j - 1) % W + 2
  cells : ∀ ρ γ, top ≤ ρ → ρ ≤ bottom → 1 ≤ γ → γ ≤ W →
    cell t.rows ρ γ =
      if (ρ - top + twScrolls W (bottom - top + 1) j) * W + (γ - 1) < j
      then txt.getD ((ρ - top + twScrolls W (bottom - top + 1) j) * W + (γ - 1)) 32 else 32

theorem twScrolls_succ (W h j : Nat) : twScrolls W h (j + 1) = (j / W + 1) - h := by
  unfold twScrolls; rw [if_neg (by omega)]; simp

/-- one more character at cell `(R, C)` of the sheet `B`, which is virtual position `j` -/
theorem twInv_put {W top bottom : Nat} {rows0 : List (List Nat)} {txt : List Nat} {j : Nat}
    {B : List (List Nat)} {R C sc' x : Nat} (hW : W = 40 ∨ W = 80) (h1 : 1 ≤ top)
    (hx : txt.getD j 32 = x) (bl : B.length = 25) (brl : ∀ y ∈ B, y.length = W)
    (bout : SameOutside top bottom B rows0) (r1 : top ≤ R) (r2 : R ≤ bottom) (b24 : bottom ≤ 25) (c1 : 1 ≤ C)
    (c2 : C ≤ W) (hq : (R - top + sc') * W + (C - 1) = j) (hsc : twScrolls W (bottom - top + 1) (j + 1) = sc')
    (hcells : ∀ ρ γ, top ≤ ρ → ρ ≤ bottom → 1 ≤ γ → γ ≤ W → (ρ ≠ R ∨ γ ≠ C) →
      cell B ρ γ = if (ρ - top + sc') * W + (γ - 1) < j then txt.getD ((ρ - top + sc') * W + (γ - 1)) 32 else 32) :
    TWInv W top bottom rows0 txt (j + 1) ⟨putCell B R C x, R, C + 1⟩ := by
  refine ⟨by simp [length_putCell, bl], rlen_putCell brl _ _ _, ?_, fun h => absurd h (by omega), ?_, ?_⟩
  · intro i hi
    rw [putCell_outside r1 r2 h1 C x i hi, bout i hi]
  · intro _
    rw [hsc]
    simp only [Nat.add_sub_cancel]
    rcases hW with rfl | rfl <;> constructor <;> omega
  · intro ρ γ p1 p2 g1 g2
    rw [hsc]
    simp only []
    by_cases he : ρ = R ∧ γ = C
    · obtain ⟨e1, e2⟩ := he
      subst e1 e2
      rw [cellL_put_same x brl (by omega) (by omega) c1 c2, hq, if_pos (by omega), hx]
    · have hne : ρ ≠ R ∨ γ ≠ C := by
        by_cases a : ρ = R
        · right; intro b; exact he ⟨a, b⟩
        · left; exact a
      rw [cellL_put_other B R C x ρ γ (by omega) c1 (by omega) g1 hne, hcells ρ γ p1 p2 g1 g2 hne]
      have hqne : (ρ - top + sc') * W + (γ - 1) ≠ j := by
        rcases hW with rfl | rfl <;> omega
      by_cases hlt : (ρ - top + sc') * W + (γ - 1) < j
      · rw [if_pos hlt, if_pos (by omega)]
      · rw [if_neg hlt, if_neg (by omega)]

/-- **The step of the closed form**: typing character number `j`. -/
theorem twInv_step {W top bottom : Nat} {rows0 : List (List Nat)} {txt : List Nat} {j : Nat} {t : TW}
    (hW : W = 40 ∨ W = 80) (h1 : 1 ≤ top) (h2 : top ≤ bottom) (h3 : bottom ≤ 25)
    (inv : TWInv W top bottom rows0 txt j t) (x : Nat) (hx : txt.getD j 32 = x) :
    TWInv W top bottom rows0 txt (j + 1) (t.put W top bottom x) := by
  by_cases hj : j = 0
  · -- the first character
    obtain ⟨hr, hc⟩ := inv.pos0 hj
    have e : t.put W top bottom x = ⟨putCell t.rows top 1 x, top, 1 + 1⟩ := by
      unfold TW.put
      simp only []
      rw [if_neg (by rcases hW with rfl | rfl <;> omega), hr, hc]
    rw [e]
    refine twInv_put (sc' := 0) hW h1 hx inv.len inv.rlen inv.out (Nat.le_refl _) h2 h3 (Nat.le_refl _)
      (by rcases hW with rfl | rfl <;> omega) (by subst hj; simp) ?_ ?_
    · rw [twScrolls_succ]; subst hj; rcases hW with rfl | rfl <;> omega
    · intro ρ γ p1 p2 g1 g2 _
      have := inv.cells ρ γ p1 p2 g1 g2
      rw [this]
      subst hj
      simp [twScrolls]
  · have hj' : 0 < j := by omega
    obtain ⟨hr, hc⟩ := inv.pos hj'
    have hsc : twScrolls W (bottom - top + 1) j = ((j - 1) / W + 1) - (bottom - top + 1) := by
      unfold twScrolls; rw [if_neg hj]
    by_cases hfull : t.c = W + 1
    · by_cases hlast : t.r < bottom
      · -- start the next row of the window
        have e : t.put W top bottom x = ⟨putCell t.rows (t.r + 1) 1 x, t.r + 1, 1 + 1⟩ := by
          unfold TW.put TW.nextRow
          simp only [hfull, if_true]
          rw [if_pos hlast]
        rw [e]
        have hge : top ≤ t.r := by rw [hsc] at hr; rcases hW with rfl | rfl <;> omega
        refine twInv_put (sc' := twScrolls W (bottom - top + 1) j) hW h1 hx inv.len inv.rlen inv.out (by omega)
          (by omega) h3 (Nat.le_refl _) (by rcases hW with rfl | rfl <;> omega) ?_ ?_ ?_
        · rw [hsc] at hr ⊢; rcases hW with rfl | rfl <;> omega
        · rw [twScrolls_succ, hsc]; rw [hsc] at hr; rcases hW with rfl | rfl <;> omega
        · intro ρ γ p1 p2 g1 g2 _
          exact inv.cells ρ γ p1 p2 g1 g2
      · -- the window scrolls
        have hrb : t.r = bottom := by
          rw [hsc] at hr; rcases hW with rfl | rfl <;> omega
        have e : t.put W top bottom x =
            ⟨putCell (scrollUpChars W t.rows top bottom) bottom 1 x, bottom, 1 + 1⟩ := by
          unfold TW.put TW.nextRow
          simp only [hfull, if_true]
          rw [if_neg hlast]
        rw [e]
        have hlen : bottom ≤ t.rows.length := by rw [inv.len]; omega
        refine twInv_put (sc' := twScrolls W (bottom - top + 1) j + 1) hW h1 hx
          (by rw [length_scrollUpChars W _ _ _ h1 h2 hlen, inv.len]) (rlen_scrollUpChars inv.rlen _ _) ?_ h2
          (Nat.le_refl _) h3 (Nat.le_refl _) (by rcases hW with rfl | rfl <;> omega) ?_ ?_ ?_
        · intro i hi
          rw [scrollUp_outside W t.rows top bottom h1 h2 hlen i hi, inv.out i hi]
        · rw [hsc] at hr ⊢; rcases hW with rfl | rfl <;> omega
        · rw [twScrolls_succ, hsc]; rw [hsc] at hr; rcases hW with rfl | rfl <;> omega
        · intro ρ γ p1 p2 g1 g2 hne
          rw [cellL_scroll W t.rows top bottom ρ γ h1 h2 hlen (by omega)]
          by_cases hb : ρ < bottom
          · rw [if_pos ⟨p1, hb⟩, inv.cells (ρ + 1) γ (by omega) (by omega) g1 g2]
            have ee : (ρ + 1 - top + twScrolls W (bottom - top + 1) j) =
                (ρ - top + (twScrolls W (bottom - top + 1) j + 1)) := by omega
            rw [ee]
          · have hb' : ρ = bottom := by omega
            rw [if_neg (by omega), if_pos hb', if_neg]
            rw [hsc] at hr ⊢
            rcases hW with rfl | rfl <;> omega
    · -- somewhere inside a row
      have e : t.put W top bottom x = ⟨putCell t.rows t.r t.c x, t.r, t.c + 1⟩ := by
        unfold TW.put
        simp only []
        rw [if_neg hfull]
      rw [e]
      refine twInv_put (sc' := twScrolls W (bottom - top + 1) j) hW h1 hx inv.len inv.rlen inv.out ?_ ?_ h3
        (by omega) ?_ ?_ ?_ ?_
      · rw [hsc] at hr; rcases hW with rfl | rfl <;> omega
      · rw [hsc] at hr; rcases hW with rfl | rfl <;> omega
      · rcases hW with rfl | rfl <;> omega
      · rw [hsc] at hr ⊢; rcases hW with rfl | rfl <;> omega
      · rw [twScrolls_succ, hsc]; rcases hW with rfl | rfl <;> omega
      · intro ρ γ p1 p2 g1 g2 _
        exact inv.cells ρ γ p1 p2 g1 g2

/-- the closed form holds after every prefix of the text -/
theorem twInv_type {W top bottom : Nat} {rows0 : List (List Nat)} (txt : List Nat)
    (hW : W = 40 ∨ W = 80) (h1 : 1 ≤ top) (h2 : top ≤ bottom) (h3 : bottom ≤ 25)
    (l0 : rows0.length = 25) (rl0 : ∀ x ∈ rows0, x.length = W)
    (blank : ∀ ρ γ, top ≤ ρ → ρ ≤ bottom → cell rows0 ρ γ = 32) :
    ∀ j, j ≤ txt.length → TWInv W top bottom rows0 txt j (TW.type W top bottom ⟨rows0, top, 1⟩ (txt.take j)) := by
  intro j
  induction j with
  | zero =>
    intro _
    simp only [List.take_zero, TW.type, List.foldl_nil]
    refine ⟨l0, rl0, fun _ _ => rfl, fun _ => ⟨rfl, rfl⟩, fun h => absurd h (by omega), ?_⟩
    intro ρ γ p1 p2 _ _
    rw [blank ρ γ p1 p2, if_neg (by omega)]
  | succ j ih =>
    intro hj
    have hlt : j < txt.length := by omega
    have e : txt.take (j + 1) = txt.take j ++ [txt[j]] := by
      rw [List.take_add_one, List.getElem?_eq_getElem hlt]; rfl
    rw [e]
    unfold TW.type
    rw [List.foldl_append]
    simp only [List.foldl_cons, List.foldl_nil]
    exact twInv_step hW h1 h2 h3 (ih (by omega)) txt[j]
      (by rw [List.getD_eq_getElem?_getD, List.getElem?_eq_getElem hlt]; rfl)

/-- plain text on the SCRN: file from column 1 goes to `Console.write` in one piece, without a line break
    in front of it (`SCRNFile.write`) -/
theorem scrnLoop_plain (s : St) (c2 : s.col ≤ s.width) (l : List Nat) (hp : Plain l) :
    ∀ out, scrnLoop s out l = consoleWrite s (out ++ l) := by
  induction l with
  | nil => intro out; simp [scrnLoop]
  | cons c cs ih =>
    intro out
    have hc : ¬ (c = 10 ∨ c = 13) := by
      have := hp c List.mem_cons_self
      unfold isControl at this
      simp only [Bool.or_eq_false_iff, beq_eq_false_iff_ne, ne_eq] at this
      omega
    unfold scrnLoop
    have hgt : ¬ s.col > s.width := by omega
    simp only [hgt, hc, if_false]
    rw [ih (fun y hy => hp y (List.mem_cons_of_mem _ hy))]
    simp

theorem printStr_plain_home (s : St) (h1 : s.col = 1) (hw : 1 ≤ s.width) (l : List Nat) (hp : Plain l) :
    printStr s l false = consoleWrite s l := by
  unfold printStr
  simp only [Bool.false_eq_true, if_false]
  unfold scrnWrite
  cases hl : l.isEmpty
  · simp only [Bool.false_eq_true, if_false]
    rw [if_neg (by intro h; exact h.2.1 h1), scrnLoop_plain s (by omega) l hp]
    simp
  · simp only [if_true]
    unfold consoleWrite
    rw [hl]; simp

end PcbV.TextScreen
