"""C22 — READ returns DATA items in program order; RESTORE / RESTORE n; Out of DATA; Syntax error on the DATA line."""
import json

from vlib import basic

LEVEL = 'proof'
RULE = ('one case = one generated program (DATA statements scattered over numbered lines and multi-statement lines, '
        'among fillers with string literals / number tokens / two-byte tokens containing the bytes of ":" , NUL, '
        'quote, REM and DATA, never-executed IF branches, REM tails) with 4..14 interleaved READ (1..4 string and '
        'numeric variables, among them integer variables on items outside -32768..32767) / RESTORE / RESTORE n statements; non-trivial = at least one READ is executed')
EXPLANATION = ('theorems (PcbV.Props.C22) over all well-formed program layouts: read_order, restore_spec, restore_line, '
               'out_of_data, syntax_error_on_data_line, refused_read_keeps_item (a READ whose assignment is refused -- '
               'Overflow into a % variable -- ends at the READ statement and does not consume the item); correspondence: the Lean transcription of read_/restore_/'
               'skip_to_token/read_number runs on the session\'s real bytecode and line table and must reproduce every '
               'value assigned and every ERR/ERL; oracle: a Python list of the items the generator emitted')
TRUSTED_BASE = ['model PcbV.Model.DataRead is a hand transcription of Interpreter.read_/restore_/erl_, '
                'Program.get_line_number and the codestream helpers',
                'number conversion (values.from_repr) is a parameter of the model: the model yields the literal text, '
                'the harness converts it with the implementation\'s own from_repr; likewise a refused assignment (Overflow) is a '
                'parameter of readVarsR: the generator marks the integer variables it put on out-of-range integer items']
ASSUMPTIONS = ['program.line_numbers maps every line number to the offset of the NUL that starts the line '
               '(checked by the harness on every generated program)',
               'the bytecode ends with NUL NUL NUL']

SENT_S = b'~#~'
SENT_N = -7777
HANDLER_TXT = b'ER%(K%)=ERR:EL!(K%)=ERL:RESUME NEXT'


def l1(b):
    return b.decode('latin-1')


def b1(s):
    return s.encode('latin-1')


# ---------------------------------------------------------------------------------------------
# generator

NUM_FORMS = [
    (b'0', 0), (b'1', 1), (b'7', 7), (b'42', 42), (b'255', 255), (b'256', 256), (b'32767', 32767),
    (b'32768', 32768), (b'65535', 65535), (b'65536', 65536), (b'100000', 100000), (b'-1', -1), (b'-32768', -32768),
    (b'+12', 12), (b'-3', -3), (b'007', 7), (b'1.5', 1.5), (b'-.25', -0.25), (b'.5', 0.5), (b'12.', 12),
    (b'0.125', 0.125), (b'-0.75', -0.75), (b'3.0', 3), (b'1E3', 1000), (b'2.5E2', 250), (b'5E-1', 0.5),
    (b'1e3', 1000), (b'25D-2', 0.25), (b'1D2', 100), (b'1.5d1', 15), (b'-1E+2', -100), (b'1.E1', 10),
    (b'3#', 3), (b'4!', 4), (b'7%', 7), (b'2.5#', 2.5), (b'1.5!', 1.5), (b'&H1F', 31), (b'&hff', 255),
    (b'&HFFFF', -1), (b'&H7FFF', 32767), (b'&H8000', -32768), (b'&H0', 0), (b'&O17', 15), (b'&17', 15),
    (b'&o777', 511), (b'&O177777', -1), (b'&O0', 0), (b'123456', 123456), (b'-99', -99),
    (b'40000', 40000), (b'-32769', -32769), (b'32768', 32768), (b'-40000', -40000),
]
# numeric-looking prefix followed by something else: a non-numeric item
NONNUM_FORMS = [b'12abc', b'1.5.2', b'--5', b'1E5E', b'5 %', b'3 apples', b'&HZZ', b'&O9', b'1E +5', b'7!!', b'2#x',
                b'+-1', b'12"', b'.x']
# oracle has no opinion on a numeric READ of these (conversion quirks of the original), string READ is well defined
QUIRK_FORMS = [b'1 2', b'1E', b'-', b'.', b'+', b'&H', b'&', b'1 E 2', b'- 5', b'12 %']
# the statement does not say what these mean; correspondence only
WEIRD_FORMS = [b'ab"cd"', b'"x" y', b'ab"cd"ef', b'"a""b"', b'""x', b'x"unterminated']

# (bytes that are token prefixes with payload -- 0B..0F, 1C..1F, FD..FF -- and the REM byte are kept out of unquoted
# DATA text: *executing* such a DATA statement mis-skips it, which is not what this property is about)
UNQ_FIRST = b'ABCXYZabcxyz_$#!%(*/=<>?@[]^{}~\x80\x9b\xe1\x84\xa1'
UNQ_REST = UNQ_FIRST + b"0123456789 .-+'&;()"
QUO_CHARS = (b'ABCabc019 ,,::;\'.-+&!#%()' + b'\x84\x8f\x8f\x0e\x0f\x1c\x1d\x1f\xfd\xfe\xff\x80\xa1\xcd\x3a\x2c')

FILLERS = [b'X=1', b'X=58', b'X%=34', b'X=132', b'X=143', b'X=14860', b'X=1.5', b'X#=1.25D0', b'X=&H3A', b'X=&O72',
           b'X=FRE(0)', b'X=SGN(1)', b'X=8708', b'X=36623', b'X#=58', b'X=.000058', b'Q$="a:b,c"', b'Q$="DATA 1,2"',
           b'Q$="\x8f"', b'Q$="\x84 9,9"', b'Q$="it\'s \x8f:\x84 5"', b'Q$=""', b'Q$=MKI$(34)', b'X=ASC(":")',
           b'X=0:Y=0', b'Q$=CHR$(34)+","+CHR$(58)', b'X = 1', b'DEF FNA(X)=X*58', b'Q$="x"+"\x8f"+"y"']
KILLERS = [b'IF 0 THEN DATA 91,"92"', b'IF 0 THEN X=2', b'IF 1 THEN X=2 ELSE DATA 93', b'IF 0 THEN DATA "\x8f" ELSE X=3',
           b'IF X=58 THEN X=1 ELSE X=2']
REM_TAILS = [b'REM DATA 1,2: DATA 3', b"' DATA 5", b'REM "', b"' it's: DATA \"x", b'REM', b"'\x8f\x84"]


class Gen(object):
    def __init__(self, rng):
        self.rng = rng

    def blanks(self):
        return b' ' * self.rng.choice([0, 0, 0, 1, 1, 2])

    def item(self):
        """-> dict(raw, kind, s (string value or None), n (numeric value or None / 'err' / 'quirk'))"""
        rng = self.rng
        r = rng.random()
        lead, trail = self.blanks(), self.blanks()
        if r < 0.30:
            raw, val = rng.choice(NUM_FORMS)
            return dict(raw=lead + raw + trail, kind='num', s=raw, n=val)
        if r < 0.50:
            n = rng.choice([0, 1, 1, 2, 3, 5, 9])
            txt = bytes(bytearray(rng.choice(bytearray(QUO_CHARS)) for _ in range(n)))
            return dict(raw=lead + b'"' + txt + b'"' + trail, kind='quoted', s=txt, n='err')
        if r < 0.72:
            n = rng.choice([1, 1, 2, 3, 5, 8])
            txt = bytes(bytearray([rng.choice(bytearray(UNQ_FIRST))] +
                                  [rng.choice(bytearray(UNQ_REST)) for _ in range(n - 1)]))
            txt = txt.strip(b' ')
            return dict(raw=lead + txt + trail, kind='unquoted', s=txt, n='err')
        if r < 0.82:
            return dict(raw=rng.choice([b'', b'', b' ', b'  ']), kind='empty', s=b'', n=0)
        if r < 0.90:
            raw = rng.choice(NONNUM_FORMS)
            if b'"' in raw:
                # 12" : an unquoted item containing a quote is outside the statement for string READs
                return dict(raw=lead + raw + trail, kind='weird', s=None, n='err')
            return dict(raw=lead + raw + trail, kind='nonnum', s=raw, n='err')
        if r < 0.96:
            raw = rng.choice(QUIRK_FORMS)
            return dict(raw=lead + raw + trail, kind='quirk', s=raw, n='quirk')
        raw = rng.choice(WEIRD_FORMS)
        return dict(raw=lead + raw + trail, kind='weird', s=None, n=None)

    def data_stmt(self):
        rng = self.rng
        k = rng.choice([1, 1, 2, 2, 3, 4, 6])
        items = [self.item() for _ in range(k)]
        # an unterminated quote swallows the rest of the line: keep it last
        for i, it in enumerate(items[:-1]):
            if it['raw'].count(b'"') % 2:
                items[i] = dict(raw=b'Z', kind='unquoted', s=b'Z', n='err')
        if rng.random() < 0.15:
            # quoted string without closing quote: runs to the end of the line (blanks, commas, colons included),
            # so it is the last item of the last statement of its line
            n = rng.choice([0, 1, 1, 2, 3, 5, 9])
            txt = bytes(bytearray(rng.choice(bytearray(QUO_CHARS)) for _ in range(n)))
            items[-1] = dict(raw=self.blanks() + b'"' + txt, kind='openquote', s=txt, n='err')
        kw = rng.choice([b'DATA', b'DATA ', b'DATA  ', b'data '])
        if items[0]['raw'][:1] not in (b' ', b'"', b'') and not kw.endswith(b' '):
            kw += b' '      # DATA.5 / DATAX would be a variable name
        return kw + b','.join(it['raw'] for it in items), items

    def program(self):
        """Build one program.  Returns the replayable case dict."""
        rng = self.rng
        n_actions = rng.randint(4, 14)
        # ---- layout: list of lines, each a list of statement records
        lines = []          # [ [stmt, ...], ... ]   stmt = ('data', text, items) | ('fill', text) | ('act', idx) | ...
        acts_left = n_actions
        n_pre = rng.choice([0, 0, 1, 2])
        plan = []
        while acts_left > 0 or len(plan) < 3:
            stmts, killed = [], False
            for _ in range(rng.choice([1, 1, 2, 2, 3, 4])):
                r = rng.random()
                if len(plan) < n_pre:
                    r = r * 0.6     # leading lines without actions: DATA before the READs
                if r < 0.35:
                    t, its = self.data_stmt()
                    stmts.append(['data', t, its])
                    if t.count(b'"') % 2:
                        break
                elif r < 0.55:
                    stmts.append(['fill', rng.choice(FILLERS)])
                elif r < 0.62 and not killed:
                    stmts.append(['fill', rng.choice(KILLERS)])
                    killed = True
                elif not killed and acts_left > 0:
                    stmts.append(['act', None])
                    acts_left -= 1
                else:
                    stmts.append(['fill', rng.choice(FILLERS)])
            if stmts and rng.random() < 0.12:
                if stmts[-1][0] != 'data' and b'DATA' not in (stmts[-1][1] or b''):
                    stmts.append(['rem', rng.choice(REM_TAILS)])
                elif stmts[-1][0] != 'data':
                    stmts.append(['rem', rng.choice([t for t in REM_TAILS if t.startswith(b'REM')])])
                elif not stmts[-1][1].count(b'"') % 2:
                    # after DATA an apostrophe is data text, only :REM starts a comment
                    stmts.append(['rem', rng.choice([t for t in REM_TAILS if t.startswith(b'REM')])])
            if stmts:
                plan.append(stmts)
        main_len = len(plan)
        # trailing lines after END and the handler: DATA after the READs
        for _ in range(rng.choice([0, 0, 1, 2, 3])):
            stmts = []
            for _ in range(rng.choice([1, 1, 2])):
                if rng.random() < 0.7:
                    t, its = self.data_stmt()
                    stmts.append(['data', t, its])
                    if t.count(b'"') % 2:
                        break
                else:
                    stmts.append(['fill', rng.choice(FILLERS)])
            plan.append(stmts)
        # ---- line numbers
        nums, cur = [], rng.choice([1, 5, 10, 10, 100, 1000])
        total = 1 + len(plan) + 2
        for _ in range(total):
            nums.append(cur)
            cur += rng.choice([1, 1, 2, 5, 10, 10, 10, 37, 100])
        first_no = nums[0]
        body_nos = nums[1:1 + main_len]
        end_no, handler_no = nums[1 + main_len], nums[2 + main_len]
        tail_nos = nums[3 + main_len:]
        line_nos = body_nos + tail_nos
        all_nos = sorted(nums)
        # ---- flattened item list (the oracle's knowledge): (item, line number)
        flat = []
        for no, stmts in zip(line_nos, plan):
            for st in stmts:
                if st[0] == 'data':
                    for it in st[2]:
                        flat.append((it, no))
        # ---- actions, generated while simulating the oracle pointer
        ops, idx, tracked, k, varno = [], 0, True, 0, 0
        text_lines = []
        for no, stmts in zip(line_nos, plan):
            parts = []
            for st in stmts:
                if st[0] == 'rem':
                    parts.append(st[1])
                elif st[0] != 'act':
                    parts.append(st[1])
                else:
                    k += 1
                    r = rng.random()
                    if r < 0.12:
                        ops.append(dict(k=k, line=no, kind='restore', tracked=tracked, err=None))
                        parts.append(b'K%%=%d:RESTORE' % k)
                        idx = 0
                    elif r < 0.30:
                        rr = rng.random()
                        if rr < 0.7:
                            target = rng.choice(all_nos)
                        elif rr < 0.85:
                            target = rng.choice(all_nos) + rng.choice([1, 3])
                        else:
                            target = rng.choice([0, all_nos[-1] + 10, 65529])
                        if target in all_nos:
                            err = None
                            idx = len([1 for _it, ln in flat if ln < target])
                        else:
                            err = [8, no]
                        ops.append(dict(k=k, line=no, kind='restoreline', target=target, tracked=tracked, err=err))
                        parts.append(b'K%%=%d:RESTORE %d' % (k, target))
                    else:
                        nv = rng.choice([1, 1, 1, 2, 2, 3, 4])
                        vs, expect, err, init, refused = [], [], None, [], None
                        op_tracked = tracked
                        for _ in range(nv):
                            varno += 1
                            it = flat[idx][0] if idx < len(flat) else None
                            want_str = rng.random() < 0.5
                            if it is not None and err is None and tracked:
                                # mostly compatible, sometimes a numeric variable on a string item
                                if it['n'] in ('err', None, 'quirk') and rng.random() < 0.8:
                                    want_str = True
                                if it['kind'] == 'num' and rng.random() < 0.7:
                                    want_str = False
                            if want_str:
                                name = b'V%d$' % varno
                                init.append(name + b'="%s"' % SENT_S)
                            else:
                                sig = rng.choice([b'#', b'#', b'!', b'%'])
                                if (it is not None and isinstance(it['n'], int) and not -32768 <= it['n'] <= 32767
                                        and rng.random() < 0.5):
                                    # an integer variable on an item that does not fit: Overflow at the READ
                                    # statement, and the item stays the next one to be read
                                    sig = b'%'
                                if sig == b'%' and not (it is not None and isinstance(it['n'], int)):
                                    sig = b'#'
                                if sig == b'%' and (err is not None or not tracked):
                                    sig = b'#'
                                name = b'V%d' % varno + sig
                                init.append(name + b'=%d' % SENT_N)
                            vs.append(l1(name))
                            if err is not None or not tracked:
                                continue
                            if it is None:
                                err = [4, no]
                            elif want_str:
                                if it['s'] is None:
                                    tracked = False      # the statement does not define this item: stop the oracle here
                                else:
                                    expect.append([l1(name), 's', l1(it['s'])])
                                    idx += 1
                            else:
                                if it['n'] == 'err':
                                    err = [2, flat[idx][1]]
                                elif it['n'] in ('quirk', None):
                                    tracked = False
                                elif sig == b'%' and not -32768 <= it['n'] <= 32767:
                                    err = [6, no]
                                    refused = len(vs) - 1
                                else:
                                    expect.append([l1(name), 'n', it['n']])
                                    idx += 1
                        ops.append(dict(k=k, line=no, kind='read', vars=vs, tracked=op_tracked,
                                        expect=expect, err=err, complete=tracked, refused=refused))
                        parts.append(b':'.join([b'K%%=%d' % k] + init + [b'READ ' + b','.join(b1(v) for v in vs)]))
            text_lines.append((no, parts))
        prog = [b'%d ON ERROR GOTO %d:DIM ER%%(%d),EL!(%d)' % (first_no, handler_no, k + 1, k + 1)]
        for i, (no, parts) in enumerate(text_lines):
            if i == main_len:
                prog.append(b'%d DONE%%=1:END' % end_no)
                prog.append(b'%d ' % handler_no + HANDLER_TXT)
            # a REM tail written with ' needs no colon; everything else is colon-separated
            txt = b''
            for j, p in enumerate(parts):
                if j and not p.startswith(b"'"):
                    txt += rng.choice([b':', b':', b' :', b': ', b' : '])
                elif j:
                    txt += b' '
                txt += p
            prog.append(b'%d %s' % (no, txt))
        if main_len == len(text_lines):
            prog.append(b'%d DONE%%=1:END' % end_no)
            prog.append(b'%d ' % handler_no + HANDLER_TXT)
        return dict(lines=[l1(p) for p in prog], ops=ops, nops=k,
                    items=[[l1(it['raw']), it['kind'], ln] for it, ln in flat])


# ---------------------------------------------------------------------------------------------
# implementation adapter

class Runner(object):
    def __init__(self):
        self.session = None
        self.uses = 0
        from pcbasic.basic.values import values
        self.values = values
        self.vs = values.Values(None, False)
        self.vs.set_handler(values.FloatErrorHandler(None))

    def get(self):
        if self.session is None or self.uses > 150:
            if self.session is not None:
                self.session.close()
            self.session = basic.new_session()
            self.uses = 0
        self.uses += 1
        return self.session

    def close(self):
        if self.session is not None:
            self.session.close()
            self.session = None

    def run(self, case):
        """Enter and RUN the program in a real Session.  Returns dict(ops=[observed...], code, table, trouble)."""
        s = self.get()
        trouble = []
        out = basic.safe_exec(s, b'NEW')
        for ln in case['lines']:
            out = basic.safe_exec(s, b1(ln))
            if out.strip():
                trouble.append('entering %r printed %r' % (ln, out))
        out = basic.safe_exec(s, b'RUN')
        if out.strip():
            trouble.append('RUN printed %r' % out)
        try:
            done = s.get_variable('DONE%')
            er = s.get_variable('ER%(')
            el = s.get_variable('EL!(')
        except Exception as e:      # noqa
            trouble.append('get_variable: %r' % e)
            done, er, el = 0, [], []
        if done != 1:
            trouble.append('program did not reach END')
        obs = []
        for op in case['ops']:
            k = op['k']
            e = [er[k], int(el[k])] if k < len(er) and er[k] else None
            o = dict(err=e)
            if op['kind'] == 'read':
                vals = []
                for v in op['vars']:
                    try:
                        x = s.get_variable(v)
                    except Exception as ex:     # noqa
                        x = 'EXC %r' % ex
                    if v.endswith('$'):
                        vals.append(None if x == SENT_S else l1(x) if isinstance(x, bytes) else x)
                    else:
                        vals.append(None if x == SENT_N else x)
                o['vals'] = vals
            obs.append(o)
        prog = s._impl.program
        code = bytes(prog.bytecode.getvalue())
        table = dict(prog.line_numbers)
        return dict(ops=obs, code=code, table=table, trouble=trouble)

    def convert(self, word, sigil):
        """The model's literal text -> the value the variable holds (the implementation's own conversion)."""
        try:
            v = self.vs.from_repr(word, allow_nonnum=False)
            v = self.values.to_type(sigil.encode(), v)
            return v.to_value()
        except Exception as e:      # noqa
            return 'EXC %s' % type(e).__name__


def canon_num(x):
    if isinstance(x, str):
        return x
    return repr(float(x))


def impl_string(case, res):
    parts = []
    for op, o in zip(case['ops'], res['ops']):
        if op['kind'] != 'read':
            parts.append('ok' if o['err'] is None else '!%d@%d' % tuple(o['err']))
            continue
        vs = []
        for name, x in zip(op['vars'], o['vals']):
            if x is None:
                break
            vs.append('s' + (b1(x).hex() or '-') if name.endswith('$') else 'v' + canon_num(x))
        parts.append(','.join(vs) + ('!%d@%d' % tuple(o['err']) if o['err'] else ''))
    return 'ok ' + ';'.join(parts)


def model_line(case, res):
    ops = []
    for op in case['ops']:
        if op['kind'] == 'restore':
            ops.append('r')
        elif op['kind'] == 'restoreline':
            ops.append('R%d' % op['target'])
        else:
            # 'o': a numeric variable whose assignment the store refuses with Overflow (the generator put an integer
            # variable on an integer item outside -32768..32767); the model takes the refusal as a parameter
            ops.append('d' + ''.join('s' if v.endswith('$') else 'o' if j == op.get('refused') else 'n'
                                     for j, v in enumerate(op['vars'])))
    tbl = ','.join('%d:%d' % kv for kv in sorted(res['table'].items())) or '-'
    return 'run %s %s %s' % (res['code'].hex() or '-', tbl, ';'.join(ops))


def model_string(runner, case, reply):
    """Bring the model's reply to the implementation's canonical form: 'here' -> the statement's own line,
    literal text -> value through the implementation's from_repr."""
    if not reply.startswith('ok '):
        return reply
    outs = reply[3:].split(';')
    if len(outs) != len(case['ops']):
        return reply
    parts = []
    for op, r in zip(case['ops'], outs):
        body, _, err = r.partition('!')
        if err:
            n, _, at = err.partition('@')
            err = '!%s@%s' % (n, op['line'] if at == 'here' else at)
        if op['kind'] != 'read':
            parts.append(body + err)
            continue
        vs = []
        for name, tok in zip(op['vars'], [t for t in body.split(',') if t]):
            if tok[0] == 'n':
                word = b'' if tok[1:] == '-' else bytes.fromhex(tok[1:])
                vs.append('v' + canon_num(runner.convert(word, name[-1])))
            else:
                vs.append(tok)
        parts.append(','.join(vs) + err)
    return 'ok ' + ';'.join(parts)


# ---------------------------------------------------------------------------------------------
# independent oracle: the generator's own list of items

def check_table(res):
    """The stated assumption on program.line_numbers."""
    code, bad = res['code'], []
    for ln, off in res['table'].items():
        if ln == 65536:
            continue
        if not (code[off:off + 1] == b'\0' and code[off + 3:off + 5] == bytes(bytearray([ln % 256, ln // 256]))):
            bad.append(ln)
    return bad


def oracle(case, res):
    """-> list of (key, what).  Expectations were fixed by the generator from what it emitted."""
    fails = []
    if res['trouble']:
        fails.append(('program-trouble', '; '.join(res['trouble'])[:400]))
    for op, o in zip(case['ops'], res['ops']):
        if not op['tracked']:
            break
        where = 'statement %d (line %d, %s)' % (op['k'], op['line'], op['kind'])
        if op['kind'] != 'read':
            if o['err'] != op['err']:
                fails.append(('restore-err', '%s: expected ERR/ERL %s, got %s' % (where, op['err'], o['err'])))
            continue
        got = dict(zip(op['vars'], o['vals']))
        for name, typ, want in op['expect']:
            x = got.get(name)
            if typ == 's':
                if x != want:
                    fails.append(('read-string-value', '%s: %s should hold %r, holds %r' % (where, name, want, x)))
            else:
                if x is None or isinstance(x, str) or float(x) != float(want):
                    fails.append(('read-number-value', '%s: %s should hold %r, holds %r' % (where, name, want, x)))
        if not op['complete']:
            break
        if op['err'] is None:
            if o['err'] is not None:
                fails.append(('unexpected-error-%d' % o['err'][0], '%s: unexpected ERR/ERL %s' % (where, o['err'])))
        elif o['err'] is None:
            fails.append(('missing-error-%d' % op['err'][0], '%s: expected ERR/ERL %s, none raised' % (where, op['err'])))
        elif o['err'][0] != op['err'][0]:
            fails.append(('wrong-error-%d-for-%d' % (o['err'][0], op['err'][0]),
                          '%s: expected ERR/ERL %s, got %s' % (where, op['err'], o['err'])))
        elif o['err'][1] != op['err'][1]:
            name = {2: 'syntax-error-erl-not-data-line', 4: 'out-of-data-erl'}.get(op['err'][0], 'erl')
            fails.append((name, '%s: expected ERR/ERL %s, got %s' % (where, op['err'], o['err'])))
        if op['err'] is not None and op['err'][0] in (2, 4, 6):
            # variables after the failing one stay untouched
            n_ok = len(op['expect'])
            for name in op['vars'][n_ok + 1:]:
                if got.get(name) is not None:
                    fails.append(('assigned-after-error', '%s: %s was assigned after the failing item' % (where, name)))
    return fails


# ---------------------------------------------------------------------------------------------

def fixed_cases():
    """Hand-written layouts (boundary cases of the statement), in the same case format."""
    def case(lines, ops, items=()):
        return dict(lines=lines, ops=ops, nops=len(ops), items=list(items))
    H = '9000 ' + l1(HANDLER_TXT)
    S, N = l1(SENT_S), SENT_N

    def rd(k, line, vars_, expect, err=None):
        return dict(k=k, line=line, kind='read', vars=vars_, tracked=True, expect=expect, err=err, complete=True)
    def f(t):
        return t.replace('{N}', str(N)).replace('{S}', S)
    out = []
    out.append(case(
        [f(t) for t in ['1 ON ERROR GOTO 9000:DIM ER%(9),EL!(9)', '10 DATA 1', '20 DATA abc',
                        '30 K%=1:A#={N}:READ A#', '40 K%=2:B#={N}:READ B#', '50 K%=3:C$="{S}":READ C$',
                        '60 K%=4:D$="{S}":READ D$', '100 DONE%=1:END', H]],
        [rd(1, 30, ['A#'], [['A#', 'n', 1]]), rd(2, 40, ['B#'], [], [2, 20]),
         rd(3, 50, ['C$'], [['C$', 's', 'abc']]), rd(4, 60, ['D$'], [], [4, 60])]))
    out.append(case(
        [f(t) for t in ['1 ON ERROR GOTO 9000:DIM ER%(9),EL!(9)', '10 DATA "x"', '30 K%=1:A#={N}:READ A#',
                        '40 K%=2:RESTORE 10:K%=3:B$="{S}":READ B$', '100 DONE%=1:END', H]],
        [rd(1, 30, ['A#'], [], [2, 10]), dict(k=2, line=40, kind='restoreline', target=10, tracked=True, err=None),
         rd(3, 40, ['B$'], [['B$', 's', 'x']])]))
    out.append(case(
        [f(t) for t in ['1 ON ERROR GOTO 9000:DIM ER%(9),EL!(9)', '10 Q$="\x8f":DATA 5,"a,:b" , c d  ,',
                        '20 X=58:DATA 6',
                        '30 K%=1:A#={N}:B$="{S}":C$="{S}":D#={N}:READ A#,B$,C$,D#',
                        '40 K%=2:RESTORE 20:K%=3:E#={N}:READ E#', '50 K%=4:RESTORE 15', '60 K%=5:F#={N}:READ F#',
                        '100 DONE%=1:END', H]],
        [rd(1, 30, ['A#', 'B$', 'C$', 'D#'], [['A#', 'n', 5], ['B$', 's', 'a,:b'], ['C$', 's', 'c d'], ['D#', 'n', 0]]),
         dict(k=2, line=40, kind='restoreline', target=20, tracked=True, err=None),
         rd(3, 40, ['E#'], [['E#', 'n', 6]]),
         dict(k=4, line=50, kind='restoreline', target=15, tracked=True, err=[8, 50]),
         rd(5, 60, ['F#'], [], [4, 60])]))
    out.append(case(
        [f(t) for t in ['1 ON ERROR GOTO 9000:DIM ER%(9),EL!(9)', '10 DATA 1, "alpha" , "be,ta"  :X=58', '20 DATA "gamma: x ',
                        '30 Q$="not data": DATA 2,  "d', '40 DATA "", "',
                        '50 K%=1:A#={N}:B$="{S}":C$="{S}":D$="{S}":READ A#,B$,C$,D$',
                        '60 K%=2:E#={N}:F$="{S}":G$="{S}":H$="{S}":READ E#,F$,G$,H$',
                        '70 K%=3:RESTORE 20:K%=4:I$="{S}":J#={N}:READ I$,J#:K%=5:RESTORE 30:K%=6:L#={N}:M#={N}:READ L#,M#',
                        '100 DONE%=1:END', H]],
        [rd(1, 50, ['A#', 'B$', 'C$', 'D$'], [['A#', 'n', 1], ['B$', 's', 'alpha'], ['C$', 's', 'be,ta'],
                                              ['D$', 's', 'gamma: x ']]),
         rd(2, 60, ['E#', 'F$', 'G$', 'H$'], [['E#', 'n', 2], ['F$', 's', 'd'], ['G$', 's', ''], ['H$', 's', '']]),
         dict(k=3, line=70, kind='restoreline', target=20, tracked=True, err=None),
         rd(4, 70, ['I$', 'J#'], [['I$', 's', 'gamma: x '], ['J#', 'n', 2]]),
         dict(k=5, line=70, kind='restoreline', target=30, tracked=True, err=None),
         rd(6, 70, ['L#', 'M#'], [['L#', 'n', 2]], [2, 30])]))
    return out


def run_case(ctx, runner, case, batch):
    res = runner.run(case)
    ctx.case(json.dumps(case['lines']))
    bad = check_table(res)
    if bad:
        ctx.fail('line-table-invariant', case, 'program.line_numbers does not point at the lines %s' % bad)
    for key, what in oracle(case, res):
        ctx.fail(key, case, what)
    batch.append((case, impl_string(case, res), model_line(case, res)))
    # distribution
    for it in case['items']:
        ctx.count('item:' + it[1])
    for op, o in zip(case['ops'], res['ops']):
        ctx.count('op:' + op['kind'])
        if o['err']:
            ctx.count('err:%d' % o['err'][0])
        if op['kind'] == 'read':
            ctx.count('read-vars:%d' % len(op['vars']))
            if not op['tracked']:
                ctx.count('read-untracked')
    return res


# ---------------------------------------------------------------------------------------------
# READ into array elements whose subscripts depend on variables read earlier in the SAME statement.
# Reference semantics (from the statement: items are delivered to the variables in order): strictly left to
# right, the subscripts of a target are evaluated just before its item is assigned.

ARR_DIMS = {'A#': [12], 'B$': [12], 'IX%': [12], 'C#': [5, 5]}
ARR_SCALARS = ['N%', 'J%', 'K%', 'X#', 'S$']
ARR_STALE = {'N%': 9, 'J%': 10, 'K%': 11, 'X#': -7777.0, 'S$': '~#~'}
# every item is a small integer 0..8 in some literal form: usable as subscript, as number and as text
ARR_ITEM_FORMS = [lambda v: b'%d' % v, lambda v: b' %d ' % v, lambda v: b'&H%X' % v, lambda v: b'%d.0' % v,
                  lambda v: b'+%d' % v, lambda v: b'0%d' % v, lambda v: b'&O%o' % v, lambda v: b'%dE0' % v,
                  lambda v: b'  %d' % v, lambda v: b'%d#' % v]


def expr_text(e):
    k = e[0]
    if k == 'const':
        return '%d' % e[1]
    if k == 'var':
        return e[1]
    if k == 'add':
        return '%s+%d' % (expr_text(e[1]), e[2])
    if k == 'mod':
        return '(%s) MOD %d' % (expr_text(e[1]), e[2])
    if k == 'elem':
        return '%s(%s)' % (e[1], expr_text(e[2]))
    raise ValueError(e)


def expr_eval(e, store):
    k = e[0]
    if k == 'const':
        return e[1]
    if k == 'var':
        return int(store[e[1]])
    if k == 'add':
        return expr_eval(e[1], store) + e[2]
    if k == 'mod':
        return expr_eval(e[1], store) % e[2]
    if k == 'elem':
        return int(store[e[1]][expr_eval(e[2], store)])
    raise ValueError(e)


def target_text(t):
    return t['name'] if not t.get('subs') else '%s(%s)' % (t['name'], ','.join(expr_text(e) for e in t['subs']))


def arr_initial_store():
    st = dict(ARR_STALE)
    st['A#'] = [-7777.0] * 13
    st['B$'] = ['~#~'] * 13
    st['IX%'] = [12] * 13
    st['C#'] = [[-7777.0] * 6 for _ in range(6)]
    return st


def arr_assign(store, t, value):
    """One assignment of the reference semantics: subscripts evaluated NOW, in the current store."""
    name = t['name']
    if name.endswith('$'):
        v = value
    elif name.endswith('%'):
        v = int(value)
    else:
        v = float(value)
    if not t.get('subs'):
        store[name] = v
        return
    idx = [expr_eval(e, store) for e in t['subs']]
    cell = store[name]
    for i in idx[:-1]:
        cell = cell[i]
    cell[idx[-1]] = v


def arr_simulate(case, values_of):
    """Run the READ/RESTORE statements of an array case over a store.  values_of(op_index, k) -> the value the
    k-th target of that statement receives ((numeric, text) pair) or None when there is no further item."""
    store = arr_initial_store()
    errs = []
    for oi, op in enumerate(case['ops']):
        err = None
        if op['kind'] == 'read':
            for k, t in enumerate(op['targets']):
                val = values_of(oi, k)
                if val is None:
                    err = [4, op['line']]
                    break
                arr_assign(store, t, val[1] if t['name'].endswith('$') else val[0])
        elif op.get('err'):
            err = op['err']
        errs.append(err)
    return store, errs


def store_string(store, errs):
    def num(x):
        return repr(float(x))
    parts = []
    for n in ARR_SCALARS:
        parts.append('%s=%s' % (n, store[n] if n.endswith('$') else num(store[n])))
    for n in ('A#', 'IX%'):
        parts.append('%s=%s' % (n, ','.join(num(x) for x in store[n])))
    parts.append('B$=%s' % '|'.join(store['B$']))
    parts.append('C#=%s' % ';'.join(','.join(num(x) for x in row) for row in store['C#']))
    parts.append('err=%s' % ';'.join('-' if e is None else '%d@%d' % tuple(e) for e in errs))
    return ' '.join(parts)


class ArrGen(object):
    def __init__(self, rng):
        self.rng = rng

    def expr(self, earlier, depth=0):
        """subscript expression, preferably over a scalar read earlier in the same statement"""
        rng = self.rng
        pool = earlier if earlier and rng.random() < 0.85 else ['N%', 'J%', 'K%']
        e = ['var', rng.choice(pool)]
        r = rng.random()
        if r < 0.30:
            e = ['add', e, 1]          # stale scalars are <= 12-... see bounds below
        elif r < 0.45 and depth == 0:
            e = ['elem', 'IX%', e]
        elif r < 0.50:
            e = ['const', rng.randint(0, 12)]
        return e

    def target(self, earlier, earlier_ix):
        rng = self.rng
        r = rng.random()
        if r < 0.30:
            return dict(name=rng.choice(ARR_SCALARS))
        arr = rng.choice(['A#', 'A#', 'B$', 'IX%', 'C#'])
        if arr == 'C#':
            return dict(name=arr, subs=[['mod', self.expr(earlier, 1), 6], ['mod', self.expr(earlier, 1), 6]])
        e = self.expr(earlier)
        if e[0] == 'add' and arr != 'A#':
            pass
        return dict(name=arr, subs=[e])

    def program(self):
        rng = self.rng
        n_lines = rng.randint(6, 12)
        nums, cur = [], rng.choice([10, 100])
        for _ in range(n_lines + 4):
            nums.append(cur)
            cur += rng.choice([1, 5, 10])
        setup1, setup2, body_nos, end_no, handler_no = nums[0], nums[1], nums[2:2 + n_lines], nums[-2], nums[-1]
        # flat items
        flat, lines, ops, k = [], [], [], 0
        plan = []
        for no in body_nos:
            plan.append('data' if rng.random() < 0.45 else 'act')
        if 'data' not in plan:
            plan[0] = 'data'
        if plan.count('act') < 2:
            plan[-1] = plan[-2] = 'act'
            plan[0] = 'data'
        data_nos = [no for no, p in zip(body_nos, plan) if p == 'data']
        texts = {}
        for no in data_nos:
            its = []
            for _ in range(rng.choice([2, 3, 4, 6])):
                v = rng.randint(0, 8)
                raw = rng.choice(ARR_ITEM_FORMS)(v)
                its.append(raw)
                flat.append((v, raw.strip(b' '), no))
            texts[no] = b'DATA ' + b','.join(its)
        idx = 0
        for no, p in zip(body_nos, plan):
            if p == 'data':
                # sometimes a READ shares the line with the DATA statement
                lines.append((no, [texts[no]]))
                continue
            parts = []
            for _ in range(rng.choice([1, 1, 2])):
                k += 1
                r = rng.random()
                if r < 0.12:
                    ops.append(dict(k=k, line=no, kind='restore', err=None))
                    parts.append(b'K9%%=%d:RESTORE' % k)
                elif r < 0.28:
                    target = rng.choice(data_nos + body_nos)
                    ops.append(dict(k=k, line=no, kind='restoreline', target=target, err=None))
                    parts.append(b'K9%%=%d:RESTORE %d' % (k, target))
                else:
                    targets, earlier = [], []
                    for j in range(rng.choice([2, 2, 3, 3, 4])):
                        if j == 0 and rng.random() < 0.8:
                            t = dict(name=rng.choice(['N%', 'J%', 'K%']))
                        else:
                            t = self.target(earlier, None)
                        targets.append(t)
                        if t['name'] in ('N%', 'J%', 'K%') and not t.get('subs'):
                            earlier.append(t['name'])
                    ops.append(dict(k=k, line=no, kind='read', targets=targets,
                                    vars=[target_text(t) for t in targets]))
                    parts.append(b'K9%%=%d:READ ' % k + b','.join(b1(target_text(t)) for t in targets))
            lines.append((no, parts))
        prog = [b'%d ON ERROR GOTO %d:DIM A#(12),B$(12),IX%%(12),C#(5,5),ER%%(%d),EL!(%d)'
                % (setup1, handler_no, k + 1, k + 1),
                b'%d FOR I%%=0 TO 12:A#(I%%)=-7777:B$(I%%)="~#~":IX%%(I%%)=12:NEXT:'
                b'FOR I%%=0 TO 5:FOR I2%%=0 TO 5:C#(I%%,I2%%)=-7777:NEXT:NEXT:N%%=9:J%%=10:K%%=11:X#=-7777:S$="~#~"'
                % setup2]
        for no, parts in lines:
            prog.append(b'%d ' % no + b':'.join(parts))
        prog.append(b'%d DONE%%=1:END' % end_no)
        prog.append(b'%d ER%%(K9%%)=ERR:EL!(K9%%)=ERL:RESUME NEXT' % handler_no)
        return dict(kind='array', lines=[l1(x) for x in prog], ops=ops,
                    flat=[[v, l1(t), no] for v, t, no in flat], data_lines=sorted(set(data_nos)),
                    all_lines=sorted(nums[:2] + body_nos + [end_no, handler_no]))


def arr_oracle_values(case):
    """value source from the generator's own item list, with the RESTORE targets it chose"""
    flat = case['flat']
    state = {'idx': 0, 'op': -1}

    def prepare(oi):
        # apply the RESTOREs between the previous consulted op and this one
        for j in range(state['op'] + 1, oi + 1):
            op = case['ops'][j]
            if op['kind'] == 'restore':
                state['idx'] = 0
            elif op['kind'] == 'restoreline':
                state['idx'] = len([1 for it in flat if it[2] < op['target']])
        state['op'] = oi

    def values_of(oi, k):
        prepare(oi)
        if state['idx'] >= len(flat):
            return None
        v, t, _ = flat[state['idx']]
        state['idx'] += 1
        return (v, t)
    return values_of, prepare


def arr_observe(runner, case):
    s = runner.get()
    trouble = []
    basic.safe_exec(s, b'NEW')
    for ln in case['lines']:
        out = basic.safe_exec(s, b1(ln))
        if out.strip():
            trouble.append('entering %r printed %r' % (ln, out))
    out = basic.safe_exec(s, b'RUN')
    if out.strip():
        trouble.append('RUN printed %r' % out)
    store = {}
    try:
        for n in ARR_SCALARS:
            x = s.get_variable(n)
            store[n] = l1(x) if isinstance(x, bytes) else x
        store['A#'] = list(s.get_variable('A#('))
        store['IX%'] = list(s.get_variable('IX%('))
        store['B$'] = [l1(x) for x in s.get_variable('B$(')]
        store['C#'] = [list(r) for r in s.get_variable('C#(')]
        er, el = s.get_variable('ER%('), s.get_variable('EL!(')
        if s.get_variable('DONE%') != 1:
            trouble.append('program did not reach END')
    except Exception as e:      # noqa
        trouble.append('get_variable: %r' % e)
        return None, None, trouble, None
    errs = []
    for op in case['ops']:
        k = op['k']
        errs.append([er[k], int(el[k])] if k < len(er) and er[k] else None)
    prog = s._impl.program
    res = dict(code=bytes(prog.bytecode.getvalue()), table=dict(prog.line_numbers))
    return store, errs, trouble, res


def arr_model_line(case, res):
    ops = []
    for op in case['ops']:
        if op['kind'] == 'restore':
            ops.append('r')
        elif op['kind'] == 'restoreline':
            ops.append('R%d' % op['target'])
        else:
            ops.append('d' + ''.join('s' if t['name'].endswith('$') else 'n' for t in op['targets']))
    tbl = ','.join('%d:%d' % kv for kv in sorted(res['table'].items())) or '-'
    return 'run %s %s %s' % (res['code'].hex() or '-', tbl, ';'.join(ops))


def arr_model_string(runner, case, reply):
    """final store predicted from the MODEL's item values under the left-to-right assignment rule"""
    if not reply.startswith('ok '):
        return reply
    outs = reply[3:].split(';')
    vals = []
    for op, r in zip(case['ops'], outs):
        body = r.partition('!')[0]
        row = []
        for t, tok in zip(op.get('targets', []), [x for x in body.split(',') if x]):
            raw = b'' if tok[1:] == '-' else bytes.fromhex(tok[1:])
            if tok[0] == 'n':
                row.append((runner.convert(raw, t['name'].rstrip('(')[-1] if not t['name'].endswith('$') else '#'), None))
            else:
                row.append((None, l1(raw)))
        vals.append(row)

    def values_of(oi, k):
        return vals[oi][k] if k < len(vals[oi]) else None
    try:
        store, errs = arr_simulate(case, values_of)
    except Exception as e:      # noqa
        return 'model-simulation failed: %r' % e
    return store_string(store, errs)


def arr_evaluate(case, store, errs, trouble):
    """independent oracle for an array case -> list of (key, what)"""
    fails = []
    if trouble:
        fails.append(('array-program-trouble', '; '.join(trouble)[:400]))
    if store is None:
        return fails
    values_of, prepare = arr_oracle_values(case)
    try:
        exp_store, exp_errs = arr_simulate(case, values_of)
    except Exception as e:      # noqa
        return fails + [('array-oracle-error', repr(e))]
    for n in ARR_SCALARS + ['A#', 'B$', 'IX%', 'C#']:
        if store[n] != exp_store[n]:
            fails.append(('read-array-target-order' if n in ARR_DIMS else 'read-scalar-in-array-statement',
                          '%s should be %r after the program, is %r (targets are assigned strictly left to right, '
                          'subscripts evaluated when their item is assigned)' % (n, exp_store[n], store[n]))
                         )
    if errs != exp_errs:
        fails.append(('array-read-errors', 'expected ERR/ERL per statement %s, got %s' % (exp_errs, errs)))
    return fails


def run_array_case(ctx, runner, case, batch):
    store, errs, trouble, res = arr_observe(runner, case)
    ctx.case(json.dumps(case['lines']))
    ctx.count('array-program')
    for key, what in arr_evaluate(case, store, errs, trouble):
        ctx.fail(key, case, what)
    for op in case['ops']:
        ctx.count('array-op:' + op['kind'])
        if op['kind'] == 'read':
            names = set()
            for t in op['targets']:
                if t.get('subs') and any(n in json.dumps(t['subs']) for n in names):
                    ctx.count('array-target-depends-on-earlier')
                if not t.get('subs'):
                    names.add(t['name'])
    if store is not None and res is not None:
        batch.append((case, store_string(store, errs), arr_model_line(case, res)))


def flush(ctx, runner, batch):
    if not batch:
        return
    replies = ctx.model([b[2] for b in batch])
    if replies is not None:
        for (case, impl, line), rep in zip(batch, replies):
            m = (arr_model_string if case.get('kind') == 'array' else model_string)(runner, case, rep)
            if m != impl:
                ctx.disagree({'label': 'program', 'input': case['lines'], 'line': line[:300]}, impl, m)
    del batch[:]


def run(ctx):
    runner = Runner()
    gen = Gen(ctx.rng)
    batch = []
    try:
        for case in fixed_cases():
            ctx.count('fixed-case')
            res = run_case(ctx, runner, case, batch)
            ctx.sample({'lines': case['lines'], 'observed': impl_string(case, res)})
        n = 700 if ctx.quick else 12000
        for i in range(n):
            case = gen.program()
            res = run_case(ctx, runner, case, batch)
            if i < 3:
                ctx.sample({'lines': case['lines'], 'observed': impl_string(case, res)})
            if len(batch) >= 200:
                flush(ctx, runner, batch)
        flush(ctx, runner, batch)
        agen = ArrGen(ctx.rng)
        for i in range(120 if ctx.quick else 3000):
            case = agen.program()
            run_array_case(ctx, runner, case, batch)
            if i < 2:
                ctx.sample({'lines': case['lines']})
            if len(batch) >= 200:
                flush(ctx, runner, batch)
        flush(ctx, runner, batch)
    finally:
        runner.close()


def replay(ctx, payload):
    case = payload.get('case', {})
    if 'lines' not in case:
        return None
    runner = Runner()
    if case.get('kind') == 'array':
        try:
            store, errs, trouble, _res = arr_observe(runner, case)
            fails = arr_evaluate(case, store, errs, trouble)
        finally:
            runner.close()
        hits = [w for k, w in fails if k == payload.get('key')]
        return hits[0] if hits else (fails[0][1] if fails else None)
    try:
        res = runner.run(case)
        fails = oracle(case, res)
        if check_table(res):
            fails.append(('line-table-invariant', 'line table broken'))
    finally:
        runner.close()
    hits = [w for k, w in fails if k == payload.get('key')]
    return hits[0] if hits else (fails[0][1] if fails else None)
