import PcbV.Model.MiniBasic
/-
  Lemmas about `PcbV.Model.MiniBasic` used by the property theorems of C19 (and reusable by the
  properties that build on the same model): scan-ahead facts, GOSUB-stack invariance of every statement,
  the simulation between the structured reference semantics and the mechanism, FOR pass counting.
-/
namespace PcbV.MiniBasic
open PcbV PcbV.Gen

/-! ### scans that find nothing -/

theorem scanNext_none_of_no_next : ∀ (l : List Stmt) (i k : Nat),
    (∀ st ∈ l, ∀ vs, st ≠ .next vs) → scanNext l i k = none
  | [], _, _, _ => rfl
  | st :: rest, i, k, h => by
    have hr : ∀ st ∈ rest, ∀ vs, st ≠ .next vs := fun x hx => h x (List.mem_cons_of_mem _ hx)
    have h0 := h st (List.mem_cons_self ..)
    cases st <;> simp only [scanNext] <;> first
      | exact scanNext_none_of_no_next rest _ _ hr
      | exact absurd rfl (h0 _)

theorem scanWend_none_of_no_wend : ∀ (l : List Stmt) (i k : Nat),
    (∀ st ∈ l, st ≠ .wend) → scanWend l i k = none
  | [], _, _, _ => rfl
  | st :: rest, i, k, h => by
    have hr : ∀ st ∈ rest, st ≠ .wend := fun x hx => h x (List.mem_cons_of_mem _ hx)
    have h0 := h st (List.mem_cons_self ..)
    cases st <;> simp only [scanWend] <;> first
      | exact scanWend_none_of_no_wend rest _ _ hr
      | exact absurd rfl h0

theorem findRec_none_of_no_match (pos : Nat × Nat) : ∀ (l : List ForRec),
    (∀ r ∈ l, r.nextpos ≠ pos) → findRec pos l = none
  | [], _ => rfl
  | r :: rs, h => by
    simp only [findRec, if_neg (h r (List.mem_cons_self ..))]
    exact findRec_none_of_no_match pos rs (fun x hx => h x (List.mem_cons_of_mem _ hx))

theorem popWhile_none_of_no_match (pos : Nat) : ∀ (l : List (Nat × Nat)),
    (∀ r ∈ l, r.2 ≠ pos) → popWhile pos l = none
  | [], _ => rfl
  | (wh, w) :: rs, h => by
    have : w ≠ pos := h (wh, w) (List.mem_cons_self ..)
    simp only [popWhile, if_neg this]
    exact popWhile_none_of_no_match pos rs (fun x hx => h x (List.mem_cons_of_mem _ hx))


/-! ### the GOSUB stack is touched only by GOSUB / ON … GOSUB / RETURN -/

theorem iterate_gosubs {s : St} {pos : Nat × Nat} {vn : Option Nat} {s' : St} {b : Bool}
    (h : iterate s pos vn = .ok (s', b)) : s'.gosubs = s.gosubs := by
  unfold iterate at h
  split at h
  · cases h
  · split at h
    · cases h
    · simp only at h
      split at h
      · cases h
      · split at h <;> (injection h with h; injection h with h1 h2; subst h1; rfl)

theorem nextVars_gosubs : ∀ (vs : List Nat) (s : St) (idx k : Nat) (s' : St),
    nextVars s idx k vs = .running s' → s'.gosubs = s.gosubs
  | [], s, idx, k, s', h => by
    simp only [nextVars] at h; injection h with h; subst h; rfl
  | v :: vs, s, idx, k, s', h => by
    simp only [nextVars] at h
    split at h
    · cases h
    · rename_i s1 h1
      injection h with h; subst h; exact iterate_gosubs h1
    · rename_i s1 h1
      rw [nextVars_gosubs vs s1 idx (k+1) s' h, iterate_gosubs h1]

theorem jumpTo_gosubs {code : List Instr} {s : St} {n : Nat} {s' : St}
    (h : jumpTo code s n = .running s') : s'.gosubs = s.gosubs := by
  unfold jumpTo at h; split at h
  · injection h with h; subst h; rfl
  · cases h

theorem jumpSub_gosubs {code : List Instr} {s : St} {n : Nat} {s' : St}
    (h : jumpSub code s n = .running s') : s'.gosubs = (s.pc + 1) :: s.gosubs := by
  unfold jumpSub at h; split at h
  · injection h with h; subst h; rfl
  · cases h

theorem forEnter_gosubs {fixed : Bool} {code : List Instr} {s : St} {v : Nat} {a b c : Int}
    {s' : St} (h : forEnter fixed code s v a b c = .running s') : s'.gosubs = s.gosubs := by
  unfold forEnter at h
  split at h
  · cases h
  · simp only at h
    generalize (if sign c ≥ 0 then decide (a > b) else decide (b > a)) = cond at h
    cases cond with
    | false =>
      simp only [Bool.false_eq_true, if_false] at h
      injection h with h; subst h; rfl
    | true =>
      simp only [if_true] at h
      split at h
      · cases h
      · rename_i h1; injection h with h; subst h; exact (iterate_gosubs h1).trans rfl
      · rename_i s2 h1
        have h2 := (iterate_gosubs h1).trans (rfl : _ = s.gosubs)
        split at h
        · rw [nextVars_gosubs _ _ _ _ _ h, h2]
        · split at h
          · cases h
          · injection h with h; subst h; exact h2

theorem execFor_gosubs {fixed : Bool} {code : List Instr} {s : St} {v : Nat} {a b : Expr} {c : Option Expr}
    {s' : St} (h : execFor fixed code s v a b c = .running s') : s'.gosubs = s.gosubs := by
  unfold execFor at h
  split at h; · cases h
  split at h; · cases h
  split at h; · cases h
  exact forEnter_gosubs h

/-- every statement leaves the GOSUB stack alone, pushes the position after itself, or pops the top
    entry and continues there -/
theorem step_gosubs {fixed : Bool} {code : List Instr} {s s' : St} (h : stepWith fixed code s = .running s') :
    s'.gosubs = s.gosubs ∨ s'.gosubs = (s.pc + 1) :: s.gosubs ∨ (s.gosubs = s'.pc :: s'.gosubs) := by
  unfold stepWith at h
  split at h
  · cases h
  · rename_i st hst
    cases st with
    | print e => simp only at h; injection h with h; subst h; exact .inl rfl
    | let_ v e => simp only at h; split at h <;> first | (injection h with h; subst h; exact .inl rfl) | cases h
    | for_ v a b c => exact .inl (execFor_gosubs h)
    | next vs =>
      simp only at h
      split at h
      · split at h
        · cases h
        · rename_i h1; injection h with h; subst h; exact .inl (iterate_gosubs h1)
        · rename_i h1; injection h with h; subst h; have h2 := iterate_gosubs h1; exact .inl h2
      · exact .inl (nextVars_gosubs _ _ _ _ _ h)
    | while_ c =>
      simp only at h
      split at h
      · cases h
      · split at h <;> (injection h with h; subst h; exact .inl rfl)
    | wend =>
      simp only at h
      split at h
      · cases h
      · split at h
        · split at h <;> (injection h with h; subst h; exact .inl rfl)
        · cases h
    | gosub n => exact .inr (.inl (jumpSub_gosubs h))
    | ret =>
      simp only at h
      split at h
      · cases h
      · rename_i r gs hg; injection h with h; subst h; exact .inr (.inr hg)
    | goto n => exact .inl (jumpTo_gosubs h)
    | ifThen c tgt =>
      simp only at h
      split at h
      · split at h
        · injection h with h; subst h; exact .inl rfl
        · exact .inl (jumpTo_gosubs h)
      · split at h
        · injection h with h; subst h; exact .inl rfl
        · injection h with h; subst h; exact .inl rfl
        · exact .inl (jumpTo_gosubs h)
    | else_ t => simp only at h; injection h with h; subst h; exact .inl rfl
    | on_ e sub tgts =>
      simp only at h
      split at h; · cases h
      split at h; · cases h
      split at h
      · injection h with h; subst h; exact .inl rfl
      · split at h
        · exact .inr (.inl (jumpSub_gosubs h))
        · exact .inl (jumpTo_gosubs h)
    | end_ => cases h

/-- n statements executed one after the other, none of them ending the program or failing -/
def runN (code : List Instr) : Nat → St → Option St
  | 0, s => some s
  | n + 1, s =>
    match step code s with
    | .running s' => runN code n s'
    | _ => none

theorem gosubs_above (code : List Instr) (base : List Nat) (r : Nat) : ∀ (k : Nat) (s sk : St),
    (∃ top, s.gosubs = top ++ r :: base) → runN code k s = some sk →
    (∀ i si, i ≤ k → runN code i s = some si → base.length < si.gosubs.length) →
    ∃ top, sk.gosubs = top ++ r :: base
  | 0, s, sk, hs, hrun, _ => by
    simp only [runN] at hrun; injection hrun with hrun; subst hrun; exact hs
  | k + 1, s, sk, hs, hrun, hdeep => by
    simp only [runN] at hrun
    split at hrun
    · rename_i s' hstep
      have h1 : base.length < s'.gosubs.length := by
        apply hdeep 1 s' (by omega); simp [runN, hstep]
      have hs' : ∃ top, s'.gosubs = top ++ r :: base := by
        obtain ⟨top, htop⟩ := hs
        rcases step_gosubs hstep with h | h | h
        · exact ⟨top, by rw [h, htop]⟩
        · exact ⟨(s.pc + 1) :: top, by rw [h, htop]; rfl⟩
        · cases top with
          | nil =>
            rw [htop] at h; simp only [List.nil_append] at h
            injection h with _ h2
            rw [← h2] at h1; omega
          | cons x top' =>
            rw [htop] at h; simp only [List.cons_append] at h
            injection h with _ h2
            exact ⟨top', h2.symm⟩
      refine gosubs_above code base r k s' sk hs' hrun ?_
      intro i si hi hri
      apply hdeep (i + 1) si (by omega)
      simp [runN, hstep, hri]
    · cases hrun

/-! ### Mech refines Spec on compiled FOR / WHILE nests -/

theorem scanNext_compile : ∀ (p : SStmt) (rest : List Stmt) (i k : Nat),
    scanNext (compile p ++ rest) i k = scanNext rest (i + (compile p).length) k := by
  intro p
  induction p with
  | skip => intro rest i k; simp [compile]
  | seq a b iha ihb =>
    intro rest i k
    simp only [compile, List.append_assoc, List.length_append]
    rw [iha, ihb]; congr 1; omega
  | print e => intro rest i k; simp [compile, scanNext]
  | let_ v e => intro rest i k; simp [compile, scanNext]
  | for_ v a b c named body ih =>
    intro rest i k
    simp only [compile, List.cons_append, List.append_assoc, scanNext, List.length_cons, List.length_append,
      List.length_nil]
    rw [ih]
    have hm : max (if named then [v] else []).length 1 = 1 := by cases named <;> simp
    simp only [List.cons_append, List.nil_append, scanNext, hm]
    have h1 : ¬ (k + 1 = 0) := by omega
    have h2 : ¬ (1 > k + 1) := by omega
    simp only [h1, h2, if_false]
    congr 1; omega
  | while_ c body ih =>
    intro rest i k
    simp only [compile, List.cons_append, List.append_assoc, scanNext, List.length_cons, List.length_append,
      List.length_nil]
    rw [ih]
    simp only [List.cons_append, List.nil_append, scanNext]
    congr 1; omega

theorem scanWend_compile : ∀ (p : SStmt) (rest : List Stmt) (i k : Nat),
    scanWend (compile p ++ rest) i k = scanWend rest (i + (compile p).length) k := by
  intro p
  induction p with
  | skip => intro rest i k; simp [compile]
  | seq a b iha ihb =>
    intro rest i k
    simp only [compile, List.append_assoc, List.length_append]
    rw [iha, ihb]; congr 1; omega
  | print e => intro rest i k; simp [compile, scanWend]
  | let_ v e => intro rest i k; simp [compile, scanWend]
  | for_ v a b c named body ih =>
    intro rest i k
    simp only [compile, List.cons_append, List.append_assoc, scanWend, List.length_cons, List.length_append,
      List.length_nil]
    rw [ih]
    simp only [List.cons_append, List.nil_append, scanWend]
    congr 1; omega
  | while_ c body ih =>
    intro rest i k
    simp only [compile, List.cons_append, List.append_assoc, scanWend, List.length_cons, List.length_append,
      List.length_nil]
    rw [ih]
    simp only [List.cons_append, List.nil_append, scanWend]
    have h1 : ¬ (k + 1 = 0) := by omega
    simp only [h1, if_false]
    congr 1; omega

/-- the statements of a program, without the line structure -/
def stmts (code : List Instr) : List Stmt := code.map (·.stmt)

theorem stmtAt_eq (code : List Instr) (i : Nat) : stmtAt code i = (stmts code)[i]? := by
  simp [stmtAt, stmts]

theorem stmtsAfter_eq (code : List Instr) (pc : Nat) : stmtsAfter code pc = (stmts code).drop (pc + 1) := by
  simp [stmtsAfter, stmts, List.map_drop]

theorem getElem?_mid {α : Type} (pre : List α) (x : α) (post : List α) :
    (pre ++ x :: post)[pre.length]? = some x := by simp

theorem drop_mid {α : Type} (pre : List α) (x : α) (post : List α) :
    (pre ++ x :: post).drop (pre.length + 1) = post := by
  induction pre with
  | nil => simp
  | cons a t ih => simp [ih]

/-- zero or more statements executed without ending or failing -/
inductive Steps (code : List Instr) : St → St → Prop
  | refl (s : St) : Steps code s s
  | head {s s' s'' : St} : step code s = .running s' → Steps code s' s'' → Steps code s s''

theorem Steps.trans {code : List Instr} {a b c : St} (h1 : Steps code a b) (h2 : Steps code b c) :
    Steps code a c := by
  induction h1 with
  | refl => exact h2
  | head h _ ih => exact .head h (ih h2)

theorem Steps.one {code : List Instr} {a b : St} (h : step code a = .running b) : Steps code a b :=
  .head h (.refl b)

/-- what the reference result `r` demands of the mechanism started in `m0` -/
def Outcome (code : List Instr) (m0 : St) (r : SRes) (final : SSt → St) : Prop :=
  match r with
  | .ok σ' => Steps code m0 (final σ')
  | .err e σ' => ∃ m m', Steps code m0 m ∧ step code m = .error e m' ∧ m'.out = σ'.out
  | .fuel => True

theorem Outcome.prepend {code : List Instr} {m0 m1 : St} {r : SRes} {final : SSt → St}
    (h : Steps code m0 m1) (ho : Outcome code m1 r final) : Outcome code m0 r final := by
  cases r with
  | ok σ' => exact h.trans ho
  | err e σ' => obtain ⟨m, m', h1, h2, h3⟩ := ho; exact ⟨m, m', h.trans h1, h2, h3⟩
  | fuel => trivial

theorem Outcome.bind {code : List Instr} {m0 : St} {r : SRes} {fa fb : SSt → St} {k : SSt → SRes}
    (ho : Outcome code m0 r fa) (hk : ∀ σ', Outcome code (fa σ') (k σ') fb) :
    Outcome code m0 (r.bind k) fb := by
  cases r with
  | ok σ' => exact Outcome.prepend ho (hk σ')
  | err e σ' => exact ho
  | fuel => trivial

theorem Outcome.first_step {code : List Instr} {a b : St} {r : SRes} {final : SSt → St}
    (hne : ∀ σ, (final σ).pc ≠ b.pc) (hs : step code a = step code b)
    (ho : Outcome code b r final) : Outcome code a r final := by
  cases r with
  | ok σ' =>
    have ho' : Steps code b (final σ') := ho
    cases ho' with
    | refl => exact absurd rfl (hne σ')
    | head h t => exact Steps.head (hs ▸ h) t
  | err e σ' =>
    obtain ⟨m, m', h1, h2, h3⟩ := ho
    cases h1 with
    | refl => exact ⟨a, m', .refl a, hs ▸ h2, h3⟩
    | head h t => exact ⟨m, m', .head (hs ▸ h) t, h2, h3⟩
  | fuel => trivial

/-- `iterate_loop` when the innermost record is the one of this NEXT -/
theorem iterate_top (m : St) (r : ForRec) (fs : List ForRec) (vn : Option Nat)
    (hf : m.fors = r :: fs) (hv : vn = none ∨ vn = some r.var) :
    iterate m r.nextpos vn =
      (if ¬ InRange (m.env r.var + r.step) then .error (E.overflow, { m with fors := r :: fs })
       else if loopEnds r.sgn (m.env r.var + r.step) r.stop then
         .ok ({ m with env := m.env.set r.var (m.env r.var + r.step), fors := fs }, false)
       else .ok ({ m with env := m.env.set r.var (m.env r.var + r.step), fors := r :: fs, pc := r.forpos }, true)) := by
  unfold iterate
  rw [hf]
  simp only [findRec, if_true]
  have : ¬ (vn.isSome ∧ vn ≠ some r.var) := by
    rcases hv with h | h <;> simp [h]
  simp only [this, if_false]

/-- state of the mechanism standing on the NEXT of a compiled FOR whose record is on top of the stack -/
def atNext (pre : List Stmt) (nb : Nat) (v : Nat) (stop step sgn : Int) (σ : SSt)
    (fs : List ForRec) (ws : List (Nat × Nat)) (gs : List Nat) : St :=
  ⟨pre.length + 1 + nb, σ.env, ⟨v, stop, step, sgn, pre.length + 1, (pre.length + 1 + nb, 0)⟩ :: fs, ws, gs, σ.out⟩

def atWend (pre : List Stmt) (nb : Nat) (σ : SSt)
    (fs : List ForRec) (ws : List (Nat × Nat)) (gs : List Nat) : St :=
  ⟨pre.length + 1 + nb, σ.env, fs, (pre.length, pre.length + 1 + nb) :: ws, gs, σ.out⟩

def after (n : Nat) (fs : List ForRec) (ws : List (Nat × Nat)) (gs : List Nat) (σ : SSt) : St :=
  ⟨n, σ.env, fs, ws, gs, σ.out⟩

structure Sim (code : List Instr) (f : Nat) : Prop where
  stmt : ∀ (p : SStmt) (σ : SSt) (pre post : List Stmt) fs ws gs,
    stmts code = pre ++ compile p ++ post →
    Outcome code (after pre.length fs ws gs σ) (exec f (.stmt p) σ)
      (after (pre.length + (compile p).length) fs ws gs)
  forNext : ∀ (v : Nat) (stop step sgn : Int) (body : SStmt) (σ : SSt) (pre post : List Stmt) fs ws gs
    (a b : Expr) (c : Option Expr) (vs : List Nat),
    stmts code = pre ++ .for_ v a b c :: (compile body ++ .next vs :: post) → (vs = [] ∨ vs = [v]) →
    Outcome code (atNext pre (compile body).length v stop step sgn σ fs ws gs)
      (exec f (.forNext v stop step sgn body) σ)
      (after (pre.length + 2 + (compile body).length) fs ws gs)
  whileWend : ∀ (c : Expr) (body : SStmt) (σ : SSt) (pre post : List Stmt) fs ws gs,
    stmts code = pre ++ .while_ c :: (compile body ++ .wend :: post) →
    Outcome code (atWend pre (compile body).length σ fs ws gs)
      (exec f (.whileWend c body) σ)
      (after (pre.length + 2 + (compile body).length) fs ws gs)

/-- the step of the mechanism on a NEXT whose record is on top -/
theorem step_atNext (code : List Instr) (pre post : List Stmt) (v : Nat) (a b : Expr) (c : Option Expr)
    (cb : List Stmt) (vs : List Nat) (stop stp sgn : Int) (σ : SSt) fs ws gs
    (hS : stmts code = pre ++ .for_ v a b c :: (cb ++ .next vs :: post)) (hvs : vs = [] ∨ vs = [v]) :
    step code (atNext pre cb.length v stop stp sgn σ fs ws gs) =
      (if ¬ InRange (σ.env v + stp) then
        .error E.overflow (atNext pre cb.length v stop stp sgn σ fs ws gs)
       else if loopEnds sgn (σ.env v + stp) stop then
        .running (after (pre.length + 2 + cb.length) fs ws gs ⟨σ.env.set v (σ.env v + stp), σ.out⟩)
       else
        .running ⟨pre.length + 1, σ.env.set v (σ.env v + stp),
          ⟨v, stop, stp, sgn, pre.length + 1, (pre.length + 1 + cb.length, 0)⟩ :: fs, ws, gs, σ.out⟩) := by
  have hat : stmtAt code (pre.length + 1 + cb.length) = some (.next vs) := by
    rw [stmtAt_eq, hS]
    have : pre ++ .for_ v a b c :: (cb ++ .next vs :: post) = (pre ++ .for_ v a b c :: cb) ++ .next vs :: post := by
      simp
    rw [this]
    have hl : pre.length + 1 + cb.length = (pre ++ Stmt.for_ v a b c :: cb).length := by simp; omega
    rw [hl]; exact getElem?_mid _ _ _
  let r : ForRec := ⟨v, stop, stp, sgn, pre.length + 1, (pre.length + 1 + cb.length, 0)⟩
  have hit := fun vn hv => iterate_top (atNext pre cb.length v stop stp sgn σ fs ws gs) r fs vn rfl hv
  rcases hvs with h | h
  · subst h
    have h1 := hit none (.inl rfl)
    simp only [step, stepWith, atNext, hat] at h1 ⊢
    simp only [r] at h1
    rw [h1]
    by_cases hr : InRange (σ.env v + stp)
    · by_cases he : loopEnds sgn (σ.env v + stp) stop = true
      · simp [hr, he, after]; omega
      · simp [hr, he]
    · simp [hr]
  · subst h
    have h1 := hit (some v) (.inr rfl)
    simp only [step, stepWith, atNext, hat, nextVars] at h1 ⊢
    simp only [r] at h1
    rw [h1]
    by_cases hr : InRange (σ.env v + stp)
    · by_cases he : loopEnds sgn (σ.env v + stp) stop = true
      · simp [hr, he, after, nextVars]; omega
      · simp [hr, he]
    · simp [hr]

theorem findNext_compiled (code : List Instr) (pre post : List Stmt) (v : Nat) (a b : Expr) (c : Option Expr)
    (body : SStmt) (vs : List Nat)
    (hS : stmts code = pre ++ .for_ v a b c :: (compile body ++ .next vs :: post)) (hvs : vs = [] ∨ vs = [v]) :
    findNext code pre.length v = .ok (pre.length + 1 + (compile body).length, 0) := by
  unfold findNext
  rw [stmtsAfter_eq, hS, drop_mid, scanNext_compile]
  rcases hvs with h | h <;> subst h <;> simp [scanNext]

theorem stmtAt_mid (code : List Instr) (pre : List Stmt) (x : Stmt) (post : List Stmt)
    (hS : stmts code = pre ++ x :: post) : stmtAt code pre.length = some x := by
  rw [stmtAt_eq, hS]; exact getElem?_mid _ _ _

theorem nextVarsAt_compiled (code : List Instr) (pre post : List Stmt) (v : Nat) (a b : Expr) (c : Option Expr)
    (cb : List Stmt) (vs : List Nat)
    (hS : stmts code = pre ++ .for_ v a b c :: (cb ++ .next vs :: post)) :
    nextVarsAt code (pre.length + 1 + cb.length) = vs := by
  have hat : stmtAt code (pre.length + 1 + cb.length) = some (.next vs) := by
    rw [stmtAt_eq, hS]
    have : pre ++ .for_ v a b c :: (cb ++ .next vs :: post) = (pre ++ .for_ v a b c :: cb) ++ .next vs :: post := by
      simp
    rw [this]
    have hl : pre.length + 1 + cb.length = (pre ++ Stmt.for_ v a b c :: cb).length := by simp; omega
    rw [hl]; exact getElem?_mid _ _ _
  simp [nextVarsAt, hat]

/-- FOR with bounds in range: the non-empty case enters the body, the empty case does what the NEXT does -/
theorem step_for (code : List Instr) (pre post : List Stmt) (v : Nat) (a b : Expr) (c : Option Expr)
    (body : SStmt) (vs : List Nat) (m : St) (hpc : m.pc = pre.length)
    (hS : stmts code = pre ++ .for_ v a b c :: (compile body ++ .next vs :: post)) (hvs : vs = [] ∨ vs = [v])
    (ha : InRange (a.eval m.env)) (hb : InRange (b.eval m.env)) (hc : InRange (stepValue m.env c)) :
    step code m =
      (if (if sign (stepValue m.env c) ≥ 0 then decide (a.eval m.env > b.eval m.env)
            else decide (b.eval m.env > a.eval m.env)) then
        step code (atNext pre (compile body).length v (b.eval m.env) (stepValue m.env c)
          (sign (stepValue m.env c)) ⟨m.env.set v (a.eval m.env), m.out⟩ m.fors m.whiles m.gosubs)
      else
        .running ⟨pre.length + 1, m.env.set v (a.eval m.env),
          ⟨v, b.eval m.env, stepValue m.env c, sign (stepValue m.env c), pre.length + 1,
            (pre.length + 1 + (compile body).length, 0)⟩ :: m.fors, m.whiles, m.gosubs, m.out⟩) := by
  have hat : stmtAt code m.pc = some (.for_ v a b c) := by rw [hpc]; exact stmtAt_mid code pre _ _ hS
  have hfn : findNext code m.pc v = .ok (pre.length + 1 + (compile body).length, 0) := by
    rw [hpc]; exact findNext_compiled code pre post v a b c body vs hS hvs
  have hnv := nextVarsAt_compiled code pre post v a b c (compile body) vs hS
  have hset : (m.env.set v (a.eval m.env)) v = a.eval m.env := by simp [Env.set]
  rw [step_atNext code pre post v a b c (compile body) vs _ _ _ _ m.fors m.whiles m.gosubs hS hvs]
  simp only [step, stepWith, hat, execFor, ha, hb, hc, not_true_eq_false, if_false, forEnter, hfn]
  generalize (if sign (stepValue m.env c) ≥ 0 then decide (a.eval m.env > b.eval m.env)
            else decide (b.eval m.env > a.eval m.env)) = cond
  cases cond with
  | true =>
    simp only [if_true]
    let r : ForRec := ⟨v, b.eval m.env, stepValue m.env c, sign (stepValue m.env c), m.pc + 1,
      (pre.length + 1 + (compile body).length, 0)⟩
    have h1 := iterate_top ⟨pre.length + 1 + (compile body).length, m.env.set v (a.eval m.env), r :: m.fors,
      m.whiles, m.gosubs, m.out⟩ r m.fors none rfl (.inl rfl)
    simp only [r] at h1
    rw [h1, hnv]
    have hd : vs.drop (0 + 1) = [] := by rcases hvs with h | h <;> subst h <;> rfl
    simp only [hset, hpc]
    by_cases hr : InRange (a.eval m.env + stepValue m.env c)
    · by_cases he : loopEnds (sign (stepValue m.env c)) (a.eval m.env + stepValue m.env c) (b.eval m.env) = true
      · have hl : pre.length + 1 + (compile body).length + 1 = pre.length + 2 + (compile body).length := by omega
        simp only [hr, he, hd, nextVars, after, atNext, not_true_eq_false, if_false, if_true, hl]
      · simp only [hr, he, not_true_eq_false, if_false, Bool.false_eq_true]
    · simp only [hr, atNext, not_false_eq_true, if_true]
  | false =>
    simp only [Bool.false_eq_true, if_false, hpc]

theorem scanWend_compiled (code : List Instr) (pre post : List Stmt) (c : Expr) (body : SStmt)
    (hS : stmts code = pre ++ .while_ c :: (compile body ++ .wend :: post)) :
    scanWend (stmtsAfter code pre.length) (pre.length + 1) 0 = some (pre.length + 1 + (compile body).length) := by
  rw [stmtsAfter_eq, hS, drop_mid, scanWend_compile]
  simp [scanWend]

theorem step_while (code : List Instr) (pre post : List Stmt) (c : Expr) (body : SStmt) (m : St)
    (hpc : m.pc = pre.length)
    (hS : stmts code = pre ++ .while_ c :: (compile body ++ .wend :: post)) :
    step code m =
      (if c.eval m.env ≠ 0 then
        .running ⟨pre.length + 1, m.env, m.fors, (pre.length, pre.length + 1 + (compile body).length) :: m.whiles,
          m.gosubs, m.out⟩
      else .running ⟨pre.length + 2 + (compile body).length, m.env, m.fors, m.whiles, m.gosubs, m.out⟩) := by
  have hat : stmtAt code pre.length = some (.while_ c) := stmtAt_mid code pre _ _ hS
  have hsw := scanWend_compiled code pre post c body hS
  simp only [step, stepWith, hat, hpc, hsw]
  have hl : pre.length + 1 + (compile body).length + 1 = pre.length + 2 + (compile body).length := by omega
  by_cases h : c.eval m.env = 0 <;> simp [h, hl]

theorem step_atWend (code : List Instr) (pre post : List Stmt) (c : Expr) (cb : List Stmt) (σ : SSt) fs ws gs
    (hS : stmts code = pre ++ .while_ c :: (cb ++ .wend :: post)) :
    step code (atWend pre cb.length σ fs ws gs) =
      (if c.eval σ.env ≠ 0 then
        .running ⟨pre.length + 1, σ.env, fs, (pre.length, pre.length + 1 + cb.length) :: ws, gs, σ.out⟩
      else .running (after (pre.length + 2 + cb.length) fs ws gs σ)) := by
  have hat : stmtAt code (pre.length + 1 + cb.length) = some .wend := by
    rw [stmtAt_eq, hS]
    have : pre ++ .while_ c :: (cb ++ .wend :: post) = (pre ++ .while_ c :: cb) ++ .wend :: post := by simp
    rw [this]
    have hl : pre.length + 1 + cb.length = (pre ++ Stmt.while_ c :: cb).length := by simp; omega
    rw [hl]; exact getElem?_mid _ _ _
  have hwh := stmtAt_mid code pre _ _ hS
  have hl : pre.length + 1 + cb.length + 1 = pre.length + 2 + cb.length := by omega
  simp only [step, stepWith, atWend, hat, popWhile, if_true, hwh]
  by_cases h : c.eval σ.env = 0 <;> simp [h, hl, after]

theorem sim_stmt_succ (code : List Instr) (f : Nat) (ih : Sim code f) :
    ∀ (p : SStmt) (σ : SSt) (pre post : List Stmt) fs ws gs,
    stmts code = pre ++ compile p ++ post →
    Outcome code (after pre.length fs ws gs σ) (exec (f + 1) (.stmt p) σ)
      (after (pre.length + (compile p).length) fs ws gs) := by
  intro p σ pre post fs ws gs hS
  cases p with
  | skip =>
    simp only [exec, compile, List.length_nil, Nat.add_zero, Outcome]
    exact Steps.refl _
  | seq a b =>
    simp only [exec]
    have ha := ih.stmt a σ pre (compile b ++ post) fs ws gs (by simp [hS, compile])
    refine Outcome.bind ha (fun σ' => ?_)
    have hb := ih.stmt b σ' (pre ++ compile a) post fs ws gs (by simp [hS, compile])
    simp only [List.length_append] at hb
    simp only [compile, List.length_append, ← Nat.add_assoc]
    exact hb
  | print e =>
    have hS' : stmts code = pre ++ .print e :: post := by simpa [compile] using hS
    have hat := stmtAt_mid code pre _ _ hS'
    simp only [exec, compile, List.length_singleton, Outcome]
    apply Steps.one
    simp [step, stepWith, after, hat]
  | let_ v e =>
    have hS' : stmts code = pre ++ .let_ v e :: post := by simpa [compile] using hS
    have hat := stmtAt_mid code pre _ _ hS'
    simp only [exec, compile, List.length_singleton]
    by_cases hr : InRange (e.eval σ.env)
    · simp only [hr, if_true, Outcome]
      apply Steps.one
      simp [step, stepWith, after, hat, hr]
    · simp only [hr, if_false, Outcome]
      exact ⟨_, after pre.length fs ws gs σ, Steps.refl _, by simp [step, stepWith, after, hat, hr], rfl⟩
  | for_ v a b c named body =>
    let vs : List Nat := if named then [v] else []
    have hvs : vs = [] ∨ vs = [v] := by cases named <;> simp [vs]
    have hS' : stmts code = pre ++ .for_ v a b c :: (compile body ++ .next vs :: post) := by
      simpa [compile, vs] using hS
    have hat := stmtAt_mid code pre _ _ hS'
    have hlen : pre.length + (compile (.for_ v a b c named body)).length = pre.length + 2 + (compile body).length := by
      simp [compile]; omega
    rw [hlen]
    simp only [exec]
    by_cases ha : InRange (a.eval σ.env)
    · by_cases hb : InRange (b.eval σ.env)
      · by_cases hc : InRange (stepValue σ.env c)
        · simp only [ha, hb, hc, not_true_eq_false, if_false]
          have hstep : step code (after pre.length fs ws gs σ) =
              (if (if sign (stepValue σ.env c) ≥ 0 then decide (a.eval σ.env > b.eval σ.env)
                    else decide (b.eval σ.env > a.eval σ.env)) then
                step code (atNext pre (compile body).length v (b.eval σ.env) (stepValue σ.env c)
                  (sign (stepValue σ.env c)) ⟨σ.env.set v (a.eval σ.env), σ.out⟩ fs ws gs)
              else
                .running ⟨pre.length + 1, σ.env.set v (a.eval σ.env),
                  ⟨v, b.eval σ.env, stepValue σ.env c, sign (stepValue σ.env c), pre.length + 1,
                    (pre.length + 1 + (compile body).length, 0)⟩ :: fs, ws, gs, σ.out⟩) :=
            step_for code pre post v a b c body vs (after pre.length fs ws gs σ) rfl hS' hvs ha hb hc
          have hnext := fun σ1 => ih.forNext v (b.eval σ.env) (stepValue σ.env c) (sign (stepValue σ.env c))
            body σ1 pre post fs ws gs a b c vs hS' hvs
          generalize hcond : (if sign (stepValue σ.env c) ≥ 0 then decide (a.eval σ.env > b.eval σ.env)
            else decide (b.eval σ.env > a.eval σ.env)) = cond at hstep
          cases cond with
          | true =>
            simp only [if_true] at hstep ⊢
            refine Outcome.first_step ?_ hstep (hnext _)
            intro σ0; simp only [after, atNext]; omega
          | false =>
            simp only [Bool.false_eq_true, if_false] at hstep ⊢
            refine Outcome.prepend (Steps.one hstep) ?_
            have hbody := ih.stmt body ⟨σ.env.set v (a.eval σ.env), σ.out⟩ (pre ++ [.for_ v a b c])
              (.next vs :: post)
              (⟨v, b.eval σ.env, stepValue σ.env c, sign (stepValue σ.env c), pre.length + 1,
                (pre.length + 1 + (compile body).length, 0)⟩ :: fs) ws gs (by simp [hS'])
            simp only [List.length_append, List.length_singleton] at hbody
            exact Outcome.bind hbody (fun σ' => hnext σ')
        · simp only [ha, hb, hc, not_true_eq_false, not_false_eq_true, if_false, if_true, Outcome]
          exact ⟨_, after pre.length fs ws gs σ, Steps.refl _,
            by simp [step, stepWith, after, hat, execFor, ha, hb, hc], rfl⟩
      · simp only [ha, hb, not_true_eq_false, not_false_eq_true, if_false, if_true, Outcome]
        exact ⟨_, after pre.length fs ws gs σ, Steps.refl _,
          by simp [step, stepWith, after, hat, execFor, ha, hb], rfl⟩
    · simp only [ha, not_false_eq_true, if_true, Outcome]
      exact ⟨_, after pre.length fs ws gs σ, Steps.refl _,
        by simp [step, stepWith, after, hat, execFor, ha], rfl⟩
  | while_ c body =>
    have hS' : stmts code = pre ++ .while_ c :: (compile body ++ .wend :: post) := by
      simpa [compile] using hS
    have hlen : pre.length + (compile (.while_ c body)).length = pre.length + 2 + (compile body).length := by
      simp [compile]; omega
    rw [hlen]
    have hstep := step_while code pre post c body (after pre.length fs ws gs σ) rfl hS'
    simp only [exec]
    by_cases h : c.eval σ.env = 0
    · have h' : c.eval (after pre.length fs ws gs σ).env = 0 := h
      simp only [h', ne_eq, not_true_eq_false, if_false] at hstep
      simp only [h, ne_eq, not_true_eq_false, if_false, Outcome]
      exact Steps.one hstep
    · have h' : c.eval (after pre.length fs ws gs σ).env ≠ 0 := h
      simp only [h', ne_eq, not_false_eq_true, if_true] at hstep
      simp only [h, ne_eq, not_false_eq_true, if_true]
      refine Outcome.prepend (Steps.one hstep) ?_
      have hbody := ih.stmt body σ (pre ++ [.while_ c]) (.wend :: post) fs
        ((pre.length, pre.length + 1 + (compile body).length) :: ws) gs (by simp [hS'])
      simp only [List.length_append, List.length_singleton] at hbody
      exact Outcome.bind hbody (fun σ' => ih.whileWend c body σ' pre post fs ws gs hS')

theorem sim_forNext_succ (code : List Instr) (f : Nat) (ih : Sim code f) :
    ∀ (v : Nat) (stop stp sgn : Int) (body : SStmt) (σ : SSt) (pre post : List Stmt) fs ws gs
    (a b : Expr) (c : Option Expr) (vs : List Nat),
    stmts code = pre ++ .for_ v a b c :: (compile body ++ .next vs :: post) → (vs = [] ∨ vs = [v]) →
    Outcome code (atNext pre (compile body).length v stop stp sgn σ fs ws gs)
      (exec (f + 1) (.forNext v stop stp sgn body) σ)
      (after (pre.length + 2 + (compile body).length) fs ws gs) := by
  intro v stop stp sgn body σ pre post fs ws gs a b c vs hS hvs
  have hstep := step_atNext code pre post v a b c (compile body) vs stop stp sgn σ fs ws gs hS hvs
  simp only [exec]
  by_cases hr : InRange (σ.env v + stp)
  · by_cases he : loopEnds sgn (σ.env v + stp) stop = true
    · simp only [hr, he, not_true_eq_false, if_false, if_true] at hstep ⊢
      exact Steps.one hstep
    · simp only [hr, he, not_true_eq_false, if_false, Bool.false_eq_true] at hstep ⊢
      refine Outcome.prepend (Steps.one hstep) ?_
      have hbody := ih.stmt body ⟨σ.env.set v (σ.env v + stp), σ.out⟩ (pre ++ [.for_ v a b c])
        (.next vs :: post)
        (⟨v, stop, stp, sgn, pre.length + 1, (pre.length + 1 + (compile body).length, 0)⟩ :: fs) ws gs
        (by simp [hS])
      simp only [List.length_append, List.length_singleton] at hbody
      exact Outcome.bind hbody (fun σ' => ih.forNext v stop stp sgn body σ' pre post fs ws gs a b c vs hS hvs)
  · simp only [hr, not_false_eq_true, if_true] at hstep ⊢
    exact ⟨_, _, Steps.refl _, hstep, rfl⟩

theorem sim_whileWend_succ (code : List Instr) (f : Nat) (ih : Sim code f) :
    ∀ (c : Expr) (body : SStmt) (σ : SSt) (pre post : List Stmt) fs ws gs,
    stmts code = pre ++ .while_ c :: (compile body ++ .wend :: post) →
    Outcome code (atWend pre (compile body).length σ fs ws gs)
      (exec (f + 1) (.whileWend c body) σ)
      (after (pre.length + 2 + (compile body).length) fs ws gs) := by
  intro c body σ pre post fs ws gs hS
  have hstep := step_atWend code pre post c (compile body) σ fs ws gs hS
  simp only [exec]
  by_cases h : c.eval σ.env = 0
  · simp only [h, ne_eq, not_true_eq_false, if_false] at hstep ⊢
    exact Steps.one hstep
  · simp only [h, ne_eq, not_false_eq_true, if_true] at hstep ⊢
    refine Outcome.prepend (Steps.one hstep) ?_
    have hbody := ih.stmt body σ (pre ++ [.while_ c]) (.wend :: post) fs
      ((pre.length, pre.length + 1 + (compile body).length) :: ws) gs (by simp [hS])
    simp only [List.length_append, List.length_singleton] at hbody
    exact Outcome.bind hbody (fun σ' => ih.whileWend c body σ' pre post fs ws gs hS)

theorem sim (code : List Instr) : ∀ f, Sim code f
  | 0 => ⟨fun _ _ _ _ _ _ _ _ => by simp [exec, Outcome],
          fun _ _ _ _ _ _ _ _ _ _ _ _ _ _ _ _ _ => by simp [exec, Outcome],
          fun _ _ _ _ _ _ _ _ _ => by simp [exec, Outcome]⟩
  | f + 1 =>
    have ih := sim code f
    ⟨sim_stmt_succ code f ih, sim_forNext_succ code f ih, sim_whileWend_succ code f ih⟩

/-- executing with fuel: a run of `Steps` can be prefixed to any fuelled run -/
theorem run_of_steps {code : List Instr} {a b : St} (h : Steps code a b) :
    ∃ n, ∀ k, run code (n + k) a = run code k b := by
  induction h with
  | refl s => exact ⟨0, fun k => by simp⟩
  | head hs _ ih =>
    obtain ⟨n, hn⟩ := ih
    refine ⟨n + 1, fun k => ?_⟩
    have : n + 1 + k = (n + k) + 1 := by omega
    rw [this]
    simp only [run, runWith] at hn ⊢
    simp only [step] at hs
    rw [hs]; exact hn k


/-! ### FOR: values taken by the counter and number of passes -/

theorem Env.set_set (env : Env) (v : Nat) (x y : Int) : (env.set v x).set v y = env.set v y := by
  funext w; simp only [Env.set]; split <;> rfl

/-- after the NEXT that moves the counter from x to x + c there are exactly k more passes -/
def Passes (sgn stop c : Int) : Int → Nat → Prop
  | x, 0 => InRange (x + c) ∧ loopEnds sgn (x + c) stop = true
  | x, k + 1 => InRange (x + c) ∧ loopEnds sgn (x + c) stop = false ∧ Passes sgn stop c (x + c) k

/-- the values of the counter in those passes, in order -/
def passValues (c : Int) : Int → Nat → List Int
  | _, 0 => []
  | x, k + 1 => (x + c) :: passValues c (x + c) k

/-- the value of the counter when the loop is left -/
def finalValue (c : Int) : Int → Nat → Int
  | x, 0 => x + c
  | x, k + 1 => finalValue c (x + c) k

theorem exec_forNext_succ (f : Nat) (v : Nat) (stop step sgn : Int) (body : SStmt) (s : SSt) :
    exec (f + 1) (.forNext v stop step sgn body) s =
      (if ¬ InRange (s.env v + step) then .err E.overflow s else
        if loopEnds sgn (s.env v + step) stop then .ok ⟨s.env.set v (s.env v + step), s.out⟩
        else (exec f (.stmt body) ⟨s.env.set v (s.env v + step), s.out⟩).bind
          (fun s2 => exec f (.forNext v stop step sgn body) s2)) := by
  rw [exec]

theorem exec_print_succ (f : Nat) (e : Expr) (s : SSt) :
    exec (f + 1) (.stmt (.print e)) s = .ok ⟨s.env, e.eval s.env :: s.out⟩ := by
  rw [exec]

theorem exec_for_succ (f : Nat) (v : Nat) (a b : Expr) (c : Option Expr) (named : Bool) (body : SStmt) (s : SSt) :
    exec (f + 1) (.stmt (.for_ v a b c named body)) s =
      (if ¬ InRange (a.eval s.env) then .err E.overflow s
       else if ¬ InRange (b.eval s.env) then .err E.overflow s
       else if ¬ InRange (stepValue s.env c) then .err E.overflow s
       else
        if (if sign (stepValue s.env c) ≥ 0 then decide (a.eval s.env > b.eval s.env)
            else decide (b.eval s.env > a.eval s.env)) then
          exec f (.forNext v (b.eval s.env) (stepValue s.env c) (sign (stepValue s.env c)) body)
            ⟨s.env.set v (a.eval s.env), s.out⟩
        else
          (exec f (.stmt body) ⟨s.env.set v (a.eval s.env), s.out⟩).bind
            (fun s2 => exec f (.forNext v (b.eval s.env) (stepValue s.env c) (sign (stepValue s.env c)) body) s2)) := by
  rw [exec]

theorem exec_for_lit (f : Nat) (v : Nat) (a b c : Int) (named : Bool) (body : SStmt) (s : SSt) :
    exec (f + 1) (.stmt (.for_ v (.lit a) (.lit b) (some (.lit c)) named body)) s =
      (if ¬ InRange a then .err E.overflow s
       else if ¬ InRange b then .err E.overflow s
       else if ¬ InRange c then .err E.overflow s
       else
        if (if sign c ≥ 0 then decide (a > b) else decide (b > a)) then
          exec f (.forNext v b c (sign c) body) ⟨s.env.set v a, s.out⟩
        else
          (exec f (.stmt body) ⟨s.env.set v a, s.out⟩).bind
            (fun s2 => exec f (.forNext v b c (sign c) body) s2)) := by
  rw [exec_for_succ]; rfl

theorem forNext_passes (v : Nat) (sgn stop c : Int) : ∀ (k : Nat) (x : Int) (σ : SSt),
    σ.env v = x → Passes sgn stop c x k →
    exec (k + 1) (.forNext v stop c sgn (.print (.var v))) σ =
      .ok ⟨σ.env.set v (finalValue c x k), (passValues c x k).reverse ++ σ.out⟩
  | 0, x, σ, hx, ⟨hr, he⟩ => by
    rw [exec_forNext_succ]
    simp [hx, hr, he, finalValue, passValues]
  | k + 1, x, σ, hx, ⟨hr, he, hp⟩ => by
    have ih := forNext_passes v sgn stop c k (x + c)
      ⟨σ.env.set v (x + c), (x + c) :: σ.out⟩ (by simp [Env.set]) hp
    have hv : (σ.env.set v (x + c)) v = x + c := by simp [Env.set]
    rw [exec_forNext_succ]
    simp only [hx, hr, he, not_true_eq_false, if_false, Bool.false_eq_true, SRes.bind, Expr.eval, exec_print_succ, hv]
    rw [ih]
    simp [finalValue, passValues, Env.set_set]


end PcbV.MiniBasic
