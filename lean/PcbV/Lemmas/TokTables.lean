import PcbV.Lemmas.TokTablesAdvanced
import PcbV.Lemmas.TokTablesPcjr
import PcbV.Lemmas.TokTablesTandy
/-
  Lemmas for C17: the three dialect tables together.
-/
namespace PcbV.TokL
open PcbV PcbV.Gen PcbV.Gen.Tokens PcbV.Tok PcbV.Lst

/-- the three dialect tables -/
def IsDialect (t : Table) : Prop := t = advanced ∨ t = pcjr ∨ t = tandy

theorem dialect_bij {t : Table} (h : IsDialect t) : Table.Bij t := by
  rcases h with rfl | rfl | rfl
  · exact advanced_bij
  · exact pcjr_bij
  · exact tandy_bij

theorem dialect_scan {t : Table} (h : IsDialect t) : Table.ScanOK t := by
  rcases h with rfl | rfl | rfl
  · exact advanced_scan
  · exact pcjr_scan
  · exact tandy_scan

end PcbV.TokL
