"""Translated functions (gen/py2lean.py) -> lean/PcbV/Gen/Translated.lean"""
import ast
from gen_tables import generator, HEADER
import py2lean


def _emit(out, name, params, build):
    try:
        body = build()
        out.append('def %s %s : Int :=\n  %s\n' % (name, params, body))
        out.append('def %s_supported : Bool := true\n' % name)
    except py2lean.Unsupported as e:
        out.append('-- %s: the current source left the supported subset (%s)' % (name, e))
        out.append('def %s %s : Int := 0\n' % (name, params))
        out.append('def %s_supported : Bool := false\n' % name)


@generator('Translated')
def gen_translated():
    from pcbasic.basic.values import randomiser, numbers
    import importlib
    protect = importlib.import_module('pcbasic.basic.converter.protect')
    out = [HEADER, 'import PcbV.PyInt\n', '/-! Mechanically translated from the current source by gen/py2lean.py (Python ints = `Int`;',
           '    `//` = Int.fdiv, `%` = Int.fmod, `^` = Int.xor). -/', 'namespace PcbV.Gen.Translated\n']
    R = randomiser.Randomiser
    consts = {'self._multiplier': R._multiplier, 'self._increment': R._increment, 'self._period': R._period,
              'self._step': R._step}

    def cycle():
        fn = py2lean.function_ast(R._cycle)
        st = [s for s in fn.body if isinstance(s, ast.Assign)]
        if len(st) != 1 or ast.unparse(st[0].targets[0]) != 'self._seed':
            raise py2lean.Unsupported('_cycle is not a single assignment to self._seed')
        tr = py2lean.Tr(consts, calls={})
        # self._seed on the right-hand side is the parameter
        rhs = ast.parse(ast.unparse(st[0].value).replace('self._seed', 'seed'), mode='eval').body
        return tr.expr(rhs)
    _emit(out, 'cycle', '(seed : Int)', cycle)

    pconsts = {'KEY1': tuple(protect.KEY1), 'KEY2': tuple(protect.KEY2)}

    def step(fn_obj):
        def build():
            fn = py2lean.function_ast(fn_obj)
            # the byte variable is whatever is assigned from ord(...); canonical name `c`
            var = [ast.unparse(n.targets[0]) for n in ast.walk(fn) if isinstance(n, ast.Assign)
                   and isinstance(n.value, ast.Call) and ast.unparse(n.value.func) == 'ord']
            if len(set(var)) != 1:
                raise py2lean.Unsupported('byte variable not found')
            if var[0] != 'c':
                class Ren(ast.NodeTransformer):
                    def visit_Name(self, n):
                        return ast.copy_location(ast.Name(id='c' if n.id == var[0] else n.id, ctx=n.ctx), n)
                fn = Ren().visit(fn)
            is_first = lambda s: isinstance(s, ast.AugAssign) and ast.unparse(s.target) == 'c'
            is_last = lambda s: (isinstance(s, ast.Expr) and isinstance(s.value, ast.Call)
                                 and ast.unparse(s.value.func) == 'outs.write')
            sts = py2lean.find_statements(fn, is_first, is_last)
            write = sts[-1].value
            arg = write.args[0]
            if not (isinstance(arg, ast.Call) and ast.unparse(arg.func) == 'int2byte' and len(arg.args) == 1):
                raise py2lean.Unsupported('outs.write argument')
            tr = py2lean.Tr(pconsts)
            return tr.stmts(sts[:-1], tr.expr(arg.args[0]))
        return build

    def next_index(fn_obj):
        def build():
            fn = py2lean.function_ast(fn_obj)
            is_idx = lambda s: (isinstance(s, ast.Assign) and ast.unparse(s.targets[0]) == 'index'
                                and not isinstance(s.value, ast.Constant))
            sts = py2lean.find_statements(fn, is_idx, is_idx)
            return py2lean.Tr(pconsts).expr(sts[0].value)
        return build
    _emit(out, 'unprotNextIndex', '(index : Int)', next_index(protect.unprotect))
    _emit(out, 'protNextIndex', '(index : Int)', next_index(protect.protect))
    _emit(out, 'unprotStep', '(c index : Int)', step(protect.unprotect))
    _emit(out, 'protStep', '(c index : Int)', step(protect.protect))

    def int_tail(method, first_target):
        def build():
            fn = py2lean.function_ast(method)
            is_first = lambda s: isinstance(s, ast.Assign) and ast.unparse(s.targets[0]) == first_target
            sts = None
            for i, s in enumerate(fn.body):
                if is_first(s):
                    sts = fn.body[i:]
                    break
            if sts is None:
                raise py2lean.Unsupported('start of arithmetic part not found')
            tr = py2lean.Tr({}, calls={'self.to_int()': 'a', 'rhs.to_int()': 'b'})
            return tr.stmts(sts, '0')
        return build
    _emit(out, 'idivCore', '(a b : Int)', int_tail(numbers.Integer.idiv_int, 'dividend'))
    _emit(out, 'imodCore', '(a b : Int)', int_tail(numbers.Integer.imod, 'dividend'))
    out.append('end PcbV.Gen.Translated\n')
    return '\n'.join(out)
