import PcbV.Lemmas.TokWord
/-
  Lemmas for C17: one loop iteration of the tokeniser / of the lister per grammar item.
-/
namespace PcbV.TokL
open PcbV PcbV.Gen PcbV.Gen.Tokens PcbV.Tok PcbV.Lst


/-! ## one iteration of the tokeniser loop per item -/

theorem readTo_append (stop : Nat → Bool) : ∀ (b : Bytes) (x : Nat) (R : Bytes), (∀ c ∈ b, stop c = false) →
    stop x = true → readTo stop (b ++ x :: R) = (b, x :: R) := by
  intro b
  induction b with
  | nil => intro x R _ hx; simp [readTo, hx]
  | cons c b ih =>
    intro x R h hx
    have hc := h c (List.mem_cons_self ..)
    have := ih x R (fun d hd => h d (List.mem_cons_of_mem _ hd)) hx
    simp [readTo, hc, this]

theorem readTo_all (stop : Nat → Bool) : ∀ (b : Bytes), (∀ c ∈ b, stop c = false) → readTo stop b = (b, []) := by
  intro b
  induction b with
  | nil => intro _; rfl
  | cons c b ih =>
    intro h
    have hc := h c (List.mem_cons_self ..)
    have := ih (fun d hd => h d (List.mem_cons_of_mem _ hd))
    simp [readTo, hc, this]

def isLead (s : Nat) : Bool := numberLeads.contains s || lineNumberLeads.contains s

theorem not_lead_of_ge {s : Nat} (h : 32 ≤ s) : isLead s = false := by
  simp only [isLead, numberLeads, lineNumberLeads, List.contains_eq_mem, List.mem_cons, List.not_mem_nil, or_false,
    Bool.or_eq_false_iff, decide_eq_false_iff_not]
  omega

theorem lead_facts {c : Nat} (h : isLead c = false) : c ≠ 13 := by
  intro e; subst e; simp [isLead, numberLeads, lineNumberLeads] at h

/-- bytes allowed inside a string literal of the grammar: everything except NUL, the quote and the
    number-token lead bytes 0B..0F, 11..1D, 1F (which the lister prints as numbers even inside a literal;
    CR = 0D is one of them) -/
def strChar (c : Nat) : Bool := c != 0 && c != 34 && !isLead c

theorem strChar_facts {c : Nat} (h : strChar c = true) : c ≠ 0 ∧ c ≠ 34 ∧ c ≠ 13 ∧ isLead c = false := by
  simp only [strChar, Bool.and_eq_true, bne_iff_ne, Bool.not_eq_true'] at h
  exact ⟨h.1.1, h.1.2, lead_facts h.2, h.2⟩

theorem tokLoop_nil (old : Bool) (t : Table) (cd : Codec) (f : Nat) (s : St) : tokLoop old t cd f s [] = .ok [] := by
  cases f <;> simp [tokLoop]

theorem tok_sp (old : Bool) (t : Table) (cd : Codec) (f : Nat) (s : St) (R : Bytes) :
    tokLoop old t cd (f + 1) s (32 :: R) = prepend [32] (tokLoop old t cd f s R) := by
  simp [tokLoop, isBlank]

theorem tok_str (old : Bool) (t : Table) (cd : Codec) (f : Nat) (s : St) (b R : Bytes)
    (hb : ∀ c ∈ b, strChar c = true) :
    tokLoop old t cd (f + 1) s (34 :: (b ++ 34 :: R)) = prepend (34 :: b ++ [34]) (tokLoop old t cd f s R) := by
  have hr : readTo (fun c => c == 34 || plainEnd c) (b ++ 34 :: R) = (b, 34 :: R) := by
    apply readTo_append
    · intro c hc
      have := strChar_facts (hb c hc)
      simp only [plainEnd, Bool.or_eq_false_iff, beq_eq_false_iff_ne]
      exact ⟨this.2.1, this.1, this.2.2.1⟩
    · simp
  have hs : readString (34 :: (b ++ 34 :: R)) = (34 :: b ++ [34], R) := by
    simp [readString, hr]
  simp [tokLoop, isBlank, hs]

/-- a string literal that the end of the line leaves open -/
theorem tok_str_open (old : Bool) (t : Table) (cd : Codec) (f : Nat) (s : St) (b : Bytes)
    (hb : ∀ c ∈ b, strChar c = true) :
    tokLoop old t cd (f + 1) s (34 :: b) = .ok (34 :: b) := by
  have hr : readTo (fun c => c == 34 || plainEnd c) b = (b, []) := by
    apply readTo_all
    intro c hc
    have := strChar_facts (hb c hc)
    simp only [plainEnd, Bool.or_eq_false_iff, beq_eq_false_iff_ne]
    exact ⟨this.2.1, this.1, this.2.2.1⟩
  have hs : readString (34 :: b) = (34 :: b, []) := by
    simp [readString, hr]
  simp [tokLoop, isBlank, hs, tokLoop_nil, prepend]

theorem tok_tab (old : Bool) (t : Table) (cd : Codec) (f : Nat) (s : St) (R : Bytes) :
    tokLoop old t cd (f + 1) s (9 :: R) = prepend [9] (tokLoop old t cd f s R) := by
  simp [tokLoop, isBlank]

/-- a digit or point where numbers are not allowed (behind a name, as in OPTION BASE 1) stays a character -/
theorem tok_raw (old : Bool) (t : Table) (cd : Codec) (f : Nat) (s : St) (c : Nat) (R : Bytes)
    (hc : isDigit c = true ∨ c = 46) (han : s.an = false) :
    tokLoop old t cd (f + 1) s (c :: R) = prepend [c] (tokLoop old t cd f { s with aj := false, an := false } R) := by
  rw [tokLoop]
  rcases hc with hc | rfl
  · obtain ⟨_, g2, _, _, _, _, g7, g8, g9, g10, g11⟩ := isDigit_facts hc
    have hr : 48 ≤ c ∧ c ≤ 57 := by simpa [isDigit] using hc
    have ho : c ∉ asciiOperators := by simp [asciiOperators]; omega
    have hl : isLetter c = false := by
      simp only [isLetter, isUpper, isLower, Bool.or_eq_false_iff, decide_eq_false_iff_not]; omega
    have h39 : c ≠ 39 := by omega
    have h63 : c ≠ 63 := by omega
    have hp : punctOut c = c := by simp [punctOut]; omega
    have hs : punctSt s c = { s with aj := false, an := false } := by
      unfold punctSt
      simp [show c ≠ 44 by omega, show c ≠ 35 by omega, show c ≠ 59 by omega, show c ≠ 40 by omega,
        show c ≠ 91 by omega, show c ≠ 41 by omega]
    simp [g7, g8, g9, g10, g11, han, ho, hl, h39, h63, hp, hs]
  · simp [isBlank, isDigit, han, asciiOperators, isLetter, isUpper, isLower, punctOut, punctSt]

/-- separator characters of the grammar that take the final `else` branch of the loop -/
def punctList : List Nat := [44, 35, 59, 40, 91, 41, 58, 36, 37, 33, 93, 64, 95, 123, 125, 126, 124, 96]

theorem tok_punct (old : Bool) (t : Table) (cd : Codec) (f : Nat) (s : St) (c : Nat) (R : Bytes)
    (hc : punctList.contains c = true) :
    tokLoop old t cd (f + 1) s (c :: R) = prepend [c] (tokLoop old t cd f (punctSt s c) R) := by
  simp only [punctList, List.contains_eq_mem, List.mem_cons, List.not_mem_nil, or_false, decide_eq_true_eq] at hc
  rcases hc with rfl | rfl | rfl | rfl | rfl | rfl | rfl | rfl | rfl | rfl | rfl | rfl | rfl | rfl | rfl | rfl | rfl | rfl <;>
    simp [tokLoop, isBlank, isDigit, asciiOperators, isLetter, isUpper, isLower, punctOut]

theorem tok_op (old : Bool) (t : Table) (cd : Codec) (f : Nat) (s : St) (c : Nat) (tok R : Bytes)
    (hc : asciiOperators.contains c = true) (ht : toToken t [c] = some tok) :
    tokLoop old t cd (f + 1) s (c :: R) = prepend tok (tokLoop old t cd f { s with an := true } R) := by
  simp only [asciiOperators, List.contains_eq_mem, List.mem_cons, List.not_mem_nil, or_false, decide_eq_true_eq] at hc
  rcases hc with rfl | rfl | rfl | rfl | rfl | rfl | rfl | rfl | rfl <;>
    simp [tokLoop, isBlank, isDigit, asciiOperators, ht]

theorem letter_facts {c : Nat} (h : isLetter c = true) : (c == 0) = false ∧ (c == 13) = false ∧ isBlank c = false
    ∧ (c == 34) = false ∧ isDigit c = false ∧ (c == 46) = false ∧ (c == 38) = false
    ∧ asciiOperators.contains c = false ∧ (c == 39) = false ∧ (c == 63) = false := by
  simp only [isLetter, isUpper, isLower, Bool.or_eq_true, decide_eq_true_eq] at h
  simp only [isBlank, isDigit, asciiOperators, List.contains_eq_mem, List.mem_cons, List.not_mem_nil, or_false,
    beq_eq_false_iff_ne, Bool.or_eq_false_iff, decide_eq_false_iff_not]
  omega

theorem tok_word (old : Bool) (t : Table) (cd : Codec) (f : Nat) (s : St) (c : Nat) (w' word out R : Bytes)
    (hc : isLetter c = true) (hscan : scanWord t [] (c :: (w' ++ R)) = (word, out, R))
    (h1 : word ≠ kwRem) (h2 : word ≠ kwOrem) (h3 : word ≠ kwData) :
    tokLoop old t cd (f + 1) s (c :: (w' ++ R)) = prepend out (tokLoop old t cd f (wordSt t s word) R) := by
  obtain ⟨f1, f2, f3, f4, f5, f6, f7, f8, f9, f10⟩ := letter_facts hc
  have f8' : c ∉ asciiOperators := by simpa using f8
  rw [tokLoop]
  simp [f1, f2, f3, f4, f5, f6, f7, f8', f9, f10, hc, hscan, h1, h2, h3]

theorem tok_rem (old : Bool) (t : Table) (cd : Codec) (f : Nat) (s : St) (c : Nat) (w' out body : Bytes)
    (hc : isLetter c = true) (hscan : scanWord t [] (c :: (w' ++ body)) = (kwRem, out, body))
    (hb : ∀ x ∈ body, remEnd x = false) :
    tokLoop old t cd (f + 1) s (c :: (w' ++ body)) = .ok (out ++ body) := by
  obtain ⟨f1, f2, f3, f4, f5, f6, f7, f8, f9, f10⟩ := letter_facts hc
  have f8' : c ∉ asciiOperators := by simpa using f8
  rw [tokLoop]
  simp [f1, f2, f3, f4, f5, f6, f7, f8', f9, f10, hc, hscan, readTo_all remEnd body hb, tokLoop_nil, prepend]

theorem tok_quote (old : Bool) (t : Table) (cd : Codec) (f : Nat) (s : St) (body : Bytes)
    (hb : ∀ x ∈ body, remEnd x = false) :
    tokLoop old t cd (f + 1) s (39 :: body) = .ok ([58, tREM, tOREM] ++ body) := by
  rw [tokLoop]
  simp [isBlank, isDigit, asciiOperators, readTo_all remEnd body hb, tokLoop_nil, prepend]

theorem tok_num (old : Bool) (t : Table) (cd : Codec) (f : Nat) (s : St) (c : Nat) (txt' tok R : Bytes)
    (hstart : c = 38 ∨ (s.an = true ∧ s.aj = false ∧ (isDigit c = true ∨ c = 46)))
    (hnum : tokNumber old cd (c :: (txt' ++ R)) = .ok (tok, R)) :
    tokLoop old t cd (f + 1) s (c :: (txt' ++ R)) = prepend tok (tokLoop old t cd f s R) := by
  rw [tokLoop]
  rcases hstart with rfl | ⟨h1, h2, h3⟩
  · simp [isBlank, isDigit, hnum]
  · rcases h3 with h3 | rfl
    · obtain ⟨_, g2, _, _, _, _, g7, g8, g9, g10, g11⟩ := isDigit_facts h3
      simp [g7, g9, g10, g11, h1, h2, h3, hnum]
    · simp [isBlank, h1, h2, hnum]

theorem tok_jump (old : Bool) (t : Table) (cd : Codec) (f : Nat) (s : St) (n : Nat) (R : Bytes)
    (h1 : s.an = true) (h2 : s.aj = true) (hn : n ≤ 65529) (hf : jumpFollowOK R = true) :
    tokLoop old t cd (f + 1) s (showBase 10 n ++ R) = prepend [tTUINT, lo n, hi n] (tokLoop old t cd f s R) := by
  have hr := readLineNum_showBase n hn R hf
  cases hs : showBase 10 n with
  | nil => exact absurd hs (showBase_ne_nil 10 n)
  | cons c cs =>
    have hc : isDigit c = true := showBase10_all_digit n c (by rw [hs]; exact List.mem_cons_self ..)
    obtain ⟨_, g2, _, _, _, _, g7, g8, g9, g10, g11⟩ := isDigit_facts hc
    rw [hs] at hr
    rw [List.cons_append] at hr ⊢
    rw [tokLoop]
    simp [g7, g9, g10, g11, h1, h2, hc, hr]




/-! ## the lister, item by item -/

theorem lst_char (old : Bool) (t : Table) (cd : Codec) (f : Nat) (lit com : Bool) (out : Bytes) (s : Nat) (R : Bytes)
    (h0 : s ≠ 0) (h34 : s ≠ 34) (hl : isLead s = false) (hp : com = true ∨ lit = true ∨ (32 ≤ s ∧ s ≤ 126)) :
    listLoop old t cd (f + 1) lit com out (s :: R) = listLoop old t cd f lit com (out ++ [s]) R := by
  rw [listLoop]
  have hl' : ¬ (s ∈ numberLeads ∨ s ∈ lineNumberLeads) := by simpa [isLead] using hl
  have hp' : (com = true ∨ lit = true) ∨ 32 ≤ s ∧ s ≤ 126 := by
    rcases hp with h | h | h
    · exact Or.inl (Or.inl h)
    · exact Or.inl (Or.inr h)
    · exact Or.inr h
  simp [h0, h34, hl', hp']

theorem lst_printable (old : Bool) (t : Table) (cd : Codec) (lit com : Bool) (R : Bytes) : ∀ (b : Bytes) (f : Nat)
    (out : Bytes), (∀ c ∈ b, 32 ≤ c ∧ c ≤ 126 ∧ c ≠ 34) →
    listLoop old t cd (f + b.length) lit com out (b ++ R) = listLoop old t cd f lit com (out ++ b) R := by
  intro b
  induction b with
  | nil => intro f out _; simp
  | cons c b ih =>
    intro f out h
    have hc := h c (List.mem_cons_self ..)
    have e : f + (c :: b).length = (f + b.length) + 1 := by simp; omega
    rw [e, List.cons_append, lst_char old t cd _ lit com out c _ (by omega) hc.2.2 (not_lead_of_ge hc.1)
      (Or.inr (Or.inr ⟨hc.1, hc.2.1⟩)), ih f _ (fun d hd => h d (List.mem_cons_of_mem _ hd))]
    simp

theorem lst_lit (old : Bool) (t : Table) (cd : Codec) (com : Bool) (R : Bytes) : ∀ (b : Bytes) (f : Nat)
    (out : Bytes), (∀ c ∈ b, strChar c = true) →
    listLoop old t cd (f + b.length) true com out (b ++ R) = listLoop old t cd f true com (out ++ b) R := by
  intro b
  induction b with
  | nil => intro f out _; simp
  | cons c b ih =>
    intro f out h
    have hc := strChar_facts (h c (List.mem_cons_self ..))
    have e : f + (c :: b).length = (f + b.length) + 1 := by simp; omega
    rw [e, List.cons_append, lst_char old t cd _ true com out c _ hc.1 hc.2.1 hc.2.2.2
      (Or.inr (Or.inl rfl)), ih f _ (fun d hd => h d (List.mem_cons_of_mem _ hd))]
    simp

theorem lst_quote (old : Bool) (t : Table) (cd : Codec) (f : Nat) (lit com : Bool) (out R : Bytes) :
    listLoop old t cd (f + 1) lit com out (34 :: R) = listLoop old t cd f (!lit) com (out ++ [34]) R := by
  rw [listLoop]; simp

theorem lst_str (old : Bool) (t : Table) (cd : Codec) (f : Nat) (out b R : Bytes) (hb : ∀ c ∈ b, strChar c = true) :
    listLoop old t cd (f + (b.length + 2)) false false out (34 :: (b ++ 34 :: R))
      = listLoop old t cd f false false (out ++ (34 :: b ++ [34])) R := by
  have e : f + (b.length + 2) = ((f + 1) + b.length) + 1 := by omega
  rw [e, lst_quote]
  simp only [Bool.not_false]
  rw [lst_lit old t cd false (34 :: R) b (f + 1) _ hb, lst_quote]
  simp

theorem listLoop_nil' (old : Bool) (t : Table) (cd : Codec) (f : Nat) (lit com : Bool) (out : Bytes) :
    listLoop old t cd f lit com out [] = .ok out := by
  cases f <;> simp [listLoop]

theorem lst_str_open (old : Bool) (t : Table) (cd : Codec) (f : Nat) (out b : Bytes) (hb : ∀ c ∈ b, strChar c = true) :
    listLoop old t cd (f + (b.length + 1)) false false out (34 :: b) = .ok (out ++ 34 :: b) := by
  have e : f + (b.length + 1) = (f + b.length) + 1 := by omega
  rw [e, lst_quote]
  simp only [Bool.not_false]
  have := lst_lit old t cd false [] b f (out ++ [34]) hb
  simp only [List.append_nil] at this
  rw [this, listLoop_nil']
  simp

theorem lst_tab (old : Bool) (t : Table) (cd : Codec) (f : Nat) (out R : Bytes) :
    listLoop old t cd (f + 1) false false out (9 :: R) = listLoop old t cd f false false (out ++ [9]) R := by
  rw [listLoop]; simp [numberLeads, lineNumberLeads]

/-- a comment body: runs to the end of the line -/
def remChar (c : Nat) : Bool := c != 0 && !isLead c

theorem lst_comment (old : Bool) (t : Table) (cd : Codec) : ∀ (b : Bytes) (g : Nat) (lit : Bool) (out : Bytes),
    b.length ≤ g → (∀ c ∈ b, remChar c = true) → listLoop old t cd g lit true out b = .ok (out ++ b) := by
  intro b
  induction b with
  | nil => intro g lit out _ _; cases g <;> simp [listLoop]
  | cons c b ih =>
    intro g lit out hg h
    obtain ⟨g', rfl⟩ : ∃ g', g = g' + 1 := ⟨g - 1, by simp at hg; omega⟩
    have hc := h c (List.mem_cons_self ..)
    simp only [remChar, Bool.and_eq_true, bne_iff_ne, Bool.not_eq_true'] at hc
    have hb := fun d hd => h d (List.mem_cons_of_mem _ hd)
    by_cases h34 : c = 34
    · subst h34
      rw [lst_quote, ih g' _ _ (by simp at hg; omega) hb]; simp
    · rw [lst_char old t cd g' lit true out c b hc.1 h34 hc.2 (Or.inl rfl), ih g' _ _ (by simp at hg; omega) hb]
      simp

theorem lst_num (old : Bool) (t : Table) (cd : Codec) (f : Nat) (lit com : Bool) (out : Bytes) (lead : Nat)
    (pay txt R : Bytes) (hl : isLead lead = true) (hn : listNumber old cd lead (pay ++ R) = .ok (txt, R)) :
    listLoop old t cd (f + 1) lit com out (lead :: (pay ++ R)) = listLoop old t cd f lit com (out ++ txt) R := by
  rw [listLoop]
  have h0 : lead ≠ 0 := by intro e; subst e; simp [isLead, numberLeads, lineNumberLeads] at hl
  have h34 : lead ≠ 34 := by intro e; subst e; simp [isLead, numberLeads, lineNumberLeads] at hl
  have hl' : lead ∈ numberLeads ∨ lead ∈ lineNumberLeads := by simpa [isLead] using hl
  simp [h0, h34, hl', hn]

/-- token bytes (all ≥ 127) reach `_detokenise_keyword_into` -/
theorem lst_token (old : Bool) (t : Table) (cd : Codec) (f : Nat) (out : Bytes) (x : Nat) (R : Bytes) (hx : 127 ≤ x) :
    listLoop old t cd (f + 1) false false out (x :: R)
      = listLoop old t cd f false (listKeyword t x out R).2.2 (listKeyword t x out R).1 (listKeyword t x out R).2.1 := by
  rw [listLoop]
  have hl0 := not_lead_of_ge (s := x) (by omega)
  have hl : ¬ (x ∈ numberLeads ∨ x ∈ lineNumberLeads) := by simpa [isLead] using hl0
  have h1 : ¬ (32 ≤ x ∧ x ≤ 126) := by omega
  have h2 : x ≠ 0 := by omega
  have h3 : x ≠ 34 := by omega
  have h4 : x ≠ 10 := by omega
  have h5 : ¬ x ≤ 9 := by omega
  simp [hl, h1, h2, h3, h4, h5]

/-- the text so far does not end in a letter or digit (else the lister would put a blank before a keyword) -/
def prevOK (out : Bytes) : Bool := !lastIsAlnum out



def isQuietTok (x : Nat) : Bool := x == tTAB || x == tSPC || x == tUSR || x == tFN

theorem prev_match {out : Bytes} (h : prevOK out = true) : lastIsAlnum out = false := by
  simpa [prevOK] using h

theorem lastIsAlnum_colon (out : Bytes) : lastIsAlnum (out ++ [58]) = false := by
  simp [lastIsAlnum, isAlnum, isLetter, isUpper, isLower, isDigit]

theorem listKeyword_plain1 (t : Table) (x : Nat) (kw out R : Bytes) (hk : toKeyword t [x] = some kw)
    (hop : operatorToks.contains x = false) (hprev : prevOK out = true)
    (h1 : x ≠ tREM) (h2 : x ≠ tOREM) (h3 : x ≠ tELSE)
    (hq : isQuietTok x = true ∨ followsNoSpace R.head? = true) :
    listKeyword t x out R = (out ++ kw, R, false) := by
  have hp := prev_match hprev
  have hop' : x ∉ operatorToks := by simpa using hop
  have h4 : x ≠ tOPLUS := by
    intro e; subst e; simp [operatorToks, tOPLUS] at hop
  unfold listKeyword
  simp only [hk]
  rcases hq with hq | hq
  · simp only [isQuietTok, Bool.or_eq_true, beq_iff_eq] at hq
    simp [hop', hp, h1, h2, h3, h4]
    intro a b c d
    rcases hq with ((hq | hq) | hq) | hq
    · exact absurd hq a
    · exact absurd hq b
    · exact absurd hq c
    · exact absurd hq d
  · simp [hop', hp, h1, h2, h3, h4, hq]

theorem listKeyword_plain2 (t : Table) (x y : Nat) (kw out R : Bytes) (hk1 : toKeyword t [x] = none)
    (hk : toKeyword t [x, y] = some kw) (hprev : prevOK out = true)
    (hq : followsNoSpace R.head? = true) :
    listKeyword t x out (y :: R) = (out ++ kw, R, false) := by
  have hp := prev_match hprev
  unfold listKeyword
  simp [hk1, hk, hp, hq]

theorem op_facts {x : Nat} (h : operatorToks.contains x = true) : x ≠ tREM ∧ x ≠ tOREM ∧ x ≠ tELSE ∧ 127 ≤ x := by
  simp only [operatorToks, List.contains_eq_mem, List.mem_cons, List.not_mem_nil, or_false, decide_eq_true_eq] at h
  simp only [tREM, tOREM, tELSE]
  omega

theorem listKeyword_op (t : Table) (x : Nat) (kw out R : Bytes) (hk : toKeyword t [x] = some kw)
    (hop : operatorToks.contains x = true) (hw : x = tOPLUS → kwWhile.isSuffixOf out = false) :
    listKeyword t x out R = (out ++ kw, R, false) := by
  obtain ⟨h1, h2, h3, _⟩ := op_facts hop
  have hop' : x ∈ operatorToks := by simpa using hop
  unfold listKeyword
  simp only [hk]
  by_cases hx : x = tOPLUS
  · have := hw hx
    simp [hop', h1, h2, h3, this]
  · simp [hop', h1, h2, h3, hx]

theorem listKeyword_else (t : Table) (kw out R : Bytes) (hk : toKeyword t [tELSE] = some kw)
    (hq : followsNoSpace R.head? = true) :
    listKeyword t tELSE (out ++ [58]) R = (out ++ kw, R, false) := by
  unfold listKeyword
  simp only [hk]
  simp [tELSE, tREM, tOREM, tOPLUS, tTAB, tSPC, tUSR, tFN, operatorToks, lastIsAlnum_colon, hq]

theorem listKeyword_whileplus (t : Table) (kw out R : Bytes) (hk : toKeyword t [tOPLUS] = some kw) :
    listKeyword t tOPLUS (out ++ kwWhile) R = (out ++ kwWhile, R, false) := by
  have hs : kwWhile.isSuffixOf (out ++ kwWhile) = true := by
    rw [List.isSuffixOf_iff_suffix]; exact List.suffix_append _ _
  unfold listKeyword
  simp only [hk]
  simp [tOPLUS, tREM, tOREM, tELSE, operatorToks, hs]

theorem listKeyword_rem (t : Table) (kw out body : Bytes) (hk : toKeyword t [tREM] = some kw)
    (hprev : prevOK out = true) (hb : body.head? ≠ some tOREM) :
    listKeyword t tREM out body = (out ++ kw, body, true) := by
  have hp := prev_match hprev
  unfold listKeyword
  simp only [hk]
  simp [tREM, tOPLUS, tELSE, operatorToks, hp]
  simp [tOREM] at hb
  simp [hb, tOREM]

theorem listKeyword_quote (t : Table) (kw out body : Bytes) (hk : toKeyword t [tREM] = some kw) :
    listKeyword t tREM (out ++ [58]) (tOREM :: body) = (out ++ kwOrem, body, true) := by
  unfold listKeyword
  simp only [hk]
  simp [tREM, tOREM, tOPLUS, tELSE, operatorToks, lastIsAlnum_colon]


end PcbV.TokL
