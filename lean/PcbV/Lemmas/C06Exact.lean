import PcbV.Lemmas.C06Order
/-
  C06 lemmas, part 2: the promotions used by mixed-type comparisons are exact.
  `from_int` for |n| < 2^w (so for every 16-bit integer in both formats) and `Double.from_single`.
-/
namespace PcbV.Mbf

theorem shiftDown_noop (fuel upper : Nat) (e : Int) (m : Nat) (h : m ≤ upper) :
    shiftDown fuel upper e m = (e, m) := by
  cases fuel with
  | zero => rfl
  | succ n => simp [shiftDown]; omega

/-- `from_int` is exact (no rounding, no overflow) for |n| < 2^w -/
theorem fromInt_exact {f : Fmt} (hf : f.WF) (hw : f.w ≤ 127) (n : Int) (hn : n.natAbs < 2 ^ f.w) :
    ∃ x, fromInt f n = .ok x ∧ x.Valid f ∧ val f x = (n : Rat) := by
  have h2 := two_signMask hf
  have hSpos := signMask_pos hf
  obtain ⟨h8, hbias, _, _, _, hs, hmask, hpos⟩ := hf
  have hposS : f.posMask + 1 = f.signMask := by rw [hpos, hs]; have := Nat.two_pow_pos (f.w - 1); omega
  have hmaskS : f.mask + 1 = 2 * f.signMask := by rw [hmask, h2]; have := Nat.two_pow_pos f.w; omega
  by_cases hn0 : n = 0
  · subst hn0
    refine ⟨zero, by simp [fromInt], ⟨Nat.two_pow_pos _, by decide⟩, by simp [val, zero]⟩
  · have hlog : Nat.log2 (f.posMask + 1) = f.w - 1 := by rw [hposS, hs, Nat.log2_two_pow]
    obtain ⟨k, hk, hsu, hl, hu⟩ := shiftUp_spec (f.posMask + 1) (Nat.log2 (f.posMask + 1) + 2) f.bias n.natAbs
      (by omega) (by rw [hposS, h2]; exact hn)
      (by
        rw [hlog, hposS, hs]
        calc 2 ^ (f.w - 1) ≤ 2 ^ (f.w - 1 + 2) := Nat.pow_le_pow_right (by decide) (by omega)
          _ = 1 * 2 ^ (f.w - 1 + 2) := by omega
          _ ≤ n.natAbs * 2 ^ (f.w - 1 + 2) := Nat.mul_le_mul_right _ (by omega))
    rw [hposS] at hl hu
    -- k < w since 2^k ≤ |n|·2^k < 2^w
    have hkw : k < f.w := by
      have : 2 ^ k < 2 ^ f.w := by
        calc 2 ^ k = 1 * 2 ^ k := by omega
          _ ≤ n.natAbs * 2 ^ k := Nat.mul_le_mul_right _ (by omega)
          _ < 2 ^ f.w := by omega
      exact (Nat.pow_lt_pow_iff_right (by decide)).1 this
    obtain ⟨M, hMdef⟩ : ∃ M, M = n.natAbs * 2 ^ k := ⟨_, rfl⟩
    rw [← hMdef] at hsu hl hu
    have hfrom : fromInt f n = checkLimits f (packMan f M (decide (n < 0))) ((f.bias : Int) - k) (decide (n < 0)) := by
      unfold fromInt bringToRange
      simp only [hn0, if_false, hsu]
      rw [shiftDown_noop _ _ _ _ (by omega)]
    have hexp : ¬ ((f.bias : Int) - k > 255) ∧ ¬ ((f.bias : Int) - k ≤ 0) := by omega
    have hck : fromInt f n = .ok ⟨packMan f M (decide (n < 0)), f.bias - k⟩ := by
      rw [hfrom]; unfold checkLimits
      simp only [hexp.1, hexp.2, if_false]
      congr 2; omega
    refine ⟨_, hck, ?_, ?_⟩
    · constructor
      · show packMan f M (decide (n < 0)) < 2 ^ f.w
        unfold packMan; split
        · rw [hmaskS, h2]; exact Nat.mod_lt _ (Nat.two_pow_pos _)
        · rw [hposS]; have := Nat.mod_lt M hSpos; omega
      · show f.bias - k < 256
        omega
    · have hXv : F.Valid f ⟨packMan f M (decide (n < 0)), f.bias - k⟩ := by
        constructor
        · show packMan f M (decide (n < 0)) < 2 ^ f.w
          unfold packMan; split
          · rw [hmaskS, h2]; exact Nat.mod_lt _ (Nat.two_pow_pos _)
          · rw [hposS]; have := Nat.mod_lt M hSpos; omega
        · show f.bias - k < 256
          omega
      have hMl : f.signMask ≤ M := hl
      have hMu : M < 2 * f.signMask := hu
      have hpow : (2:Rat) ^ k * (2:Rat) ^ (f.bias - k) = (2:Rat) ^ f.bias := by
        rw [← pow_add]; congr 1; omega
      have hp0 : (2:Rat) ^ f.bias ≠ 0 := by positivity
      rw [val_eq_smag]
      unfold smag mag manOf
      have he : ¬ (f.bias - k = 0) := by omega
      simp only [he, if_false]
      by_cases hneg : n < 0
      · have hpm : packMan f M (decide (n < 0)) = M := by
          unfold packMan; simp only [hneg, decide_true, if_true]; rw [hmaskS]; exact Nat.mod_eq_of_lt hMu
        have hN : isNeg f ⟨M, f.bias - k⟩ = true := by
          unfold isNeg; simp only [Nat.mod_eq_of_lt hMu]; simpa using hMl
        rw [hpm]; simp only [hN, if_true]
        have hnq : (n : Rat) = -((n.natAbs : Nat) : Rat) := by
          have h1 : (n.natAbs : Int) = -n := by omega
          rw [← Int.cast_natCast, h1, Int.cast_neg, neg_neg]
        rw [hnq, div_eq_iff hp0, ← hpow, hMdef]; simp only [Nat.cast_mul, Nat.cast_pow, Nat.cast_ofNat, Int.cast_neg, Int.cast_mul, Int.cast_natCast, Int.cast_pow, Int.cast_ofNat]; ring
      · have hpm : packMan f M (decide (n < 0)) = M - f.signMask := by
          unfold packMan; simp only [hneg, decide_false, Bool.false_eq_true, if_false]; rw [hposS]
          rw [Nat.mod_eq_sub_mod hMl, Nat.mod_eq_of_lt (by omega)]
        have hN : isNeg f ⟨M - f.signMask, f.bias - k⟩ = false := by
          unfold isNeg; simp only [Nat.mod_eq_of_lt (show M - f.signMask < 2 * f.signMask by omega)]
          simp; omega
        rw [hpm]; simp only [hN, Bool.false_eq_true, if_false]
        have hnq : (n : Rat) = ((n.natAbs : Nat) : Rat) := by
          have h1 : (n.natAbs : Int) = n := by omega
          rw [← Int.cast_natCast, h1]
        have hMM : M - f.signMask + f.signMask = M := by omega
        rw [hMM, hnq, div_eq_iff hp0, ← hpow, hMdef]; simp only [Nat.cast_mul, Nat.cast_pow, Nat.cast_ofNat, Int.cast_neg, Int.cast_mul, Int.cast_natCast, Int.cast_pow, Int.cast_ofNat]; ring


theorem fromSingle_valid {x : F} (hx : x.Valid single) : (fromSingle x).Valid double := by
  obtain ⟨hm, he⟩ := hx
  rw [single_w] at hm
  refine ⟨?_, he⟩
  show x.m * 2 ^ 32 < 2 ^ double.w
  rw [double_w]; omega

/-- `Double.from_single` is exact -/
theorem fromSingle_exact {x : F} (hx : x.Valid single) : val double (fromSingle x) = val single x := by
  have hs : single.signMask = 8388608 := by decide
  have hd : double.signMask = 36028797018963968 := by decide
  have hbs : single.bias = 152 := by decide
  have hbd : double.bias = 184 := by decide
  have hm := hx.1
  rw [single_w] at hm
  have hneg : isNeg double (fromSingle x) = isNeg single x := by
    unfold isNeg fromSingle; rw [hs, hd]
    simp only [decide_eq_decide]; omega
  have hman : manOf double (fromSingle x) = manOf single x * 2 ^ 32 := by
    unfold manOf; rw [hneg]
    split
    · rfl
    · show x.m * 2 ^ 32 + double.signMask = (x.m + single.signMask) * 2 ^ 32
      rw [hs, hd]; omega
  rw [val_eq_smag, val_eq_smag]
  unfold smag mag
  rw [hneg, hman, hbs, hbd]
  show (((if x.e = 0 then 0 else if isNeg single x = true then -((manOf single x * 2 ^ 32 * 2 ^ x.e : Nat) : Int)
      else ((manOf single x * 2 ^ 32 * 2 ^ x.e : Nat) : Int)) : Int) : Rat) / 2 ^ 184 = _
  have h184 : (2:Rat) ^ 184 = 2 ^ 32 * 2 ^ 152 := by norm_num
  rw [h184]
  by_cases he : x.e = 0
  · simp [he]
  · simp only [he, if_false]
    by_cases hn : isNeg single x = true
    · simp only [hn, if_true]; push_cast
      rw [div_eq_div_iff (by positivity) (by positivity)]; ring
    · simp only [hn, Bool.false_eq_true, if_false]; push_cast
      rw [div_eq_div_iff (by positivity) (by positivity)]; ring

end PcbV.Mbf
