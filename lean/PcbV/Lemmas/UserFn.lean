import PcbV.Model.UserFn
import PcbV.Lemmas.Heap
/-
  Lemmas for C20 (user-defined functions on the heap model): the extension preorder `Ext` on heaps
  (every existing pointer cell persists and reads the same, new scalar cells read empty, names are
  only appended), the state relation `Post`, and the facts about the heap operations used by
  `UserFn.evaluate` (collection, check_free, allocation of variables, registering a root, writing a
  cell, unwinding the roots).
-/
namespace PcbV.UserFn
open PcbV PcbV.Heap

/-! ### numeric scalars -/

theorem lookup_upsert_same (l : List (Bytes × Int)) (n : Bytes) (q : Int) :
    lookupNum (upsert l n q) n = some q := by
  induction l with
  | nil => simp [upsert, lookupNum]
  | cons x r ih =>
    obtain ⟨m, v⟩ := x
    by_cases h : m = n
    · simp [upsert, lookupNum, h]
    · simp [upsert, lookupNum, h, ih]

theorem lookup_upsert_ne (l : List (Bytes × Int)) (n m : Bytes) (q : Int) (h : n ≠ m) :
    lookupNum (upsert l n q) m = lookupNum l m := by
  induction l with
  | nil => simp [upsert, lookupNum, h]
  | cons x r ih =>
    obtain ⟨k, v⟩ := x
    by_cases hk : k = n
    · subst hk; simp [upsert, lookupNum, h]
    · by_cases hm : k = m
      · subst hm; simp [upsert, lookupNum, hk]
      · simp [upsert, lookupNum, hk, hm, ih]

theorem getNum_setNum_same (s : St) (n : Bytes) (q : Int) : getNum (setNum s n q) n = q := by
  simp [getNum, setNum, lookup_upsert_same]

theorem getNum_setNum_ne (s : St) (n m : Bytes) (q : Int) (h : n ≠ m) :
    getNum (setNum s n q) m = getNum s m := by
  simp [getNum, setNum, lookup_upsert_ne _ _ _ _ h]

/-! ### names and cells -/

/-- `findIdx` only looks at the names -/
def findName (name : Bytes) : List Bytes → Nat → Option Nat
  | [], _ => none
  | n :: r, i => if n = name then some i else findName name r (i + 1)

theorem findIdx_eq_findName {α : Type} (name : Bytes) (l : List (Bytes × α)) (k : Nat) :
    findIdx name l k = findName name (l.map (·.1)) k := by
  induction l generalizing k with
  | nil => rfl
  | cons x r ih =>
    obtain ⟨n, v⟩ := x
    simp only [findIdx, List.map, findName]
    split
    · rfl
    · exact ih _

theorem findName_append (name : Bytes) (a b : List Bytes) (k : Nat) :
    findName name (a ++ b) k =
      match findName name a k with
      | some i => some i
      | none => findName name b (k + a.length) := by
  induction a generalizing k with
  | nil => simp [findName]
  | cons x r ih =>
    simp only [List.cons_append, findName]
    split
    · rfl
    · rw [ih]
      simp only [List.length_cons]
      have : k + 1 + r.length = k + (r.length + 1) := by omega
      rw [this]

theorem findName_bounds (name : Bytes) (l : List Bytes) (k i : Nat) (h : findName name l k = some i) :
    k ≤ i ∧ l[i - k]? = some name := by
  induction l generalizing k with
  | nil => simp [findName] at h
  | cons x r ih =>
    simp only [findName] at h
    split at h
    · cases h
      rename_i hx
      simp [hx]
    · obtain ⟨h1, h2⟩ := ih _ h
      refine ⟨by omega, ?_⟩
      have : i - k = (i - (k + 1)) + 1 := by omega
      rw [this]
      simpa using h2

/-- a found name denotes an existing cell -/
theorem findIdx_cell (h : Heap) (name : Bytes) (i : Nat) (hf : findIdx name h.scalars 0 = some i) :
    ∃ p, getV h (.sc i) = some p := by
  rw [findIdx_eq_findName] at hf
  obtain ⟨_, h2⟩ := findName_bounds _ _ _ _ hf
  simp only [Nat.sub_zero, List.getElem?_map] at h2
  cases hx : h.scalars[i]? with
  | none => simp [hx] at h2
  | some x => exact ⟨x.2, by simp [getV, hx]⟩

/-! ### the extension preorder -/

/-- `h'` extends `h`: every pointer cell of `h` (scalars, array elements, own pointers on the root
    stack) exists in `h'` and reads the same bytes; scalar cells that are new in `h'` read empty;
    scalar names are only appended -/
structure Ext (h h' : Heap) : Prop where
  cells : ∀ l p, getLoc h l = some p → ∃ p', getLoc h' l = some p' ∧ deref h' p' = deref h p
  fresh : ∀ i p', getLoc h (.v (.sc i)) = none → getLoc h' (.v (.sc i)) = some p' → deref h' p' = []
  names : ∃ ex, h'.scalars.map (·.1) = h.scalars.map (·.1) ++ ex

theorem Ext.refl (h : Heap) : Ext h h :=
  ⟨fun _ p hp => ⟨p, hp, rfl⟩, fun i p' h1 h2 => (by rw [h1] at h2; cases h2), ⟨[], by simp⟩⟩

theorem Ext.trans {a b c : Heap} (h1 : Ext a b) (h2 : Ext b c) : Ext a c := by
  refine ⟨?_, ?_, ?_⟩
  · intro l p hp
    obtain ⟨p', hp', hd'⟩ := h1.cells l p hp
    obtain ⟨p'', hp'', hd''⟩ := h2.cells l p' hp'
    exact ⟨p'', hp'', hd''.trans hd'⟩
  · intro i p'' ha hc
    cases hb : getLoc b (.v (.sc i)) with
    | none => exact h2.fresh i p'' hb hc
    | some p' =>
      have e1 := h1.fresh i p' ha hb
      obtain ⟨q, hq, hd⟩ := h2.cells _ p' hb
      rw [hc] at hq
      cases hq
      rw [hd, e1]
  · obtain ⟨x, hx⟩ := h1.names
    obtain ⟨y, hy⟩ := h2.names
    exact ⟨x ++ y, by rw [hy, hx, List.append_assoc]⟩

/-- heaps that agree on cells, string space and configuration -/
theorem Ext.of_same (h h' : Heap) (hc : ∀ l, getLoc h' l = getLoc h l) (hd : ∀ p, deref h' p = deref h p)
    (hn : h'.scalars.map (·.1) = h.scalars.map (·.1)) : Ext h h' :=
  ⟨fun l p hp => ⟨p, by rw [hc]; exact hp, hd p⟩,
   fun i p' h1 h2 => (by rw [hc, h1] at h2; cases h2), ⟨[], by simp [hn]⟩⟩

/-- reading a string scalar by name, from the cells -/
def readH (h : Heap) (name : Bytes) : Bytes :=
  match findIdx name h.scalars 0 with
  | some i => deref h ((getV h (.sc i)).getD Ptr.null)
  | none => []

theorem readStr_eq (s : St) (name : Bytes) : readStr s name = readH s.h name := by
  unfold readStr readDst dstLoc readH
  cases hf : findIdx name s.h.scalars 0 <;> simp [hf]

theorem Ext.find_idx {h h' : Heap} (e : Ext h h') (name : Bytes) (i : Nat)
    (hf : findIdx name h.scalars 0 = some i) : findIdx name h'.scalars 0 = some i := by
  obtain ⟨ex, hex⟩ := e.names
  rw [findIdx_eq_findName] at hf ⊢
  rw [hex, findName_append, hf]

theorem Ext.read {h h' : Heap} (e : Ext h h') (name : Bytes) : readH h' name = readH h name := by
  unfold readH
  cases hf : findIdx name h.scalars 0 with
  | some i =>
    rw [e.find_idx name i hf]
    obtain ⟨p, hp⟩ := findIdx_cell h name i hf
    obtain ⟨p', hp', hd⟩ := e.cells (.v (.sc i)) p hp
    have hp'' : getV h' (.sc i) = some p' := hp'
    simp [hp, hp'', hd]
  | none =>
    simp only
    cases hf' : findIdx name h'.scalars 0 with
    | none => rfl
    | some j =>
      simp only
      obtain ⟨p', hp'⟩ := findIdx_cell h' name j hf'
      have hnone : getLoc h (.v (.sc j)) = none := by
        obtain ⟨ex, hex⟩ := e.names
        rw [findIdx_eq_findName] at hf hf'
        rw [hex, findName_append, hf] at hf'
        simp only [Nat.zero_add] at hf'
        obtain ⟨hb, _⟩ := findName_bounds _ _ _ _ hf'
        simp only [List.length_map] at hb
        simp only [getLoc, getV]
        rw [List.getElem?_eq_none (by omega)]
        rfl
      rw [hp']
      exact e.fresh j p' hnone hp'

/-! ### heap operations -/

theorem getLoc_v_congr (t s : Heap) (h1 : t.scalars = s.scalars) (h2 : t.arrays = s.arrays) (l : VLoc) :
    getLoc t (.v l) = getLoc s (.v l) := by
  cases l <;> simp [getLoc, getV, h1, h2]

/-- a forced collection -/
theorem collect_ext (s s' : Heap) (hs : WF s) (h : collect s = .ok s') :
    WF s' ∧ Ext s s' ∧ s'.stack.length = s.stack.length := by
  obtain ⟨t, last, hr, hsh, e1, e2, e3, e4, e5, e6, e7, e8, e9, e10, _, _⟩ := collect_facts s s' hs h
  obtain ⟨hb, hl, hv⟩ := hr.final
  have hg : ∀ l, getLoc s' l = getLoc t l := getLoc_congr s' t e8 e9 e10
  have hd : ∀ p, deref s' p = deref t p := fun p => deref_congr t s' p e5 e6 e7 e1
  refine ⟨⟨?_, ?_⟩, ⟨?_, ?_, ?_⟩, ?_⟩
  · rw [e2, e1, top_congr s' t e3 e4]; exact hb
  · intro l p hp h0 hvs
    rw [hg] at hp
    rw [e5] at hvs
    obtain ⟨b, hb1, hb2⟩ := hl l p hp h0 hvs
    exact ⟨b, by rw [e1]; exact hb1, hb2⟩
  · intro l p hp
    have := hv l
    rw [hp] at this
    cases ht : getLoc t l with
    | none => rw [ht] at this; cases this
    | some p' =>
      rw [ht] at this
      simp only [Option.map, Option.some.injEq] at this
      exact ⟨p', by rw [hg]; exact ht, by rw [hd]; exact this⟩
  · intro i p' hn hp'
    have := hv (.v (.sc i))
    rw [hn, ← hg, hp'] at this
    cases this
  · exact ⟨[], by rw [e8, hsh.sc]; simp⟩
  · rw [e10]
    have := congrArg List.length hsh.st
    simpa using this

theorem checkFree_ext (size err : Nat) (s : Heap) (hs : WF s) :
    match checkFree size err s with
    | .ok s' => WF s' ∧ Ext s s' ∧ s'.stack.length = s.stack.length
    | .error (_, s') => WF s' ∧ Ext s s' ∧ s'.stack.length = s.stack.length := by
  unfold checkFree
  by_cases hlow : lowMem s size = true
  · rw [if_pos hlow]
    obtain ⟨es, he⟩ := entriesOf_total s hs (rootLocs s)
    obtain ⟨tmp, h1⟩ := collect_shape s es he
    generalize hs1 : ({ restore { s with strs := [], current := s.top } none (sortDesc es) with temp := tmp } : Heap) = s1 at h1
    rw [h1]
    have := collect_ext s s1 hs h1
    by_cases hlow1 : lowMem s1 size = true
    · simp only [if_pos hlow1]; exact this
    · simp only [if_neg hlow1]; exact this
  · rw [if_neg hlow]
    exact ⟨hs, Ext.refl s, rfl⟩

/-- a heap that differs only in the byte counters -/
theorem ext_bytes (s : Heap) (hs : WF s) (n : Nat) :
    WF { s with scalBytes := n } ∧ Ext s { s with scalBytes := n } :=
  ⟨⟨hs.blocks, fun l p hp => hs.live l p ((getLoc_congr _ s rfl rfl rfl l).symm.trans hp)⟩,
   Ext.of_same _ _ (fun l => getLoc_congr _ s rfl rfl rfl l) (fun p => deref_congr s _ p rfl rfl rfl rfl) rfl⟩

theorem allocNum_ext (n : Nat) (s : Heap) (hs : WF s) :
    match allocNum n s with
    | .ok s' => WF s' ∧ Ext s s' ∧ s'.stack.length = s.stack.length
    | .error (_, s') => WF s' ∧ Ext s s' ∧ s'.stack.length = s.stack.length := by
  unfold allocNum
  have := checkFree_ext n Gen.E.out_of_memory s hs
  cases hc : checkFree n Gen.E.out_of_memory s with
  | error x => obtain ⟨e, t⟩ := x; rw [hc] at this; exact this
  | ok t =>
    rw [hc] at this
    obtain ⟨hw, he, hl⟩ := this
    obtain ⟨hw2, he2⟩ := ext_bytes t hw (t.scalBytes + n)
    exact ⟨hw2, he.trans he2, hl⟩

theorem getElem?_append_new {α : Type} (l : List α) (x : α) (i : Nat) :
    (l ++ [x])[i]? = if i < l.length then l[i]? else if i = l.length then some x else none := by
  by_cases h : i < l.length
  · simp [h, List.getElem?_append_left h]
  · by_cases h2 : i = l.length
    · subst h2; simp
    · have : l.length + 1 ≤ i := by omega
      simp [h, h2, List.getElem?_eq_none (l := l ++ [x]) (by simp; omega)]

/-- `Scalars.set(name)` for a string name: afterwards the cell exists -/
theorem ensureScalar_ext (name : Bytes) (s : Heap) (hs : WF s) :
    match ensureScalar name s with
    | .ok s' => WF s' ∧ Ext s s' ∧ s'.stack.length = s.stack.length ∧ ∃ i, findIdx name s'.scalars 0 = some i
    | .error (_, s') => WF s' ∧ Ext s s' ∧ s'.stack.length = s.stack.length := by
  unfold ensureScalar
  cases hf : findIdx name s.scalars 0 with
  | some i => exact ⟨hs, Ext.refl s, rfl, i, hf⟩
  | none =>
    simp only
    have := checkFree_ext (scalarSize name) Gen.E.out_of_memory s hs
    cases hc : checkFree (scalarSize name) Gen.E.out_of_memory s with
    | error x => obtain ⟨e, t⟩ := x; rw [hc] at this; exact this
    | ok t =>
      rw [hc] at this
      obtain ⟨hw, he, hl⟩ := this
      simp only
      -- the new heap
      have hgv : ∀ l p, getLoc t l = some p →
          getLoc { t with scalBytes := t.scalBytes + scalarSize name, scalars := t.scalars ++ [(name, Ptr.null)] } l
            = some p := by
        intro l p hp
        cases l with
        | s k => exact hp
        | v l =>
          cases l with
          | el a i => exact hp
          | sc i =>
            simp only [getLoc, getV] at hp ⊢
            rw [getElem?_append_new]
            cases hx : t.scalars[i]? with
            | none => rw [hx] at hp; cases hp
            | some x =>
              have : i < t.scalars.length := (List.getElem?_eq_some_iff.mp hx).1
              rw [if_pos this]
              rw [hx] at hp
              exact hp
      have hcell : ∀ l q,
          getLoc { t with scalBytes := t.scalBytes + scalarSize name, scalars := t.scalars ++ [(name, Ptr.null)] } l
            = some q → getLoc t l = some q ∨ (q = Ptr.null ∧ getLoc t l = none) := by
        intro l q hq
        cases l with
        | s k => exact Or.inl hq
        | v l =>
          cases l with
          | el a i => exact Or.inl hq
          | sc i =>
            simp only [getLoc, getV] at hq ⊢
            rw [getElem?_append_new] at hq
            by_cases h1 : i < t.scalars.length
            · rw [if_pos h1] at hq; exact Or.inl hq
            · rw [if_neg h1] at hq
              by_cases h2 : i = t.scalars.length
              · rw [if_pos h2] at hq
                simp at hq
                right
                exact ⟨hq.symm, by rw [List.getElem?_eq_none (by omega)]; rfl⟩
              · rw [if_neg h2] at hq; cases hq
      have hd : ∀ p, deref { t with scalBytes := t.scalBytes + scalarSize name,
                                     scalars := t.scalars ++ [(name, Ptr.null)] } p = deref t p :=
        fun p => deref_congr t _ p rfl rfl rfl rfl
      refine ⟨⟨hw.blocks, ?_⟩, he.trans ⟨?_, ?_, ?_⟩, hl, ?_⟩
      · intro l q hq
        rcases hcell l q hq with h1 | ⟨h1, _⟩
        · exact hw.live l q h1
        · intro h0; rw [h1] at h0; cases h0
      · intro l p hp
        exact ⟨p, hgv l p hp, hd p⟩
      · intro i q hn hq
        rcases hcell _ q hq with h1 | ⟨h1, _⟩
        · rw [hn] at h1; cases h1
        · rw [hd, h1]; rfl
      · exact ⟨[name], by simp⟩
      · -- the name is found in the new list
        have hex : ∃ i, findName name ((t.scalars ++ [(name, Ptr.null)]).map (·.1)) 0 = some i := by
          rw [List.map_append, findName_append]
          cases findName name (t.scalars.map (·.1)) 0 with
          | some i => exact ⟨i, rfl⟩
          | none => exact ⟨0 + (t.scalars.map (·.1)).length, by simp [findName]⟩
        obtain ⟨i, hi⟩ := hex
        exact ⟨i, by rw [findIdx_eq_findName]; exact hi⟩

/-- a pointer that is safe to register or to write into a cell -/
theorem live_null (h : Heap) : Live h Ptr.null := fun h0 => by cases h0

theorem live_of_getV (h : Heap) (hw : WF h) (o : Option Ptr) (ho : ∀ p, o = some p → ∃ l, getLoc h l = some p) :
    Live h (o.getD Ptr.null) := by
  cases o with
  | none => exact live_null h
  | some p =>
    obtain ⟨l, hl⟩ := ho p rfl
    exact hw.live l p hl

theorem live_slotPtr (h : Heap) (hw : WF h) (k : Nat) : Live h (slotPtr h k) := by
  unfold slotPtr
  cases hx : h.stack[k]? with
  | none => exact live_null h
  | some it =>
    cases it with
    | own p =>
      have : getLoc h (.s k) = some p := by simp [getLoc, hx]
      exact hw.live _ p this
    | ref l =>
      simp only [Option.getD, itemPtr]
      cases hv : getV h l with
      | none => exact live_null h
      | some p => exact hw.live (.v l) p hv

/-- registering a live pointer as a root -/
theorem push_ext (h : Heap) (hw : WF h) (p : Ptr) (hp : Live h p) :
    WF (push h (.own p)) ∧ Ext h (push h (.own p)) ∧
    getLoc (push h (.own p)) (.s h.stack.length) = some p := by
  have hd : ∀ q, deref (push h (.own p)) q = deref h q := fun q => deref_congr h _ q rfl rfl rfl rfl
  have hold : ∀ l q, getLoc h l = some q → getLoc (push h (.own p)) l = some q := by
    intro l q hq
    cases l with
    | v l => rw [getLoc_push_v]; exact hq
    | s k =>
      simp only [getLoc, push] at hq ⊢
      cases hx : h.stack[k]? with
      | none => rw [hx] at hq; cases hq
      | some it =>
        have : k < h.stack.length := (List.getElem?_eq_some_iff.mp hx).1
        rw [List.getElem?_append_left this, hx]
        rw [hx] at hq
        exact hq
  have hnew : getLoc (push h (.own p)) (.s h.stack.length) = some p := by
    simp [getLoc, push]
  refine ⟨⟨hw.blocks, ?_⟩, ⟨fun l q hq => ⟨q, hold l q hq, hd q⟩, ?_, ⟨[], by simp [push]⟩⟩, hnew⟩
  · intro l q hq
    cases l with
    | v l => rw [getLoc_push_v] at hq; exact hw.live _ q hq
    | s k =>
      by_cases hk : k < h.stack.length
      · have : getLoc h (.s k) = some q := by
          simp only [getLoc, push] at hq ⊢
          rw [List.getElem?_append_left hk] at hq
          exact hq
        exact hw.live _ q this
      · by_cases hk2 : k = h.stack.length
        · subst hk2
          rw [hnew] at hq
          cases hq
          exact hp
        · simp only [getLoc, push] at hq
          rw [List.getElem?_eq_none (by simp; omega)] at hq
          cases hq
  · intro i q hn hq
    rw [getLoc_push_v] at hq
    rw [hn] at hq
    cases hq

/-- dropping roots -/
theorem unwind_ext (h0 h : Heap) (hw : WF h) (e : Ext h0 h) (n : Nat) (hn : h0.stack.length ≤ n) :
    WF { h with stack := h.stack.take n } ∧ Ext h0 { h with stack := h.stack.take n } := by
  have hd : ∀ q, deref { h with stack := h.stack.take n } q = deref h q :=
    fun q => deref_congr h _ q rfl rfl rfl rfl
  have hsub : ∀ l q, getLoc { h with stack := h.stack.take n } l = some q → getLoc h l = some q := by
    intro l q hq
    cases l with
    | v l => exact (getLoc_v_congr _ h rfl rfl l).symm.trans hq
    | s k =>
      simp only [getLoc] at hq ⊢
      by_cases hk : k < n
      · rw [List.getElem?_take_of_lt hk] at hq; exact hq
      · rw [List.getElem?_eq_none (by simp; omega)] at hq; cases hq
  refine ⟨⟨hw.blocks, fun l q hq => hw.live l q (hsub l q hq)⟩, ⟨?_, ?_, e.names⟩⟩
  · intro l p hp
    obtain ⟨p', hp', hdd⟩ := e.cells l p hp
    refine ⟨p', ?_, by rw [hd]; exact hdd⟩
    cases l with
    | v l => exact (getLoc_v_congr _ h rfl rfl l).trans hp'
    | s k =>
      have hk : k < h0.stack.length := by
        simp only [getLoc] at hp
        cases hx : h0.stack[k]? with
        | none => rw [hx] at hp; cases hp
        | some it => exact (List.getElem?_eq_some_iff.mp hx).1
      simp only [getLoc] at hp' ⊢
      rw [List.getElem?_take_of_lt (by omega)]
      exact hp'
  · intro i q hn' hq
    rw [hd]
    exact e.fresh i q hn' (hsub _ q hq)

end PcbV.UserFn
