import PcbV.Lemmas.C03Rat
import PcbV.Lemmas.C03Norm
/-
  Value-level facts for `Double.to_single`: position of a double between two adjacent singles.
-/
namespace PcbV.Mbf

theorem pow2_eq_zpow (k : Int) : pow2 k = (2 : Rat) ^ k := by
  unfold pow2
  split
  · next h =>
    conv_rhs => rw [← Int.toNat_of_nonneg h]
    rw [zpow_natCast]
  · next h =>
    have : k = -((-k).toNat : Int) := by omega
    conv_rhs => rw [this]
    rw [zpow_neg, zpow_natCast, one_div]

theorem pow2_add (a b : Int) : pow2 (a + b) = pow2 a * pow2 b := by
  rw [pow2_eq_zpow, pow2_eq_zpow, pow2_eq_zpow, zpow_add₀ (by norm_num)]

theorem pow2_succ (a : Int) : pow2 (a + 1) = 2 * pow2 a := by
  rw [pow2_add, mul_comm]; congr 1

/-- value in the `val` form with the sign factor -/
theorem val_eq' (f : Fmt) (x : F) (he : x.e ≠ 0) :
    val f x = sg f x * (manOf f x : Rat) * pow2 ((x.e : Int) - f.bias) := by
  unfold val sg; simp only [he, if_false]

theorem val_pack' {f : Fmt} (hf : f.WF) (M e : Nat) (neg : Bool) (h1 : 2 ^ (f.w - 1) ≤ M) (h2 : M < 2 ^ f.w)
    (he0 : e ≠ 0) (he : e < 256) :
    val f ⟨packMan f M neg, e⟩ = (if neg then -1 else 1) * (M : Rat) * pow2 ((e : Int) - f.bias) := by
  obtain ⟨_, hn, hm⟩ := pack_spec hf M e neg h1 h2 he
  rw [val_eq' f _ he0]
  unfold sg
  rw [hn, hm]

/-- the single made of the top four bytes of a double (truncation) -/
def hiSingle (x : F) : F := ⟨x.m / 2 ^ 32, x.e⟩
/-- its 24-bit mantissa with the implied bit -/
def hiMan (x : F) : Nat := manOf single (hiSingle x)
/-- the discarded fraction of a single ulp, in [0,1) -/
def frac (x : F) : Rat := ((x.m % 2 ^ 32 : Nat) : Rat) / 2 ^ 32
/-- the single-precision unit in the last place at this exponent -/
def ulpS (x : F) : Rat := pow2 ((x.e : Int) - 152)
/-- the carry byte looked at by `to_single` -/
def carry (x : F) : Nat := x.m / 2 ^ 24 % 256

section dbl
variable {x : F} (hx : F.Valid double x)
include hx

theorem hiSingle_valid : F.Valid single (hiSingle x) := by
  have hm : x.m < 2 ^ 56 := hx.1
  exact ⟨by show x.m / 2 ^ 32 < 2 ^ 24; omega, hx.2⟩

theorem hiSingle_neg : isNeg single (hiSingle x) = isNeg double x := by
  have hm : x.m < 2 ^ 56 := hx.1
  rw [isNeg_iff single_wf (hiSingle_valid hx), isNeg_iff double_wf hx]
  show decide (2 ^ 23 ≤ x.m / 2 ^ 32) = decide (2 ^ 55 ≤ x.m)
  apply decide_eq_decide.mpr; omega

theorem manOf_double_split : manOf double x = hiMan x * 2 ^ 32 + x.m % 2 ^ 32 := by
  have hn := hiSingle_neg hx
  unfold hiMan manOf
  rw [hn]
  show (if isNeg double x = true then x.m else x.m + 2 ^ 55) =
    (if isNeg double x = true then x.m / 2 ^ 32 else x.m / 2 ^ 32 + 2 ^ 23) * 2 ^ 32 + x.m % 2 ^ 32
  split <;> omega

theorem frac_bounds : 0 ≤ frac x ∧ frac x < 1 := by
  unfold frac
  constructor
  · positivity
  · rw [div_lt_one (by positivity)]
    have : x.m % 2 ^ 32 < 2 ^ 32 := Nat.mod_lt _ (by decide)
    exact_mod_cast this

theorem val_double_split (he : x.e ≠ 0) :
    val double x = sg double x * ((hiMan x : Rat) + frac x) * ulpS x := by
  rw [val_eq' double x he, manOf_double_split hx]
  unfold frac ulpS
  have : ((x.e : Int) - double.bias) = ((x.e : Int) - 152) + (-32) := by
    show (x.e : Int) - (184 : Nat) = _; omega
  rw [this, pow2_add]
  have : pow2 (-32) = 1 / 2 ^ 32 := by
    unfold pow2
    have h32 : (-(-32 : Int)).toNat = 32 := by decide
    rw [if_neg (by decide), h32]
  rw [this]
  simp only [Nat.cast_add, Nat.cast_mul, Nat.cast_pow, Nat.cast_ofNat]
  field_simp

/-- the carry byte against the discarded fraction -/
theorem carry_frac : ((carry x : Nat) : Rat) / 256 ≤ frac x ∧ frac x < ((carry x : Nat) + 1 : Rat) / 256 ∧
    (frac x = 1 / 2 → carry x = 128) := by
  have hm : x.m < 2 ^ 56 := hx.1
  unfold frac carry
  have h1 : (x.m / 2 ^ 24 % 256) * 2 ^ 24 ≤ x.m % 2 ^ 32 := by omega
  have h2 : x.m % 2 ^ 32 < (x.m / 2 ^ 24 % 256 + 1) * 2 ^ 24 := by omega
  have h1' : ((x.m / 2 ^ 24 % 256 : Nat) : Rat) * 2 ^ 24 ≤ ((x.m % 2 ^ 32 : Nat) : Rat) := by exact_mod_cast h1
  have h2' : ((x.m % 2 ^ 32 : Nat) : Rat) < (((x.m / 2 ^ 24 % 256 : Nat) : Rat) + 1) * 2 ^ 24 := by exact_mod_cast h2
  refine ⟨?_, ?_, ?_⟩
  · rw [div_le_iff₀ (by norm_num), div_mul_eq_mul_div, le_div_iff₀ (by positivity)]
    norm_num at h1' ⊢
    linarith
  · rw [lt_div_iff₀ (by norm_num), div_mul_eq_mul_div, div_lt_iff₀ (by positivity)]
    norm_num at h2' ⊢
    linarith
  · intro h
    rw [div_eq_iff (by positivity)] at h
    have h3 : ((x.m % 2 ^ 32 : Nat) : Rat) = ((2 ^ 31 : Nat) : Rat) := by rw [h]; norm_num
    have h4 : x.m % 2 ^ 32 = 2 ^ 31 := by exact_mod_cast h3
    omega

end dbl

end PcbV.Mbf
