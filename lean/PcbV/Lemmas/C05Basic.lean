import PcbV.Lemmas.MbfBasic
import PcbV.Model.MbfMulFixed
/-
  C05 lemmas, part 1: the mask shapes in terms of S = 2^(w-1); sign bit operations;
  `normalise` of an already normalised mantissa gives the value back.
-/
namespace PcbV.Mbf

/-- all masks of a well-formed format expressed through `S = signMask = 2^(w-1)` -/
theorem wf_S (f : Fmt) (h : f.WF) :
    128 ≤ f.signMask ∧ f.mask + 1 = 2 * f.signMask ∧ f.posMask + 1 = f.signMask ∧
    f.denMask = 256 * f.signMask ∧ f.denUpper = 512 * f.signMask ∧ 2 ^ f.w = 2 * f.signMask ∧
    f.carryMask = 512 * f.signMask - 256 ∧ f.bias = 128 + f.w := by
  obtain ⟨hw, hb, hdm, hdu, hcm, hsm, hm, hpm⟩ := h
  obtain ⟨k, hk⟩ : ∃ k, f.w = k + 8 := ⟨f.w - 8, by omega⟩
  rw [hk] at hb hdm hdu hcm hsm hm hpm ⊢
  have e1 : k + 8 - 1 = k + 7 := by omega
  rw [e1] at hsm hpm
  have p7 : 2 ^ (k + 7) = 128 * 2 ^ k := by rw [Nat.pow_add]; omega
  have p8 : 2 ^ (k + 8) = 256 * 2 ^ k := by rw [Nat.pow_add]; omega
  have p15 : 2 ^ (k + 8 + 7) = 32768 * 2 ^ k := by rw [Nat.pow_add, Nat.pow_add]; omega
  have p16 : 2 ^ (k + 8 + 8) = 65536 * 2 ^ k := by rw [Nat.pow_add, Nat.pow_add]; omega
  have pk : 1 ≤ 2 ^ k := Nat.one_le_two_pow
  rw [hsm, hm, hpm, hdm, hdu, hcm, hb, p7, p8, p15, p16]
  omega

theorem isNeg_iff (f : Fmt) (h : f.WF) (x : F) (hx : x.m < 2 ^ f.w) :
    isNeg f x = decide (x.m ≥ f.signMask) := by
  obtain ⟨_, _, _, _, _, hw, _⟩ := wf_S f h
  unfold isNeg
  rw [Nat.mod_eq_of_lt (by omega)]

theorem shiftUp_stop (fuel lim : Nat) (e : Int) (man : Nat) (h : ¬ man < lim) :
    shiftUp fuel lim e man = (e, man) := by
  cases fuel <;> simp [shiftUp, h]

/-- `_normalise` of a mantissa that is already in range and has an empty carry byte -/
theorem normalise_exact (f : Fmt) (h : f.WF) (e : Int) (M : Nat) (neg : Bool)
    (hM1 : f.denMask ≤ M) (hM2 : M < f.denUpper) (hM3 : M % 256 = 0) (he1 : 0 < e) (he2 : e ≤ 255) :
    normalise f e M neg = .ok ⟨packMan f (M / 256) neg, e.toNat⟩ := by
  obtain ⟨hS, _, _, hdm, hdu, _, _, _⟩ := wf_S f h
  unfold normalise
  have h0 : ¬ (M = 0 ∨ e ≤ 0) := by omega
  rw [if_neg h0, shiftUp_stop _ _ _ _ (by omega)]
  simp only []
  have h1 : ¬ (M % 256 > 128 ∨ (M % 256 = 128 ∧ M / 256 % 2 = 1)) := by omega
  rw [if_neg h1]
  have h2 : M % f.denUpper / 256 * 256 + 0 = M := by
    rw [Nat.mod_eq_of_lt hM2]; omega
  rw [h2]
  have h3 : ¬ (M ≥ f.denUpper) := by omega
  simp only [h3, if_false]
  unfold checkLimits
  rw [if_neg (by omega), if_neg (by omega)]

theorem manOf_range (f : Fmt) (h : f.WF) (x : F) (hx : x.m < 2 ^ f.w) :
    f.signMask ≤ manOf f x ∧ manOf f x < 2 * f.signMask := by
  obtain ⟨hS, _, _, _, _, hw, _⟩ := wf_S f h
  unfold manOf
  rw [isNeg_iff f h x hx]
  by_cases hn : x.m ≥ f.signMask <;> simp [hn] <;> omega

theorem denorm_man (f : Fmt) (h : f.WF) (x : F) :
    (denorm f x).man = 256 * manOf f x ∧ (denorm f x).exp = x.e ∧ (denorm f x).neg = isNeg f x := by
  obtain ⟨hS, _, _, hdm, _⟩ := wf_S f h
  unfold denorm manOf
  refine ⟨?_, rfl, rfl⟩
  by_cases hn : isNeg f x = true <;> simp [hn] <;> omega

theorem packMan_manOf (f : Fmt) (h : f.WF) (x : F) (hx : x.m < 2 ^ f.w) :
    packMan f (manOf f x) (isNeg f x) = x.m := by
  obtain ⟨hS, hm, hpm, _, _, hw, _⟩ := wf_S f h
  unfold packMan manOf
  rw [isNeg_iff f h x hx, hm, hpm]
  by_cases hn : x.m ≥ f.signMask
  · simp only [hn, decide_true, if_true]
    exact Nat.mod_eq_of_lt (by omega)
  · simp only [hn, decide_false, if_false, Bool.false_eq_true]
    rw [Nat.add_mod_right]
    exact Nat.mod_eq_of_lt (by omega)

/-- re-normalising the denormalised form of a stored non-zero value gives it back -/
theorem normD_denorm (f : Fmt) (h : f.WF) (x : F) (hx : F.Valid f x) (he : x.e ≠ 0) :
    normD f (denorm f x) = .ok x := by
  obtain ⟨hS, _, _, hdm, hdu, hw, _⟩ := wf_S f h
  obtain ⟨hm, hexp, hneg⟩ := denorm_man f h x
  obtain ⟨r1, r2⟩ := manOf_range f h x hx.1
  have hv := hx.2
  unfold normD
  rw [hm, hexp, hneg, normalise_exact f h _ _ _ (by omega) (by omega) (by omega) (by omega) (by omega)]
  rw [Nat.mul_div_cancel_left _ (by omega), packMan_manOf f h x hx.1]
  cases x; simp

theorem normD_zero_exp (f : Fmt) (d : Den) (hd : d.exp = 0) : normD f d = .ok zero := by
  unfold normD normalise
  simp [hd]

theorem normalise_shifted (f : Fmt) (h : f.WF) (e : Int) (c : Nat) (neg : Bool) (e' : Int) (M : Nat)
    (hc : c ≠ 0) (he : 0 < e) (hs : shiftUp (f.w + 8) (f.denMask - 1) e c = (e', M))
    (_hM1 : f.denMask ≤ M) (hM2 : M < f.denUpper) (hM3 : M % 256 = 0) (he1 : 0 < e') (he2 : e' ≤ 255) :
    normalise f e c neg = .ok ⟨packMan f (M / 256) neg, e'.toNat⟩ := by
  obtain ⟨hS, _, _, hdm, hdu, _, _, _⟩ := wf_S f h
  unfold normalise
  have h0 : ¬ (c = 0 ∨ e ≤ 0) := by omega
  rw [if_neg h0, hs]
  simp only []
  have h1 : ¬ (M % 256 > 128 ∨ (M % 256 = 128 ∧ M / 256 % 2 = 1)) := by omega
  rw [if_neg h1]
  have h2 : M % f.denUpper / 256 * 256 + 0 = M := by
    rw [Nat.mod_eq_of_lt hM2]; omega
  rw [h2]
  have h3 : ¬ (M ≥ f.denUpper) := by omega
  simp only [h3, if_false]
  unfold checkLimits
  rw [if_neg (by omega), if_neg (by omega)]

/-- `_normalise` of `256·A - 1` (carry byte 0xff) rounds up to `A` -/
theorem normalise_round_up (f : Fmt) (h : f.WF) (e : Int) (A : Nat) (neg : Bool)
    (hA1 : f.signMask ≤ A) (hA2 : A < 2 * f.signMask) (he1 : 0 < e) (he2 : e ≤ 255) :
    normalise f e (256 * A - 1) neg = .ok ⟨packMan f A neg, e.toNat⟩ := by
  obtain ⟨hS, _, _, hdm, hdu, _, _, _⟩ := wf_S f h
  unfold normalise
  have h0 : ¬ (256 * A - 1 = 0 ∨ e ≤ 0) := by omega
  rw [if_neg h0, shiftUp_stop _ _ _ _ (by omega)]
  simp only []
  have h1 : (256 * A - 1) % 256 > 128 ∨ ((256 * A - 1) % 256 = 128 ∧ (256 * A - 1) / 256 % 2 = 1) := by omega
  rw [if_pos h1]
  have h2 : (256 * A - 1) % f.denUpper / 256 * 256 + 256 = 256 * A := by
    rw [Nat.mod_eq_of_lt (by omega)]; omega
  rw [h2]
  have h3 : ¬ (256 * A ≥ f.denUpper) := by omega
  simp only [h3, if_false]
  unfold checkLimits
  rw [if_neg (by omega), if_neg (by omega), Nat.mul_div_cancel_left _ (by omega)]

theorem one_denorm (f : Fmt) (h : f.WF) (h1 : f.one = ⟨0, 129⟩) :
    denorm f f.one = ⟨129, f.denMask, false⟩ := by
  obtain ⟨hS, _⟩ := wf_S f h
  have : isNeg f ⟨0, 129⟩ = false := by
    unfold isNeg; simp; omega
  rw [h1]; unfold denorm; rw [this]; simp

theorem denorm_man_ge (f : Fmt) (h : f.WF) (x : F) : 129 ≤ (denorm f x).man := by
  obtain ⟨hS, _, _, hdm, _⟩ := wf_S f h
  unfold denorm
  by_cases hn : isNeg f x = true
  · rw [if_pos hn]
    have : x.m % (2 * f.signMask) ≥ f.signMask := by simpa [isNeg] using hn
    have := Nat.mod_le x.m (2 * f.signMask)
    simp only []
    omega
  · rw [if_neg hn]; simp only []; omega

end PcbV.Mbf
