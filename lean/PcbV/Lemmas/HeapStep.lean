import PcbV.Lemmas.HeapStmt
/-
  Expressions and statements of `PcbV.Heap` preserve the invariant (PcbV.Props.C10).
-/
namespace PcbV.Heap
open PcbV

theorem VExt.pop (s : Heap) : VExt s (pop s) := ⟨⟨[], by simp [Heap.pop]⟩, ⟨[], by simp [Heap.pop]⟩⟩
theorem VExt.push (s : Heap) (it : Item) : VExt s (push s it) := ⟨⟨[], by simp [Heap.push]⟩, ⟨[], by simp [Heap.push]⟩⟩

theorem viewDst_inv (d : Dst) (s : Heap) (h : Strong s) :
    match viewDst d s with
    | .ok (s', it) => Strong s' ∧ VExt s s' ∧ (∀ p, it = .own p → p.len = 0) ∧ (s.stack = [] → s'.stack = [])
    | .error (_, s') => Strong s' ∧ VExt s s' ∧ (s.stack = [] → s'.stack = []) := by
  cases d with
  | sc name =>
    simp only [viewDst]
    cases findIdx name s.scalars 0 with
    | some i => exact ⟨h, VExt.refl s, (fun p hp => by cases hp), fun x => x⟩
    | none => exact ⟨h, VExt.refl s, (fun p hp => by cases hp; rfl), fun x => x⟩
  | el name i =>
    simp only [viewDst]
    have hc := checkDim_inv name i s h.core
    cases hcd : checkDim name i s with
    | error x => obtain ⟨e, s1⟩ := x; rw [hcd] at hc; exact ⟨hc.2.1 h.bnd, hc.2.2.1, hc.2.2.2⟩
    | ok s1 =>
      rw [hcd] at hc
      simp only
      cases findIdx name s1.arrays 0 with
      | some a => exact ⟨hc.2.1 h.bnd, hc.2.2.1, (fun p hp => by cases hp), hc.2.2.2.2⟩
      | none => exact ⟨hc.2.1 h.bnd, hc.2.2.1, hc.2.2.2.2⟩

theorem eval_inv (e : Expr) (s : Heap) (h : Strong s) :
    match eval e s with
    | .ok s' => Strong s' ∧ VExt s s'
    | .error (_, s') => Strong s' ∧ VExt s s' := by
  induction e generalizing s with
  | lit b =>
    simp only [eval]
    have := allocPush_inv b s h
    cases hh : allocPush b s with
    | ok s1 => rw [hh] at this; exact ⟨this.1, VExt.of_shape this.2⟩
    | error x => obtain ⟨e, s1⟩ := x; rw [hh] at this; exact ⟨this.1, VExt.of_shape this.2⟩
  | rep n c =>
    simp only [eval]
    have := allocPush_inv (List.replicate n c) s h
    cases hh : allocPush (List.replicate n c) s with
    | ok s1 => rw [hh] at this; exact ⟨this.1, VExt.of_shape this.2⟩
    | error x => obtain ⟨e, s1⟩ := x; rw [hh] at this; exact ⟨this.1, VExt.of_shape this.2⟩
  | var d =>
    simp only [eval]
    have := viewDst_inv d s h
    cases hh : viewDst d s with
    | error x => obtain ⟨e, s1⟩ := x; rw [hh] at this; exact ⟨this.1, this.2.1⟩
    | ok x =>
      obtain ⟨s1, it⟩ := x
      rw [hh] at this
      exact ⟨strong_push this.1 it (fun p hp => Or.inl (this.2.2.1 p hp)), this.2.1.trans (VExt.push s1 it)⟩
  | frestr =>
    simp only [eval]
    have h1 := allocPush_inv [] s h
    cases hh : allocPush [] s with
    | error x => obtain ⟨e, s1⟩ := x; rw [hh] at h1; exact ⟨h1.1, VExt.of_shape h1.2⟩
    | ok s1 =>
      rw [hh] at h1
      simp only
      have hp := strong_pop h1.1
      obtain ⟨s2, h2⟩ := collect_total_lem (pop s1) hp.wf
      obtain ⟨hst, hsh⟩ := collect_strong (pop s1) s2 hp.wf hp.nocode hp.perm h2
      rw [h2]
      simp only
      have hv2 : VExt s s2 := ((VExt.of_shape h1.2).trans (VExt.pop s1)).trans (VExt.of_same hsh)
      have h3 := allocPush_inv (strOfNat (free s2)) s2 hst
      cases hh3 : allocPush (strOfNat (free s2)) s2 with
      | ok s3 => rw [hh3] at h3; exact ⟨h3.1, hv2.trans (VExt.of_shape h3.2)⟩
      | error x => obtain ⟨e, s3⟩ := x; rw [hh3] at h3; exact ⟨h3.1, hv2.trans (VExt.of_shape h3.2)⟩
  | cat a b iha ihb =>
    simp only [eval]
    have h1 := iha s h
    cases hh1 : eval a s with
    | error x => obtain ⟨e, s1⟩ := x; rw [hh1] at h1; exact h1
    | ok s1 =>
      rw [hh1] at h1
      simp only
      have h2 := ihb s1 h1.1
      cases hh2 : eval b s1 with
      | error x => obtain ⟨e, s2⟩ := x; rw [hh2] at h2; exact ⟨h2.1, h1.2.trans h2.2⟩
      | ok s2 =>
        rw [hh2] at h2
        simp only
        have hpp := strong_pop (strong_pop h2.1)
        have hv : VExt s (pop (pop s2)) := ((h1.2.trans h2.2).trans (VExt.pop s2)).trans (VExt.pop (pop s2))
        have h3 := allocPush_inv (itemVal s2 (topItem (pop s2)) ++ itemVal s2 (topItem s2)) (pop (pop s2)) hpp
        cases hh3 : allocPush (itemVal s2 (topItem (pop s2)) ++ itemVal s2 (topItem s2)) (pop (pop s2)) with
        | ok s3 => rw [hh3] at h3; exact ⟨h3.1, hv.trans (VExt.of_shape h3.2)⟩
        | error x => obtain ⟨e, s3⟩ := x; rw [hh3] at h3; exact ⟨h3.1, hv.trans (VExt.of_shape h3.2)⟩

/-! ### assignment -/

theorem cells_setV (s : Heap) (l : VLoc) (p : Ptr) (l' : Loc) (q : Ptr) (h : getLoc (setV s l p) l' = some q) :
    getLoc s l' = some q ∨ q = p := by
  by_cases hl : Loc.v l = l'
  · subst hl
    cases hg : getLoc s (.v l) with
    | none =>
      -- nothing is written when the cell does not exist
      left
      have : setV s l p = s := by
        cases l with
        | sc i =>
          simp only [getLoc, getV] at hg
          cases hx : s.scalars[i]? with
          | none => simp [setV, hx]
          | some x => simp [hx] at hg
        | el a i =>
          simp only [getLoc, getV] at hg
          cases hx : s.arrays[a]? with
          | none => simp [setV, hx]
          | some x =>
            simp [hx] at hg
            have hset : setAt x.2 i p = x.2 := by
              have : ∀ (l : List Ptr) (i : Nat), l.length ≤ i → setAt l i p = l := by
                intro l
                induction l with
                | nil => intro i _; rfl
                | cons y r ih =>
                  intro i hi
                  cases i with
                  | zero => simp at hi
                  | succ n => simp at hi; simp [setAt, ih n hi]
              exact this _ _ hg
            have hset2 : setAt s.arrays a (x.1, x.2) = s.arrays := by
              have : ∀ (l : List (Bytes × List Ptr)) (a : Nat) (x : Bytes × List Ptr), l[a]? = some x → setAt l a x = l := by
                intro l
                induction l with
                | nil => intro a x _; rfl
                | cons y r ih =>
                  intro a x ha
                  cases a with
                  | zero => simp at ha; simp [setAt, ha]
                  | succ n => simp at ha; simp [setAt, ih n x ha]
              exact this _ _ _ hx
            simp only [setV, hx, hset]
            rw [hset2]
      rw [this, hg] at h; cases h
    | some p0 =>
      right
      have := getLoc_setLoc_same s (.v l) p p0 hg
      simp only [setLoc] at this
      rw [this] at h; exact (Option.some.inj h).symm
  · left
    have := getLoc_setLoc_ne s (.v l) l' p hl
    simp only [setLoc] at this
    rw [this] at h; exact h

theorem setV_frame (s : Heap) (l : VLoc) (p : Ptr) :
    (setV s l p).strs = s.strs ∧ (setV s l p).current = s.current ∧ (setV s l p).temp = s.temp ∧
    (setV s l p).varStart = s.varStart ∧ (setV s l p).top = s.top ∧ (setV s l p).stack = s.stack := by
  have := setLoc_frame s (.v l) p
  simp only [setLoc] at this
  obtain ⟨g1, g2, g3, g4, _, _, g7, g8, _, _⟩ := this
  refine ⟨g1, g2, g3, g4, top_congr _ _ g7 g8, ?_⟩
  cases l with
  | sc i => cases hx : s.scalars[i]? <;> simp [setV, hx]
  | el a i => cases hx : s.arrays[a]? <;> simp [setV, hx]

/-- writing a pointer that is held by some cell (or is empty) into a variable, after `fix_temporaries` -/
theorem strong_setV_fixed (s : Heap) (hw : WF s) (hn : NoCode s) (ht : s.temp = s.current) (l : VLoc) (p : Ptr)
    (hp : p.len = 0 ∨ ∃ l', getLoc s l' = some p) : Strong (setV s l p) := by
  obtain ⟨f1, f2, f3, f4, f5, _⟩ := setV_frame s l p
  obtain ⟨hw', hn'⟩ := wf_of_subcells hw hn (t := setV s l p) f4 f1 f2 f5 (by
    intro l' q hq
    rcases cells_setV s l p l' q hq with h1 | h1
    · exact Or.inl ⟨l', h1⟩
    · subst h1
      rcases hp with h2 | h2
      · exact Or.inr h2
      · exact Or.inl h2)
  exact strong_of_fixed hw' hn' (by rw [f3, f2]; exact ht)

theorem assignDst_ok (d : Dst) (p : Ptr) (s : Heap) (hw : WF s) (hn : NoCode s) (hex : ExD s d)
    (hp : p.len = 0 ∨ ∃ l', getLoc s l' = some p) :
    ∃ s', assignDst d p s = .ok s' ∧ Strong s' ∧ VExt s s' := by
  have hex' : ExD (fixTemps s) d := hex
  obtain ⟨l, q, hl, _⟩ := hex'.loc
  have hst := strong_setV_fixed (fixTemps s) ⟨hw.blocks, fun l p hp => hw.live l p hp⟩
    (fun l p hp h0 => hn l p hp h0) rfl l p hp
  have hvx : VExt s (setV (fixTemps s) l p) := by
    have hsh := setLoc_shape (fixTemps s) (.v l) p
    simp only [setLoc] at hsh
    exact VExt.of_same ⟨hsh.sc, hsh.ar, hsh.st⟩
  cases d with
  | sc name =>
    refine ⟨setV (fixTemps s) l p, ?_, hst, hvx⟩
    simp only [assignDst, hex'.ensure_ok, hl]
  | el name i =>
    refine ⟨setV (fixTemps s) l p, ?_, hst, hvx⟩
    simp only [assignDst, hex'.checkDim_ok, hl]

/-! ### statements -/

theorem prealloc_inv (d : Dst) (s : Heap) (h : Core s) :
    match prealloc d s with
    | .ok s' => Core s' ∧ ExD s' d ∧ (s.stack = [] → s'.stack = [])
    | .error (_, s') => Core s' ∧ (s.stack = [] → s'.stack = []) := by
  cases d with
  | sc name =>
    simp only [prealloc]
    have := ensureScalar_inv name s h
    cases hh : ensureScalar name s with
    | ok s1 => rw [hh] at this; exact ⟨this.1, this.2.2.2.1, this.2.2.2.2⟩
    | error x => obtain ⟨e, s1⟩ := x; rw [hh] at this; exact ⟨this.1.core, this.2.2⟩
  | el name i =>
    simp only [prealloc]
    have := checkDim_inv name i s h
    cases hh : checkDim name i s with
    | ok s1 => rw [hh] at this; exact ⟨this.1, this.2.2.2.1, this.2.2.2.2⟩
    | error x => obtain ⟨e, s1⟩ := x; rw [hh] at this; exact ⟨this.1, this.2.2.2⟩

theorem topItem_push (s : Heap) (it : Item) : topItem (push s it) = it := by
  simp [topItem, push]

theorem itemPtr_congr (s t : Heap) (it : Item) (h1 : t.scalars = s.scalars) (h2 : t.arrays = s.arrays) :
    itemPtr t it = itemPtr s it := by
  cases it with
  | own p => rfl
  | ref l => cases l <;> simp [itemPtr, getV, h1, h2]

theorem strong_repush {s : Heap} (h : Strong s) : Strong (push (pop s) (topItem s)) := by
  have hc : ∀ l p, getLoc (push (pop s) (topItem s)) l = some p → (∃ l', getLoc s l' = some p) ∨ p.len = 0 := by
    intro l p hp
    rcases cells_push (pop s) (topItem s) l p hp with h1 | h1
    · exact Or.inl ⟨l, cells_pop s l p h1⟩
    · have := topItem_cell s
      rw [h1] at this
      simp only [itemPtr] at this
      rcases this with h2 | h2
      · exact Or.inr h2
      · exact Or.inl h2
  obtain ⟨hw, hn⟩ := wf_of_subcells h.wf h.nocode (t := push (pop s) (topItem s)) rfl rfl rfl rfl hc
  refine ⟨hw, hn, perm_of_subcells h.perm rfl rfl (fun l p hp => ?_), h.bnd⟩
  rw [getLoc_push_v] at hp
  exact Or.inl ⟨l, cells_pop s (.v l) p hp⟩

theorem letStmt_inv (d : Dst) (e : Expr) (s : Heap) (h : Core s) (hst : s.stack = []) :
    match letStmt d e s with
    | .ok s' => Core s'
    | .error (_, s') => Core s' := by
  unfold letStmt
  have h1 := prealloc_inv d s h
  cases hh1 : prealloc d s with
  | error x => obtain ⟨e1, s1⟩ := x; rw [hh1] at h1; exact h1.1
  | ok s1 =>
    rw [hh1] at h1
    simp only
    obtain ⟨hr, hrst, hrsh, _⟩ := resetTemps_strong s1 h1.1 (h1.2.2 hst)
    have hex1 : ExD (resetTemps s1) d := h1.2.1.ext (VExt.of_same hrsh)
    have h2 := eval_inv e (resetTemps s1) hr
    cases hh2 : eval e (resetTemps s1) with
    | error x => obtain ⟨e2, s2⟩ := x; rw [hh2] at h2; exact h2.1.core
    | ok s2 =>
      rw [hh2] at h2
      simp only
      have hex2 : ExD s2 d := hex1.ext h2.2
      have hp3 := strong_pop h2.1
      have hex3 : ExD (pop s2) d := hex2.ext (VExt.pop s2)
      by_cases hnc : needsCopy (pop s2) (itemPtr s2 (topItem s2)) = true
      · rw [if_pos hnc]
        have h4 := allocPush_inv (deref (pop s2) (itemPtr s2 (topItem s2))) (pop s2) hp3
        cases hh4 : allocPush (deref (pop s2) (itemPtr s2 (topItem s2))) (pop s2) with
        | error x => obtain ⟨e4, s4⟩ := x; rw [hh4] at h4; exact h4.1.core
        | ok s4 =>
          rw [hh4] at h4
          simp only
          obtain ⟨s5, h5, hs5, _⟩ := assignDst_ok d (itemPtr s4 (topItem s4)) s4 h4.1.wf h4.1.nocode
            (hex3.ext (VExt.of_shape h4.2)) (topItem_cell s4)
          rw [h5]; exact hs5.core
      · rw [if_neg hnc]
        have hrp := strong_repush h2.1
        have hcell := topItem_cell (push (pop s2) (topItem s2))
        rw [topItem_push, itemPtr_congr s2 (push (pop s2) (topItem s2)) (topItem s2) rfl rfl] at hcell
        obtain ⟨s5, h5, hs5, _⟩ := assignDst_ok d (itemPtr s2 (topItem s2)) (push (pop s2) (topItem s2))
          hrp.wf hrp.nocode (hex3.ext (VExt.push _ _)) hcell
        rw [h5]; exact hs5.core

theorem viewBuffer_inv (d : Dst) (b : Bool) (s : Heap) (h : Core s) :
    match viewBuffer d b s with
    | .ok s' => Core s' ∧ (s.stack = [] → s'.stack = [])
    | .error (_, s') => Core s' ∧ (s.stack = [] → s'.stack = []) := by
  cases d with
  | sc name =>
    simp only [viewBuffer]
    cases findIdx name s.scalars 0 with
    | some i => exact ⟨h, fun x => x⟩
    | none =>
      simp only
      have := ensureScalar_inv name s h
      cases hh : ensureScalar name s with
      | error x => obtain ⟨e, s1⟩ := x; rw [hh] at this; exact ⟨this.1.core, this.2.2⟩
      | ok s1 =>
        rw [hh] at this
        simp only
        cases b <;> exact ⟨this.1, this.2.2.2.2⟩
  | el name i =>
    simp only [viewBuffer]
    have := checkDim_inv name i s h
    cases hh : checkDim name i s with
    | ok s1 => rw [hh] at this; exact ⟨this.1, this.2.2.2.2⟩
    | error x => obtain ⟨e, s1⟩ := x; rw [hh] at this; exact ⟨this.1, this.2.2.2⟩

theorem getD_cell (s : Heap) (l : VLoc) :
    ((getV s l).getD Ptr.null).len = 0 ∨ ∃ l', getLoc s (.v l') = some ((getV s l).getD Ptr.null) := by
  cases h : getV s l with
  | none => left; rfl
  | some p => right; exact ⟨l, h⟩

theorem swapStmt_inv (a b : Dst) (s : Heap) (h : Core s) :
    match swapStmt a b s with
    | .ok s' => Core s'
    | .error (_, s') => Core s' := by
  unfold swapStmt
  have h1 := viewBuffer_inv a false s h
  cases hh1 : viewBuffer a false s with
  | error x => obtain ⟨e, s1⟩ := x; rw [hh1] at h1; exact h1.1
  | ok s1 =>
    rw [hh1] at h1
    simp only
    have h2 := viewBuffer_inv b true s1 h1.1
    cases hh2 : viewBuffer b true s1 with
    | error x => obtain ⟨e, s2⟩ := x; rw [hh2] at h2; exact h2.1
    | ok s2 =>
      rw [hh2] at h2
      simp only
      cases hla : dstLoc s2 a with
      | none => exact h2.1
      | some la =>
        cases hlb : dstLoc s2 b with
        | none => exact h2.1
        | some lb =>
          simp only
          obtain ⟨f1, f2, f3, f4, f5, _⟩ := setV_frame s2 la ((getV s2 lb).getD Ptr.null)
          obtain ⟨g1, g2, g3, g4, g5, _⟩ := setV_frame (setV s2 la ((getV s2 lb).getD Ptr.null)) lb ((getV s2 la).getD Ptr.null)
          have hc : ∀ l p, getLoc (setV (setV s2 la ((getV s2 lb).getD Ptr.null)) lb ((getV s2 la).getD Ptr.null)) l = some p →
              (∃ l', getLoc s2 l' = some p) ∨ p.len = 0 := by
            intro l p hp
            rcases cells_setV _ _ _ l p hp with k1 | k1
            · rcases cells_setV _ _ _ l p k1 with k2 | k2
              · exact Or.inl ⟨l, k2⟩
              · subst k2
                rcases getD_cell s2 lb with k3 | ⟨l', k3⟩
                · exact Or.inr k3
                · exact Or.inl ⟨_, k3⟩
            · subst k1
              rcases getD_cell s2 la with k3 | ⟨l', k3⟩
              · exact Or.inr k3
              · exact Or.inl ⟨_, k3⟩
          have hv : ∀ l p, getLoc (setV (setV s2 la ((getV s2 lb).getD Ptr.null)) lb ((getV s2 la).getD Ptr.null)) (.v l) = some p →
              (∃ l', getLoc s2 (.v l') = some p) ∨ p.len = 0 := by
            intro l p hp
            rcases cells_setV _ _ _ (.v l) p hp with k1 | k1
            · rcases cells_setV _ _ _ (.v l) p k1 with k2 | k2
              · exact Or.inl ⟨l, k2⟩
              · subst k2
                rcases getD_cell s2 lb with k3 | k3
                · exact Or.inr k3
                · exact Or.inl k3
            · subst k1
              rcases getD_cell s2 la with k3 | k3
              · exact Or.inr k3
              · exact Or.inl k3
          exact (core_sub h2.1 (by rw [g4, f4]) (by rw [g1, f1]) (by rw [g2, f2]) (by rw [g5, f5]) (by rw [g3, f3]) hc hv).1

theorem getElem?_eraseAt (l : List α) (a b : Nat) (x : α) (h : (eraseAt l a)[b]? = some x) : ∃ b' : Nat, l[b']? = some x := by
  induction l generalizing a b with
  | nil => simp [eraseAt] at h
  | cons y r ih =>
    cases a with
    | zero =>
      refine ⟨b + 1, ?_⟩
      simpa [eraseAt] using h
    | succ n =>
      cases b with
      | zero =>
        refine ⟨0, ?_⟩
        simpa [eraseAt] using h
      | succ m =>
        simp [eraseAt] at h
        obtain ⟨b', hb'⟩ := ih n m h
        refine ⟨b' + 1, ?_⟩
        simpa using hb'

theorem cells_erase (s t : Heap) (a : Nat) (h1 : t.scalars = s.scalars) (h2 : t.arrays = eraseAt s.arrays a)
    (h3 : t.stack = s.stack) (l : Loc) (p : Ptr) (hp : getLoc t l = some p) :
    (∃ l', getLoc s l' = some p) ∧ (∀ m, l = .v m → ∃ m', getLoc s (.v m') = some p) := by
  cases l with
  | s k =>
    refine ⟨⟨.s k, by simp only [getLoc, h3] at hp ⊢; exact hp⟩, fun m hm => by cases hm⟩
  | v l =>
    cases l with
    | sc i =>
      have : getLoc s (.v (.sc i)) = some p := by simp only [getLoc, getV, h1] at hp ⊢; exact hp
      exact ⟨⟨_, this⟩, fun m _ => ⟨_, this⟩⟩
    | el b i =>
      simp only [getLoc, getV, h2] at hp
      cases hx : (eraseAt s.arrays a)[b]? with
      | none => rw [hx] at hp; simp at hp
      | some x =>
        rw [hx] at hp
        obtain ⟨b', hb'⟩ := getElem?_eraseAt _ _ _ _ hx
        have : getLoc s (.v (.el b' i)) = some p := by simp only [getLoc, getV, hb']; exact hp
        exact ⟨⟨_, this⟩, fun m _ => ⟨_, this⟩⟩

theorem eraseStmt_inv (name : Bytes) (s : Heap) (h : Core s) :
    match eraseStmt name s with
    | .ok s' => Core s'
    | .error (_, s') => Core s' := by
  unfold eraseStmt
  cases findIdx name s.arrays 0 with
  | none => exact h
  | some a =>
    simp only
    suffices hh : ∀ t : Heap, t.scalars = s.scalars → t.arrays = eraseAt s.arrays a → t.stack = s.stack →
        t.varStart = s.varStart → t.strs = s.strs → t.current = s.current → t.top = s.top → t.temp = s.temp →
        Core t from hh _ rfl rfl rfl rfl rfl rfl rfl rfl
    intro t e1 e2 e3 e4 e5 e6 e7 e8
    refine (core_sub h e4 e5 e6 e7 e8 ?_ ?_).1
    · intro l p hp
      exact Or.inl (cells_erase s t a e1 e2 e3 l p hp).1
    · intro l p hp
      exact Or.inl ((cells_erase s t a e1 e2 e3 (.v l) p hp).2 l rfl)

theorem cells_cleared (t : Heap) (h1 : t.scalars = []) (h2 : t.arrays = []) (h3 : t.stack = []) (l : Loc) :
    getLoc t l = none := by
  cases l with
  | v l => cases l <;> simp [getLoc, getV, h1, h2]
  | s k => simp [getLoc, h3]

theorem clearStmt_inv (n : Nat) (s : Heap) (h : Core s) (hst : s.stack = []) :
    match clearStmt n s with
    | .ok s' => Core s'
    | .error (_, s') => Core s' := by
  unfold clearStmt
  obtain ⟨hr, hrst, _⟩ := resetTemps_strong s h hst
  simp only
  by_cases h0 : n = 0
  · rw [if_pos h0]; exact hr.core
  · rw [if_neg h0]
    by_cases h1 : n > (resetTemps s).total
    · rw [if_pos h1]; exact hr.core
    · rw [if_neg h1]
      suffices hh : ∀ t : Heap, t.scalars = [] → t.arrays = [] → t.stack = [] → t.strs = [] → t.current = t.top →
          Core t from hh _ rfl rfl hrst rfl rfl
      intro t e1 e2 e3 e4 e5
      refine ⟨⟨by rw [e4, e5]; exact Nat.le_refl _, fun l p hp => ?_⟩, fun l p hp => ?_, fun l p hp => ?_, Or.inl e4⟩
      · rw [cells_cleared t e1 e2 e3 l] at hp; cases hp
      · rw [cells_cleared t e1 e2 e3 l] at hp; cases hp
      · rw [cells_cleared t e1 e2 e3 (.v l)] at hp; cases hp

theorem allocNum_inv (n : Nat) (s : Heap) (h : Core s) :
    match allocNum n s with
    | .ok s' => Core s'
    | .error (_, s') => Core s' := by
  unfold allocNum
  have hc := checkFree_inv n Gen.E.out_of_memory s h
  cases hcf : checkFree n Gen.E.out_of_memory s with
  | error x => obtain ⟨e, s1⟩ := x; rw [hcf] at hc; exact hc.1.core
  | ok s1 =>
    rw [hcf] at hc
    simp only
    suffices hh : ∀ t : Heap, t.scalars = s1.scalars → t.arrays = s1.arrays → t.stack = s1.stack →
        t.varStart = s1.varStart → t.strs = s1.strs → t.current = s1.current → t.top = s1.top → t.temp = s1.temp →
        Core t from hh _ rfl rfl rfl rfl rfl rfl rfl rfl
    intro t e1 e2 e3 e4 e5 e6 e7 e8
    refine (core_sub hc.1 e4 e5 e6 e7 e8 ?_ ?_).1
    · intro l p hp
      rw [getLoc_congr t s1 e1 e2 e3 l] at hp
      exact Or.inl ⟨l, hp⟩
    · intro l p hp
      rw [getLoc_congr t s1 e1 e2 e3 (.v l)] at hp
      exact Or.inl ⟨l, hp⟩

theorem freStr_inv (s : Heap) (h : Core s) (hst : s.stack = []) :
    match (match allocPush [] (resetTemps s) with
      | .error x => (.error x : Except (Nat × Heap) (Heap × Option Nat))
      | .ok s1 =>
        match collect (pop s1) with
        | .error x => .error x
        | .ok s2 => .ok (s2, some (free s2))) with
    | .ok (s', _) => Core s'
    | .error (_, s') => Core s' := by
  obtain ⟨hr, _, _⟩ := resetTemps_strong s h hst
  have h1 := allocPush_inv [] (resetTemps s) hr
  cases hh : allocPush [] (resetTemps s) with
  | error x => obtain ⟨e, s1⟩ := x; rw [hh] at h1; exact h1.1.core
  | ok s1 =>
    rw [hh] at h1
    simp only
    have hp := strong_pop h1.1
    obtain ⟨s2, h2⟩ := collect_total_lem (pop s1) hp.wf
    obtain ⟨hst2, _⟩ := collect_strong (pop s1) s2 hp.wf hp.nocode hp.perm h2
    rw [h2]
    exact hst2.core

/-! ### `stmt`, `step`, `run` -/

/-- the statements covered by the history theorems (everything except MID$, LSET/RSET and the
    program-literal assignment `letCode`) -/
def Covered : Op → Prop
  | .letE _ _ => True
  | .swap _ _ => True
  | .erase _ => True
  | .dim _ _ => True
  | .freStr => True
  | .fre0 => True
  | .clear _ => True
  | .allocNum _ => True
  | .mid _ _ _ _ => False
  | .lset _ _ _ => False
  | .letCode _ _ _ => False

theorem map_case (r : HR) (P : Heap → Prop)
    (h : match r with | .ok s' => P s' | .error (_, s') => P s') :
    match (r.map (·, (none : Option Nat))) with
    | .ok (s', _) => P s'
    | .error (_, s') => P s' := by
  cases r with
  | ok s' => exact h
  | error x => obtain ⟨e, s'⟩ := x; exact h

theorem stmt_inv (op : Op) (hc : Covered op) (s : Heap) (h : Core s) (hst : s.stack = []) :
    match stmt op s with
    | .ok (s', _) => Core s'
    | .error (_, s') => Core s' := by
  cases op with
  | letE d e => exact map_case _ Core (letStmt_inv d e s h hst)
  | swap a b => exact map_case _ Core (swapStmt_inv a b s h)
  | erase n => exact map_case _ Core (eraseStmt_inv n s h)
  | dim name n =>
    apply map_case _ Core
    have := allocArray_inv name n s h
    cases hh : allocArray name n s with
    | ok s1 => rw [hh] at this; exact this.1
    | error x => obtain ⟨e, s1⟩ := x; rw [hh] at this; exact this.1
  | freStr => exact freStr_inv s h hst
  | fre0 => exact (resetTemps_strong s h hst).1.core
  | clear n => exact map_case _ Core (clearStmt_inv n s h hst)
  | allocNum n => exact map_case _ Core (allocNum_inv n s h)
  | mid d st n e => exact absurd hc (by simp [Covered])
  | lset d r e => exact absurd hc (by simp [Covered])
  | letCode d l a => exact absurd hc (by simp [Covered])

/-- the invariant of statement histories -/
def Inv (s : Heap) : Prop := Core s ∧ s.stack = []

theorem step_inv (op : Op) (hc : Covered op) (s : Heap) (h : Inv s) : Inv (step s op).1 := by
  have := stmt_inv op hc s h.1 h.2
  unfold step
  cases hh : stmt op s with
  | ok x =>
    obtain ⟨s1, o⟩ := x
    rw [hh] at this
    cases o <;> exact ⟨core_nostack this, rfl⟩
  | error x =>
    obtain ⟨e, s1⟩ := x
    rw [hh] at this
    exact ⟨core_nostack this, rfl⟩

theorem run_inv (ops : List Op) (hc : ∀ op ∈ ops, Covered op) (s : Heap) (h : Inv s) : Inv (run s ops) := by
  induction ops generalizing s with
  | nil => exact h
  | cons op r ih =>
    exact ih (fun o ho => hc o (List.mem_cons_of_mem _ ho)) _ (step_inv op (hc op List.mem_cons_self) s h)

end PcbV.Heap
