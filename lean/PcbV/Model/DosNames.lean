/-
  PcbV.Model.DosNames — DOS 8.3 name functions of pcbasic/basic/devices/disk.py
  (dos_splitext, dos_normalise_name, dos_is_legal_name, dos_to_native_name, istype,
  DiskDevice._get_dos_name_defext, DiskDevice._get_native_name) over an abstract host file system.

  DOS names are `Bytes`; host names are lists of unicode code points (`HostName`).
  Host paths are *split forms* of the string that follows `<mount root>/`:
  the list `s.split('/')` (so the root itself is `[[]]`, a trailing slash shows as a last `[]`).
  `joinC` is `os.path.join(path, name)` for a name without '/' on that representation.
  The file system is a parameter (`FS`); `.`/`..` components have their POSIX meaning for it.
  Symbolic links inside the mount are outside the model.
-/
import PcbV.Basic
import PcbV.Gen.Errors
import PcbV.Gen.DosTables
namespace PcbV.DosNames
open PcbV PcbV.Gen PcbV.Gen.DosTables

abbrev HostName := List Nat
abbrev HostPath := List HostName

/-- the host file system seen from the mount root (paths in split form, possibly with `.`/`..`) -/
structure FS where
  isDir : HostPath → Bool
  isFile : HostPath → Bool
  listdir : HostPath → Option (List HostName)

/-! ### bytes helpers (Python `bytes` methods) -/

/-- ASCII whitespace of `bytes.strip()`: b' \t\n\r\x0b\x0c' -/
def isSpace (b : Nat) : Bool := b == 32 || (9 ≤ b && b ≤ 13)

def lstrip (s : Bytes) : Bytes := s.dropWhile isSpace
def rstrip (s : Bytes) : Bytes := (s.reverse.dropWhile isSpace).reverse
def strip (s : Bytes) : Bytes := lstrip (rstrip s)

def upperB (b : Nat) : Nat := if 97 ≤ b ∧ b ≤ 122 then b - 32 else b
def upper (s : Bytes) : Bytes := s.map upperB

def DOT : Bytes := [46]
def DOTDOT : Bytes := [46, 46]

def isDots (s : List Nat) : Bool := s == [46] || s == [46, 46]

/-- `codepage.bytes_to_unicode(name, box_protect=False)` for the default code page -/
def toUni (s : Bytes) : HostName := s.map (fun b => cpTable.getD b 65533)

/-- `os.path.join(path, name)` on split forms (name contains no '/') -/
def joinC (p : HostPath) (c : HostName) : HostPath :=
  if p.getLast? = some [] then p.dropLast ++ [c] else p ++ [c]

/-! ### module-level functions of disk.py -/

/-- `dos_splitext`: trunk and extension around the FIRST dot (dot excluded) -/
def splitext (s : Bytes) : Bytes × Bytes :=
  (s.takeWhile (· != 46), (s.dropWhile (· != 46)).drop 1)

/-- `dos_normalise_name` -/
def normalise (s : Bytes) : Bytes :=
  if isDots s then s else
  let te := splitext (upper s)
  let t := te.1.take 8
  let e := te.2.take 3
  if e.isEmpty then t else t ++ 46 :: e

/-- `dos_is_legal_name` -/
def isLegal (s : Bytes) : Bool :=
  if isDots s then true else
  let te := splitext s
  (decide (te.1.length ≤ 8) && decide (te.2.length ≤ 3)) &&
  (te.1 == strip te.1 && te.2 == strip te.2) &&
  (te.1 ++ te.2).all (fun c => allowable.contains c)

/-- `istype(native_path, native_name, isdir)`; a NUL in the name makes the os call raise ValueError → False -/
def istype (fs : FS) (path : HostPath) (name : HostName) (isdir : Bool) : Bool :=
  if name.contains 0 then false
  else if isdir then fs.isDir (joinC path name) else fs.isFile (joinC path name)

/-- lexicographic order on code points = Python's `sorted()` on `str` -/
def lexLe : List Nat → List Nat → Bool
  | [], _ => true
  | _ :: _, [] => false
  | a :: as, b :: bs => a < b || (a == b && lexLe as bs)

/-- the candidate test inside the loop of `dos_to_native_name` -/
def scanMatch (fs : FS) (path : HostPath) (dosname : Bytes) (isdir : Bool) (f : HostName) : Bool :=
  f.all (· < 128) && isLegal f && normalise f == dosname && istype fs path f isdir

/-- `dos_to_native_name(native_path, dosname, isdir)` -/
def dosToNative (fs : FS) (path : HostPath) (dosname : Bytes) (isdir : Bool) : Option HostName :=
  if dosname.any (· ≥ 128) then none
  else if istype fs path dosname isdir then some dosname
  else match fs.listdir path with
    | none => none
    | some names => (names.mergeSort lexLe).find? (scanMatch fs path dosname isdir)

/-- `DiskDevice._get_dos_name_defext` -/
def dosNameDefext (name defext : Bytes) : Bytes :=
  let n := rstrip name
  if !defext.isEmpty && !n.contains 46 then n ++ 46 :: defext else n

/-- the part of `_get_native_name` after the name has been stripped / extended:
    single-trailing-dot rule, as-is match, 8.3 match, creation -/
def nativeNameTail (fs : FS) (path : HostPath) (n : Bytes) (isdir create : Bool) (nameErr : Nat) : R HostName :=
  let dotted := n.getLast? == some 46 && !n.dropLast.contains 46
  if dotted && istype fs path (toUni n) isdir then .ok (toUni n) else
  let n := if dotted then n.dropLast else n
  if istype fs path (toUni n) isdir then .ok (toUni n) else
  let norm := normalise n
  if !isLegal norm then .error E.bad_file_name else
  match dosToNative fs path norm isdir with
  | some (c :: f) => .ok (c :: f)
  | _ =>   -- `if fullname:` — None and '' are both falsy
    if create then .ok norm else .error nameErr

/-- `DiskDevice._get_native_name` (with the C27 repair: `.`/`..` are never matched on disk) -/
def nativeName (fs : FS) (path : HostPath) (dosName defext : Bytes) (isdir create : Bool) : R HostName :=
  let nameErr := if isdir then E.path_not_found else E.file_not_found
  if dosName != lstrip dosName then .error nameErr else
  let n := dosNameDefext dosName defext
  if isDots n then .error (if isdir then E.path_file_access_error else nameErr) else
  nativeNameTail fs path n isdir create nameErr

/-- the code before the repair (kept for the counterexample theorem) -/
def nativeNameOld (fs : FS) (path : HostPath) (dosName defext : Bytes) (isdir create : Bool) : R HostName :=
  let nameErr := if isdir then E.path_not_found else E.file_not_found
  if dosName != lstrip dosName then .error nameErr else
  nativeNameTail fs path (dosNameDefext dosName defext) isdir create nameErr

end PcbV.DosNames
