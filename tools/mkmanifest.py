#!/usr/bin/env python3
"""Regenerate MANIFEST.json from tools/claims.json (per-property claim texts) and the props/ directory."""
import json, os
here = os.path.dirname(os.path.dirname(os.path.abspath(__file__)))
claims = {}
cd = os.path.join(here, 'tools', 'claims.d')
for fn in sorted(os.listdir(cd)):
    if fn.endswith('.json'):
        claims[fn[:-5]] = json.load(open(os.path.join(cd, fn)))
props = [json.loads(l) for l in open(os.path.join(here, 'properties.jsonl'))]
checks, na = [], []
for p in props:
    pid = p['id']
    c = claims.get(pid)
    if c and c.get('claimed') and os.path.exists(os.path.join(here, 'props', pid.lower() + '.py')):
        checks.append({
            'property_id': pid,
            'quick_cmd': './check %s --tier quick' % pid,
            'thorough_cmd': './check %s --tier thorough' % pid,
            'evidence_file': 'evidence/%s.json' % pid,
            'replay_cmd_template': './check %s --replay {path}' % pid,
            'engine': 'lean4-proof+correspondence',
            'level_claimed': {'category': c.get('category', 'proof'), 'text': c['text'],
                              'design_ref': 'DESIGN.md section 9, %s' % pid},
            'level_note': c['note'],
            'technique': c['technique'],
        })
    else:
        na.append({'property_id': pid, 'reason': (c or {}).get('na_reason',
                   'not claimed yet: model, theorems and correspondence check for this property are not built '
                   '(the technique applies; see DESIGN.md section 9)')})
m = {
    'version': 1,
    'setup_cmd': './setup.sh',
    'hooks': {
        'guard': 'PCBASIC_VERIF',
        'enable': 'no source hooks: the checks import /repo in-process (PYTHONPATH=/repo) and instrument from outside',
        'baseline_off_cmd': 'python3 tools/baseline.py /repo',
        'source_commits': [],
        'add_only': True,
    },
    'engines': [{
        'name': 'lean4-proof+correspondence', 'path': 'lean/ , vlib/ , props/ , gen/',
        'serves_properties': [c['property_id'] for c in checks],
        'kind_free_text': 'Lean 4 model + kernel-checked theorems (lake build, #print axioms audit); translator regenerates '
                          'tables from /repo each run; correspondence harness runs model (compiled line-protocol driver) '
                          'and the real Python implementation on the same inputs; independent oracle searches for a '
                          'failing input when a proof or the correspondence breaks',
    }],
    'checks': checks,
    'not_applicable': na,
    'notes': 'See DESIGN.md.  Exit codes: 0 held, 1 violation (VIOLATION line), 2 infrastructure/timeout.',
}
json.dump(m, open(os.path.join(here, 'MANIFEST.json'), 'w'), indent=1)
print('MANIFEST: %d checks, %d not_applicable' % (len(checks), len(na)))
