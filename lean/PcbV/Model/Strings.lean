import PcbV.Basic
import PcbV.Gen.Errors
/-
  PcbV.Model.Strings — transcription of the string functions and in-place string statements:
    pcbasic/basic/values/values.py   StringFunctions.left_/right_/mid_/instr_/string_, len_/asc_/chr_/space_,
                                     add / eq / gt … (string branch of match_types)
    pcbasic/basic/values/strings.py  String.add/eq/gt/lset/midset/len/asc/space, StringSpace.store (length check)
    pcbasic/basic/memory/memory.py   DataSegment.mid_/lset_/rset_ (argument checks)
  Strings are `Bytes = List Nat`.  A BASIC value reaching one of these functions is a `V`:
  a number (`num i`, `i` = the value after `to_integer` rounding, *before* the 16-bit range check,
  so `num 40000` overflows) or a string.  Errors are BASIC error numbers.  The Python host
  exception a `memoryview` slice assignment of unequal sizes would raise is the pseudo error `hostExc`.
-/
namespace PcbV.Strings
open PcbV

def ifc : Nat := PcbV.Gen.E.illegal_function_call
def overflow : Nat := PcbV.Gen.E.overflow
def typeMismatch : Nat := PcbV.Gen.E.type_mismatch
def stringTooLong : Nat := PcbV.Gen.E.string_too_long
/-- not a BASIC error: a Python exception (ValueError of memoryview assignment) would escape -/
def hostExc : Nat := 999

inductive V where
  | num (i : Int)
  | str (b : Bytes)
  deriving DecidableEq, Repr

/-- `pass_string` -/
def passString : V → R Bytes
  | .str b => .ok b
  | .num _ => .error typeMismatch

/-- `Integer.from_int` / `Float.to_integer` range check of an already rounded value -/
def toInt16 (i : Int) : R Int :=
  if -32768 ≤ i ∧ i ≤ 32767 then .ok i else .error overflow

/-- `to_integer(x).to_int()` / `values.to_int(x)` / `pass_number(x).to_integer().to_int()` -/
def toIntV : V → R Int
  | .str _ => .error typeMismatch
  | .num i => toInt16 i

/-- `error.range_check(lo, hi, v)` -/
def rangeCheck (lo hi v : Int) : R Unit :=
  if lo ≤ v ∧ v ≤ hi then .ok () else .error ifc

/-- `StringSpace.store` / `String.from_str`: refuses strings longer than 255 -/
def store (b : Bytes) : R Bytes :=
  if b.length > 255 then .error stringTooLong else .ok b

/-- Python slice index normalisation: negative counts from the end, then clamp to `0..len` -/
def pyIdx (len : Nat) (i : Int) : Nat :=
  if i < 0 then (len + i).toNat else min i.toNat len

/-- Python `s[a:b]` -/
def pySlice (s : Bytes) (a b : Int) : Bytes :=
  let i := pyIdx s.length a
  let j := pyIdx s.length b
  (s.drop i).take (j - i)

/-- Python `s[a:]` -/
def pySliceFrom (s : Bytes) (a : Int) : Bytes := s.drop (pyIdx s.length a)

/-! ### values.py: StringFunctions -/

/-- `StringFunctions.left_` -/
def left_ (s n : V) : R Bytes := do
  let s ← passString s
  let stop ← toIntV n
  if stop = 0 then return []
  rangeCheck 0 255 stop
  store (pySlice s 0 stop)

/-- `StringFunctions.right_` (`s[-stop:]`) -/
def right_ (s n : V) : R Bytes := do
  let s ← passString s
  let stop ← toIntV n
  if stop = 0 then return []
  rangeCheck 0 255 stop
  store (pySliceFrom s (-stop))

/-- `StringFunctions.mid_`; `num = none` is the two-argument form -/
def mid_ (s start : V) (num : Option V) : R Bytes := do
  let st ← toIntV start
  let s ← passString s
  let n ← match num with
    | none => pure (s.length : Int)
    | some v => toIntV v
  rangeCheck 1 255 st
  rangeCheck 0 255 n
  if n = 0 ∨ st > s.length then return []
  store (pySlice s (st - 1) (st - 1 + n))

/-- `bytes.find`: index of the first occurrence of `small` in the list, `none` for -1 -/
def find (small : Bytes) : Bytes → Option Nat
  | [] => if small.isEmpty then some 0 else none
  | x :: xs =>
    if small.isPrefixOf (x :: xs) then some 0 else (find small xs).map (· + 1)

/-- `StringFunctions.instr_`; `start = none` is the two-argument form (the parser chooses the
    three-argument form exactly when the first argument is numeric) -/
def instr_ (start : Option Int) (big small : V) : R Nat := do
  let st ← match start with
    | none => pure (1 : Int)
    | some i => do
        let st ← toInt16 i
        rangeCheck 1 255 st
        pure st
  let big ← passString big
  let small ← passString small
  if big.isEmpty ∨ st > big.length then return 0
  match find small (pySliceFrom big (st - 1)) with
  | none => return 0
  | some k => return (st.toNat + k)

/-- `StringFunctions.string_` (with the fix: an empty string argument is an Illegal function call) -/
def string_ (n c : V) : R Bytes := do
  let num ← toIntV n
  rangeCheck 0 255 num
  match c with
  | .str s =>
    match s with
    | [] => .error ifc
    | ch :: _ => store (List.replicate num.toNat ch)
  | .num a =>
    let asc ← toInt16 a
    rangeCheck 0 255 asc
    store (List.replicate num.toNat asc.toNat)

/-- `string_` before the fix: `char = s[:1]` is empty for an empty string, `char * num` is empty -/
def stringOld_ (n c : V) : R Bytes := do
  let num ← toIntV n
  rangeCheck 0 255 num
  match c with
  | .str s => store ((List.replicate num.toNat (s.take 1)).flatten)
  | .num a =>
    let asc ← toInt16 a
    rangeCheck 0 255 asc
    store (List.replicate num.toNat asc.toNat)

/-- `space_` / `String.space` -/
def space_ (n : V) : R Bytes := do
  let num ← toIntV n
  rangeCheck 0 255 num
  store (List.replicate num.toNat 32)

/-- `len_` / `String.len` -/
def len_ (s : V) : R Nat := do
  let s ← passString s
  return s.length

/-- `asc_` / `String.asc` -/
def asc_ (s : V) : R Nat := do
  let s ← passString s
  match s with
  | [] => .error ifc
  | c :: _ => return c

/-- `chr_` -/
def chr_ (x : V) : R Bytes := do
  let v ← toIntV x
  rangeCheck 0 255 v
  store [v.toNat]

/-! ### strings.py: String.add / eq / gt and the comparison operators of values.py -/

/-- `String.add` -/
def strAdd (a b : Bytes) : R Bytes := store (a ++ b)

/-- `String.eq` -/
def strEq (a b : Bytes) : Bool := a == b

/-- `String.gt`: the loop over the common length, then the length comparison -/
def strGt : Bytes → Bytes → Bool
  | x :: xs, y :: ys => if x > y then true else if x < y then false else strGt xs ys
  | _ :: _, [] => true
  | [], _ => false

/-- `match_types` when at least one operand is a string: both must be strings.
    `none` = both numeric (numeric arithmetic/comparison, not part of this property). -/
def matchStr : V → V → Option (R (Bytes × Bytes))
  | .str a, .str b => some (.ok (a, b))
  | .num _, .num _ => none
  | _, _ => some (.error typeMismatch)

/-- `values.add` on a pair that is not purely numeric -/
def add (l r : V) : Option (R Bytes) :=
  (matchStr l r).map fun p => p.bind fun (a, b) => strAdd a b

inductive Cmp where
  | eq | neq | gt | gte | lte | lt
  deriving DecidableEq, Repr

/-- `values.eq/neq/gt/gte/lte/lt` on two strings (BASIC `=`, `<>`, `>`, `>=`, `<=`, `<`) -/
def cmpStr (op : Cmp) (a b : Bytes) : Bool :=
  match op with
  | .eq => strEq a b
  | .neq => !strEq a b
  | .gt => strGt a b
  | .gte => !strGt b a
  | .lte => !strGt a b
  | .lt => strGt b a

def cmp (op : Cmp) (l r : V) : Option (R Bool) :=
  (matchStr l r).map fun p => p.map fun (a, b) => cmpStr op a b

/-! ### strings.py: String.lset, String.midset; memory.py: lset_/rset_/mid_ -/

/-- `bytes.ljust(n)` / `bytes.rjust(n)` with spaces -/
def ljust (s : Bytes) (n : Nat) : Bytes := s ++ List.replicate (n - s.length) 32
def rjust (s : Bytes) (n : Nat) : Bytes := List.replicate (n - s.length) 32 ++ s

/-- memoryview slice assignment `view[a:b] = src`: sizes must agree (else ValueError) -/
def sliceAssign (t : Bytes) (a b : Int) (src : Bytes) : R Bytes :=
  let i := pyIdx t.length a
  let j := pyIdx t.length b
  if j - i = src.length then .ok (t.take i ++ src ++ t.drop (i + (j - i))) else .error hostExc

/-- `String.lset(in_str, justify_right)`: the new content of the target buffer -/
def lset (target inStr : Bytes) (right : Bool) : R Bytes :=
  let length := target.length
  let t := pySlice inStr 0 length
  let t := if right then rjust t length else ljust t length
  sliceAssign target 0 target.length t

/-- byte-by-byte copy, left to right, source and target being the same buffer:
    `for i in range(num): view[i+offset:i+offset+1] = view[i:i+1]`, `i` running from `i` for `n` steps -/
def copyLoop (buf : Bytes) (offset i : Nat) : Nat → R Bytes
  | 0 => .ok buf
  | n + 1 => do
      let b ← sliceAssign buf ((i + offset : Nat) : Int) ((i + offset + 1 : Nat) : Int)
                (pySlice buf (i : Int) ((i + 1 : Nat) : Int))
      copyLoop b offset (i + 1) n

/-- the effective number of bytes `String.midset` copies (may be ≤ 0) -/
def midNum (length offset num vlen : Int) : Int :=
  -- don't overwrite more of the old string than the length of the new string
  let num := min num vlen
  -- ensure the length of source string matches target
  if offset + num > length then length - offset else num

/-- `String.midset(start, num, val)`; `same` = `val` is the target variable itself (same pointer) -/
def midset (target : Bytes) (start num : Int) (val : Bytes) (same : Bool) : R Bytes :=
  let offset := start - 1
  let num := midNum target.length offset num val.length
  if num ≤ 0 then .ok target
  else if !same then
    sliceAssign target offset (offset + num) (pySlice val 0 num)
  else
    -- Python `range(num)`; `i+offset` is a plain index expression (negative would wrap)
    if offset < 0 then .error hostExc else copyLoop target offset.toNat 0 num.toNat

/-- `DataSegment.lset_` / `rset_`: target variable (`num _` = a numeric variable) and value -/
def lsetStmt (target s : V) (right : Bool) : R Bytes := do
  let v ← passString target
  let s ← passString s
  lset v s right

/-- `DataSegment.mid_` (with the fix: `start` is range-checked against 1..255 also when `num = 0`).
    `val = none` means "the target variable itself" (`MID$(A$,…)=A$`, same pointer). -/
def midStmt (target : Bytes) (start : V) (num : Option V) (val : Option V) : R Bytes := do
  let st ← toIntV start
  let n ← match num with
    | none => pure (255 : Int)
    | some v => toIntV v
  rangeCheck 0 255 n
  rangeCheck 1 255 st
  if n > 0 then rangeCheck 1 target.length st
  match val with
  | none => midset target st n target true
  | some v => do
      let v ← passString v
      midset target st n v false

/-- `DataSegment.mid_` before the fix: no check of `start` at all when `num = 0` -/
def midStmtOld (target : Bytes) (start : V) (num : Option V) (val : Option V) : R Bytes := do
  let st ← toIntV start
  let n ← match num with
    | none => pure (255 : Int)
    | some v => toIntV v
  rangeCheck 0 255 n
  if n > 0 then rangeCheck 1 target.length st
  match val with
  | none => midset target st n target true
  | some v => do
      let v ← passString v
      midset target st n v false

/-! ### FIELD variables: several strings laid over ONE record buffer (source and target may overlap)

  `FIELD #n, w1 AS A$, w2 AS B$ …` makes string pointers into the record buffer of a random-access
  file; several FIELD statements over the same file give overlapping variables.  A FIELD variable
  is a window `(off, len)` of the buffer; `StringSpace.view` of it is a live `memoryview` slice. -/

/-- value of the FIELD variable `(off, len)` -/
def fieldGet (buf : Bytes) (off len : Nat) : Bytes := (buf.drop off).take len

/-- the buffer after `view(off, new.length)[:] = new` -/
def fieldPut (buf : Bytes) (off : Nat) (new : Bytes) : Bytes :=
  buf.take off ++ new ++ buf.drop (off + new.length)

/-- `LSET`/`RSET` of FIELD variable `(toff, tlen)` from FIELD variable `(soff, slen)` of the same
    buffer: `String.lset` first copies the source (`in_str.to_value()` = `tobytes()`), trims and pads
    the copy, and then writes the target view in one slice assignment -/
def lsetField (buf : Bytes) (toff tlen soff slen : Nat) (right : Bool) : R Bytes := do
  let src := fieldGet buf soff slen
  let r ← lset (fieldGet buf toff tlen) src right
  pure (fieldPut buf toff r)

/-- NOT the code: an implementation that keeps a live view of the source, writes the space padding
    into the target first and copies the source bytes afterwards (used only to show that the order
    matters when the windows overlap) -/
def lsetFieldLive (buf : Bytes) (toff tlen soff slen : Nat) (right : Bool) : Bytes :=
  let n := min slen tlen
  let pad := tlen - n
  if right then
    let b1 := fieldPut buf toff (List.replicate pad 32)
    fieldPut b1 (toff + pad) (fieldGet b1 soff n)
  else
    let b1 := fieldPut buf (toff + n) (List.replicate pad 32)
    fieldPut b1 toff (fieldGet b1 soff n)

/-- `MID$(T$, st, n) = S$` with FIELD variables `T$ = (toff, tlen)`, `S$ = (soff, slen)`: windows with
    identical extent are the same string pointer (byte-by-byte branch of `midset`); otherwise the
    `memoryview` slice assignment copies as `memmove` does, i.e. from the source as it was -/
def midsetField (buf : Bytes) (toff tlen soff slen : Nat) (st : V) (num : Option V) : R Bytes := do
  let same := soff == toff && slen == tlen
  let r ← midStmt (fieldGet buf toff tlen) st num
    (if same then none else some (.str (fieldGet buf soff slen)))
  pure (fieldPut buf toff r)

/-! ### bookkeeping of `Memory.temp_values` (garbage-collection roots) by the string functions

  `left_`, `right_`, `mid_`, `instr_` register their string arguments in the set `temp_values`
  (every entry is a root that `collect_garbage` re-stores) and must release them again.
  The `…T` versions thread the number of registered entries through the call:
  input = entries before, output = (result, entries after). -/

/-- `left_` before the fix: `add(s)` first, `remove(s)` only after the result was stored, so the
    `stop == 0` return and every error exit leave the entry behind (`right_`, `mid_` alike) -/
def leftOldT (s n : V) (c : Nat) : R Bytes × Nat :=
  let c := c + 1
  match passString s with
  | .error e => (.error e, c)
  | .ok sb =>
  match toIntV n with
  | .error e => (.error e, c)
  | .ok stop =>
  if stop = 0 then (.ok [], c) else
  match rangeCheck 0 255 stop with
  | .error e => (.error e, c)
  | .ok _ =>
  match store (pySlice sb 0 stop) with
  | .error e => (.error e, c)
  | .ok r => (.ok r, c - 1)

/-- fixed `left_`: `add(s); try: … finally: discard(s)` -/
def leftT (s n : V) (c : Nat) : R Bytes × Nat :=
  let c := c + 1
  (left_ s n, c - 1)

/-- `instr_` before the fix: both arguments stay registered when the result is 0 -/
def instrOldT (start : Option Int) (big small : V) (c : Nat) : R Nat × Nat :=
  match (match start with
    | none => (pure (1 : Int) : R Int)
    | some i => do
        let st ← toInt16 i
        rangeCheck 1 255 st
        pure st) with
  | .error e => (.error e, c)
  | .ok st =>
  match passString big with
  | .error e => (.error e, c)
  | .ok b =>
  let c := c + 1
  match passString small with
  | .error e => (.error e, c)
  | .ok sm =>
  let c := c + 1
  if b.isEmpty ∨ st > b.length then (.ok 0, c) else
  match find sm (pySliceFrom b (st - 1)) with
  | none => (.ok 0, c)
  | some k => (.ok (st.toNat + k), c - 2)

/-- fixed `instr_`: `add(big); try: … add(small) … finally: discard(small); discard(big)` -/
def instrT (start : Option Int) (big small : V) (c : Nat) : R Nat × Nat :=
  (instr_ start big small, c)

end PcbV.Strings
