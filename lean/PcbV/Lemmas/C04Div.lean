import PcbV.Lemmas.C04Add
/-
  C04 lemmas, part 4: the shift-and-subtract loop of `_div_den` for ARBITRARY divisors.
  `divLoop_spec` is the loop invariant in closed form: with U = 2^t (t = bit length of the divisor),
  quotient Q and final remainder wf,
      U·work ≤ 2·rman·Q + U·wf ≤ U·work + U·κ ,   wf ≤ s + κ ,
  where κ = `ones rman` counts the halvings of the right-shifting divisor that lose a one bit (the
  "lossy" steps) and s is the initial slack of `work ≤ 2·rman + s`.
-/
namespace PcbV.Mbf.C04
open PcbV PcbV.Mbf

/-- number of one bits shifted out of the divisor (fuel as in `divLoop`) -/
def ones : Nat → Nat → Nat
  | 0, _ => 0
  | fuel + 1, n => if n = 0 then 0 else n % 2 + ones fuel (n / 2)

theorem ones_le_bits : ∀ (fuel n j m k : Nat), n = 2 ^ j * m → m < 2 ^ k → ones fuel n ≤ k := by
  intro fuel
  induction fuel with
  | zero => intro n j m k _ _; simp [ones]
  | succ fuel ih =>
    intro n j m k hn hm
    unfold ones
    by_cases h0 : n = 0
    · simp [h0]
    · rw [if_neg h0]
      cases j with
      | zero =>
        simp only [Nat.pow_zero, Nat.one_mul] at hn
        subst hn
        cases k with
        | zero => simp at hm; omega
        | succ k =>
          have h2 : n / 2 < 2 ^ k := by rw [Nat.pow_succ] at hm; omega
          have := ih (n / 2) 0 (n / 2) k (by simp) h2
          omega
      | succ j =>
        have hn' : n = 2 * (2 ^ j * m) := by rw [hn, Nat.pow_succ]; ac_rfl
        have h1 : n % 2 = 0 := by omega
        have h2 : n / 2 = 2 ^ j * m := by omega
        have := ih (n / 2) j m k h2 hm
        omega

theorem divLoop_spec : ∀ (fuel work rman acc : Nat) (e : Int) (s : Nat),
    rman < 2 ^ fuel → work ≤ 2 * rman + s →
    ∃ Q wf t : Nat, divLoop fuel work rman acc e = (acc * 2 ^ t + Q, e - t) ∧
      (rman = 0 → t = 0) ∧ (0 < rman → 2 ^ t ≤ 2 * rman ∧ rman < 2 ^ t) ∧ Q < 2 ^ t ∧
      wf ≤ s + ones fuel rman ∧ wf ≤ work ∧
      2 ^ t * work ≤ 2 * rman * Q + 2 ^ t * wf ∧
      2 * rman * Q + 2 ^ t * wf ≤ 2 ^ t * work + 2 ^ t * ones fuel rman := by
  intro fuel
  induction fuel with
  | zero =>
    intro work rman acc e s hr hw
    have : rman = 0 := by simpa using hr
    subst this
    exact ⟨0, work, 0, by simp [divLoop], fun _ => rfl, fun h => absurd h (by omega), by simp,
      by simp [ones]; omega, Nat.le_refl _, by simp, by simp [ones]⟩
  | succ fuel ih =>
    intro work rman acc e s hr hw
    by_cases h0 : rman = 0
    · subst h0
      exact ⟨0, work, 0, by simp [divLoop], fun _ => rfl, fun h => absurd h (by omega), by simp,
        by simp [ones]; omega, Nat.le_refl _, by simp, by simp [ones]⟩
    · have hpos : rman > 0 := by omega
      have hr' : rman / 2 < 2 ^ fuel := by rw [Nat.pow_succ] at hr; omega
      have hones : ones (fuel + 1) rman = rman % 2 + ones fuel (rman / 2) := by
        rw [ones, if_neg h0]
      have hdm := Nat.div_add_mod rman 2
      by_cases hg : work > rman
      · -- quotient bit 1
        obtain ⟨Q', wf, t', heq, ht0, htp, hQ, hwf, hwf2, hL, hH⟩ :=
          ih (work - rman) (rman / 2) (acc * 2 + 1) (e - 1) (rman % 2 + s) hr' (by omega)
        refine ⟨2 ^ t' + Q', wf, t' + 1, ?_, fun h => absurd h h0, fun _ => ?_, ?_, ?_, by omega, ?_, ?_⟩
        · unfold divLoop
          rw [if_pos hpos]; simp only [hg, if_true, heq]
          congr 1
          · rw [Nat.pow_succ]; ring
          · push_cast; omega
        · rw [Nat.pow_succ]
          by_cases hr0 : rman / 2 = 0
          · have := ht0 hr0; subst this; simp; omega
          · have := htp (by omega); omega
        · rw [Nat.pow_succ]; omega
        · rw [hones]; omega
        · generalize ones fuel (rman / 2) = κ at *
          generalize rman / 2 = r at *
          generalize rman % 2 = β at *
          have hw' : work = (work - rman) + rman := by omega
          generalize work - rman = w' at *
          subst hw'
          rw [← hdm, Nat.pow_succ]
          generalize 2 ^ t' = U at *
          nlinarith [Nat.zero_le (β * Q'), Nat.zero_le (β * U)]
        · rw [hones]
          generalize ones fuel (rman / 2) = κ at *
          have hβ : rman % 2 ≤ 1 := by omega
          generalize rman / 2 = r at *
          generalize rman % 2 = β at *
          have hw' : work = (work - rman) + rman := by omega
          generalize work - rman = w' at *
          subst hw'
          rw [← hdm, Nat.pow_succ]
          generalize 2 ^ t' = U at *
          have h1 : β * Q' ≤ β * U := Nat.mul_le_mul_left _ (by omega)
          nlinarith [h1]
      · -- quotient bit 0
        obtain ⟨Q', wf, t', heq, ht0, htp, hQ, hwf, hwf2, hL, hH⟩ :=
          ih work (rman / 2) (acc * 2) (e - 1) (rman % 2) hr' (by omega)
        refine ⟨Q', wf, t' + 1, ?_, fun h => absurd h h0, fun _ => ?_, ?_, ?_, by omega, ?_, ?_⟩
        · unfold divLoop
          rw [if_pos hpos]; simp only [hg, if_false, heq]
          congr 1
          · rw [Nat.pow_succ]; ring
          · push_cast; omega
        · rw [Nat.pow_succ]
          by_cases hr0 : rman / 2 = 0
          · have := ht0 hr0; subst this; simp; omega
          · have := htp (by omega); omega
        · rw [Nat.pow_succ]; omega
        · rw [hones]; omega
        · generalize ones fuel (rman / 2) = κ at *
          generalize rman / 2 = r at *
          generalize rman % 2 = β at *
          rw [← hdm, Nat.pow_succ]
          generalize 2 ^ t' = U at *
          nlinarith [Nat.zero_le (β * Q'), Nat.zero_le (β * U)]
        · rw [hones]
          generalize ones fuel (rman / 2) = κ at *
          have hβ : rman % 2 ≤ 1 := by omega
          generalize rman / 2 = r at *
          generalize rman % 2 = β at *
          rw [← hdm, Nat.pow_succ]
          generalize 2 ^ t' = U at *
          have h1 : β * Q' ≤ β * U := Nat.mul_le_mul_left _ (by omega)
          nlinarith [h1]

/-- shape of `idiv` for non-zero stored operands: the quotient mantissa `Q` of the long division of
    256·a by 256·b (a, b the mantissas with implied bit), with the invariant of `divLoop_spec` for
    U = den_upper = 2^(w+8), at exponent `ex − ey + bias + 1 − w`; at most κ ≤ w lossy steps -/
theorem idiv_struct (f : Fmt) (h : f.WF) (x y : F) (hx : F.Valid f x) (hy : F.Valid f y)
    (hxe : x.e ≠ 0) (hye : y.e ≠ 0) :
    ∃ Q wf κ : Nat, Q < f.denUpper ∧ κ ≤ f.w ∧ wf ≤ κ ∧
      f.denUpper * (256 * manOf f x) ≤ 2 * (256 * manOf f y) * Q + f.denUpper * wf ∧
      2 * (256 * manOf f y) * Q + f.denUpper * wf ≤ f.denUpper * (256 * manOf f x) + f.denUpper * κ ∧
      idiv f x y = normD f ⟨(x.e : Int) - y.e + f.bias + 1 - f.w, Q, isNeg f x != isNeg f y⟩ := by
  obtain ⟨hS, _, _, hdm, hdu, hw, _, hb⟩ := wf_S f h
  obtain ⟨hmx, hex, hnx⟩ := denorm_man f h x
  obtain ⟨hmy, hey, hny⟩ := denorm_man f h y
  obtain ⟨ax1, ax2⟩ := manOf_range f h x hx.1
  obtain ⟨ay1, ay2⟩ := manOf_range f h y hy.1
  have hdm' : f.denMask = 2 ^ (f.w + 7) := h.2.2.1
  have hdu' : f.denUpper = 2 ^ (f.w + 8) := h.2.2.2.1
  have hfuel : 256 * manOf f y < 2 ^ (Nat.log2 (256 * manOf f y) + 2) := by
    have := Nat.lt_log2_self (n := 256 * manOf f y); rw [Nat.pow_succ]; omega
  obtain ⟨Q, wf, t, heq, _, htp, hQ, hwf, _, hL, hH⟩ :=
    divLoop_spec (Nat.log2 (256 * manOf f y) + 2) (256 * manOf f x) (256 * manOf f y) 0
      ((x.e : Int) - ((y.e : Int) - f.bias - 8) + 1) 0 hfuel (by omega)
  obtain ⟨ht1, ht2⟩ := htp (by omega)
  have ht : t = f.w + 8 := by
    have h1 : 2 ^ t < 2 ^ (f.w + 9) := by
      have : 2 ^ (f.w + 9) = 2 * 2 ^ (f.w + 8) := by rw [Nat.pow_succ]; omega
      rw [this, ← hdu']; omega
    have h2 : 2 ^ (f.w + 7) < 2 ^ t := by rw [← hdm']; omega
    have h1' := (Nat.pow_lt_pow_iff_right (by decide : 1 < 2)).1 h1
    have h2' := (Nat.pow_lt_pow_iff_right (by decide : 1 < 2)).1 h2
    omega
  subst ht
  rw [← hdu'] at hQ hL hH
  have hk : ones (Nat.log2 (256 * manOf f y) + 2) (256 * manOf f y) ≤ f.w :=
    ones_le_bits _ _ 8 (manOf f y) f.w (by norm_num) (by rw [hw]; exact ay2)
  refine ⟨Q, wf, _, hQ, hk, by omega, hL, hH, ?_⟩
  unfold idiv
  have hz1 : y.isZero = false := by simp [F.isZero, hye]
  have hz2 : x.isZero = false := by simp [F.isZero, hxe]
  rw [hz1, hz2]
  simp only [Bool.false_eq_true, if_false]
  unfold divDen
  simp only [hmx, hex, hnx, hmy, hey, hny, heq, Nat.zero_mul, Nat.zero_add]
  congr 2
  rw [hb]; push_cast; omega

theorem sgn_sq (n : Bool) : sgn n * sgn n = 1 := by cases n <;> simp [sgn]
theorem sgn_ne_zero (n : Bool) : sgn n ≠ 0 := by cases n <;> simp [sgn]

/-- the exact quotient of two stored non-zero values -/
theorem val_div_eq (f : Fmt) (h : f.WF) (x y : F) (hy : F.Valid f y) (hxe : x.e ≠ 0) (hye : y.e ≠ 0) :
    val f x / val f y = sgn (isNeg f x != isNeg f y) *
      ((manOf f x : Rat) / (manOf f y : Rat)) * p2 ((x.e : Int) - y.e) := by
  obtain ⟨hS, _⟩ := wf_S f h
  obtain ⟨ay1, _⟩ := manOf_range f h y hy.1
  have hb : (0 : Rat) < manOf f y := by exact_mod_cast (show 0 < manOf f y by omega)
  have hpy := p2_pos ((y.e : Int) - f.bias)
  rw [val_nonzero f x hxe, val_nonzero f y hye, sgn_xor]
  have hne : sgn (isNeg f y) * (manOf f y : Rat) * p2 ((y.e : Int) - f.bias) ≠ 0 :=
    mul_ne_zero (mul_ne_zero (sgn_ne_zero _) hb.ne') hpy.ne'
  rw [div_eq_iff hne]
  have e1 : p2 ((x.e : Int) - f.bias) = p2 ((x.e : Int) - y.e) * p2 ((y.e : Int) - f.bias) := by
    rw [← p2_add]; congr 1; omega
  rw [e1]
  calc sgn (isNeg f x) * ↑(manOf f x) * (p2 ((x.e : Int) - y.e) * p2 ((y.e : Int) - f.bias))
      = sgn (isNeg f x) * ↑(manOf f x) * (p2 ((x.e : Int) - y.e) * p2 ((y.e : Int) - f.bias)) *
          (sgn (isNeg f y) * sgn (isNeg f y)) * ((manOf f y : Rat) / (manOf f y : Rat)) := by
        rw [sgn_sq, div_self hb.ne']; ring
    _ = _ := by ring

/-- arithmetic core of the division bound (natural numbers) -/
theorem div_arith (S a b Q wf κ w : Nat) (hw128 : w ≤ 128) (hS : 128 ≤ S) (ax1 : S ≤ a) (ay1 : S ≤ b)
    (ay2 : b < 2 * S) (hκ : κ ≤ w) (hwf : wf ≤ κ)
    (hL : 512 * S * (256 * a) ≤ 2 * (256 * b) * Q + 512 * S * wf)
    (hH : 2 * (256 * b) * Q + 512 * S * wf ≤ 512 * S * (256 * a) + 512 * S * κ) :
    256 * (S * a) ≤ b * Q + S * wf ∧ b * Q + S * wf ≤ 256 * (S * a) + S * κ ∧ 128 * S ≤ Q := by
  have hL' : 256 * (S * a) ≤ b * Q + S * wf := by nlinarith
  have hH' : b * Q + S * wf ≤ 256 * (S * a) + S * κ := by nlinarith
  refine ⟨hL', hH', ?_⟩
  by_contra hlt
  have h1 : b * (Q + 1) ≤ b * (128 * S) := Nat.mul_le_mul_left _ (by omega)
  have h2 : S * (b + 1) ≤ S * (2 * S) := Nat.mul_le_mul_left _ (by omega)
  have h3 : S * S ≤ S * a := Nat.mul_le_mul_left _ ax1
  have h4 : S * wf ≤ S * 128 := Nat.mul_le_mul_left _ (by omega)
  nlinarith

/-- arithmetic core of the division bound (rational numbers): |Q − 256·S·a/b| ≤ κ -/
theorem div_arith_rat (S a b Q wf κ : Nat) (hb0 : 0 < b) (ay1 : S ≤ b) (hwf : wf ≤ κ)
    (hL : 256 * (S * a) ≤ b * Q + S * wf) (hH : b * Q + S * wf ≤ 256 * (S * a) + S * κ) :
    |(Q : Rat) - 256 * S * a / b| ≤ κ := by
  have hbq : (0 : Rat) < b := by exact_mod_cast hb0
  have hLq : (256 * (S * a) : Rat) ≤ b * Q + S * wf := by exact_mod_cast hL
  have hHq : (b * Q + S * wf : Rat) ≤ 256 * (S * a) + S * κ := by exact_mod_cast hH
  have hSκq : (S * κ : Rat) ≤ b * κ := by exact_mod_cast Nat.mul_le_mul_right κ ay1
  have hwfq : (S * wf : Rat) ≤ S * κ := by exact_mod_cast Nat.mul_le_mul_left S hwf
  have hwf0 : (0 : Rat) ≤ S * wf := by positivity
  have k1 : (256 * S * a / b : Rat) ≤ Q + κ := by
    rw [div_le_iff₀ hbq]; nlinarith
  have k2 : (Q : Rat) - κ ≤ 256 * S * a / b := by
    rw [le_div_iff₀ hbq]; nlinarith
  rw [abs_le]; constructor <;> linarith

/-- `_div_den` in rational numbers: the quotient handed to `_normalise` has a mantissa in
    [128·S, den_upper) and is within κ ≤ w units of its last place of the exact quotient -/
theorem idiv_dval (f : Fmt) (h : f.WF) (hw128 : f.w ≤ 128) (x y : F) (hx : F.Valid f x) (hy : F.Valid f y)
    (hxe : x.e ≠ 0) (hye : y.e ≠ 0) :
    ∃ d : Den, idiv f x y = normD f d ∧ d.man < f.denUpper ∧ 128 * f.signMask ≤ d.man ∧
      d.exp = (x.e : Int) - y.e + f.bias + 1 - f.w ∧
      |dval f d - val f x / val f y| ≤ (f.w : Rat) * p2 (d.exp - f.bias - 8) := by
  obtain ⟨hS, _, _, hdm, hdu, hw, _, hb⟩ := wf_S f h
  obtain ⟨ax1, ax2⟩ := manOf_range f h x hx.1
  obtain ⟨ay1, ay2⟩ := manOf_range f h y hy.1
  obtain ⟨Q, wf, κ, hQ, hκ, hwf, hL, hH, heq⟩ := idiv_struct f h x y hx hy hxe hye
  rw [hdu] at hL hH
  obtain ⟨hL', hH', hbig⟩ := div_arith _ _ _ _ _ _ _ hw128 hS ax1 ay1 ay2 hκ hwf hL hH
  have hkey := div_arith_rat _ _ _ _ _ _ (by omega) ay1 hwf hL' hH'
  refine ⟨⟨(x.e : Int) - y.e + f.bias + 1 - f.w, Q, isNeg f x != isNeg f y⟩, heq, hQ, hbig, rfl, ?_⟩
  rw [val_div_eq f h x y hy hxe hye]
  unfold dval dmag
  simp only []
  have hpu := p2_pos ((x.e : Int) - y.e + f.bias + 1 - f.w - f.bias - 8)
  have e1 : p2 ((x.e : Int) - y.e) =
      256 * (f.signMask : Rat) * p2 ((x.e : Int) - y.e + f.bias + 1 - f.w - f.bias - 8) := by
    rw [signMask_p2 f h]
    have e8 : (256 : Rat) = p2 8 := by
      rw [show (8 : Int) = ((8 : Nat) : Int) by rfl, p2_nat]; norm_num
    rw [e8, ← p2_add, ← p2_add]; congr 1; omega
  rw [e1]
  generalize p2 ((x.e : Int) - y.e + f.bias + 1 - f.w - f.bias - 8) = pu at *
  have hκw : (κ : Rat) ≤ f.w := by exact_mod_cast hκ
  rw [show sgn (isNeg f x != isNeg f y) * (↑Q * pu) -
        sgn (isNeg f x != isNeg f y) * (↑(manOf f x) / ↑(manOf f y)) * (256 * ↑f.signMask * pu)
      = sgn (isNeg f x != isNeg f y) * ((↑Q - 256 * ↑f.signMask * ↑(manOf f x) / ↑(manOf f y)) * pu) by ring,
    abs_sgn_mul, abs_mul, abs_of_pos hpu]
  exact mul_le_mul_of_nonneg_right (le_trans hkey hκw) hpu.le
