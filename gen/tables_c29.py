"""Generate lean/PcbV/Gen/CasTypes.lean: the cassette header type tokens of devices/cassette.py."""
from gen_tables import generator, HEADER


@generator('CasTypes')
def gen_castypes():
    from pcbasic.basic.devices import cassette
    out = [HEADER, 'namespace PcbV.Gen.CasTypes\n']
    # dict order = insertion order; keys are bytes of length 1 -> their byte value
    t2t = ', '.join('(%d, %d)' % (tok, ord(typ)) for tok, typ in cassette.TOKEN_TO_TYPE.items())
    out.append('/-- TOKEN_TO_TYPE: header flag byte -> file type letter (as its byte value) -/')
    out.append('def tokenToType : List (Nat × Nat) := [%s]' % t2t)
    y2t = ', '.join('(%d, %d)' % (ord(typ), tok) for typ, tok in cassette.TYPE_TO_TOKEN.items())
    out.append('/-- TYPE_TO_TOKEN: file type letter -> header flag byte -/')
    out.append('def typeToToken : List (Nat × Nat) := [%s]' % y2t)
    out.append('def syncByte : Nat := %d' % cassette.TapeBitStream.sync_byte)
    out.append('\nend PcbV.Gen.CasTypes\n')
    return '\n'.join(out)
