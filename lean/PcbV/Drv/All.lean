import PcbV.Basic
import PcbV.Drv.C02
namespace PcbV.Drv

def dispatch : List String → String
  | "C02" :: rest => C02.handle rest
  | _ => "bad-op"

end PcbV.Drv
