import PcbV.Lemmas.UserFn
/-
  The frame argument for `UserFn.evaluate`: state relation `PostX`, the contract `Framed` of a
  computation, and the loops of `_evaluate` (arguments, save, bind, restore).
-/
namespace PcbV.UserFn
open PcbV PcbV.Heap

/-- `s'` is a later state of `s`: well-formed, every cell of `s` persists with its value, the root
    stack did not shrink, every numeric scalar reads the same, the recursion flags are the same -/
structure PostX (s s' : St) : Prop where
  wf : WF s'.h
  ext : Ext s.h s'.h
  le : s.h.stack.length ≤ s'.h.stack.length
  nums : ∀ name, getNum s' name = getNum s name
  busy : s'.busy = s.busy

theorem PostX.refl (s : St) (hw : WF s.h) : PostX s s := ⟨hw, Ext.refl _, Nat.le_refl _, fun _ => rfl, rfl⟩

theorem PostX.trans {a b c : St} (h1 : PostX a b) (h2 : PostX b c) : PostX a c :=
  ⟨h2.wf, h1.ext.trans h2.ext, Nat.le_trans h1.le h2.le, fun n => (h2.nums n).trans (h1.nums n),
   h2.busy.trans h1.busy⟩

/-- a value that may be registered as a root or written into a cell -/
def LiveVal (h : Heap) : Val → Prop
  | .num _ _ => True
  | .str p => Live h p

/-- the contract of an expression computation: whatever the outcome, the state is a later state with
    the same number of roots; a string result is a live pointer -/
def Framed (c : Comp) : Prop :=
  ∀ s, WF s.h →
    match c s with
    | .ok (s', v) => PostX s s' ∧ s'.h.stack.length = s.h.stack.length ∧ LiveVal s'.h v
    | .error (_, s') => PostX s s' ∧ s'.h.stack.length = s.h.stack.length

theorem conv_live (h : Heap) (t : Ty) (v v' : Val) (hc : conv t v = .ok v') (hl : LiveVal h v) : LiveVal h v' := by
  cases t <;> cases v <;> simp only [conv] at hc
  all_goals first
    | (cases hc; exact hl)
    | (cases hc; trivial)
    | (split at hc <;> cases hc; trivial)
    | cases hc

theorem conv_str (t : Ty) (v : Val) (p : Ptr) (hc : conv t v = .ok (.str p)) : t = .str := by
  cases t <;> cases v <;> simp only [conv] at hc
  all_goals first
    | rfl
    | cases hc
    | (split at hc <;> cases hc)

theorem conv_num (t : Ty) (v : Val) (u : Ty) (q : Int) (hc : conv t v = .ok (.num u q)) : t ≠ .str := by
  cases t <;> cases v <;> simp only [conv] at hc
  all_goals first
    | (intro h; cases h; done)
    | cases hc

/-- registering a live pointer -/
theorem pushRoot_post (s : St) (hw : WF s.h) (p : Ptr) (hp : Live s.h p) :
    PostX s (pushRoot s p) ∧ getLoc (pushRoot s p).h (.s s.h.stack.length) = some p ∧
    (pushRoot s p).h.stack.length = s.h.stack.length + 1 := by
  obtain ⟨h1, h2, h3⟩ := push_ext s.h hw p hp
  refine ⟨⟨h1, h2, ?_, fun _ => rfl, rfl⟩, h3, ?_⟩
  · simp [pushRoot, push]
  · simp [pushRoot, push]

/-- back to the roots at entry -/
theorem unwind_post (s t : St) (h : PostX s t) :
    PostX s (unwind s.h.stack.length t) ∧ (unwind s.h.stack.length t).h.stack.length = s.h.stack.length := by
  obtain ⟨h1, h2⟩ := unwind_ext s.h t.h h.wf h.ext s.h.stack.length (Nat.le_refl _)
  have hl : (unwind s.h.stack.length t).h.stack.length = s.h.stack.length := by
    simp only [unwind, List.length_take]
    exact Nat.min_eq_left h.le
  exact ⟨⟨h1, h2, by rw [hl]; exact Nat.le_refl _, h.nums, h.busy⟩, hl⟩

/-! ### slots -/

/-- the root at stack index `k` is an own pointer reading `b` -/
def SlotHas (h : Heap) (k : Nat) (b : Bytes) : Prop := ∃ p, getLoc h (.s k) = some p ∧ deref h p = b

theorem SlotHas.ext {h h' : Heap} {k : Nat} {b : Bytes} (e : Ext h h') (hs : SlotHas h k b) : SlotHas h' k b := by
  obtain ⟨p, hp, hd⟩ := hs
  obtain ⟨p', hp', hd'⟩ := e.cells _ p hp
  exact ⟨p', hp', hd'.trans hd⟩

theorem slotPtr_of_getLoc (h : Heap) (k : Nat) (p : Ptr) (hp : getLoc h (.s k) = some p) : slotPtr h k = p := by
  simp only [getLoc] at hp
  unfold slotPtr
  cases hx : h.stack[k]? with
  | none => rw [hx] at hp; cases hp
  | some it =>
    rw [hx] at hp
    cases it with
    | own q => cases hp; rfl
    | ref l => cases hp

/-! ### the argument loop -/

/-- entries produced by the argument loop carry the type of their parameter -/
def TypedEntry (x : Bytes × Slot) : Prop :=
  match x.2 with
  | .str _ => sigil x.1 = .str
  | .num _ => sigil x.1 ≠ .str

theorem evalArgs_post (l : List (Bytes × Comp)) (hl : ∀ x ∈ l, Framed x.2) (s : St) (hw : WF s.h) :
    match evalArgs l s with
    | .ok (s', av) => PostX s s' ∧ (∀ x ∈ av, TypedEntry x) ∧ (∀ x ∈ av, x.1 ∈ l.map (·.1))
    | .error (_, s') => PostX s s' := by
  induction l generalizing s with
  | nil => exact ⟨PostX.refl s hw, by simp, by simp⟩
  | cons a r ih =>
    obtain ⟨name, c⟩ := a
    simp only [evalArgs]
    have hfc : Framed c := hl (name, c) (List.mem_cons_self ..)
    have hc := hfc s hw
    have hr : ∀ x ∈ r, Framed x.2 := fun x hx => hl x (List.mem_cons_of_mem _ hx)
    cases hcs : c s with
    | error x => obtain ⟨e, t⟩ := x; rw [hcs] at hc; exact hc.1
    | ok x =>
      obtain ⟨s1, v⟩ := x
      rw [hcs] at hc
      obtain ⟨hp1, _, hlv⟩ := hc
      simp only
      cases hcv : conv (sigil name) v with
      | error e => exact hp1
      | ok v' =>
        cases v' with
        | num u q =>
          simp only
          have := ih hr s1 hp1.wf
          cases hev : evalArgs r s1 with
          | error x => obtain ⟨e, t⟩ := x; rw [hev] at this; exact hp1.trans this
          | ok x =>
            obtain ⟨s2, av⟩ := x
            rw [hev] at this
            obtain ⟨h1, h2, h3⟩ := this
            refine ⟨hp1.trans h1, ?_, ?_⟩
            · intro y hy
              cases hy with
              | head => exact conv_num _ _ _ _ hcv
              | tail _ hy => exact h2 y hy
            · intro y hy
              cases hy with
              | head => simp
              | tail _ hy => exact List.mem_cons_of_mem _ (h3 y hy)
        | str p =>
          simp only
          have hlp : Live s1.h p := conv_live s1.h _ _ _ hcv hlv
          obtain ⟨hpp, _, _⟩ := pushRoot_post s1 hp1.wf p hlp
          have := ih hr (pushRoot s1 p) hpp.wf
          cases hev : evalArgs r (pushRoot s1 p) with
          | error x => obtain ⟨e, t⟩ := x; rw [hev] at this; exact (hp1.trans hpp).trans this
          | ok x =>
            obtain ⟨s2, av⟩ := x
            rw [hev] at this
            obtain ⟨h1, h2, h3⟩ := this
            refine ⟨(hp1.trans hpp).trans h1, ?_, ?_⟩
            · intro y hy
              cases hy with
              | head => exact conv_str _ _ _ hcv
              | tail _ hy => exact h2 y hy
            · intro y hy
              cases hy with
              | head => simp
              | tail _ hy => exact List.mem_cons_of_mem _ (h3 y hy)

/-! ### creating the parameter variables -/

theorem liftWF (s : St) (h' : Heap) (hw : WF h') (e : Ext s.h h') (hl : h'.stack.length = s.h.stack.length) :
    PostX s { s with h := h' } ∧ ({ s with h := h' } : St).h.stack.length = s.h.stack.length :=
  ⟨⟨hw, e, by simp [hl], fun _ => rfl, rfl⟩, hl⟩

theorem ensureVar_post (name : Bytes) (s : St) (hw : WF s.h) :
    match ensureVar name s with
    | .ok s' => PostX s s' ∧ s'.h.stack.length = s.h.stack.length ∧
        (sigil name = .str → ∃ i, findIdx name s'.h.scalars 0 = some i)
    | .error (_, s') => PostX s s' ∧ s'.h.stack.length = s.h.stack.length := by
  unfold ensureVar
  by_cases hsg : sigil name = .str
  · rw [if_pos hsg]
    have := ensureScalar_ext name s.h hw
    unfold liftH
    cases he : ensureScalar name s.h with
    | error x =>
      obtain ⟨e, t⟩ := x
      rw [he] at this
      exact liftWF s t this.1 this.2.1 this.2.2
    | ok t =>
      rw [he] at this
      obtain ⟨h1, h2, h3, h4⟩ := this
      obtain ⟨a, b⟩ := liftWF s t h1 h2 h3
      exact ⟨a, b, fun _ => h4⟩
  · rw [if_neg hsg]
    cases hlk : lookupNum s.nums name with
    | some v => exact ⟨PostX.refl s hw, rfl, fun h => absurd h hsg⟩
    | none =>
      simp only
      have := allocNum_ext (varSize name) s.h hw
      cases ha : allocNum (varSize name) s.h with
      | error x =>
        obtain ⟨e, t⟩ := x
        rw [ha] at this
        exact liftWF s t this.1 this.2.1 this.2.2
      | ok t =>
        rw [ha] at this
        obtain ⟨h1, h2, h3⟩ := this
        refine ⟨⟨h1, h2, by simp [h3], ?_, rfl⟩, h3, fun h => absurd h hsg⟩
        intro m
        by_cases hm : name = m
        · subst hm
          simp [getNum, lookup_upsert_same, hlk]
        · simp [getNum, lookup_upsert_ne _ _ _ _ hm]

/-! ### the save loop -/

/-- an entry of `varsave`: a registered clone reading the variable's value in `s0`, or the number -/
def SavedEntry (s0 t : St) (x : Bytes × Slot) : Prop :=
  match x.2 with
  | .str k => sigil x.1 = .str ∧ SlotHas t.h k (readH s0.h x.1) ∧ ∃ i, findIdx x.1 t.h.scalars 0 = some i
  | .num q => sigil x.1 ≠ .str ∧ q = getNum s0 x.1

theorem SavedEntry.later {s0 t t' : St} {x : Bytes × Slot} (h : PostX t t') (hs : SavedEntry s0 t x) :
    SavedEntry s0 t' x := by
  obtain ⟨name, sl⟩ := x
  cases sl with
  | num q => exact hs
  | str k =>
    obtain ⟨h1, h2, i, h3⟩ := hs
    exact ⟨h1, h2.ext h.ext, i, h.ext.find_idx _ _ h3⟩

theorem SavedEntry.rebase {s0 s1 t : St} {x : Bytes × Slot} (h : PostX s0 s1) (hs : SavedEntry s1 t x) :
    SavedEntry s0 t x := by
  obtain ⟨name, sl⟩ := x
  cases sl with
  | num q =>
    obtain ⟨h1, h2⟩ := hs
    exact ⟨h1, by rw [h2]; exact h.nums _⟩
  | str k =>
    obtain ⟨h1, h2, h3⟩ := hs
    refine ⟨h1, ?_, h3⟩
    have : readH s1.h name = readH s0.h name := h.ext.read name
    simpa [this] using h2

theorem saveAll_post (ps : List Bytes) (s : St) (hw : WF s.h) :
    match saveAll ps s with
    | .ok (s', saved) => PostX s s' ∧ saved.map (·.1) = ps ∧ ∀ x ∈ saved, SavedEntry s s' x
    | .error (_, s') => PostX s s' := by
  induction ps generalizing s with
  | nil => exact ⟨PostX.refl s hw, rfl, by simp⟩
  | cons name r ih =>
    simp only [saveAll]
    have he := ensureVar_post name s hw
    cases hev : ensureVar name s with
    | error x => obtain ⟨e, t⟩ := x; rw [hev] at he; exact he.1
    | ok s1 =>
      rw [hev] at he
      obtain ⟨hp1, _, hex⟩ := he
      simp only
      by_cases hsg : sigil name = .str
      · rw [if_pos hsg]
        obtain ⟨i, hi⟩ := hex hsg
        obtain ⟨p, hp⟩ := findIdx_cell s1.h name i hi
        have hpe : ((cellOf s1.h name).bind (getV s1.h)).getD Ptr.null = p := by
          simp [cellOf, hi, hp]
        rw [hpe]
        have hlp : Live s1.h p := hp1.wf.live (.v (.sc i)) p hp
        obtain ⟨hpp, hslot, _⟩ := pushRoot_post s1 hp1.wf p hlp
        have := ih (pushRoot s1 p) hpp.wf
        cases hsv : saveAll r (pushRoot s1 p) with
        | error x => obtain ⟨e, t⟩ := x; rw [hsv] at this; exact (hp1.trans hpp).trans this
        | ok x =>
          obtain ⟨s2, saved⟩ := x
          rw [hsv] at this
          obtain ⟨h1, h2, h3⟩ := this
          refine ⟨(hp1.trans hpp).trans h1, by simp [h2], ?_⟩
          intro y hy
          cases hy with
          | head =>
            -- the clone registered now reads the variable's value
            have hread : deref (pushRoot s1 p).h p = readH s.h name := by
              have e1 : deref (pushRoot s1 p).h p = deref s1.h p := deref_congr s1.h _ p rfl rfl rfl rfl
              have e2 : readH s1.h name = deref s1.h p := by simp [readH, hi, hp]
              rw [e1, ← e2]
              exact hp1.ext.read name
            have hsl : SlotHas (pushRoot s1 p).h s1.h.stack.length (readH s.h name) := ⟨p, hslot, hread⟩
            exact ⟨hsg, hsl.ext h1.ext, i, h1.ext.find_idx _ _ (hpp.ext.find_idx _ _ hi)⟩
          | tail _ hy => exact SavedEntry.rebase (hp1.trans hpp) (h3 y hy)
      · rw [if_neg hsg]
        have := ih s1 hp1.wf
        cases hsv : saveAll r s1 with
        | error x => obtain ⟨e, t⟩ := x; rw [hsv] at this; exact hp1.trans this
        | ok x =>
          obtain ⟨s2, saved⟩ := x
          rw [hsv] at this
          obtain ⟨h1, h2, h3⟩ := this
          refine ⟨hp1.trans h1, by simp [h2], ?_⟩
          intro y hy
          cases hy with
          | head => exact ⟨hsg, hp1.nums name⟩
          | tail _ hy => exact SavedEntry.rebase hp1 (h3 y hy)

end PcbV.UserFn
