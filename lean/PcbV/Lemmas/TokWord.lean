import PcbV.Lemmas.TokNum
/-
  Lemmas for C17: `_tokenise_word` on keywords and names.
-/
namespace PcbV.TokL
open PcbV PcbV.Gen PcbV.Gen.Tokens PcbV.Tok PcbV.Lst


/-! ## character facts -/

theorem isNameChar_upper (c : Nat) : isNameChar (upper c) = isNameChar c := by
  unfold upper isLower
  by_cases h : 97 ≤ c ∧ c ≤ 122
  · have h1 : isNameChar (c - 32) = true := by
      simp [isNameChar, isAlnum, isLetter, isUpper]; omega
    have h2 : isNameChar c = true := by
      simp [isNameChar, isAlnum, isLetter, isLower]; omega
    simp [h, h1, h2]
  · simp [h]

theorem upper_ne_32 {c : Nat} (h : c ≠ 32) : upper c ≠ 32 := by
  unfold upper isLower
  by_cases hl : 97 ≤ c ∧ c ≤ 122
  · simp [hl]; omega
  · simp [hl, h]

theorem isNameChar_ne_32 {c : Nat} (h : isNameChar c = true) : c ≠ 32 := by
  intro e; subst e; simp [isNameChar, isAlnum, isLetter, isUpper, isLower, isDigit] at h

theorem wideGo_none (cs : Bytes) (h : match cs with
                                     | x :: _ => x ≠ 32
                                     | [] => True) : wideGo cs = none := by
  cases cs with
  | nil => simp [wideGo]
  | cons x cs =>
    have hx : upper x ≠ 32 := upper_ne_32 h
    have hx' : (upper x == 32) = false := by simpa using hx
    unfold wideGo
    cases cs with
    | nil => simp [hx']
    | cons y cs =>
      cases cs with
      | nil => simp [hx']
      | cons z cs =>
        cases cs with
        | nil => simp [hx']
        | cons u cs => simp [hx']

/-! ## keywords -/

/-- the conditions on the proper prefixes `p ++ [c]` of a keyword under which `_tokenise_word`
    reads on to the end of the keyword -/
def kwScanOKGo (t : Table) : Bytes → Bytes → Bool
  | _, [] => true
  | p, c :: s =>
    (if s.isEmpty then true
     else if p ++ [c] == kwGo then s.head? != some 32
     else match toToken t (p ++ [c]) with
       | some _ => !isNoLookahead (p ++ [c]) && nextIsName s
       | none => isNameChar c)
    && kwScanOKGo t (p ++ [c]) s

def kwScanOK (t : Table) (k : Bytes) : Bool := k != kwGo && k.map upper == k && kwScanOKGo t [] k

def nextNotName (rest : Bytes) : Bool := !nextIsName rest

theorem lookahead_false (k rest : Bytes) (hnext : isNoLookahead k = true ∨ nextNotName rest = true) :
    (!isNoLookahead k && nextIsName rest) = false := by
  rcases hnext with h | h
  · simp [h]
  · simp [nextNotName] at h; simp [h]

theorem scanWord_kw_go (t : Table) (k tok rest : Bytes) (hlook : toToken t k = some tok) (hne : k ≠ kwGo)
    (hnext : isNoLookahead k = true ∨ nextNotName rest = true) :
    ∀ (s p w : Bytes), p ++ s = k → w.map upper = s → s ≠ [] → kwScanOKGo t p s = true →
      scanWord t p (w ++ rest) = (k, emitKw k tok, rest) := by
  intro s
  induction s with
  | nil => intro p w _ _ h; exact absurd rfl h
  | cons c' s' ih =>
    intro p w hk hw _ hok
    cases w with
    | nil => simp at hw
    | cons c w' =>
      simp only [List.map_cons, List.cons.injEq] at hw
      obtain ⟨hc, hw'⟩ := hw
      have hk' : (p ++ [c']) ++ s' = k := by simp [← hk]
      unfold kwScanOKGo at hok
      simp only [Bool.and_eq_true] at hok
      obtain ⟨hstep, hrec⟩ := hok
      rw [List.cons_append]
      unfold scanWord
      rw [hc]
      cases s' with
      | nil =>
        -- the whole keyword has been read
        have hp : p ++ [c'] = k := by simpa using hk'
        have hw0 : w' = [] := by simpa using hw'
        subst hw0
        have hgo : (k == kwGo) = false := by simpa using hne
        have hcond := lookahead_false k rest hnext
        simp only [hp, hgo, Bool.false_eq_true, if_false, hlook, List.nil_append, hcond]
      | cons d' s'' =>
        cases w' with
        | nil => simp at hw'
        | cons d w'' =>
          simp only [List.map_cons, List.cons.injEq] at hw'
          have hd : upper d = d' := hw'.1
          have hnext' := ih (p ++ [c']) (d :: w'') hk' (by simp [hw'.1, hw'.2]) (by simp) hrec
          simp only [List.isEmpty_cons, Bool.false_eq_true, if_false] at hstep
          cases hgo : (p ++ [c'] == kwGo) with
          | true =>
            simp only [hgo, if_true, List.head?_cons, bne_iff_ne, ne_eq, Option.some.injEq] at hstep
            have hd32 : d ≠ 32 := by
              intro e; subst e
              have : upper 32 = 32 := by decide
              exact hstep (hd ▸ this)
            rw [if_pos rfl, List.cons_append, wideGo_none _ (by simpa using hd32)]
            simpa using hnext'
          | false =>
            simp only [hgo, Bool.false_eq_true, if_false] at hstep
            rw [if_neg (by simp)]
            cases htk : toToken t (p ++ [c']) with
            | some tk =>
              simp only [htk, Bool.and_eq_true, Bool.not_eq_true'] at hstep
              have hdn : isNameChar d = true := by rw [← isNameChar_upper, hd]; exact hstep.2
              simp only [hstep.1, Bool.not_false, List.cons_append, nextIsName, hdn, Bool.and_self, if_true]
              simpa using hnext'
            | none =>
              simp only [htk] at hstep
              have hcn : isNameChar c = true := by rw [← isNameChar_upper, hc]; exact hstep
              simp only [hcn, Bool.not_true, Bool.false_eq_true, if_false]
              simpa using hnext'

/-- a keyword of the table, typed in any letter case and followed by something that is not a name
    character, is recognised as its token -/
theorem scanWord_kw (t : Table) (k tok w rest : Bytes) (hlook : toToken t k = some tok) (hok : kwScanOK t k = true)
    (hk : k ≠ []) (hw : w.map upper = k) (hnext : isNoLookahead k = true ∨ nextNotName rest = true) :
    scanWord t [] (w ++ rest) = (k, emitKw k tok, rest) := by
  simp only [kwScanOK, Bool.and_eq_true, bne_iff_ne, ne_eq, beq_iff_eq] at hok
  exact scanWord_kw_go t k tok rest hlook hok.1.1 hnext k [] w (by simp) hw hk hok.2





/-! ## names -/

def identScanOKGo (t : Table) : Bytes → Bytes → Bool
  | _, [] => true
  | p, c :: s =>
    isNameChar c && upper c == c &&
    (if p ++ [c] == kwGo then !s.isEmpty
     else match toToken t (p ++ [c]) with
       | some _ => !isNoLookahead (p ++ [c]) && !s.isEmpty
       | none => true)
    && identScanOKGo t (p ++ [c]) s

/-- what may follow the name `w` -/
def identFollowOK (t : Table) (w : Bytes) : Bytes → Bool
  | [] => true
  | c :: _ => !isNameChar c && (toToken t (w ++ [upper c])).isNone

theorem not_name_go (p : Bytes) (c : Nat) (h : isNameChar c = false) : (p ++ [upper c] == kwGo) = false := by
  cases hh : (p ++ [upper c] == kwGo) with
  | false => rfl
  | true =>
    exfalso
    have e : p ++ [upper c] = [71] ++ [79] := by simpa [kwGo] using hh
    have : upper c = 79 := by
      have := congrArg List.getLast? e
      simpa using this
    have h2 : isNameChar (upper c) = true := by rw [this]; decide
    rw [isNameChar_upper] at h2
    simp [h] at h2

theorem scanWord_ident_go (t : Table) (rest : Bytes) :
    ∀ (s p : Bytes), identScanOKGo t p s = true → (s = [] → toToken t p = none) →
      identFollowOK t (p ++ s) rest = true → scanWord t p (s ++ rest) = (p ++ s, p ++ s, rest) := by
  intro s
  induction s with
  | nil =>
    intro p _ hend hf
    have hnone := hend rfl
    cases rest with
    | nil => simp [scanWord, hnone]
    | cons c cs =>
      simp only [List.append_nil, identFollowOK, Bool.and_eq_true, Bool.not_eq_true', Option.isNone_iff_eq_none] at hf
      simp only [List.nil_append, List.append_nil]
      unfold scanWord
      simp [not_name_go p c hf.1, hf.2, hf.1]
  | cons c s' ih =>
    intro p hok hend hf
    unfold identScanOKGo at hok
    simp only [Bool.and_eq_true] at hok
    obtain ⟨⟨⟨hcn, hcu0⟩, hstep⟩, hrec⟩ := hok
    have hcu : upper c = c := by simpa using hcu0
    have hf' : identFollowOK t (p ++ [c] ++ s') rest = true := by simpa using hf
    rw [List.cons_append]
    unfold scanWord
    rw [hcu]
    cases s' with
    | nil =>
      -- last character of the name
      have hnotgo : (p ++ [c] == kwGo) = false := by
        cases hgo : (p ++ [c] == kwGo) with
        | false => rfl
        | true => simp [hgo] at hstep
      have hnone : toToken t (p ++ [c]) = none := by
        cases htk : toToken t (p ++ [c]) with
        | none => rfl
        | some _ => simp [hnotgo, htk] at hstep
      have := ih (p ++ [c]) hrec (fun _ => hnone) hf'
      simp only [hnotgo, Bool.false_eq_true, if_false, hnone, hcn, Bool.not_true]
      simpa using this
    | cons d s'' =>
      have hrec' := hrec
      unfold identScanOKGo at hrec'
      simp only [Bool.and_eq_true] at hrec'
      have hdn : isNameChar d = true := hrec'.1.1.1
      have := ih (p ++ [c]) hrec (fun h => by simp at h) hf'
      cases hgo : (p ++ [c] == kwGo) with
      | true =>
        rw [if_pos rfl, List.cons_append, wideGo_none _ (by simpa using isNameChar_ne_32 hdn)]
        simpa using this
      | false =>
        rw [if_neg (by simp)]
        cases htk : toToken t (p ++ [c]) with
        | some tk =>
          simp only [hgo, Bool.false_eq_true, if_false, htk, Bool.and_eq_true, Bool.not_eq_true'] at hstep
          simp only [hstep.1, Bool.not_false, List.cons_append, nextIsName, hdn, Bool.and_self, if_true]
          simpa using this
        | none =>
          simp only [hcn, Bool.not_true, Bool.false_eq_true, if_false]
          simpa using this



/-- every keyword of the table satisfies the prefix conditions of `scanWord_kw` and is non-empty -/
def Table.ScanOK (t : Table) : Prop := t.all (fun p => kwScanOK t p.2 && !p.2.isEmpty) = true

end PcbV.TokL
