/-
  PcbV.Model.StateFile — the session state file of pcbasic/basic/state.py and the pointer
  repositioning of Interpreter.__setstate__ (import-free).

  save_session:  blob = zlib.compress(pickle.dumps(session));  file = header ++ blob with
      header = struct.pack('<LIIIII', crc32(blob), format_version, python_major, python_minor,
                           pcbasic_major, pcbasic_minor)                       (24 bytes)
  load_session:  header = first 24 bytes (shorter -> "header corrupted"), blob = the rest;
      reject unless crc32(blob) = checksum, format_version, python and pcbasic versions all equal
      the values of the running program; only then zlib.decompress + pickle.loads.

  What pickle/zlib do with an accepted blob is runtime behaviour of the Python library and is NOT
  modelled (the correspondence run covers it by suspending and resuming real sessions).

  CRC-32 is zlib's (reflected polynomial 0xEDB88320, initial value and final xor 0xFFFFFFFF),
  transcribed as the bit-serial algorithm on `Nat`; validated against zlib.crc32 on every run.
-/
import PcbV.Basic
namespace PcbV.StateFile
open PcbV

/-! ### CRC-32 -/

def poly : Nat := 0xEDB88320
def mask32 : Nat := 0xFFFFFFFF

/-- one bit of the reflected shift register -/
def crcBit (c : Nat) : Nat := if c % 2 = 1 then (c / 2) ^^^ poly else c / 2

/-- feed one byte: xor into the low byte, then eight shifts -/
def crcByte (c b : Nat) : Nat :=
  crcBit (crcBit (crcBit (crcBit (crcBit (crcBit (crcBit (crcBit (c ^^^ b))))))))

/-- the register after feeding `bs` starting from register `c` -/
def crcFeed (c : Nat) (bs : Bytes) : Nat := bs.foldl crcByte c

/-- `zlib.crc32(bs) & 0xffffffff` -/
def crc32 (bs : Bytes) : Nat := crcFeed mask32 bs ^^^ mask32

/-! ### header -/

/-- `struct.unpack('<L', …)` of four bytes -/
def le32 (a b c d : Nat) : Nat := a + 256 * b + 65536 * c + 16777216 * d

/-- the five fields that `state.HEADER` fixes for the running program -/
structure Expected where
  formatVersion : Nat
  pythonMajor : Nat
  pythonMinor : Nat
  pcbasicMajor : Nat
  pcbasicMinor : Nat
deriving Repr, DecidableEq

structure Header where
  checksum : Nat
  formatVersion : Nat
  pythonMajor : Nat
  pythonMinor : Nat
  pcbasicMajor : Nat
  pcbasicMinor : Nat
deriving Repr, DecidableEq

/-- `header = in_file.read(24); blob = in_file.read(); struct.unpack('<LIIIII', header)`;
    `none` = struct.error (fewer than 24 bytes) -/
def split : Bytes → Option (Header × Bytes)
  | c0 :: c1 :: c2 :: c3 :: f0 :: f1 :: f2 :: f3 :: p0 :: p1 :: p2 :: p3 :: q0 :: q1 :: q2 :: q3 ::
    m0 :: m1 :: m2 :: m3 :: n0 :: n1 :: n2 :: n3 :: blob =>
      some ({ checksum := le32 c0 c1 c2 c3, formatVersion := le32 f0 f1 f2 f3,
              pythonMajor := le32 p0 p1 p2 p3, pythonMinor := le32 q0 q1 q2 q3,
              pcbasicMajor := le32 m0 m1 m2 m3, pcbasicMinor := le32 n0 n1 n2 n3 }, blob)
  | _ => none

/-- reasons for refusing a file, in the order load_session tests them -/
inductive Reject where
  | headerCorrupted | corrupted | formatVersion | pythonVersion | pcbasicVersion
deriving Repr, DecidableEq

/-- the decision of the repaired `load_session`: `.ok blob` = the blob is handed to
    zlib.decompress / pickle.loads -/
def load (e : Expected) (file : Bytes) : Except Reject Bytes :=
  match split file with
  | none => .error .headerCorrupted
  | some (h, blob) =>
    if crc32 blob ≠ h.checksum then .error .corrupted
    else if e.formatVersion ≠ h.formatVersion then .error .formatVersion
    else if e.pythonMajor ≠ h.pythonMajor ∨ e.pythonMinor ≠ h.pythonMinor then .error .pythonVersion
    else if e.pcbasicMajor ≠ h.pcbasicMajor ∨ e.pcbasicMinor ≠ h.pcbasicMinor then .error .pcbasicVersion
    else .ok blob

/-- `load_session` before the repair (defect D14): format_version is unpacked, never compared -/
def loadOld (e : Expected) (file : Bytes) : Except Reject Bytes :=
  match split file with
  | none => .error .headerCorrupted
  | some (h, blob) =>
    if crc32 blob ≠ h.checksum then .error .corrupted
    else if e.pythonMajor ≠ h.pythonMajor ∨ e.pythonMinor ≠ h.pythonMinor then .error .pythonVersion
    else if e.pcbasicMajor ≠ h.pcbasicMajor ∨ e.pcbasicMinor ≠ h.pcbasicMinor then .error .pcbasicVersion
    else .ok blob

def accept (e : Expected) (file : Bytes) : Bool := (load e file).isOk
def acceptOld (e : Expected) (file : Bytes) : Bool := (loadOld e file).isOk

/-- little-endian bytes of a 32-bit field (`struct.pack('<L', n)`) -/
def packLe32 (n : Nat) : Bytes := [n % 256, n / 256 % 256, n / 65536 % 256, n / 16777216 % 256]

/-- `save_session` for an already pickled and compressed blob -/
def save (e : Expected) (blob : Bytes) : Bytes :=
  packLe32 (crc32 blob) ++ packLe32 e.formatVersion ++ packLe32 e.pythonMajor ++ packLe32 e.pythonMinor
    ++ packLe32 e.pcbasicMajor ++ packLe32 e.pcbasicMinor ++ blob

/-! ### where the program pointer is put on resume

  `TokenisedStream.skip_to(END_STATEMENT)` on tokenised code: scan forward to the first `:` or
  NUL (line start) or end of stream that is not inside a string literal or behind REM; a NUL that
  is skipped is followed by a 2-byte offset and a 2-byte line number; tokens in PLUS_BYTES carry
  trailing bytes (a read past the end stops at the end).  Only the part used by `Interpreter.__setstate__` is modelled: the scan starts
  outside a literal/REM with `break_on_first_char = True`, so a NUL or `:` at the starting position
  stops it at once.  The trailing-byte table is a parameter (`plus`). -/

def REM : Nat := 0x8f

/-- scan from `pos`; returns the position where skip_to leaves the stream -/
def skipToEnd (plus : Nat → Nat) (code : Bytes) : (fuel : Nat) → (pos : Nat) → (literal rem : Bool) → Nat
  | 0, pos, _, _ => pos
  | fuel + 1, pos, literal, rem =>
    match code[pos]? with
    | none => pos                                   -- c == b'': break
    | some c =>
      let literal := if c = 34 then !literal else if c = 0 then false else literal
      let rem := if c = 34 then rem else if c = REM ∧ !literal then true else if c = 0 then false else rem
      if literal ∨ rem then skipToEnd plus code fuel (pos + 1) literal rem
      else if c = 0 ∨ c = 58 then pos               -- in END_STATEMENT: seek(-1, 1); break
      else skipToEnd plus code fuel (min (pos + 1 + plus c) code.length) literal rem   -- read() stops at the end

/-- `Interpreter.__setstate__` for a session that quit *inside* a statement (and all there was
    before the repair): seek to current_statement; with redo_on_break (INPUT pending) stay there,
    otherwise step over the line header (NUL + 4 bytes) or the separator and skip to the end of
    that statement -/
def resumeInside (plus : Nat → Nat) (code : Bytes) (currentStatement : Nat) (redo : Bool) : Nat :=
  if redo then currentStatement
  else
    let p := match code[currentStatement]? with
      | none => currentStatement          -- read(1) == b'' is in END_LINE: read(4) reads nothing
      | some c => if c = 0 then min (currentStatement + 5) code.length else currentStatement + 1
    skipToEnd plus code (code.length + 1) p false false

/-- `Interpreter.__setstate__` (repaired).  `between` is the flag `_quit_between_statements` that
    `parse()` raises when the Exit comes out of the event poll between two statements: then the
    pickled stream position `pos` is kept; otherwise the statement in progress is skipped/redone. -/
def resumePos (plus : Nat → Nat) (code : Bytes) (currentStatement pos : Nat) (redo between : Bool) : Nat :=
  if between then pos else resumeInside plus code currentStatement redo

/-- before the repair there was no such flag: every resume repositioned relative to
    current_statement, the statement executed *last* -/
def resumePosOld (plus : Nat → Nat) (code : Bytes) (currentStatement _pos : Nat) (redo _between : Bool) : Nat :=
  resumeInside plus code currentStatement redo

end PcbV.StateFile
