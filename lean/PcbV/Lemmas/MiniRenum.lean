import PcbV.Model.MiniRenum
/-
  Simulation lemmas for C14's `renum_semantics`: the Mech layer of MiniBasic works with statement
  indices, so renumbering changes a step only through `lineIndex`; everything that scans the code
  (NEXT / WEND / ELSE search, end of line) looks at statement kinds and line starts only.
-/
namespace PcbV.MiniBasic
open PcbV.Gen

theorem flattenLine_renum (f : Nat → Nat) (l : Line) :
    flattenLine (Line.renum f l) = (flattenLine l).map (Instr.renum f) := by
  obtain ⟨num, stmts⟩ := l
  cases stmts with
  | nil => rfl
  | cons s rest => simp [flattenLine, Line.renum, Instr.renum, Function.comp_def]

/-- flattening commutes with renumbering -/
theorem flatten_renum (f : Nat → Nat) (p : List Line) : flatten (renumProg f p) = renumCode f (flatten p) := by
  induction p with
  | nil => rfl
  | cons l p ih =>
    simp only [flatten, renumProg, renumCode, List.map_cons, List.flatMap_cons, List.map_append] at ih ⊢
    rw [flattenLine_renum, ih]

theorem codeLines_tail {ins : Instr} {rest : List Instr} {l : Nat} (h : l ∈ codeLines rest) :
    l ∈ codeLines (ins :: rest) := by
  unfold codeLines at *
  rw [List.filterMap_cons]
  cases ins.line with
  | none => exact h
  | some x => exact List.mem_cons_of_mem _ h

theorem lineIndexFrom_renum (f : Nat → Nat) (n : Nat) : ∀ (code : List Instr) (i : Nat),
    (∀ l ∈ codeLines code, f l = f n → l = n) →
    lineIndexFrom (renumCode f code) i (f n) = lineIndexFrom code i n
  | [], _, _ => rfl
  | ins :: rest, i, h => by
    have ih := lineIndexFrom_renum f n rest (i + 1) (fun l hl => h l (codeLines_tail hl))
    simp only [renumCode, List.map_cons, lineIndexFrom, Instr.renum] at ih ⊢
    cases hline : ins.line with
    | none => simpa using ih
    | some l =>
      have hl : l ∈ codeLines (ins :: rest) := by simp [codeLines, hline]
      by_cases hln : l = n
      · simp [hln]
      · have : f l ≠ f n := fun hh => hln (h l hl hh)
        simp [hln, this, ih]

theorem stmtAt_renum (f : Nat → Nat) (code : List Instr) (i : Nat) :
    stmtAt (renumCode f code) i = (stmtAt code i).map (Stmt.renum f) := by
  simp [stmtAt, renumCode]
  cases code[i]? <;> rfl

theorem stmtsAfter_renum (f : Nat → Nat) (code : List Instr) (pc : Nat) :
    stmtsAfter (renumCode f code) pc = (stmtsAfter code pc).map (Stmt.renum f) := by
  simp [stmtsAfter, renumCode, Instr.renum, List.map_drop, Function.comp_def]

theorem scanNext_renum (f : Nat → Nat) : ∀ (l : List Stmt) (i k : Nat),
    scanNext (l.map (Stmt.renum f)) i k = scanNext l i k
  | [], _, _ => rfl
  | st :: rest, i, k => by
    cases st <;> simp [scanNext, Stmt.renum, scanNext_renum f rest]

theorem scanWend_renum (f : Nat → Nat) : ∀ (l : List Stmt) (i k : Nat),
    scanWend (l.map (Stmt.renum f)) i k = scanWend l i k
  | [], _, _ => rfl
  | st :: rest, i, k => by
    cases st <;> simp [scanWend, Stmt.renum, scanWend_renum f rest]

theorem findNext_renum (f : Nat → Nat) (code : List Instr) (pc v : Nat) :
    findNext (renumCode f code) pc v = findNext code pc v := by
  unfold findNext; rw [stmtsAfter_renum, scanNext_renum]

theorem scanElse_renum (f : Nat → Nat) : ∀ (rest : List Instr) (i nest : Nat),
    scanElse (renumCode f rest) i nest = (scanElse rest i nest).map f
  | [], _, _ => rfl
  | ins :: rest, i, nest => by
    obtain ⟨line, st⟩ := ins
    have ih := scanElse_renum f rest
    simp only [renumCode, List.map_cons, Instr.renum] at ih ⊢
    cases line with
    | some l => simp [scanElse, ElseRes.map]
    | none =>
      cases st <;> simp [scanElse, Stmt.renum, ih]
      · split <;> first | simp [ElseRes.map] | simp [ElseRes.map, ih]

theorem skipLine_renum (f : Nat → Nat) : ∀ (rest : List Instr) (i : Nat),
    skipLine (renumCode f rest) i = skipLine rest i
  | [], _ => rfl
  | ins :: rest, i => by
    have ih := skipLine_renum f rest (i + 1)
    simp only [renumCode, List.map_cons, Instr.renum, skipLine] at ih ⊢
    cases ins.line <;> simp [ih]

theorem drop_renum (f : Nat → Nat) (code : List Instr) (k : Nat) :
    (renumCode f code).drop k = renumCode f (code.drop k) := by
  simp [renumCode, List.map_drop]

theorem nextLine_renum (f : Nat → Nat) (code : List Instr) (pc : Nat) :
    nextLine (renumCode f code) pc = nextLine code pc := by
  unfold nextLine; rw [drop_renum, skipLine_renum]

theorem nextVarsAt_renum (f : Nat → Nat) (code : List Instr) (i : Nat) :
    nextVarsAt (renumCode f code) i = nextVarsAt code i := by
  unfold nextVarsAt; rw [stmtAt_renum]
  cases h : stmtAt code i with
  | none => rfl
  | some st => cases st <;> rfl

theorem forEnter_renum (f : Nat → Nat) (fixed : Bool) (code : List Instr) (s : St) (v : Nat) (a b c : Int) :
    forEnter fixed (renumCode f code) s v a b c = forEnter fixed code s v a b c := by
  unfold forEnter; rw [findNext_renum]
  cases findNext code s.pc v with
  | error e => rfl
  | ok np => simp only [nextVarsAt_renum]

theorem execFor_renum (f : Nat → Nat) (fixed : Bool) (code : List Instr) (s : St) (v : Nat) (a b : Expr)
    (c : Option Expr) : execFor fixed (renumCode f code) s v a b c = execFor fixed code s v a b c := by
  unfold execFor; simp only [forEnter_renum]

/-- the only place where line numbers matter -/
def IdxOk (f : Nat → Nat) (code : List Instr) : Prop :=
  ∀ n ∈ codeTargets code, lineIndex (renumCode f code) (f n) = lineIndex code n

theorem idxOk_of_compat (f : Nat → Nat) (code : List Instr) (h : Compat f (codeLines code) (codeTargets code)) :
    IdxOk f code := fun n hn =>
  lineIndexFrom_renum f n code 0 (fun l hl => h l hl n hn)

theorem jumpTo_renum {f : Nat → Nat} {code : List Instr} (h : IdxOk f code) (s : St) (n : Nat)
    (hn : n ∈ codeTargets code) : jumpTo (renumCode f code) s (f n) = jumpTo code s n := by
  unfold jumpTo; rw [h n hn]

theorem jumpSub_renum {f : Nat → Nat} {code : List Instr} (h : IdxOk f code) (s : St) (n : Nat)
    (hn : n ∈ codeTargets code) : jumpSub (renumCode f code) s (f n) = jumpSub code s n := by
  unfold jumpSub; rw [h n hn]

theorem targets_of_stmtAt {code : List Instr} {i : Nat} {st : Stmt} (h : stmtAt code i = some st) {n : Nat}
    (hn : n ∈ st.targets) : n ∈ codeTargets code := by
  unfold stmtAt at h
  cases hi : code[i]? with
  | none => simp [hi] at h
  | some ins =>
    simp [hi] at h
    have hmem : ins ∈ code := List.mem_of_getElem? hi
    exact List.mem_flatMap.mpr ⟨ins, hmem, by rw [h]; exact hn⟩

theorem codeTargets_drop (code : List Instr) (k : Nat) {n : Nat} (h : n ∈ codeTargets (code.drop k)) :
    n ∈ codeTargets code := by
  obtain ⟨ins, hins, hn⟩ := List.mem_flatMap.mp h
  exact List.mem_flatMap.mpr ⟨ins, List.mem_of_mem_drop hins, hn⟩

theorem scanElse_found_mem : ∀ (rest : List Instr) (i nest j n : Nat),
    scanElse rest i nest = .found j (some n) → n ∈ codeTargets rest
  | [], _, _, _, _, h => by simp [scanElse] at h
  | ins :: rest, i, nest, j, n, h => by
    obtain ⟨line, st⟩ := ins
    have ih := scanElse_found_mem rest
    have tl : ∀ {m}, m ∈ codeTargets rest → m ∈ codeTargets (⟨line, st⟩ :: rest) := by
      intro m hm; simp only [codeTargets, List.flatMap_cons, List.mem_append]; exact Or.inr hm
    cases line with
    | some l => simp [scanElse] at h
    | none =>
      cases st <;> simp only [scanElse, Option.isSome_none, Bool.false_eq_true, if_false] at h <;>
        try exact tl (ih _ _ _ _ h)
      · rename_i tgt
        split at h
        · cases h
          simp [codeTargets, Stmt.targets]
        · exact tl (ih _ _ _ _ h)

/-- **one step**: the renumbered code does exactly what the original does, state for state -/
theorem stepWith_renum {f : Nat → Nat} {code : List Instr} (h : IdxOk f code) (fixed : Bool) (s : St) :
    stepWith fixed (renumCode f code) s = stepWith fixed code s := by
  unfold stepWith
  rw [stmtAt_renum]
  cases hst : stmtAt code s.pc with
  | none => rfl
  | some st =>
    have hmem : ∀ {n}, n ∈ st.targets → n ∈ codeTargets code := fun hn => targets_of_stmtAt hst hn
    cases st with
    | print e => rfl
    | let_ v e => rfl
    | for_ v a b c => simp only [Option.map_some, Stmt.renum, execFor_renum]
    | next vs => rfl
    | while_ c => simp only [Option.map_some, Stmt.renum, stmtsAfter_renum, scanWend_renum]
    | wend =>
      simp only [Option.map_some, Stmt.renum]
      cases popWhile s.pc s.whiles with
      | none => rfl
      | some r =>
        obtain ⟨wh, rest⟩ := r
        simp only [stmtAt_renum]
        cases hw : stmtAt code wh with
        | none => rfl
        | some w => cases w <;> rfl
    | gosub n => exact jumpSub_renum h s n (hmem (by simp [Stmt.targets]))
    | ret => rfl
    | goto n => exact jumpTo_renum h s n (hmem (by simp [Stmt.targets]))
    | ifThen c tgt =>
      simp only [Option.map_some, Stmt.renum, drop_renum, scanElse_renum]
      split
      · cases tgt with
        | none => rfl
        | some n => exact jumpTo_renum h s n (hmem (by simp [Stmt.targets]))
      · cases hse : scanElse (code.drop (s.pc + 1)) (s.pc + 1) 0 with
        | eol j => rfl
        | found j t =>
          cases t with
          | none => rfl
          | some n =>
            exact jumpTo_renum h s n (codeTargets_drop _ _ (scanElse_found_mem _ _ _ _ _ hse))
    | else_ tgt => simp only [Option.map_some, Stmt.renum, nextLine_renum]
    | on_ e sub tgts =>
      simp only [Option.map_some, Stmt.renum]
      split
      · rfl
      · split
        · rfl
        · by_cases h0 : e.eval s.env = 0
          · simp [h0]
          · simp only [h0, if_false, List.getElem?_map]
            cases ht : tgts[(e.eval s.env).toNat - 1]? with
            | none => rfl
            | some t =>
              have htm : t ∈ codeTargets code := hmem (by simpa [Stmt.targets] using List.mem_of_getElem? ht)
              cases sub
              · simpa using jumpTo_renum h s t htm
              · simpa using jumpSub_renum h s t htm
    | end_ => rfl

theorem runWith_renum {f : Nat → Nat} {code : List Instr} (h : IdxOk f code) (fixed : Bool) :
    ∀ (fuel : Nat) (s : St), runWith fixed (renumCode f code) fuel s = runWith fixed code fuel s
  | 0, _ => rfl
  | k + 1, s => by
    simp only [runWith, stepWith_renum h]
    cases stepWith fixed code s with
    | running s' => exact runWith_renum h fixed k s'
    | done s' => rfl
    | error e s' => rfl

theorem codeLines_flatten_subset (p : List Line) {l : Nat} (h : l ∈ codeLines (flatten p)) : l ∈ progLines p := by
  unfold codeLines flatten at h
  obtain ⟨ins, hins, hl⟩ := List.mem_filterMap.mp h
  obtain ⟨ln, hln, hmem⟩ := List.mem_flatMap.mp hins
  unfold flattenLine at hmem
  cases hs : ln.stmts with
  | nil => simp [hs] at hmem
  | cons st rest =>
    simp only [hs, List.mem_cons, List.mem_map] at hmem
    rcases hmem with rfl | ⟨t, _, rfl⟩
    · simp at hl; subst hl; exact List.mem_map.mpr ⟨ln, hln, rfl⟩
    · simp at hl

theorem codeTargets_flatten_subset (p : List Line) {n : Nat} (h : n ∈ codeTargets (flatten p)) : n ∈ progTargets p := by
  unfold codeTargets flatten at h
  obtain ⟨ins, hins, hn⟩ := List.mem_flatMap.mp h
  obtain ⟨ln, hln, hmem⟩ := List.mem_flatMap.mp hins
  refine List.mem_flatMap.mpr ⟨ln, hln, List.mem_flatMap.mpr ⟨ins.stmt, ?_, hn⟩⟩
  unfold flattenLine at hmem
  cases hs : ln.stmts with
  | nil => simp [hs] at hmem
  | cons st rest =>
    simp only [hs, List.mem_cons, List.mem_map] at hmem ⊢
    rcases hmem with rfl | ⟨t, ht, rfl⟩
    · exact Or.inl rfl
    · exact Or.inr ht

/-- **simulation**: the renumbered program has the same trace (printed values and final status) -/
theorem trace_renum (f : Nat → Nat) (p : List Line) (hc : Compat f (progLines p) (progTargets p))
    (fixed : Bool) (fuel : Nat) : trace fixed (renumProg f p) fuel = trace fixed p fuel := by
  have hc' : Compat f (codeLines (flatten p)) (codeTargets (flatten p)) :=
    fun l hl n hn => hc l (codeLines_flatten_subset p hl) n (codeTargets_flatten_subset p hn)
  unfold trace
  rw [flatten_renum, runWith_renum (idxOk_of_compat f _ hc')]

end PcbV.MiniBasic
