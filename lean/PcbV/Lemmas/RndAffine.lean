import PcbV.Model.Rnd
import Mathlib.Dynamics.PeriodicPts.Lemmas
import Mathlib.Data.Nat.ModEq
import Mathlib.Data.Fintype.Card
/-
  Lemmas for C39: iterating an affine map x ↦ (a·x + c) mod m by repeated squaring, and the
  passage "minimal period = size of the state space ⇒ the orbit is the whole state space".
-/
namespace PcbV.RndAffine

/-- the affine map x ↦ (a·x + c) mod m given by the pair (a, c) -/
def aff (m : Nat) (p : Nat × Nat) (x : Nat) : Nat := (p.1 * x + p.2) % m

/-- composition of the map with itself, as a pair again (reduced mod m) -/
def sq (m : Nat) (p : Nat × Nat) : Nat × Nat := ((p.1 * p.1) % m, (p.1 * p.2 + p.2) % m)

/-- `k` squarings: the pair of the 2^k-fold composition -/
def pow2 (m : Nat) (p : Nat × Nat) : Nat → Nat × Nat
  | 0 => p
  | k + 1 => sq m (pow2 m p k)

theorem aff_sq (m : Nat) (p : Nat × Nat) (x : Nat) : aff m (sq m p) x = aff m p (aff m p x) := by
  unfold aff sq
  show _ ≡ _ [MOD m]
  have h1 : p.1 * ((p.1 * x + p.2) % m) + p.2 ≡ p.1 * (p.1 * x + p.2) + p.2 [MOD m] :=
    ((Nat.mod_modEq _ _).mul_left _).add_right _
  have h2 : (p.1 * p.1) % m * x + (p.1 * p.2 + p.2) % m ≡ p.1 * p.1 * x + (p.1 * p.2 + p.2) [MOD m] :=
    ((Nat.mod_modEq _ _).mul_right _).add (Nat.mod_modEq _ _)
  refine h2.trans (Nat.ModEq.trans ?_ h1.symm)
  have : p.1 * p.1 * x + (p.1 * p.2 + p.2) = p.1 * (p.1 * x + p.2) + p.2 := by
    rw [Nat.mul_add, Nat.mul_assoc, Nat.add_assoc]
  rw [this]

theorem iterate_pow2 (m : Nat) (p : Nat × Nat) (k : Nat) :
    (aff m p)^[2 ^ k] = aff m (pow2 m p k) := by
  induction k with
  | zero => simp [pow2]
  | succ k ih =>
    rw [pow_succ, Function.iterate_mul, ih]
    funext x
    simp only [pow2, aff_sq, Function.iterate_succ, Function.iterate_zero, Function.comp, id]

/-- A self-map of the states below `m` all of whose points have minimal period `m` is a single
    cycle: from any state every state is reached in fewer than `m` steps. -/
theorem orbit_covers {m : Nat} (f : Nat → Nat) (hf : ∀ x, f x < m)
    (hper : ∀ s, s < m → Function.minimalPeriod f s = m) (s t : Nat) (hs : s < m) (ht : t < m) :
    ∃ n, n < m ∧ f^[n] s = t := by
  have hlt : ∀ n, f^[n] s < m := by
    intro n
    cases n with
    | zero => simpa using hs
    | succ n => rw [Function.iterate_succ_apply']; exact hf _
  let g : Fin m → Fin m := fun i => ⟨f^[i.val] s, hlt i.val⟩
  have ginj : Function.Injective g := by
    intro i j hij
    have h : f^[i.val] s = f^[j.val] s := congrArg Fin.val hij
    have hi : i.val < Function.minimalPeriod f s := by rw [hper s hs]; exact i.isLt
    have hj : j.val < Function.minimalPeriod f s := by rw [hper s hs]; exact j.isLt
    exact Fin.ext ((Function.iterate_eq_iterate_iff_of_lt_minimalPeriod hi hj).mp h)
  have gsurj : Function.Surjective g := Finite.injective_iff_surjective.mp ginj
  obtain ⟨i, hi⟩ := gsurj ⟨t, ht⟩
  exact ⟨i.val, i.isLt, congrArg Fin.val hi⟩

end PcbV.RndAffine
