import PcbV.Basic
import PcbV.Gen.Errors
import PcbV.Model.Heap
/-
  PcbV.ClearChain — executable model of what RUN / CLEAR / NEW / CHAIN do to the interpreter state:
    pcbasic/basic/implementation.py   Implementation._clear_all, clear_, new_, run_, chain_
    pcbasic/basic/memory/memory.py    DataSegment.clear, clear_deftype, preserve_commons, hold_garbage,
                                      set_basic_memory_size, set_stack_size, check_free (collection held)
    pcbasic/basic/memory/scalars.py   Scalars.clear / set / memory_size
    pcbasic/basic/memory/arrays.py    Arrays.clear / clear_base / allocate / memory_size
    pcbasic/basic/values/strings.py   StringSpace.clear / rebuild / copy_to / store / fix_temporaries
    pcbasic/basic/interpreter.py      Interpreter.clear, clear_stacks_and_pointers, _init_error_trapping
    pcbasic/basic/basicevents.py      BasicEvents.reset
    pcbasic/basic/values/randomiser.py  Randomiser.clear
    pcbasic/basic/parser/userfunctions.py  UserFunctions.clear

  The state is a record of components.  Variables are kept for all four types: a numeric cell is its
  byte pattern, a string cell is a 3-byte pointer (`Heap.Ptr`) into the string space map (address ↦
  bytes, as in `PcbV.Heap`) or to bytes outside it (program literals, FIELD buffers: `Mem.code`).
  An array is (dimensions, flat buffer of cells) — the buffer is flat in the Python code too, so any
  number of dimensions is covered.  The program is abstract (line number ↦ text) with its size.

  This is the model of the REPAIRED code (pending fixes C23-*):
    * `Interpreter.clear` also drops the GOSUB stack and re-enables the soft handling of math errors
      (`clearInterpOld` transcribes the code before the repair),
    * `hold_garbage` releases the hold on errors, `StringSpace.copy_to` stores without consulting the
      free memory of the *live* string space (`chainWith false false` transcribes the old code),
    * the record that DEF FN keeps among the scalars (first name byte ≥ 0x80, value = a code address) is
      not a string even when the function is a string function: it is a `Cell.num` here.

  `preserve_commons`: `pick` = the dict comprehensions (`for name in commons if name in vars`),
  `scalarEntries`/`arrayEntries` = `scalar_strings`/`array_strings`, `sortDesc` = `sorted(..., reverse=True)`
  by address (stable), `migrate` = the two copy loops (scalars first, then array elements, one shared
  second string space), `rewrite` = writing the new pointers back under the same dict key,
  the memory check, `rebuild`, `Scalars.set` / `Arrays.allocate` + buffer copy (`restoreScalars`,
  `restoreArrays`; garbage collection is held, so `check_free` cannot collect).
  Python's `string_store.current` may become ≤ 0 (unbounded ints); here `Store.ovf` records that, and
  the memory check treats it as failed (equivalent because `var_start() > 0`).
  Array element keys are buffer indices here (byte offsets `3*i` in Python).
-/
namespace PcbV.ClearChain
open PcbV
open PcbV.Heap (Ptr lookup)

inductive Cell
  | num (b : Bytes)
  | str (p : Ptr)
deriving DecidableEq, Repr

/-- dimensions (largest index per dimension) and the flat buffer -/
abbrev Arr := List Nat × List Cell

structure Mem where
  total : Nat                      -- DataSegment.total_memory
  stackSize : Nat                  -- DataSegment.stack_size
  codeStart : Nat
  progSize : Nat                   -- Program.size()
  code : List (Nat × Bytes)        -- bytes outside string space addressed by string pointers
  deftype : List Nat               -- 26 default sigils
  base : Option Nat                -- Arrays._base
  baseByDim : Bool                 -- Arrays._base_set_by_dim
  scalars : List (Bytes × Cell)    -- Scalars._vars, insertion order
  scalBytes : Nat                  -- Scalars.current
  arrays : List (Bytes × Arr)      -- Arrays._dims/_buffers, insertion order
  arrBytes : Nat                   -- Arrays.current
  strs : List (Nat × Bytes)        -- StringSpace._strings
  current : Nat                    -- StringSpace.current
  temp : Nat                       -- StringSpace._temp
  fieldsSet : Bool                 -- some FIELD buffer holds data
  allowCollect : Bool              -- DataSegment._allow_collect
deriving Repr

def Mem.top (m : Mem) : Nat := m.total - m.stackSize - 2
def Mem.varStart (m : Mem) : Nat := m.codeStart + m.progSize

def sngSigil : Nat := 33
def strSigil : Nat := 36
def defaultDeftype : List Nat := List.replicate 26 sngSigil

/-- `values.size_bytes(name)` -/
def sizeBytes (name : Bytes) : Nat :=
  match name.getLast? with
  | some 37 => 2
  | some 35 => 8
  | some 36 => 3
  | _ => 4

/-- `Scalars.memory_size` -/
def scalarSize (name : Bytes) : Nat := max 3 name.length + 1 + sizeBytes name

/-- `Arrays.flat_length` -/
def flatLength (base : Nat) : List Nat → Nat
  | [] => 1
  | d :: r => (d + 1 - base) * flatLength base r

/-- `Arrays.memory_size` -/
def arraySize (base : Nat) (name : Bytes) (dims : List Nat) : Nat :=
  1 + max 3 name.length + 3 + 2 * dims.length + flatLength base dims * sizeBytes name

/-- `StringSpace.view(...).tobytes()`; a detached pointer reads as empty -/
def deref (m : Mem) (p : Ptr) : Bytes :=
  if p.len = 0 then []
  else if m.varStart ≤ p.addr then (lookup m.strs p.addr).getD []
  else ((lookup m.code p.addr).getD []).take p.len

/-- `_get_free() <= size` -/
def lowMem (m : Mem) (size : Nat) : Bool := m.current ≤ m.varStart + m.scalBytes + m.arrBytes + size

/-- `_get_free()` -/
def free (m : Mem) : Nat := m.current - (m.varStart + m.scalBytes + m.arrBytes)

/-- `DataSegment.clear(preserve_base, preserve_deftype)` -/
def clearMem (pb pd : Bool) (m : Mem) : Mem :=
  { m with deftype := if pd then m.deftype else defaultDeftype,
           scalars := [], scalBytes := 0, arrays := [], arrBytes := 0,
           strs := [], current := m.top,
           base := if pb then m.base else none,
           baseByDim := if pb then m.baseByDim else false,
           fieldsSet := false }

/-! ### interpreter -/

structure Interp where
  gosub : List Nat
  forS : List Nat
  whileS : List Nat
  onError : Option Nat
  errHandle : Bool
  errResume : Option Nat
  errNum : Nat
  errPos : Nat
  mathRaise : Bool                 -- FloatErrorHandler._do_raise (set by ON ERROR GOTO n)
  evGosub : List (Nat × Nat)       -- handler ↦ ON … GOSUB line
  evEnabled : List Nat             -- BasicEvents.enabled
  suspendAll : Bool
  stopPos : Option Nat
  dataPos : Nat
  runMode : Bool
  tron : Bool
deriving Repr, DecidableEq

/-- `Interpreter.clear` (repaired) -/
def clearInterp (it : Interp) : Interp :=
  { it with errNum := 0, errPos := 0,
            errHandle := false, errResume := none, onError := none,
            mathRaise := false,
            evGosub := [], evEnabled := [], suspendAll := false,
            gosub := [], forS := [], whileS := [],
            stopPos := none, dataPos := 0 }

/-- `Interpreter.clear` before the repair: GOSUB records and the suspended math-error handling survive -/
def clearInterpOld (it : Interp) : Interp :=
  { it with errNum := 0, errPos := 0,
            errHandle := false, errResume := none, onError := none,
            evGosub := [], evEnabled := [], suspendAll := false,
            forS := [], whileS := [],
            stopPos := none, dataPos := 0 }

/-- `Interpreter.clear_stacks_and_pointers` -/
def clearStacks (it : Interp) : Interp :=
  { it with runMode := false, gosub := [], forS := [], whileS := [], stopPos := none, dataPos := 0 }

/-! ### session -/

def initSeed : Nat := 5228370

structure St where
  mem : Mem
  fns : List Bytes                 -- UserFunctions._fn_dict keys
  seed : Nat                       -- Randomiser._seed
  it : Interp
  files : List Nat                 -- open file numbers
  prog : List (Nat × Bytes)        -- program lines
  strig : Bool
  sound : Nat                      -- PLAY state / queued notes (0 = initial)
  draw : Nat                       -- DRAW state / last graphics position (0 = initial)
deriving Repr

/-- `Implementation._clear_all` -/
def clearAll (closeFiles pf pb pd : Bool) (s : St) : St :=
  { s with files := if closeFiles then [] else s.files,
           mem := clearMem pb pd s.mem,
           fns := if pf then s.fns else [],
           strig := false, sound := 0, draw := 0,
           seed := initSeed,
           it := clearInterp s.it }

/-- `DataSegment.set_basic_memory_size` (argument already an unsigned int) -/
def setMemSize (memSize : Option Nat) (m : Mem) : Except Nat Mem :=
  match memSize with
  | none => .ok m
  | some n =>
    if n = 0 then .error Gen.E.ifc
    else if n > m.total then .error Gen.E.out_of_memory
    else .ok { m with total := n }

/-- `DataSegment.set_stack_size` -/
def setStackSize (stack : Option Nat) (m : Mem) : Except Nat Mem :=
  match stack with
  | none => .ok m
  | some k => if k = 0 then .error Gen.E.ifc else .ok { m with stackSize := k }

/-- `Implementation.clear_`: `CLEAR [expr][,mem][,stack]` -/
def clearStmt (memSize stack : Option Nat) (s : St) : Except Nat St :=
  match setMemSize memSize s.mem with
  | .error e => .error e
  | .ok m1 =>
    match setStackSize stack m1 with
    | .error e => .error e
    | .ok m2 => .ok (clearAll false false false false { s with mem := m2 })

def emptyProgSize : Nat := 3

/-- `Implementation.new_` -/
def newStmt (s : St) : St :=
  let s1 := { s with it := clearStacks { s.it with tron := false },
                     prog := [], mem := { s.mem with progSize := emptyProgSize, code := [] } }
  let s2 := clearAll false false false false s1
  { s2 with it := { s2.it with runMode := false } }

def hasLine (prog : List (Nat × Bytes)) (n : Nat) : Bool := prog.any (fun l => l.1 == n)

/-- `Implementation.run_` without a file name: `RUN [line]`.  An undefined line is reported after
    everything has been cleared. -/
def runStmt (line : Option Nat) (s : St) : Except (Nat × St) St :=
  let it1 := clearStacks { s.it with onError := some 0, errHandle := false }
  let s1 := clearAll true false false false { s with it := it1 }
  match line with
  | none => .ok { s1 with it := { s1.it with runMode := true } }
  | some n =>
    if hasLine s1.prog n then .ok { s1 with it := { s1.it with runMode := true } }
    else .error (Gen.E.undefined_line_number, s1)

/-! ### CHAIN: preserve_commons -/

/-- `{name: vars.get(name) for name in names if name in vars}` -/
def pick (names : List Bytes) (vars : List (Bytes × α)) : List (Bytes × α) :=
  names.filterMap (fun n => (vars.lookup n).map (fun v => (n, v)))

/-- the second string space -/
structure Store where
  strs : List (Nat × Bytes)
  current : Nat
  ovf : Bool            -- Python's `current` would be ≤ 0
deriving Repr

/-- `StringSpace.store(bytes, check_free=False)` on the second string space -/
def Store.put (st : Store) (b : Bytes) : Store × Ptr :=
  let cur := st.current - b.length
  ({ strs := if b.length > 0 then (cur + 1, b) :: st.strs else st.strs,
     current := cur,
     ovf := st.ovf || decide (st.current ≤ b.length) },
   ⟨b.length, cur + 1⟩)

/-- dict key of a string pointer: scalar `name` ↦ (name, 0); array element ↦ (name, index) -/
abbrev Key := Bytes × Nat

def scalarEntries (ss : List (Bytes × Cell)) : List (Key × Ptr) :=
  ss.filterMap (fun x => match x.2 with
    | .str p => some ((x.1, 0), p)
    | .num _ => none)

def cellEntries (name : Bytes) (cells : List Cell) : List (Key × Ptr) :=
  cells.zipIdx.filterMap (fun ci => match ci.1 with
    | .str p => some ((name, ci.2), p)
    | .num _ => none)

def arrayEntries (sa : List (Bytes × Arr)) : List (Key × Ptr) :=
  sa.flatMap (fun x => cellEntries x.1 x.2.2)

def insertDesc (e : Key × Ptr) : List (Key × Ptr) → List (Key × Ptr)
  | [] => [e]
  | x :: r => if x.2.addr > e.2.addr then x :: insertDesc e r else e :: x :: r

/-- `sorted(items, key=address, reverse=True)` (stable) -/
def sortDesc : List (Key × Ptr) → List (Key × Ptr)
  | [] => []
  | e :: r => insertDesc e (sortDesc r)

/-- the copy loop: every string is read from the live memory `m` and stored in the second space -/
def migrate (m : Mem) : Store → List (Key × Ptr) → Store × List (Key × Ptr)
  | st, [] => (st, [])
  | st, (k, p) :: r =>
    let sp := st.put (deref m p)
    let rest := migrate m sp.1 r
    (rest.1, (k, sp.2) :: rest.2)

def asgLookup : List (Key × Ptr) → Key → Option Ptr
  | [], _ => none
  | (k, q) :: r, k' => if k = k' then some q else asgLookup r k'

def rewrite (asg : List (Key × Ptr)) (k : Key) : Cell → Cell
  | .num b => .num b
  | .str p => .str ((asgLookup asg k).getD p)

def rewriteScalars (asg : List (Key × Ptr)) (ss : List (Bytes × Cell)) : List (Bytes × Cell) :=
  ss.map (fun x => (x.1, rewrite asg (x.1, 0) x.2))

def rewriteCells (asg : List (Key × Ptr)) (name : Bytes) (cells : List Cell) : List Cell :=
  cells.zipIdx.map (fun ci => rewrite asg (name, ci.2) ci.1)

def rewriteArrays (asg : List (Key × Ptr)) (sa : List (Bytes × Arr)) : List (Bytes × Arr) :=
  sa.map (fun x => (x.1, (x.2.1, rewriteCells asg x.1 x.2.2)))

/-- the old `copy_to` asked `check_free` of the LIVE memory (collection held): Out of string space
    as soon as one common string is not shorter than the free memory of the old program -/
def copyFails (m : Mem) (es : List (Key × Ptr)) : Bool := es.any (fun e => lowMem m (deref m e.2).length)

/-- `Scalars.set(name, value)` for the saved values (names are new: memory was cleared) -/
def restoreScalars : List (Bytes × Cell) → Mem → Except Nat Mem
  | [], m => .ok m
  | (n, c) :: r, m =>
    if lowMem m (scalarSize n) then .error Gen.E.out_of_memory
    else restoreScalars r { m with scalBytes := m.scalBytes + scalarSize n, scalars := m.scalars ++ [(n, c)] }

/-- `Arrays.allocate(name, dimensions)` followed by the copy of the saved buffer -/
def restoreArrays : List (Bytes × Arr) → Mem → Except Nat Mem
  | [], m => .ok m
  | (n, a) :: r, m =>
    if (m.arrays.lookup n).isSome then .error Gen.E.duplicate_definition else
    let base := m.base.getD 0
    if m.base.isSome && a.1.any (fun d => decide (d < base)) then .error Gen.E.subscript_out_of_range else
    if lowMem m (arraySize base n a.1) then .error Gen.E.out_of_memory
    else restoreArrays r { m with base := some base,
                                  baseByDim := if m.base.isSome then m.baseByDim else true,
                                  arrBytes := m.arrBytes + arraySize base n a.1,
                                  arrays := m.arrays ++ [(n, a)] }

def sumSizes (f : α → Nat) : List α → Nat
  | [] => 0
  | x :: r => f x + sumSizes f r

/-- the part of `preserve_commons` after the `yield` -/
def restoreCommons (st : Store) (ss : List (Bytes × Cell)) (sa : List (Bytes × Arr)) (m : Mem) : Except Nat Mem :=
  let scalarSz := sumSizes (fun x => scalarSize x.1) ss
  let arraySz := sumSizes (fun x => arraySize (m.base.getD 0) x.1 x.2.1) sa
  if st.ovf || decide (m.varStart + scalarSz + arraySz > st.current) then .error Gen.E.out_of_memory else
  let m1 := { m with strs := st.strs, current := st.current }
  match restoreScalars ss m1 with
  | .error e => .error e
  | .ok m2 => restoreArrays sa m2

/-- leaving `with self.hold_garbage()`: the repaired code releases the hold on errors as well -/
def release (fixHold : Bool) (t : St) : St :=
  { t with mem := { t.mem with allowCollect := fixHold || t.mem.allowCollect } }

def jumpOk (prog : List (Nat × Bytes)) : Option Nat → Bool
  | none => true
  | some n => hasLine prog n

/-- inside the two `with` blocks of `chain_` (the file is open), after `_clear_all`: LOAD / MERGE
    (`pf` = the resulting program text and size), reset the stacks, jump -/
def chainLoad (fixHold : Bool) (pf : List (Nat × Bytes) × Nat) (jump : Option Nat) (s1 : St) :
    Except (Nat × St) St :=
  let s2 := { s1 with prog := pf.1, mem := { s1.mem with progSize := pf.2, code := [] },
                      it := clearStacks s1.it }
  if !jumpOk pf.1 jump then .error (Gen.E.ifc, release fixHold s2)
  else .ok { s2 with it := { s2.it with runMode := true } }

/-- after the `yield` of `preserve_commons`, then `fix_temporaries` -/
def chainFinish (fixHold : Bool) (st : Store) (ss : List (Bytes × Cell)) (sa : List (Bytes × Arr)) (s3 : St) :
    Except (Nat × St) St :=
  match restoreCommons st ss sa s3.mem with
  | .error e => .error (e, release fixHold s3)
  | .ok m4 => .ok { s3 with mem := { m4 with allowCollect := true, temp := m4.current } }

/-- the saved variables with their strings moved to the second string space -/
def migrateAll (m : Mem) (ss : List (Bytes × Cell)) (sa : List (Bytes × Arr)) :
    Store × List (Bytes × Cell) × List (Bytes × Arr) :=
  let r1 := migrate m ⟨[], m.top, false⟩ (sortDesc (scalarEntries ss))
  let r2 := migrate m r1.1 (sortDesc (arrayEntries sa))
  (r2.1, rewriteScalars r1.2 ss, rewriteArrays r2.2 sa)

/-- `Implementation.chain_` once the file has been opened: `preserve_commons` around `_clear_all`,
    LOAD / MERGE, jump.  `fixHold`, `fixCopy`: the two repairs (both `true` in `chainStmt`). -/
def chainOpened (fixHold fixCopy : Bool) (merge all : Bool) (commS commA : List Bytes)
    (pf : List (Nat × Bytes) × Nat) (jump : Option Nat) (s : St) : Except (Nat × St) St :=
  let m := s.mem
  let ss := pick (if all then m.scalars.map (·.1) else commS) m.scalars
  let sa := pick (if all then m.arrays.map (·.1) else commA) m.arrays
  let held : St := { s with mem := { m with allowCollect := false } }
  if !fixCopy && copyFails m (sortDesc (scalarEntries ss) ++ sortDesc (arrayEntries sa)) then
    .error (Gen.E.out_of_string_space, release fixHold held) else
  let mg := migrateAll m ss sa
  let s1 := clearAll false all (!commS.isEmpty || !commA.isEmpty || all) merge held
  match chainLoad fixHold pf jump s1 with
  | .error x => .error x
  | .ok s3 => chainFinish fixHold mg.1 mg.2.1 mg.2.2 s3

/-- `Implementation.chain_`: the file is opened FIRST (`file = none`: it cannot be opened); then nothing
    has been touched yet - no variable cleared, collection not held - and the error is an ordinary,
    trappable File not found. -/
def chainWith (fixHold fixCopy : Bool) (merge all : Bool) (commS commA : List Bytes)
    (file : Option (List (Nat × Bytes) × Nat)) (jump : Option Nat) (s : St) : Except (Nat × St) St :=
  match file with
  | none => .error (Gen.E.file_not_found, s)
  | some pf => chainOpened fixHold fixCopy merge all commS commA pf jump s

def chainStmt := chainWith true true

/-! ### what BASIC can see of the variables -/

inductive Val
  | num (b : Bytes)
  | str (b : Bytes)
deriving DecidableEq, Repr

def absCell (m : Mem) : Cell → Val
  | .num b => .num b
  | .str p => .str (deref m p)

def absScalars (m : Mem) : List (Bytes × Val) := m.scalars.map (fun x => (x.1, absCell m x.2))
def absArrays (m : Mem) : List (Bytes × (List Nat × List Val)) :=
  m.arrays.map (fun x => (x.1, (x.2.1, x.2.2.map (absCell m))))

end PcbV.ClearChain
