import PcbV.Lemmas.TokRound
import PcbV.Lemmas.TokCanon
import PcbV.Lemmas.TokTables
/-
  C17 — Tokenising and listing are consistent.

  Models: `PcbV.Tok` (tokeniser.py + the codestream.py readers) and `PcbV.Lst` (lister.py), over byte
  lists, keyword tables `PcbV.Gen.Tokens.advanced / pcjr / tandy` regenerated from /repo, number
  conversion of non-integer literals as the parameter `Codec` (property C07 is about that part).

  The grammar of the round-trip theorems is the item language `PcbV.TokL.Item` (Lemmas/TokRound.lean):
  blanks (space, TAB), string literals with arbitrary bytes (closed, or left open by the end of the line),
  separators, operator symbols, keywords of the table (one- and two-byte tokens, ELSE → `:ELSE` and
  WHILE → `WHILE+` included, keywords ending in `$` or `(`), names, raw digits where no number is allowed
  (OPTION BASE 1), number literals (through the codec contract; the integer, &H and &O shapes are discharged
  here, and for point / exponent / `!` `#` literals the lexical part is: `float_literal_wellformed` needs only
  the pair  readFloat txt = some tok,  showFloat tok = some txt), jump numbers and lists / ranges of them
  (`,` and `-` keep jump-number mode), DATA with unquoted and quoted items, and a closing REM or ' comment with
  an arbitrary tail.  `wfT` / `wfL` are the "canonical separators" side conditions: what the tokeniser needs
  (a keyword or name is not followed by a name character, a number not by something that continues it,
  numbers stand where numbers are allowed, …) and what the lister needs (no letter or digit directly before a
  keyword, an explicit blank or a no-blank character after it, …); `wfTb` / `wfLb` decide them.

  `roundtrip_statement` / `roundtrip_line` (+ `roundtrip_line_zero`) are the round trip over that grammar.
  What the grammar excludes is, item by item, NOT round-trip in the real code (each with a theorem):
    * number-token lead bytes 0B..0F, 11..1D, 1F inside strings, comments, DATA: the lister prints them as
      numbers (documented GW-BASIC behaviour)            — `lead_byte_in_string_counterexample`
    * LF as a blank: listed as LF CR, the CR ends the line on re-entry — `line_feed_counterexample`
    * `?`, lower-case keywords / names, `GO TO`, `GO  TO`, `GO SUB`: listed as PRINT, upper case, GOTO, GOSUB;
      the text changes but the tokens do not: `respelled_line_normalises` (general) and
      `question_mark_counterexample`, `lower_case_counterexample`, `go_to_counterexample`
    * `%` behind a number (swallowed) and a blank behind an octal literal (belongs to the literal): text
      changes, tokens do not — `percent_suffix_counterexample`, `octal_blank_swallowed_counterexample`
    * a blank between a number and a digit joins them, a keyword glued to a name is a name, … : these are
      the follow conditions in `wfT`, not separate exclusions.
  Remaining hypotheses of the theorems, stated explicitly: the listed text is at most 255 characters (the
  lister cuts there), the first token byte is not TAB (the lister then omits the blank behind the line
  number), the line number is 1..65529 (0: `roundtrip_line_zero`), the first non-blank character of the
  statement is not a digit (it would join the line number).  Not expressible and left to correspondence +
  oracle: a keyword directly behind FN / USR without a blank (the lister's exception to the blank-before-
  keyword rule; no well-formed statement has it) and non-integer literals whose text↔MBF conversion is the
  codec parameter (property C07).  The former `_partial` names are kept as corollaries.
-/
namespace PcbV.C17
open PcbV PcbV.Gen PcbV.Gen.Tokens PcbV.Tok PcbV.Lst PcbV.TokL

/-! ## keywords -/

/-- each keyword maps to one token and back, for every dialect -/
theorem keyword_bijection (t : Table) (h : IsDialect t) (tok kw : Bytes) :
    toKeyword t tok = some kw ↔ toToken t kw = some tok :=
  bij_iff (dialect_bij h) tok kw

/-- no token and no keyword occurs twice in a dialect table -/
theorem keyword_table_injective (t : Table) (h : IsDialect t) :
    (t.map (·.1)).Nodup ∧ (t.map (·.2)).Nodup := dialect_bij h

/-- keywords are recognised case-insensitively: any spelling `w` of a keyword `kw` of the dialect
    (`w.map upper = kw`), followed by something that is not a name character (not needed for FN, USR,
    SPC(, TAB( ), is read by `_tokenise_word` as that keyword and written as its token -/
theorem keyword_case_insensitive (t : Table) (h : IsDialect t) (tok kw w rest : Bytes) (hm : (tok, kw) ∈ t)
    (hw : w.map upper = kw) (hnext : isNoLookahead kw = true ∨ nextNotName rest = true) :
    scanWord t [] (w ++ rest) = (kw, emitKw kw tok, rest) := by
  have hlook : toToken t kw = some tok := (toToken_eq_some_iff (dialect_bij h).2 tok kw).mpr hm
  have hs := List.all_eq_true.mp (dialect_scan h) (tok, kw) hm
  simp only [Bool.and_eq_true, Bool.not_eq_true', List.isEmpty_eq_false_iff] at hs
  exact scanWord_kw t kw tok w rest hlook hs.1 hs.2 hw hnext

/-- the dialects differ exactly in NOISE and TERM -/
theorem dialect_tables :
    toToken advanced [78, 79, 73, 83, 69] = none ∧ toToken advanced [84, 69, 82, 77] = none
    ∧ toToken pcjr [78, 79, 73, 83, 69] = some [254, 164] ∧ toToken pcjr [84, 69, 82, 77] = some [254, 166]
    ∧ toToken tandy [78, 79, 73, 83, 69] = some [254, 164] ∧ toToken tandy [84, 69, 82, 77] = some [254, 166] := by
  decide +kernel

/-! ## number literals: token class per shape, and list / re-read round trip -/

/-- integer literals 0..32767: one-byte constant / T_BYTE / T_INT by size; the tokeniser produces that
    token from the decimal digits and the lister prints the digits back -/
theorem number_token_classes_int (old : Bool) (cd : Codec) (n : Nat) (h : n ≤ 32767) (rest : Bytes) :
    (n < 10 → intToken n = [tC0 + n]) ∧ (10 ≤ n → n < 256 → intToken n = [tTBYTE, n])
    ∧ (256 ≤ n → intToken n = [tTINT, n % 256, n / 256])
    ∧ (decFollowOK rest = true → tokNumber false cd (showBase 10 n ++ rest) = .ok (intToken n, rest))
    ∧ (∀ lead pay, intToken n = lead :: pay → listNumber old cd lead (pay ++ rest) = .ok (showBase 10 n, rest)) := by
  refine ⟨?_, ?_, ?_, tokNumber_int cd n h rest, ?_⟩
  · intro h1; simp [intToken, h1]; omega
  · intro h1 h2; simp [intToken, h2]; omega
  · intro h1
    have : ¬ n < 256 := by omega
    simp only [intToken, this, if_false, lo, hi, List.cons.injEq, and_true, true_and]
    omega
  · intro lead pay he
    unfold intToken at he
    by_cases h1 : n < 10
    · simp only [show n < 256 by omega, h1, if_true, List.cons.injEq] at he
      obtain ⟨rfl, rfl⟩ := he
      exact listNumber_const old cd n h1 rest
    · by_cases h2 : n < 256
      · simp only [h2, h1, if_true, if_false, List.cons.injEq] at he
        obtain ⟨rfl, rfl⟩ := he
        exact listNumber_byte old cd n rest
      · simp only [h2, if_false, List.cons.injEq] at he
        obtain ⟨rfl, rfl⟩ := he
        exact listNumber_int old cd n h rest

/-- &H literals: T_HEX token with the 16-bit value, listed as &H + upper-case hex digits, re-read to the same token -/
theorem number_token_classes_hex (old : Bool) (cd : Codec) (v : Nat) (h : v < 65536) (rest : Bytes) :
    (hexFollowOK rest = true →
      tokNumber false cd (38 :: 72 :: (showBase 16 v ++ rest)) = .ok ([tTHEX, v % 256, v / 256 % 256], rest))
    ∧ listNumber old cd tTHEX ([v % 256, v / 256 % 256] ++ rest) = .ok (38 :: 72 :: showBase 16 v, rest) :=
  ⟨fun hf => by simpa [tokNumber, lo, hi] using ampToken_hex v h rest hf, listNumber_hex old cd v h rest⟩

/-- &O literals: T_OCT token, listed as &O + octal digits, re-read to the same token -/
theorem number_token_classes_oct (old : Bool) (cd : Codec) (v : Nat) (h : v < 65536) (rest : Bytes) :
    (octFollowOK rest = true →
      tokNumber false cd (38 :: 79 :: (showBase 8 v ++ rest)) = .ok ([tTOCT, v % 256, v / 256 % 256], rest))
    ∧ listNumber old cd tTOCT ([v % 256, v / 256 % 256] ++ rest) = .ok (38 :: 79 :: showBase 8 v, rest) :=
  ⟨fun hf => by simpa [tokNumber, lo, hi] using ampToken_oct v h rest hf, listNumber_oct old cd v h rest⟩

/-- line numbers after GOTO / GOSUB / THEN / … (jump-number mode): T_UINT token for 0..65529 -/
theorem number_token_classes_jump (old : Bool) (t : Table) (cd : Codec) (f : Nat) (s : St) (n : Nat) (rest : Bytes)
    (h : n ≤ 65529) (han : s.an = true) (haj : s.aj = true) (hf : jumpFollowOK rest = true) :
    tokLoop old t cd (f + 1) s (showBase 10 n ++ rest) = prepend [tTUINT, n % 256, n / 256 % 256] (tokLoop old t cd f s rest)
    ∧ listNumber old cd tTUINT ([n % 256, n / 256 % 256] ++ rest) = .ok (showBase 10 n, rest) :=
  ⟨tok_jump old t cd f s n rest han haj h hf, listNumber_uint old cd n (by omega) rest⟩

/-- the words after which numbers are line numbers are exactly `Tokeniser._linenum_words`, and all are keywords -/
theorem jump_words_are_keywords : linenumWords.all (fun w => (toToken advanced w).isSome) = true := by
  decide +kernel

/-- reading back printed digits gives the number (bases 2..16): the contract `read (show v) = v` of the
    integer literal classes -/
theorem read_show (b : Nat) (h2 : 2 ≤ b) (h16 : b ≤ 16) (n : Nat) : readBase b (showBase b n) = n :=
  readBase_showBase b h2 h16 n

/-! ## round trip -/

/-- tokenising the text of a well-formed item sequence gives its tokens; listing the tokens gives the text -/
theorem tokenise_list_items (old : Bool) (t : Table) (cd : Codec) (is : List Item) (s : St) (out : Bytes)
    (hT : wfT old t cd s is) (hL : wfL old t cd out is) :
    tokLoop old t cd ((textAll is).length + 1) s (textAll is) = .ok (encAll is)
    ∧ listLoop old t cd ((encAll is).length + 1) false false out (encAll is) = .ok (out ++ textAll is) :=
  ⟨tok_items old t cd is s _ (by have := wfT_length old t cd is s hT; omega) hT,
   lst_items old t cd is out _ (by have := wfL_cost old t cd is out hL; omega) hL⟩

/-- ROUND TRIP (statement body): for a tokenised statement line `t = encAll is` built from well-formed
    items with canonical separators, `list t` is the canonical text and `tokenise (list t) = t`.
    The item grammar is the whole statement grammar of the property; see the header for what is excluded
    because the real code does not round-trip it (with a counterexample theorem each). -/
theorem roundtrip_statement (t : Table) (cd : Codec) (is : List Item)
    (hT : wfT false t cd ⟨false, true, false⟩ is) (hL : wfL false t cd [] is) (hlen : (textAll is).length ≤ 255) :
    ∃ txt, listStatement false t cd (encAll is) = .ok txt ∧ txt = textAll is
      ∧ tokLoop false t cd (txt.length + 1) ⟨false, true, false⟩ txt = .ok (encAll is) :=
  ⟨textAll is, listStatement_items false t cd is hL hlen, rfl,
   tok_items false t cd is _ _ (by have := wfT_length false t cd is _ hT; omega) hT⟩

/-- the first-round name of `roundtrip_statement` (then over a narrower `Item`), kept as a corollary -/
theorem roundtrip_statement_partial (t : Table) (cd : Codec) (is : List Item)
    (hT : wfT false t cd ⟨false, true, false⟩ is) (hL : wfL false t cd [] is) (hlen : (textAll is).length ≤ 255) :
    ∃ txt, listStatement false t cd (encAll is) = .ok txt ∧ txt = textAll is
      ∧ tokLoop false t cd (txt.length + 1) ⟨false, true, false⟩ txt = .ok (encAll is) :=
  roundtrip_statement t cd is hT hL hlen

/-- ROUND TRIP (program line): `detokenise_line` of the stored record of line `n` gives
    "<n> <text>", and `tokenise_line` of that text gives the record back (with the tokeniser's
    placeholder link bytes C0 DE); every number literal of the line therefore keeps its token, i.e. its
    value and type -/
theorem roundtrip_line (t : Table) (cd : Codec) (a b n : Nat) (hab : ¬ (a = 0 ∧ b = 0)) (h1 : 1 ≤ n)
    (h2 : n ≤ 65529) (is : List Item) (hT : wfT false t cd ⟨false, true, false⟩ is) (hL : wfL false t cd [] is)
    (hlen : (textAll is).length ≤ 255) (htab : (encAll is).head? ≠ some 9)
    (hj : jumpFollowOK (32 :: textAll is) = true) :
    ∃ txt, detokLine false t cd (a :: b :: n % 256 :: n / 256 % 256 :: encAll is) = .ok (some (n, txt))
      ∧ tokeniseLine false t cd txt = .ok ([0, 192, 222, n % 256, n / 256 % 256] ++ encAll is) :=
  ⟨_, detokLine_items false t cd a b n hab h1 (by omega) is hL hlen htab,
   tokeniseLine_items false t cd n h1 h2 is hT hj⟩

/-- the first-round name of `roundtrip_line`, kept as a corollary -/
theorem roundtrip_line_partial (t : Table) (cd : Codec) (a b n : Nat) (hab : ¬ (a = 0 ∧ b = 0)) (h1 : 1 ≤ n)
    (h2 : n ≤ 65529) (is : List Item) (hT : wfT false t cd ⟨false, true, false⟩ is) (hL : wfL false t cd [] is)
    (hlen : (textAll is).length ≤ 255) (htab : (encAll is).head? ≠ some 9)
    (hj : jumpFollowOK (32 :: textAll is) = true) :
    ∃ txt, detokLine false t cd (a :: b :: n % 256 :: n / 256 % 256 :: encAll is) = .ok (some (n, txt))
      ∧ tokeniseLine false t cd txt = .ok ([0, 192, 222, n % 256, n / 256 % 256] ++ encAll is) :=
  roundtrip_line t cd a b n hab h1 h2 is hT hL hlen htab hj

/-- the codec contract is satisfiable: an integer literal in number mode is a well-formed `num` item
    for both machines, whatever the float conversion pair is -/
theorem int_literal_wellformed (old : Bool) (t : Table) (cd : Codec) (s : St) (out : Bytes) (n : Nat) (h : n ≤ 32767)
    (lead : Nat) (pay R E : Bytes) (he : intToken n = lead :: pay) (han : s.an = true) (haj : s.aj = false)
    (hf : decFollowOK R = true) :
    okT false t cd s (.num (showBase 10 n) lead pay) R False ∧ okL old t cd out (.num (showBase 10 n) lead pay) E False := by
  constructor
  · simp only [okT]
    refine ⟨?_, by rw [← he]; exact tokNumber_int cd n h R hf⟩
    cases hs : showBase 10 n with
    | nil => exact absurd hs (showBase_ne_nil 10 n)
    | cons c cs =>
      exact ⟨c, cs, rfl, Or.inr ⟨han, haj, Or.inl (showBase10_all_digit n c (by rw [hs]; exact List.mem_cons_self ..))⟩⟩
  · simp only [okL]
    refine ⟨?_, (number_token_classes_int old cd n h E).2.2.2.2 lead pay he⟩
    unfold intToken at he
    by_cases h1 : n < 10
    · simp only [show n < 256 by omega, h1, if_true, List.cons.injEq] at he
      obtain ⟨rfl, _⟩ := he
      have : ∀ n, n < 10 → isLead (tC0 + n) = true := by decide
      exact this n h1
    · by_cases h2 : n < 256
      · simp only [h2, h1, if_true, if_false, List.cons.injEq] at he
        obtain ⟨rfl, _⟩ := he; decide
      · simp only [h2, if_false, List.cons.injEq] at he
        obtain ⟨rfl, _⟩ := he; decide

/-- executable form of the side conditions: the Boolean checkers are sound for `wfT` / `wfL` -/
theorem wellformed_checkable (old : Bool) (t : Table) (cd : Codec) (is : List Item) (s : St) (out : Bytes) :
    (wfTb old t cd s is = true → wfT old t cd s is) ∧ (wfLb old t cd out is = true → wfL old t cd out is) :=
  ⟨wfTb_sound old t cd is s, wfLb_sound old t cd is out⟩

/-! ## non-vacuity: the hypotheses of the round trip are satisfiable -/

/-- a codec that converts nothing (the examples use integer literals only) -/
def cd0 : Codec := ⟨fun _ => none, fun _ => none⟩

/-- `FOR I=1 TO 255:IF A$<>"x" THEN 100 ELSE WHILE NOT B:PRINT &HFF;MID$(A$,2) 'c` -/
def exItems : List Item :=
  [.kw [70, 79, 82] [130], .sp, .ident [73], .op 61 231, .num [49] 18 [], .sp, .kw [84, 79] [204], .sp,
   .num [50, 53, 53] 15 [255], .punct 58,
   .kw [73, 70] [139], .sp, .ident [65], .punct 36, .op 60 232, .op 62 230, .str [120], .sp,
   .kw [84, 72, 69, 78] [205], .sp, .jump 100, .sp, .kw [69, 76, 83, 69] [161], .sp,
   .kw [87, 72, 73, 76, 69] [177], .sp, .kw [78, 79, 84] [211], .sp, .ident [66], .punct 58,
   .kw [80, 82, 73, 78, 84] [145], .sp, .num [38, 72, 70, 70] 12 [255, 0], .punct 59,
   .kw [77, 73, 68, 36] [255, 131], .punct 40, .ident [65], .punct 36, .punct 44, .num [50] 19 [], .punct 41, .sp,
   .quote [99]]

example : wfT false advanced cd0 ⟨false, true, false⟩ exItems :=
  wfTb_sound _ _ _ _ _ (by decide +kernel)
example : wfL false advanced cd0 [] exItems := wfLb_sound _ _ _ _ _ (by decide +kernel)
example : (textAll exItems).length ≤ 255 ∧ (encAll exItems).head? ≠ some 9
    ∧ jumpFollowOK (32 :: textAll exItems) = true := by decide +kernel
/-- the same line in the PCjr dialect with NOISE -/
example : wfTb false pcjr cd0 ⟨false, true, false⟩ [.kw [78, 79, 73, 83, 69] [254, 164], .sp, .num [49] 18 []] = true
    ∧ wfLb false pcjr cd0 [] [.kw [78, 79, 73, 83, 69] [254, 164], .sp, .num [49] 18 []] = true := by decide +kernel
/-- spellings: `print`, `Print`, `PRINT` followed by a blank all give token 0x91 -/
example : scanWord advanced [] [112, 114, 73, 110, 84, 32] = ([80, 82, 73, 78, 84], [145], [32]) :=
  keyword_case_insensitive advanced (Or.inl rfl) [145] [80, 82, 73, 78, 84] [112, 114, 73, 110, 84] [32]
    (by decide +kernel) (by decide) (Or.inr (by decide))

/-! ## the defects of the unrepaired code (`old := true`) -/

/-- `10 REM <1D>` as the last line: the old lister handed the truncated payload to the number
    conversion (host exception); the repaired lister prints the byte as it is, and the text re-enters
    as the same tokens -/
theorem old_lister_truncated_number_counterexample :
    detokLine true advanced cd0 [192, 222, 10, 0, 143, 32, 29] = .error hostExc
    ∧ detokLine false advanced cd0 [192, 222, 10, 0, 143, 32, 29] = .ok (some (10, [49, 48, 32, 82, 69, 77, 32, 29]))
    ∧ tokeniseLine false advanced cd0 [49, 48, 32, 82, 69, 77, 32, 29] = .ok [0, 192, 222, 10, 0, 143, 32, 29] := by
  decide +kernel

/-- `10 PRINT &O1 2`: the old `Integer.from_oct` raised ValueError on the inner blank; repaired: &O12 -/
theorem old_octal_blank_counterexample :
    tokeniseLine true advanced cd0 [49, 48, 32, 80, 82, 73, 78, 84, 32, 38, 79, 49, 32, 50] = .error hostExc
    ∧ tokeniseLine false advanced cd0 [49, 48, 32, 80, 82, 73, 78, 84, 32, 38, 79, 49, 32, 50]
        = .ok [0, 192, 222, 10, 0, 145, 32, 11, 10, 0] := by
  decide +kernel

/-- `10 IF A THEN ? 5`: the old `?` shorthand stayed in jump-number mode, so the 5 became a line-number
    reference (0E 05 00); the line lists as `10 IF A THEN PRINT 5`, which re-enters with the constant 5
    (token 16h): the round trip fails and the literal changes its type.  Repaired: both give the constant. -/
theorem old_question_mark_jump_counterexample :
    let line := [49, 48, 32, 73, 70, 32, 65, 32, 84, 72, 69, 78, 32, 63, 32, 53]
    let listed := [49, 48, 32, 73, 70, 32, 65, 32, 84, 72, 69, 78, 32, 80, 82, 73, 78, 84, 32, 53]
    tokeniseLine true advanced cd0 line = .ok [0, 192, 222, 10, 0, 139, 32, 65, 32, 205, 32, 145, 32, 14, 5, 0]
    ∧ detokLine true advanced cd0 [192, 222, 10, 0, 139, 32, 65, 32, 205, 32, 145, 32, 14, 5, 0] = .ok (some (10, listed))
    ∧ tokeniseLine true advanced cd0 listed = .ok [0, 192, 222, 10, 0, 139, 32, 65, 32, 205, 32, 145, 32, 22]
    ∧ tokeniseLine false advanced cd0 line = .ok [0, 192, 222, 10, 0, 139, 32, 65, 32, 205, 32, 145, 32, 22] := by
  decide +kernel

/-! ## second round: wider literal classes, respelled text, what is not round-trip -/

/-- point / exponent / `!` `#` literals: the lexical scan is proved, so such a literal is a well-formed `num`
    item as soon as the codec pair maps its text to a T_SINGLE / T_DOUBLE token and that token back to the text
    (`read (show v) = v`; the numeric content of the pair is property C07) -/
theorem float_literal_wellformed (old : Bool) (t : Table) (cd : Codec) (s : St) (out txt : Bytes) (lead : Nat)
    (pay R E : Bytes) (hshape : floatText txt = true) (hstart : headIs (fun c => isDigit c || c == 46) txt = true)
    (hnotint : ¬ (txt.all isDigit = true ∧ readBase 10 txt ≤ 32767))
    (hread : cd.readFloat txt = some (lead :: pay)) (hshow : cd.showFloat (lead :: pay) = some txt)
    (hlead : (lead = tTSINGLE ∧ pay.length = 4) ∨ (lead = tTDOUBLE ∧ pay.length = 8))
    (han : s.an = true) (haj : s.aj = false)
    (hf : (match txt.getLast? with
           | some l => l == 33 || l == 35
           | none => false) = true ∨ decFollowOK R = true) :
    okT false t cd s (.num txt lead pay) R False ∧ okL old t cd out (.num txt lead pay) E False := by
  constructor
  · simp only [okT]
    refine ⟨?_, float_tokNumber cd txt (lead :: pay) R hshape hstart hnotint hread hf⟩
    obtain ⟨c, txt', rfl, hc⟩ := headIs_ex hstart
    refine ⟨c, txt', rfl, Or.inr ⟨han, haj, ?_⟩⟩
    simpa using hc
  · simp only [okL]
    refine ⟨?_, float_listNumber old cd txt lead pay E hlead hshow⟩
    rcases hlead with ⟨rfl, _⟩ | ⟨rfl, _⟩ <;> decide

/-- &H literals are well-formed `num` items wherever they stand (also in jump-number mode) -/
theorem hex_literal_wellformed (old : Bool) (t : Table) (cd : Codec) (s : St) (out : Bytes) (v : Nat) (h : v < 65536)
    (R E : Bytes) (hf : hexFollowOK R = true) :
    okT false t cd s (.num (38 :: 72 :: showBase 16 v) tTHEX [v % 256, v / 256 % 256]) R False
    ∧ okL old t cd out (.num (38 :: 72 :: showBase 16 v) tTHEX [v % 256, v / 256 % 256]) E False := by
  constructor
  · simp only [okT]
    exact ⟨⟨38, _, rfl, Or.inl rfl⟩, by simpa using (number_token_classes_hex old cd v h R).1 hf⟩
  · simp only [okL]
    exact ⟨by decide, (number_token_classes_hex old cd v h E).2⟩

/-- &O literals likewise (what follows must not be an octal digit or a blank: a blank belongs to the literal) -/
theorem oct_literal_wellformed (old : Bool) (t : Table) (cd : Codec) (s : St) (out : Bytes) (v : Nat) (h : v < 65536)
    (R E : Bytes) (hf : octFollowOK R = true) :
    okT false t cd s (.num (38 :: 79 :: showBase 8 v) tTOCT [v % 256, v / 256 % 256]) R False
    ∧ okL old t cd out (.num (38 :: 79 :: showBase 8 v) tTOCT [v % 256, v / 256 % 256]) E False := by
  constructor
  · simp only [okT]
    exact ⟨⟨38, _, rfl, Or.inl rfl⟩, by simpa using (number_token_classes_oct old cd v h R).1 hf⟩
  · simp only [okL]
    exact ⟨by decide, (number_token_classes_oct old cd v h E).2⟩

/-- RESPELLED TEXT: a line typed with keywords in any letter case (`kwAs`), `?` for PRINT and the
    `GO TO` / `GO  TO` / `GO SUB` forms tokenises to the tokens of its canonical form; the lister prints the
    canonical form, and that re-enters as the identical token line.  (The typed text itself is not what is
    listed — see the counterexamples below — but nothing is lost in the tokens.) -/
theorem respelled_line_normalises (t : Table) (cd : Codec) (is : List Item)
    (hT : wfT false t cd ⟨false, true, false⟩ is)
    (hTc : wfT false t cd ⟨false, true, false⟩ (is.map canon)) (hLc : wfL false t cd [] (is.map canon))
    (hlen : (textAll (is.map canon)).length ≤ 255) :
    tokLoop false t cd ((textAll is).length + 1) ⟨false, true, false⟩ (textAll is) = .ok (encAll (is.map canon))
    ∧ listStatement false t cd (encAll (is.map canon)) = .ok (textAll (is.map canon))
    ∧ tokLoop false t cd ((textAll (is.map canon)).length + 1) ⟨false, true, false⟩ (textAll (is.map canon))
        = .ok (encAll (is.map canon)) := by
  refine ⟨?_, listStatement_items false t cd _ hLc hlen, ?_⟩
  · rw [encAll_canon]
    exact tok_items false t cd is _ _ (by have := wfT_length false t cd is _ hT; omega) hT
  · exact tok_items false t cd _ _ _ (by have := wfT_length false t cd _ _ hTc; omega) hTc

/-- ROUND TRIP for line number 0: the tokeniser keeps the blank behind `0`, the lister drops one -/
theorem roundtrip_line_zero (t : Table) (cd : Codec) (a b : Nat) (hab : ¬ (a = 0 ∧ b = 0)) (is : List Item)
    (hT : wfT false t cd ⟨false, true, false⟩ is) (hL : wfL false t cd [] is)
    (hlen : (textAll is).length ≤ 255) (htab : (encAll is).head? ≠ some 9)
    (hj : jumpFollowOK (32 :: textAll is) = true) :
    detokLine false t cd (a :: b :: 0 :: 0 :: 32 :: encAll is) = .ok (some (0, 48 :: 32 :: textAll is))
    ∧ tokeniseLine false t cd (48 :: 32 :: textAll is) = .ok ([0, 192, 222, 0, 0, 32] ++ encAll is) := by
  constructor
  · have ht : ((encAll is).head? == some 9) = false := by simpa using htab
    have hs : showBase 10 0 = [48] := by decide
    unfold detokLine
    simp [hab, ht, hs, listStatement_items false t cd is hL hlen]
  · have hr := readLineNum_showBase 0 (by omega) (32 :: textAll is) hj
    have hs : showBase 10 0 = [48] := by decide
    rw [hs] at hr
    have hT' : wfT false t cd ⟨false, true, false⟩ (.sp :: is) := ⟨trivial, hT⟩
    have := tok_items false t cd (.sp :: is) ⟨false, true, false⟩ ((32 :: textAll is).length + 1)
      (by have := wfT_length false t cd is _ hT; simp; omega) hT'
    simp only [textAll, encAll, Item.text, Item.enc, List.cons_append, List.nil_append] at this
    unfold tokeniseLine
    simp only [List.cons_append, List.nil_append] at hr
    simp only [List.length_cons] at this
    simp [List.dropWhile, isBlank, tokLineNumber, hr, this, prepend, lo, hi]

/-- the spellings the tokeniser accepts for GOTO / GOSUB: one blank + TO + a non-name character, two or more
    blanks + TO + anything, one blank + SUB + anything (letters in any case) -/
theorem go_to_forms (tt oo x s u b : Nat) (n : Nat) (R : Bytes) (ht : upper tt = 84) (ho : upper oo = 79)
    (hs : upper s = 83) (hu : upper u = 85) (hb : upper b = 66) (hx : isNameChar x = false) :
    wideGo (32 :: tt :: oo :: x :: R) = some (kwGoto, x :: R, false)
    ∧ wideGo (32 :: 32 :: (List.replicate n 32 ++ tt :: oo :: R)) = some (kwGoto, R, true)
    ∧ wideGo (32 :: s :: u :: b :: R) = some (kwGosub, R, true) :=
  ⟨wideGo_to1 tt oo x R ht ho hx, wideGo_toN n tt oo R ht ho, wideGo_sub s u b R hs hu hb⟩

/-- a second worked line: TAB, DATA with quoted and unquoted items, line-number list and range, raw digit
    behind a name, a string left open:  `ON X GOTO 10,20, 30:LIST 10-20:<TAB>OPTION BASE 1:DATA 1,"a:b", c d:A$="x` -/
def exItems2 : List Item :=
  [.kw [79, 78] [149], .sp, .ident [88], .sp, .kw [71, 79, 84, 79] [137], .sp, .jump 10, .punct 44, .jump 20,
   .punct 44, .sp, .jump 30, .punct 58,
   .kw [76, 73, 83, 84] [147], .sp, .jump 10, .op 45 234, .jump 20, .punct 58, .tab,
   .kw [79, 80, 84, 73, 79, 78] [184], .sp, .ident [66, 65, 83, 69], .sp, .raw 49, .punct 58,
   .data [32, 49, 44, 34, 97, 58, 98, 34, 44, 32, 99, 32, 100], .punct 58,
   .ident [65], .punct 36, .op 61 231, .strOpen [120]]

example : wfT false advanced cd0 ⟨false, true, false⟩ exItems2 := wfTb_sound _ _ _ _ _ (by decide +kernel)
example : wfL false advanced cd0 [] exItems2 := wfLb_sound _ _ _ _ _ (by decide +kernel)

/-- a respelled line: `for i=1 to 9:? i:go to 10` and its canonical form `FOR I=1 TO 9:PRINT I:GOTO 10` -/
def exSpelled : List Item :=
  [.kwAs [102, 111, 114] [70, 79, 82] [130], .sp, .ident [73], .op 61 231, .num [49] 18 [], .sp,
   .kwAs [116, 111] [84, 79] [204], .sp, .num [57] 26 [], .punct 58, .qmark, .sp, .ident [73], .punct 58,
   .goTo [103, 111, 32, 116, 111] [71, 79, 84, 79] [137], .sp, .jump 10]

example : wfTb false advanced cd0 ⟨false, true, false⟩ exSpelled = true
    ∧ wfTb false advanced cd0 ⟨false, true, false⟩ (exSpelled.map canon) = true
    ∧ wfLb false advanced cd0 [] (exSpelled.map canon) = true := by decide +kernel

/-! ### what is not round-trip in the real code (model = code on these inputs: correspondence run) -/

/-- a number-token lead byte inside a string literal: tokens `10 A$="<0F>A"` list as `10 A$="65"`, which re-enters
    as different tokens (the lister prints such bytes as numbers even inside literals) -/
theorem lead_byte_in_string_counterexample :
    detokLine false advanced cd0 [192, 222, 10, 0, 65, 36, 231, 34, 15, 65, 34]
      = .ok (some (10, [49, 48, 32, 65, 36, 61, 34, 54, 53, 34]))
    ∧ tokeniseLine false advanced cd0 [49, 48, 32, 65, 36, 61, 34, 54, 53, 34]
      = .ok [0, 192, 222, 10, 0, 65, 36, 231, 34, 54, 53, 34] := by decide +kernel

/-- LF as a blank: `10 A<LF>B` keeps the LF in the tokens, the lister prints LF CR, and the CR ends the line
    on re-entry: the B is lost -/
theorem line_feed_counterexample :
    tokeniseLine false advanced cd0 [49, 48, 32, 65, 10, 66] = .ok [0, 192, 222, 10, 0, 65, 10, 66]
    ∧ detokLine false advanced cd0 [192, 222, 10, 0, 65, 10, 66] = .ok (some (10, [49, 48, 32, 65, 10, 13, 66]))
    ∧ tokeniseLine false advanced cd0 [49, 48, 32, 65, 10, 13, 66] = .ok [0, 192, 222, 10, 0, 65, 10] := by
  decide +kernel

/-- `10 ? 1` lists as `10 PRINT 1` (text changed), which re-enters as the same tokens -/
theorem question_mark_counterexample :
    tokeniseLine false advanced cd0 [49, 48, 32, 63, 32, 49] = .ok [0, 192, 222, 10, 0, 145, 32, 18]
    ∧ detokLine false advanced cd0 [192, 222, 10, 0, 145, 32, 18] = .ok (some (10, [49, 48, 32, 80, 82, 73, 78, 84, 32, 49]))
    ∧ tokeniseLine false advanced cd0 [49, 48, 32, 80, 82, 73, 78, 84, 32, 49] = .ok [0, 192, 222, 10, 0, 145, 32, 18] := by
  decide +kernel

/-- `10 print a` lists as `10 PRINT A` -/
theorem lower_case_counterexample :
    tokeniseLine false advanced cd0 [49, 48, 32, 112, 114, 105, 110, 116, 32, 97] = .ok [0, 192, 222, 10, 0, 145, 32, 65]
    ∧ detokLine false advanced cd0 [192, 222, 10, 0, 145, 32, 65] = .ok (some (10, [49, 48, 32, 80, 82, 73, 78, 84, 32, 65])) := by
  decide +kernel

/-- `10 GO  TO 5` and `10 GO TO 5` list as `10 GOTO 5`; `GO TO` at the very end of a line is not GOTO at all -/
theorem go_to_counterexample :
    tokeniseLine false advanced cd0 [49, 48, 32, 71, 79, 32, 32, 84, 79, 32, 53] = .ok [0, 192, 222, 10, 0, 137, 32, 14, 5, 0]
    ∧ tokeniseLine false advanced cd0 [49, 48, 32, 71, 79, 32, 84, 79, 32, 53] = .ok [0, 192, 222, 10, 0, 137, 32, 14, 5, 0]
    ∧ detokLine false advanced cd0 [192, 222, 10, 0, 137, 32, 14, 5, 0] = .ok (some (10, [49, 48, 32, 71, 79, 84, 79, 32, 53]))
    ∧ tokeniseLine false advanced cd0 [49, 48, 32, 71, 79, 32, 84, 79] = .ok [0, 192, 222, 10, 0, 71, 79, 32, 204] := by
  decide +kernel

/-- `10 A=1%` lists as `10 A=1` (the % is swallowed); same tokens on re-entry -/
theorem percent_suffix_counterexample :
    tokeniseLine false advanced cd0 [49, 48, 32, 65, 61, 49, 37] = .ok [0, 192, 222, 10, 0, 65, 231, 18]
    ∧ detokLine false advanced cd0 [192, 222, 10, 0, 65, 231, 18] = .ok (some (10, [49, 48, 32, 65, 61, 49]))
    ∧ tokeniseLine false advanced cd0 [49, 48, 32, 65, 61, 49] = .ok [0, 192, 222, 10, 0, 65, 231, 18] := by
  decide +kernel

/-- `10 A=&O7 :B` : the blank behind the octal literal belongs to it and is not kept; lists as `10 A=&O7:B` -/
theorem octal_blank_swallowed_counterexample :
    tokeniseLine false advanced cd0 [49, 48, 32, 65, 61, 38, 79, 55, 32, 58, 66] = .ok [0, 192, 222, 10, 0, 65, 231, 11, 7, 0, 58, 66]
    ∧ detokLine false advanced cd0 [192, 222, 10, 0, 65, 231, 11, 7, 0, 58, 66]
        = .ok (some (10, [49, 48, 32, 65, 61, 38, 79, 55, 58, 66])) := by
  decide +kernel

end PcbV.C17
