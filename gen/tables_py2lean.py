"""Translated functions (gen/py2lean.py) -> lean/PcbV/Gen/Translated.lean"""
import ast
from gen_tables import generator, HEADER
import py2lean


_LEAN_WORDS = {'let', 'if', 'then', 'else', 'decide', 'true', 'false', 'Int', 'Nat', 'Bool', 'max', 'min', 'fun'}


def _free_names(out, params, body):
    """Bare identifiers of a generated body that are bound by nothing: not a parameter, not let-bound, not a
    Lean word, not an earlier definition of this file.  (A module constant the translator did not resolve, a
    name captured from a refactored source, ...: such a body would not compile, and because the driver imports
    this file a compile error here would break the check of EVERY property instead of just losing one tie.)"""
    import re
    bound = set(re.findall(r"[A-Za-z_][A-Za-z0-9_']*", params)) | _LEAN_WORDS
    bound |= set(re.findall(r"\blet\s+([A-Za-z_][A-Za-z0-9_']*)", body))
    bound |= set(re.findall(r"\bfun\s+([A-Za-z_][A-Za-z0-9_']*)", body))
    for text in out:
        bound |= set(re.findall(r"^def\s+([A-Za-z_][A-Za-z0-9_']*)", text, re.M))
    free = []
    for m in re.finditer(r"(?<![A-Za-z0-9_'.])([A-Za-z_][A-Za-z0-9_']*)(?![A-Za-z0-9_'])", body):
        w = m.group(1)
        rest = body[m.end():m.end() + 1]
        if rest == '.':
            continue    # head of a qualified name (Int.fdiv, PcbV.PyInt.xor)
        if w not in bound and w not in free:
            free.append(w)
    return free


def _emit(out, name, params, build, typ='Int'):
    try:
        body = build()
        free = _free_names(out, params, body)
        if free:
            raise py2lean.Unsupported('unbound name(s) %s in the translation' % ', '.join(free))
        out.append('def %s %s : %s :=\n  %s\n' % (name, params, typ, body))
        out.append('def %s_supported : Bool := true\n' % name)
    except (py2lean.Unsupported, SyntaxError, OSError, TypeError) as e:
        out.append('-- %s: the current source left the supported subset (%s)' % (name, str(e).replace('\n', ' ')))
        out.append('def %s %s : %s := %s\n' % (name, params, typ, 'false' if typ == 'Bool' else '0'))
        out.append('def %s_supported : Bool := false\n' % name)


def _body(fn_obj, first=None):
    """Statements of a function (docstring dropped); `first(stmt)` selects where the translated part starts."""
    fn = py2lean.function_ast(getattr(fn_obj, 'fget', None) or getattr(fn_obj, '__func__', None) or fn_obj)
    body = fn.body
    if first is not None:
        for i, st in enumerate(body):
            if first(st):
                return body[i:]
        raise py2lean.Unsupported('start of the translated part not found')
    return body


def _whole(fn_obj, mk_tr, first=None, fall='0'):
    """Builder translating the whole body of a function / property with a fresh Tr."""
    def build():
        return mk_tr().set_scope(fn_obj).stmts(_body(fn_obj, first), fall)
    return build


@generator('Translated')
def gen_translated():
    from pcbasic.basic.values import randomiser, numbers
    import importlib
    protect = importlib.import_module('pcbasic.basic.converter.protect')
    out = [HEADER, 'import PcbV.PyInt\n', 'set_option linter.unusedVariables false\n', '/-! Mechanically translated from the current source by gen/py2lean.py (Python ints = `Int`;',
           '    `//` = Int.fdiv, `%` = Int.fmod, `^` = Int.xor). -/', 'namespace PcbV.Gen.Translated\n']
    R = randomiser.Randomiser
    consts = {'self._multiplier': R._multiplier, 'self._increment': R._increment, 'self._period': R._period,
              'self._step': R._step}

    def cycle():
        fn = py2lean.function_ast(R._cycle)
        st = [s for s in fn.body if isinstance(s, ast.Assign)]
        if len(st) != 1 or ast.unparse(st[0].targets[0]) != 'self._seed':
            raise py2lean.Unsupported('_cycle is not a single assignment to self._seed')
        tr = py2lean.Tr(consts, calls={})
        # self._seed on the right-hand side is the parameter
        rhs = ast.parse(ast.unparse(st[0].value).replace('self._seed', 'seed'), mode='eval').body
        return tr.expr(rhs)
    _emit(out, 'cycle', '(seed : Int)', cycle)

    pconsts = {'KEY1': tuple(protect.KEY1), 'KEY2': tuple(protect.KEY2)}

    def step(fn_obj):
        def build():
            fn = py2lean.function_ast(fn_obj)
            # the byte variable is whatever is first assigned from an expression containing ord(...);
            # canonical name `c`; the ord(...) call itself is the parameter `c` of the Lean definition
            firsts = [n for n in ast.walk(fn) if isinstance(n, ast.Assign) and len(n.targets) == 1
                      and isinstance(n.targets[0], ast.Name)
                      and any(isinstance(x, ast.Call) and ast.unparse(x.func) == 'ord' for x in ast.walk(n.value))]
            var = set(n.targets[0].id for n in firsts)
            if len(var) != 1:
                raise py2lean.Unsupported('byte variable not found')
            var = var.pop()
            if var != 'c':
                class Ren(ast.NodeTransformer):
                    def visit_Name(self, n):
                        return ast.copy_location(ast.Name(id='c' if n.id == var else n.id, ctx=n.ctx), n)
                fn = Ren().visit(fn)
            ords = set(ast.unparse(x) for x in ast.walk(fn) if isinstance(x, ast.Call) and ast.unparse(x.func) == 'ord')
            is_first = lambda s: (isinstance(s, ast.Assign) and ast.unparse(s.targets[0]) == 'c'
                                  and any(o in ast.unparse(s.value) for o in ords))
            is_last = lambda s: (isinstance(s, ast.Expr) and isinstance(s.value, ast.Call)
                                 and ast.unparse(s.value.func) == 'outs.write')
            sts = py2lean.find_statements(fn, is_first, is_last)
            write = sts[-1].value
            arg = write.args[0]
            if not (isinstance(arg, ast.Call) and ast.unparse(arg.func) == 'int2byte' and len(arg.args) == 1):
                raise py2lean.Unsupported('outs.write argument')
            tr = py2lean.Tr(dict(pconsts), calls=dict((o, 'c') for o in ords)).set_scope(fn_obj)
            body = sts[:-1]
            # `c = ord(s)` alone binds nothing new: drop it
            if ast.unparse(body[0].value) in ords:
                body = body[1:]
            return tr.stmts(body, tr.expr(arg.args[0]))
        return build

    def next_index(fn_obj):
        def build():
            fn = py2lean.function_ast(fn_obj)
            is_idx = lambda s: (isinstance(s, ast.Assign) and ast.unparse(s.targets[0]) == 'index'
                                and not isinstance(s.value, ast.Constant))
            sts = py2lean.find_statements(fn, is_idx, is_idx)
            return py2lean.Tr(dict(pconsts)).set_scope(fn_obj).expr(sts[0].value)
        return build
    _emit(out, 'unprotNextIndex', '(index : Int)', next_index(protect.unprotect))
    _emit(out, 'protNextIndex', '(index : Int)', next_index(protect.protect))
    _emit(out, 'unprotStep', '(c index : Int)', step(protect.unprotect))
    _emit(out, 'protStep', '(c index : Int)', step(protect.protect))

    def int_tail(method, first_target):
        def build():
            fn = py2lean.function_ast(method)
            is_first = lambda s: isinstance(s, ast.Assign) and ast.unparse(s.targets[0]) == first_target
            sts = None
            for i, s in enumerate(fn.body):
                if is_first(s):
                    sts = fn.body[i:]
                    break
            if sts is None:
                raise py2lean.Unsupported('start of arithmetic part not found')
            tr = py2lean.Tr({}, calls={'self.to_int()': 'a', 'rhs.to_int()': 'b'})
            return tr.stmts(sts, '0')
        return build
    _emit(out, 'idivCore', '(a b : Int)', int_tail(numbers.Integer.idiv_int, 'dividend'))
    _emit(out, 'imodCore', '(a b : Int)', int_tail(numbers.Integer.imod, 'dividend'))

    # ---------------------------------------------------------------------------------------------
    # numbers.Integer: byte-level negate / add / greater-than  (C02)
    # the buffers are parameters: a0, a1 = low, high byte of self; b0, b1 = low, high byte of rhs;
    # `self._buffer[:] = bytearray([lo, hi])` is the result lo + 256*hi; `raise OVERFLOW` is -OVERFLOW
    from pcbasic.basic.base import error as _error
    # the two-byte views are tuple-valued: subscripts and local aliases (`buf = bytearray(self._buffer)`) resolve to them
    bufs = {'bytearray(self._buffer)': ['a0', 'a1'], 'bytearray(rhs._buffer)': ['b0', 'b1']}
    ovf = {'raise error.BASICError(error.OVERFLOW)': '(%d : Int)' % -_error.OVERFLOW}

    def store_hook(tr, st, rest, result):
        if (isinstance(st, ast.Assign) and ast.unparse(st.targets[0]) == 'self._buffer[:]'
                and isinstance(st.value, ast.Call) and ast.unparse(st.value.func) == 'bytearray'
                and len(st.value.args) == 1 and isinstance(st.value.args[0], ast.List)
                and len(st.value.args[0].elts) == 2
                and len(rest) == 1 and isinstance(rest[0], ast.Return) and ast.unparse(rest[0].value) == 'self'):
            lo, hi = st.value.args[0].elts
            return '(%s + ((256 : Int) * %s))' % (tr.expr(lo), tr.expr(hi))
        return None
    int_tr = lambda **kw: (lambda: py2lean.Tr({}, calls=bufs, raises=ovf, hooks=[store_hook],
                                             bools={"self._buffer == b'\\x00\\x80'":
                                                    '((decide (a0 = (0 : Int))) && (decide (a1 = (128 : Int))))'}, **kw))
    _emit(out, 'inegCore', '(a0 a1 : Int)', _whole(numbers.Integer.ineg, int_tr()))
    _emit(out, 'iaddCore', '(a0 a1 b0 b1 : Int)', _whole(numbers.Integer.iadd, int_tr()))
    _emit(out, 'igtCore', '(a0 a1 b0 b1 : Int)',
          _whole(numbers.Integer.gt, int_tr(ret_bool=True),
                 first=lambda st: isinstance(st, ast.Assign) and 'isinstance' not in ast.unparse(st), fall='false'),
          typ='Bool')

    # ---------------------------------------------------------------------------------------------
    # inputs/keyboard.py KeyboardBuffer: ring arithmetic  (C37)
    # parameters: buflen = len(self._buffer), start = self._start, ring = self._ring_length
    from pcbasic.basic.inputs import keyboard
    KB = keyboard.KeyboardBuffer
    kbc = {'self._ring_length': 'ring', 'self._start': 'start',
           'self.length': '(kbLength buflen start ring)'}
    kb_tr = lambda: py2lean.Tr(dict(kbc), calls={'len(self._buffer)': 'buflen'})
    _emit(out, 'kbRingIndex', '(buflen ring index : Int)', _whole(KB._ring_index, kb_tr))
    _emit(out, 'kbLength', '(buflen start ring : Int)', _whole(KB.length, kb_tr))
    _emit(out, 'kbStart', '(start ring : Int)', _whole(KB.start, kb_tr))
    _emit(out, 'kbStop', '(buflen start ring : Int)', _whole(KB.stop, kb_tr))

    def kb_full():
        # the "ring is full" test of append(): the condition of the inner `if`, without the check_full flag
        fn = py2lean.function_ast(KB.append)
        for node in ast.walk(fn):
            if isinstance(node, ast.If) and isinstance(node.test, ast.BoolOp) and isinstance(node.test.op, ast.And) \
                    and len(node.test.values) == 2 and ast.unparse(node.test.values[0]) == 'self._check_full':
                return kb_tr().cond(node.test.values[1])
        raise py2lean.Unsupported('full test of append not found')
    _emit(out, 'kbFull', '(buflen start ring : Int)', kb_full, typ='Bool')

    # ---------------------------------------------------------------------------------------------
    # display/framebuffer.py: address -> (page, x, y) of the graphics memory mappers, and _coord_ok  (C34)
    from pcbasic.basic.display import framebuffer
    fbc = {'self._video_segment': 'segment', 'self._page_size': 'pageSize', 'self._bank_size': 'bankSize',
           'self._bytes_per_row': 'bytesPerRow', 'self._bitsperpixel': 'bpp',
           'self._interleave_times': 'interleave', 'self.num_pages': 'numPages',
           'self._pixel_width': 'width', 'self._pixel_height': 'height'}
    for cls, nm, params in ((framebuffer.CGAMemoryMapper, 'cga', '(addr segment pageSize bankSize bytesPerRow bpp interleave : Int)'),
                            (framebuffer.EGAMemoryMapper, 'ega', '(addr segment pageSize bytesPerRow : Int)'),
                            (framebuffer.Tandy6MemoryMapper, 'tandy6', '(addr segment pageSize bankSize bytesPerRow : Int)')):
        for k, comp in enumerate(('Page', 'X', 'Y')):
            _emit(out, '%sCoords%s' % (nm, comp), params,
                  _whole(cls._get_coords, (lambda k=k: py2lean.Tr(dict(fbc), component=k))))
    _emit(out, 'coordOk', '(page x y numPages width height : Int)',
          _whole(framebuffer.GraphicsMemoryMapper._coord_ok, lambda: py2lean.Tr(dict(fbc), ret_bool=True), fall='false'),
          typ='Bool')

    # ---------------------------------------------------------------------------------------------
    # display/graphics.py GraphicsViewPort: bounds, containment, midpoint, cutoff  (C30)
    # parameters: absolute = self._absolute, (r0, r1, r2, r3) = self._rect, maxW/maxH = self._max_width/height
    from pcbasic.basic.display import graphics
    VP = graphics.GraphicsViewPort
    R4 = 'r0 r1 r2 r3'
    vpc = {'self._rect': ['r0', 'r1', 'r2', 'r3'], 'self._max_width': 'maxW', 'self._max_height': 'maxH',
           'self.width': '(vpWidth %s)' % R4, 'self.height': '(vpHeight %s)' % R4}
    vpcalls = {'self.get_bounds()': ['(vpBounds%d absolute %s)' % (k, R4) for k in range(4)],
               'self._convert_coords(x, y)': ['(vpConvert%d absolute %s x y)' % (k, R4) for k in range(2)]}
    vp_tr = lambda **kw: (lambda: py2lean.Tr(dict(vpc), calls=dict(vpcalls), bools={'self._absolute': 'absolute'}, **kw))
    _emit(out, 'vpWidth', '(%s : Int)' % R4, _whole(VP.width, vp_tr()))
    _emit(out, 'vpHeight', '(%s : Int)' % R4, _whole(VP.height, vp_tr()))
    for k in range(4):
        _emit(out, 'vpBounds%d' % k, '(absolute : Bool) (%s : Int)' % R4, _whole(VP.get_bounds, vp_tr(component=k)))
    for k in range(2):
        _emit(out, 'vpConvert%d' % k, '(absolute : Bool) (%s x y : Int)' % R4,
              _whole(VP._convert_coords, vp_tr(component=k)))
    _emit(out, 'vpContains', '(absolute : Bool) (%s x y : Int)' % R4,
          _whole(VP.contains, vp_tr(ret_bool=True), fall='false'), typ='Bool')
    for k in range(2):
        _emit(out, 'vpMid%d' % k, '(absolute : Bool) (%s : Int)' % R4, _whole(VP.get_mid, vp_tr(component=k)))
    for k in range(2):
        _emit(out, 'vpCutoff%d' % k, '(absolute : Bool) (%s maxW maxH x y : Int)' % R4,
              _whole(VP.cutoff_coord, vp_tr(component=k)))

    # ---------------------------------------------------------------------------------------------
    # memory/scalars.py, memory/arrays.py: record sizes  (C11)
    # parameters: nameLen = len(name), ndims = len(dimensions)
    from pcbasic.basic.memory import scalars, arrays
    rs_tr = lambda: py2lean.Tr({}, calls={'len(name)': 'nameLen', 'len(dimensions)': 'ndims'})
    _emit(out, 'scalarRecordSize', '(nameLen : Int)', _whole(scalars.Scalars._record_size, rs_tr))
    _emit(out, 'arrayRecordSize', '(nameLen ndims : Int)', _whole(arrays.Arrays._record_size, rs_tr))

    # ---------------------------------------------------------------------------------------------
    # devices/diskfiles.py RandomFile: record arithmetic of eof / _set_record_pos / put  (C25)
    # parameters: recpos = self._recpos, reclen = self.reclen, lof = self.lof()
    from pcbasic.basic.devices import diskfiles
    RFc = diskfiles.RandomFile
    rfc = {'self._recpos': 'recpos', 'self.reclen': 'reclen'}
    rf_tr = lambda **kw: (lambda: py2lean.Tr(dict(rfc), calls={'self.lof()': 'lof'}, **kw))
    _emit(out, 'rfEof', '(recpos reclen lof : Int)', _whole(RFc.eof, rf_tr(ret_bool=True), fall='false'), typ='Bool')

    def rf_seek_arg(method):
        # the single `self._fhandle.seek(<expr>)` of the method: the byte offset the record is read/written at
        def build():
            fn = py2lean.function_ast(method)
            seeks = [n for n in ast.walk(fn) if isinstance(n, ast.Call) and ast.unparse(n.func) == 'self._fhandle.seek'
                     and len(n.args) == 1]
            if len(seeks) != 1:
                raise py2lean.Unsupported('expected exactly one one-argument seek, found %d' % len(seeks))
            return py2lean.Tr(dict(rfc)).set_scope(method).expr(seeks[0].args[0])
        return build

    def rf_new_recpos():
        # `self._recpos = <expr>` in _set_record_pos
        fn = py2lean.function_ast(RFc._set_record_pos)
        sts = [n for n in ast.walk(fn) if isinstance(n, ast.Assign) and ast.unparse(n.targets[0]) == 'self._recpos']
        if len(sts) != 1:
            raise py2lean.Unsupported('expected exactly one assignment to self._recpos')
        return py2lean.Tr(dict(rfc)).set_scope(RFc._set_record_pos).expr(sts[0].value)
    _emit(out, 'rfSeekOffset', '(pos reclen : Int)', rf_seek_arg(RFc._set_record_pos))
    _emit(out, 'rfSeekRecpos', '(pos : Int)', rf_new_recpos)
    _emit(out, 'rfPutOffset', '(recpos reclen : Int)', rf_seek_arg(RFc.put))
    out.append('end PcbV.Gen.Translated\n')
    return '\n'.join(out)
