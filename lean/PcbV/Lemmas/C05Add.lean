import PcbV.Lemmas.C05Basic
/-
  C05 lemmas, part 2: `_add_den` split into the ordering step and the ordered core;
  symmetry of the ordering; cancellation of equal magnitudes.
-/
namespace PcbV.Mbf

/-- `_add_den` after the operands have been ordered (`r` is the larger one) -/
def addCore (f : Fmt) (l r : Den) : Den :=
  let sh := (r.exp - l.exp).toNat
  let zeroFlag := l.man % 2 ^ sh = 0
  let subFlag := l.neg != r.neg
  let lman := l.man / 2 ^ sh
  let lexp := r.exp
  if (lman < 128 ∨ (lman = 128 ∧ zeroFlag)) ∧ subFlag then r else
  let (lexp, man, neg) :=
    if !subFlag then
      let man := lman + r.man
      if man ≥ f.denUpper then (lexp + 1, man / 2, l.neg) else (lexp, man, l.neg)
    else (lexp, r.man - lman, r.neg)
  let man := if ¬ zeroFlag ∧ !subFlag then (if man % 2 = 0 then man + 1 else man) else man
  let man := if subFlag ∧ (man / 64 % 8 = 2) ∧ ¬ (man / 64 % 8 = 2 ∧ man % 32 = 0)
             then (man % f.denUpper) / 256 * 256 + man % 128 else man
  { exp := lexp, man := man, neg := neg }

theorem addDen_eq (f : Fmt) (l r : Den) :
    addDen f l r = if r.exp = 0 then l else if l.exp = 0 then r else
      if l.exp > r.exp ∨ (l.exp = r.exp ∧ l.man > r.man) then addCore f r l else addCore f l r := by
  unfold addDen
  by_cases h1 : r.exp = 0
  · simp only [h1, if_true]
  · by_cases h2 : l.exp = 0
    · simp only [h1, h2, if_true, if_false]
    · simp only [h1, h2, if_false]
      by_cases h3 : l.exp > r.exp ∨ (l.exp = r.exp ∧ l.man > r.man)
      · simp only [h3, if_true]; rfl
      · simp only [h3, if_false]; rfl

theorem normD_zero_man (f : Fmt) (d : Den) (hd : d.man = 0) : normD f d = .ok zero := by
  unfold normD normalise
  simp [hd]

/-- equal magnitudes, opposite signs: the difference of the mantissas is 0 -/
theorem addCore_cancel (f : Fmt) (l r : Den) (he : l.exp = r.exp) (hm : l.man = r.man)
    (h129 : 129 ≤ l.man) (hs : l.neg ≠ r.neg) : (addCore f l r).man = 0 := by
  have hsub : (l.neg != r.neg) = true := by
    cases hl : l.neg <;> cases hr : r.neg <;> simp_all
  unfold addCore
  have hsh : (r.exp - l.exp).toNat = 0 := by omega
  simp only [hsh, Nat.pow_zero, Nat.mod_one, Nat.div_one, hsub]
  rw [hm] at h129
  have h' : ¬ (r.man < 128 ∨ r.man = 128) := by omega
  simp [hm, h']

theorem addDen_comm_norm (f : Fmt) (l r : Den) (hl : 129 ≤ l.man) (hr : 129 ≤ r.man) :
    normD f (addDen f l r) = normD f (addDen f r l) := by
  rw [addDen_eq, addDen_eq f r l]
  by_cases h1 : r.exp = 0 <;> by_cases h2 : l.exp = 0
  · simp only [h1, h2, if_true]
    rw [normD_zero_exp f l h2, normD_zero_exp f r h1]
  · simp only [h1, h2, if_true, if_false]
  · simp only [h1, h2, if_true, if_false]
  · simp only [h1, h2, if_false]
    by_cases hA : l.exp > r.exp ∨ (l.exp = r.exp ∧ l.man > r.man)
    · have hB : ¬ (r.exp > l.exp ∨ (r.exp = l.exp ∧ r.man > l.man)) := by omega
      simp only [hA, hB, if_true, if_false]
    · by_cases hB : r.exp > l.exp ∨ (r.exp = l.exp ∧ r.man > l.man)
      · simp only [hA, hB, if_true, if_false]
      · simp only [hA, hB, if_false]
        have he : l.exp = r.exp := by omega
        have hm : l.man = r.man := by omega
        by_cases hs : l.neg = r.neg
        · have : l = r := by cases l; cases r; simp_all
          rw [this]
        · rw [normD_zero_man _ _ (addCore_cancel f l r he hm hl hs),
            normD_zero_man _ _ (addCore_cancel f r l he.symm hm.symm hr (Ne.symm hs))]

theorem iadd_comm (f : Fmt) (h : f.WF) (x y : F) : iadd f x y = iadd f y x := by
  unfold iadd
  exact addDen_comm_norm f _ _ (denorm_man_ge f h x) (denorm_man_ge f h y)

theorem iadd_zero_right (f : Fmt) (h : f.WF) (x z : F) (hx : F.Valid f x) (hz : z.e = 0) :
    iadd f x z = .ok (if x.e = 0 then zero else x) := by
  unfold iadd
  have hz' : (denorm f z).exp = 0 := by simp [denorm, hz]
  rw [addDen_eq, if_pos hz']
  by_cases he : x.e = 0
  · rw [if_pos he]; exact normD_zero_exp f _ (by simp [denorm, he])
  · rw [if_neg he]; exact normD_denorm f h x hx he

theorem addDen_self_neg (f : Fmt) (d : Den) (h129 : 129 ≤ d.man) :
    normD f (addDen f d ⟨d.exp, d.man, !d.neg⟩) = .ok zero := by
  rw [addDen_eq]
  by_cases he : d.exp = 0
  · rw [if_pos he]; exact normD_zero_exp f _ he
  · rw [if_neg he, if_neg he, if_neg (by simp only []; omega)]
    apply normD_zero_man
    refine addCore_cancel f d ⟨d.exp, d.man, !d.neg⟩ rfl rfl h129 ?_
    cases d.neg <;> simp

theorem isub_self (f : Fmt) (h : f.WF) (x : F) : isub f x x = .ok zero :=
  addDen_self_neg f (denorm f x) (denorm_man_ge f h x)

theorem ineg_ineg (f : Fmt) (h : f.WF) (x : F) (hx : F.Valid f x) : ineg f (ineg f x) = x := by
  obtain ⟨hS, _, _, _, _, hw, _⟩ := wf_S f h
  have hm := hx.1
  unfold ineg
  simp only []
  rw [isNeg_iff f h x hm]
  by_cases hn : x.m ≥ f.signMask
  · simp only [hn, decide_true, if_true]
    rw [isNeg_iff f h _ (by simp only []; omega)]
    have : ¬ (x.m - f.signMask ≥ f.signMask) := by omega
    simp only [this, decide_false, if_false, Bool.false_eq_true]
    cases x; simp only [F.mk.injEq, and_true]; simp only [] at hn; omega
  · simp only [hn, decide_false, if_false, Bool.false_eq_true]
    rw [isNeg_iff f h _ (by simp only []; omega)]
    have : (x.m + f.signMask ≥ f.signMask) := by omega
    simp only [this, decide_true, if_true]
    cases x; simp

end PcbV.Mbf
