import PcbV.Lemmas.VideoWalk
/-
  Tandy-6 mapper (SCREEN 6 of Tandy/PCjr, C34): the two colour planes of a block are walked separately
  (factor-2 walk) and recombined into the interleaved byte array.  This file proves that the recombination
  is the byte-by-byte access: pointwise content of the read array, commutation of the plane writes.
-/
namespace PcbV.VideoMem
open PcbV.Gen.Modes

theorem place_cons (arr : List Nat) (u : Nat × Nat) (t : List (Nat × Nat)) :
    place arr (u :: t) = place (arr.set u.1 u.2) t := rfl

theorem place_getElem?_not_mem (k : Nat) (us : List (Nat × Nat)) :
    ∀ arr : List Nat, (∀ u ∈ us, u.1 ≠ k) → (place arr us)[k]? = arr[k]? := by
  induction us with
  | nil => intro arr _; rfl
  | cons u t ih =>
    intro arr h
    rw [place_cons, ih _ (fun v hv => h v (List.mem_cons_of_mem _ hv))]
    exact List.getElem?_set_ne (h u (List.mem_cons_self ..))

theorem place_getElem?_key (k v : Nat) (us : List (Nat × Nat)) :
    ∀ arr : List Nat, k < arr.length → (∃ u ∈ us, u.1 = k) → (∀ u ∈ us, u.1 = k → u.2 = v) →
      (place arr us)[k]? = some v := by
  induction us with
  | nil => intro arr _ h; obtain ⟨u, hu, _⟩ := h; cases hu
  | cons u t ih =>
    intro arr hk hex hall
    rw [place_cons]
    by_cases ht : ∃ u' ∈ t, u'.1 = k
    · exact ih _ (by rw [List.length_set]; exact hk) ht (fun w hw => hall w (List.mem_cons_of_mem _ hw))
    · have hn : ∀ w ∈ t, w.1 ≠ k := fun w hw he => ht ⟨w, hw, he⟩
      rw [place_getElem?_not_mem k t _ hn]
      obtain ⟨w, hw, hwk⟩ := hex
      rcases List.mem_cons.mp hw with rfl | hw'
      · have := hall w (List.mem_cons_self ..) hwk
        rw [hwk, this]
        exact List.getElem?_set_self hk
      · exact absurd hwk (hn w hw')


theorem t6_factor (m : Mode) (hk : m.kind = 3) : factorOf m = 2 ∧ ppuOf m = 8 ∧ isGraphics m = true := by
  simp [factorOf, ppuOf, isGraphics, hk]

/-- the (index, value) pairs one plane contributes to a Tandy-6 block read -/
def t6Units (m : Mode) (np : Nat) (s : St) (addr n pl : Nat) : List (Nat × Nat) :=
  (unitsOf 8 (walk m np (addr + t6First addr pl) ((n + 1 - t6First addr pl) / 2) 2)).map
    fun u => (t6First addr pl + 2 * u.1, readPlane s.pix u.2 pl)

theorem getT6_eq (m : Mode) (np : Nat) (s : St) (addr n : Nat) :
    getT6 m np s addr n =
      place (place (List.replicate n 0) (t6Units m np s addr n 0)) (t6Units m np s addr n 1) := rfl

theorem t6Units_eq (m : Mode) (hw : wfMode m = true) (hk : m.kind = 3) (np : Nat) (s : St) (addr n pl : Nat) :
    t6Units m np s addr n pl =
      (List.range ((n + 1 - t6First addr pl) / 2)).filterMap fun i =>
        if coordOk m np (getCoords m (addr + t6First addr pl + i * 2)) then
          some (t6First addr pl + 2 * i, readPlane s.pix (getCoords m (addr + t6First addr pl + i * 2)) pl)
        else none := by
  obtain ⟨hf, hp, hg⟩ := t6_factor m hk
  have := walk_units m hw hg np (addr + t6First addr pl) ((n + 1 - t6First addr pl) / 2)
  rw [hf, hp] at this
  unfold t6Units
  rw [this, List.map_filterMap]
  congr 1
  funext i
  unfold sel
  rw [hf]
  by_cases h : coordOk m np (getCoords m (addr + t6First addr pl + i * 2)) = true <;> simp [h]

theorem t6First_le (addr pl : Nat) : t6First addr pl ≤ 1 := by unfold t6First; omega

theorem mem_t6Units (m : Mode) (hw : wfMode m = true) (hk : m.kind = 3) (np : Nat) (s : St) (addr n pl : Nat)
    (u : Nat × Nat) :
    u ∈ t6Units m np s addr n pl ↔
      ∃ i, i < (n + 1 - t6First addr pl) / 2 ∧
        coordOk m np (getCoords m (addr + t6First addr pl + i * 2)) = true ∧
        u = (t6First addr pl + 2 * i, readPlane s.pix (getCoords m (addr + t6First addr pl + i * 2)) pl) := by
  rw [t6Units_eq m hw hk, List.mem_filterMap]
  constructor
  · rintro ⟨i, hi, h⟩
    refine ⟨i, List.mem_range.mp hi, ?_⟩
    by_cases hok : coordOk m np (getCoords m (addr + t6First addr pl + i * 2)) = true
    · rw [if_pos hok] at h
      exact ⟨hok, (Option.some.inj h).symm⟩
    · rw [if_neg hok] at h; cases h
  · rintro ⟨i, hi, hok, rfl⟩
    exact ⟨i, List.mem_range.mpr hi, by rw [if_pos hok]⟩

/-- what a single read sees at byte k of the block -/
def t6Byte (m : Mode) (np : Nat) (s : St) (a : Nat) : Nat :=
  if coordOk m np (getCoords m a) then readPlane s.pix (getCoords m a) (a % 2) else 0

theorem t6Units_key (m : Mode) (hw : wfMode m = true) (hk : m.kind = 3) (np : Nat) (s : St) (addr n pl k : Nat)
    (u : Nat × Nat) (hu : u ∈ t6Units m np s addr n pl) (huk : u.1 = k) :
    k % 2 = t6First addr pl ∧ coordOk m np (getCoords m (addr + k)) = true ∧
      u.2 = readPlane s.pix (getCoords m (addr + k)) pl := by
  obtain ⟨i, _, hok, rfl⟩ := (mem_t6Units m hw hk np s addr n pl u).mp hu
  simp only at huk
  have hfa := t6First_le addr pl
  have e : addr + t6First addr pl + i * 2 = addr + k := by omega
  rw [e] at hok
  refine ⟨by omega, hok, ?_⟩
  simp only [e]

theorem t6Units_exists (m : Mode) (hw : wfMode m = true) (hk : m.kind = 3) (np : Nat) (s : St) (addr n pl k : Nat)
    (hkn : k < n) (hpar : k % 2 = t6First addr pl) (hok : coordOk m np (getCoords m (addr + k)) = true) :
    ∃ u ∈ t6Units m np s addr n pl, u.1 = k := by
  have hfa := t6First_le addr pl
  refine ⟨(t6First addr pl + 2 * (k / 2), readPlane s.pix (getCoords m (addr + t6First addr pl + (k / 2) * 2)) pl), ?_, ?_⟩
  · apply (mem_t6Units m hw hk np s addr n pl _).mpr
    refine ⟨k / 2, by omega, ?_, rfl⟩
    have e : addr + t6First addr pl + (k / 2) * 2 = addr + k := by omega
    rw [e]; exact hok
  · simp only; omega

theorem getT6_length (m : Mode) (np : Nat) (s : St) (addr n : Nat) : (getT6 m np s addr n).length = n := by
  rw [getT6_eq, place_length, place_length, List.length_replicate]

theorem getT6_getElem? (m : Mode) (hw : wfMode m = true) (hk : m.kind = 3) (np : Nat) (s : St) (addr n k : Nat)
    (hkn : k < n) : (getT6 m np s addr n)[k]? = some (t6Byte m np s (addr + k)) := by
  rw [getT6_eq]
  have hlen0 : k < (List.replicate n 0).length := by simpa using hkn
  have hlen1 : k < (place (List.replicate n 0) (t6Units m np s addr n 0)).length := by
    rw [place_length]; exact hlen0
  have hf0 : t6First addr 0 = addr % 2 := by unfold t6First; omega
  have hf1 : t6First addr 1 = (addr + 1) % 2 := by unfold t6First; omega
  unfold t6Byte
  by_cases hok : coordOk m np (getCoords m (addr + k)) = true
  · rw [if_pos hok]
    rcases Nat.mod_two_eq_zero_or_one (addr + k) with hp | hp
    · -- plane 0
      rw [hp]
      have hpar : k % 2 = t6First addr 0 := by omega
      rw [place_getElem?_not_mem k _ _ (fun u hu he => by
        have := (t6Units_key m hw hk np s addr n 1 k u hu he).1
        omega)]
      exact place_getElem?_key k _ _ _ hlen0 (t6Units_exists m hw hk np s addr n 0 k hkn hpar hok)
        (fun u hu he => (t6Units_key m hw hk np s addr n 0 k u hu he).2.2)
    · rw [hp]
      have hpar : k % 2 = t6First addr 1 := by omega
      exact place_getElem?_key k _ _ _ hlen1 (t6Units_exists m hw hk np s addr n 1 k hkn hpar hok)
        (fun u hu he => (t6Units_key m hw hk np s addr n 1 k u hu he).2.2)
  · rw [if_neg hok]
    rw [place_getElem?_not_mem k _ _ (fun u hu he => hok (t6Units_key m hw hk np s addr n 1 k u hu he).2.1),
      place_getElem?_not_mem k _ _ (fun u hu he => hok (t6Units_key m hw hk np s addr n 0 k u hu he).2.1)]
    simp [hkn]

theorem peek_t6 (m : Mode) (hw : wfMode m = true) (hk : m.kind = 3) (np : Nat) (s : St) (a : Nat) :
    peek m np s a = t6Byte m np s a := by
  unfold peek getMemory
  rw [if_neg (by omega), if_neg (by omega), if_pos hk]
  have h := getT6_getElem? m hw hk np s a 1 0 (by omega)
  have hl := getT6_length m np s a 1
  match hg : getT6 m np s a 1, hl, h with
  | [x], _, h => simpa using h

theorem block_read_t6 (m : Mode) (hw : wfMode m = true) (hk : m.kind = 3) (np : Nat) (s : St) (addr n : Nat) :
    getMemory m np s addr n = bytewiseGet m np s addr n := by
  unfold bytewiseGet
  simp only [peek_t6 m hw hk]
  unfold getMemory
  rw [if_neg (by omega), if_neg (by omega), if_pos hk]
  apply List.ext_getElem?
  intro k
  by_cases hkn : k < n
  · rw [getT6_getElem? m hw hk np s addr n k hkn]
    simp [hkn]
  · have h1 : (getT6 m np s addr n).length ≤ k := by rw [getT6_length]; omega
    rw [List.getElem?_eq_none h1, List.getElem?_eq_none]
    simp only [List.length_map, List.length_range]; omega



theorem foldl_commute {α β : Type} (g : β → β) (f : β → α → β) (l : List α)
    (h : ∀ p, ∀ x ∈ l, g (f p x) = f (g p) x) : ∀ p, g (l.foldl f p) = l.foldl f (g p) := by
  induction l with
  | nil => intro p; rfl
  | cons a t ih =>
    intro p
    simp only [List.foldl_cons]
    rw [ih (fun p x hx => h p x (List.mem_cons_of_mem _ hx)), h p a (List.mem_cons_self ..)]

theorem tb_small (c i : Nat) (h : c < 2 ^ i) : c.testBit i = false := Nat.testBit_lt_two_pow h

theorem bits_comm (A B old : Nat) :
    (B &&& 2) ||| (((A &&& 1) ||| (old &&& 254)) &&& 253) =
      (A &&& 1) ||| (((B &&& 2) ||| (old &&& 253)) &&& 254) := by
  apply Nat.eq_of_testBit_eq
  intro i
  simp only [Nat.testBit_or, Nat.testBit_and]
  rcases Nat.lt_or_ge i 8 with h8 | h8
  · have c1 : ∀ i < 8, Nat.testBit 1 i = decide (i = 0) := by decide
    have c2 : ∀ i < 8, Nat.testBit 2 i = decide (i = 1) := by decide
    have c253 : ∀ i < 8, Nat.testBit 253 i = decide (i ≠ 1) := by decide
    have c254 : ∀ i < 8, Nat.testBit 254 i = decide (i ≠ 0) := by decide
    rw [c1 i h8, c2 i h8, c253 i h8, c254 i h8]
    by_cases h0 : i = 0
    · subst h0; simp
    · by_cases h1 : i = 1
      · subst h1; simp
      · simp [h0, h1]
  · have p8 : (256 : Nat) ≤ 2 ^ i := by
      calc 256 = 2 ^ 8 := by decide
        _ ≤ 2 ^ i := Nat.pow_le_pow_right (by omega) h8
    rw [tb_small 1 i (by omega), tb_small 2 i (by omega), tb_small 253 i (by omega), tb_small 254 i (by omega)]
    simp


theorem writeT6_comm (p : Scr) (c1 c2 : Coord) (b1 b2 : Nat) :
    writeT6 (writeT6 p c1 0 b1) c2 1 b2 = writeT6 (writeT6 p c2 1 b2) c1 0 b1 := by
  funext p' y' x'
  unfold writeT6 setGroup
  by_cases g1 : p' = c1.page ∧ y' = c1.y ∧ c1.x ≤ x' ∧ x' < c1.x + 8 <;>
  by_cases g2 : p' = c2.page ∧ y' = c2.y ∧ c2.x ≤ x' ∧ x' < c2.x + 8
  · simp only [if_pos g1, if_pos g2]
    have e0 : (2 : Nat) ^ 0 = 1 := rfl
    have e1 : (2 : Nat) ^ 1 = 2 := rfl
    rw [e0, e1]
    exact bits_comm _ _ _
  · simp only [if_pos g1, if_neg g2]
  · simp only [if_neg g1, if_pos g2]
  · simp only [if_neg g1, if_neg g2]

/-- one byte of a Tandy-6 write: byte k of the block goes to plane (addr+k) % 2 of its own coordinates -/
def t6Step (m : Mode) (np addr : Nat) (bytes : List Nat) (p : Scr) (k : Nat) : Scr :=
  if coordOk m np (getCoords m (addr + k)) then
    writeT6 p (getCoords m (addr + k)) ((addr + k) % 2) (bytes.getD k 0) else p

theorem t6Step_comm (m : Mode) (np addr : Nat) (bytes : List Nat) (p : Scr) (k j : Nat)
    (hk : (addr + k) % 2 = 0) (hj : (addr + j) % 2 = 1) :
    t6Step m np addr bytes (t6Step m np addr bytes p j) k = t6Step m np addr bytes (t6Step m np addr bytes p k) j := by
  unfold t6Step
  rw [hk, hj]
  by_cases h1 : coordOk m np (getCoords m (addr + k)) = true <;>
  by_cases h2 : coordOk m np (getCoords m (addr + j)) = true <;> simp only [h1, h2, if_true]
  · exact (writeT6_comm p _ _ _ _).symm
  all_goals simp

/-- all bytes of plane `pl` among the first n bytes of the block -/
def t6Plane (m : Mode) (np addr : Nat) (bytes : List Nat) (pl n : Nat) (p : Scr) : Scr :=
  (List.range ((n + 1 - t6First addr pl) / 2)).foldl
    (fun p i => t6Step m np addr bytes p (t6First addr pl + 2 * i)) p

theorem t6Plane_succ_same (m : Mode) (np addr : Nat) (bytes : List Nat) (pl n : Nat) (p : Scr)
    (h : n % 2 = t6First addr pl) :
    t6Plane m np addr bytes pl (n + 1) p = t6Step m np addr bytes (t6Plane m np addr bytes pl n p) n := by
  have hfa := t6First_le addr pl
  unfold t6Plane
  have e : (n + 1 + 1 - t6First addr pl) / 2 = (n + 1 - t6First addr pl) / 2 + 1 := by omega
  rw [e, List.range_succ, List.foldl_append]
  simp only [List.foldl_cons, List.foldl_nil]
  have e2 : t6First addr pl + 2 * ((n + 1 - t6First addr pl) / 2) = n := by omega
  rw [e2]

theorem t6Plane_succ_other (m : Mode) (np addr : Nat) (bytes : List Nat) (pl n : Nat) (p : Scr)
    (h : n % 2 ≠ t6First addr pl) :
    t6Plane m np addr bytes pl (n + 1) p = t6Plane m np addr bytes pl n p := by
  have hfa := t6First_le addr pl
  unfold t6Plane
  have e : (n + 1 + 1 - t6First addr pl) / 2 = (n + 1 - t6First addr pl) / 2 := by omega
  rw [e]

/-- writing plane 0 then plane 1 = writing the bytes in address order -/
theorem t6_planes_eq_bytes (m : Mode) (np addr : Nat) (bytes : List Nat) (p : Scr) :
    ∀ n, t6Plane m np addr bytes 1 n (t6Plane m np addr bytes 0 n p) =
      (List.range n).foldl (t6Step m np addr bytes) p := by
  intro n
  induction n with
  | zero =>
    have h0 : (0 + 1 - t6First addr 0) / 2 = 0 := by have := t6First_le addr 0; omega
    have h1 : (0 + 1 - t6First addr 1) / 2 = 0 := by have := t6First_le addr 1; omega
    simp [t6Plane, h0, h1]
  | succ n ih =>
    rw [List.range_succ, List.foldl_append]
    simp only [List.foldl_cons, List.foldl_nil]
    rw [← ih]
    have hf0 : t6First addr 0 = addr % 2 := by unfold t6First; omega
    have hf1 : t6First addr 1 = (addr + 1) % 2 := by unfold t6First; omega
    rcases Nat.mod_two_eq_zero_or_one (addr + n) with hp | hp
    · -- byte n is on plane 0
      rw [t6Plane_succ_same m np addr bytes 0 n p (by omega),
        t6Plane_succ_other m np addr bytes 1 n _ (by omega)]
      -- move the plane-0 write past the plane-1 writes
      unfold t6Plane
      rw [foldl_commute (fun q => t6Step m np addr bytes q n)
        (fun q i => t6Step m np addr bytes q (t6First addr 1 + 2 * i))]
      intro q i _
      exact t6Step_comm m np addr bytes q n (t6First addr 1 + 2 * i) hp (by omega)
    · rw [t6Plane_succ_other m np addr bytes 0 n p (by omega),
        t6Plane_succ_same m np addr bytes 1 n _ (by omega)]



theorem setT6_plane (m : Mode) (hw : wfMode m = true) (hk : m.kind = 3) (np addr : Nat) (bytes : List Nat)
    (pl : Nat) (hpl : pl < 2) (p : Scr) :
    (unitsOf 8 (walk m np (addr + t6First addr pl) ((bytes.length + 1 - t6First addr pl) / 2) 2)).foldl
        (fun p u => writeT6 p u.2 pl (bytes.getD (t6First addr pl + 2 * u.1) 0)) p =
      t6Plane m np addr bytes pl bytes.length p := by
  obtain ⟨hf, hp, hg⟩ := t6_factor m hk
  have := units_write m hw hg np (addr + t6First addr pl) ((bytes.length + 1 - t6First addr pl) / 2)
    (fun p c i => writeT6 p c pl (bytes.getD (t6First addr pl + 2 * i) 0)) p
  rw [hf, hp] at this
  rw [this]
  unfold t6Plane
  congr 1
  funext q i
  unfold t6Step
  have e : addr + t6First addr pl + i * 2 = addr + (t6First addr pl + 2 * i) := by omega
  have e2 : (addr + (t6First addr pl + 2 * i)) % 2 = pl := by unfold t6First; omega
  rw [e, e2]

theorem setT6_eq (m : Mode) (hw : wfMode m = true) (hk : m.kind = 3) (np : Nat) (s : St) (addr : Nat)
    (bytes : List Nat) :
    setT6 m np s addr bytes =
      { s with pix := (List.range bytes.length).foldl (t6Step m np addr bytes) s.pix } := by
  unfold setT6
  simp only [List.foldl_cons, List.foldl_nil]
  rw [setT6_plane m hw hk np addr bytes 0 (by omega), setT6_plane m hw hk np addr bytes 1 (by omega),
    t6_planes_eq_bytes]

theorem poke_t6 (m : Mode) (hw : wfMode m = true) (hk : m.kind = 3) (np : Nat) (s : St) (a v : Nat) :
    poke m np s a v = { s with pix :=
      (if coordOk m np (getCoords m a) then writeT6 s.pix (getCoords m a) (a % 2) v else s.pix) } := by
  unfold poke setMemory
  rw [if_neg (by omega), if_neg (by omega), if_pos hk, setT6_eq m hw hk]
  simp [t6Step, List.range_succ]

theorem block_write_t6 (m : Mode) (hw : wfMode m = true) (hk : m.kind = 3) (np : Nat) (s : St) (addr : Nat)
    (bytes : List Nat) : setMemory m np s addr bytes = bytewiseSet m np s addr bytes := by
  unfold bytewiseSet
  simp only [poke_t6 m hw hk]
  rw [foldl_pix (fun p i => if coordOk m np (getCoords m (addr + i)) then
    writeT6 p (getCoords m (addr + i)) ((addr + i) % 2) (bytes.getD i 0) else p)]
  unfold setMemory
  rw [if_neg (by omega), if_neg (by omega), if_pos hk, setT6_eq m hw hk]
  rfl

theorem t6_bit (old b pl : Nat) (hpl : pl < 2) (hb : b < 2) :
    ((b * 2 ^ pl % 256) &&& 2 ^ pl ||| old &&& (255 - 2 ^ pl)) / 2 ^ pl % 2 = b := by
  have c1 : ∀ i < 8, Nat.testBit 1 i = decide (i = 0) := by decide
  have c2 : ∀ i < 8, Nat.testBit 2 i = decide (i = 1) := by decide
  have c253 : ∀ i < 8, Nat.testBit 253 i = decide (i ≠ 1) := by decide
  have c254 : ∀ i < 8, Nat.testBit 254 i = decide (i ≠ 0) := by decide
  have hpl' : pl = 0 ∨ pl = 1 := by omega
  have hb' : b = 0 ∨ b = 1 := by omega
  rw [div_mod_testBit, Nat.testBit_or, Nat.testBit_and, Nat.testBit_and]
  rcases hpl' with rfl | rfl <;> rcases hb' with rfl | rfl <;>
    simp [c1, c2, c253, c254]

theorem poke_then_peek_t6 (m : Mode) (hw : wfMode m = true) (hk : m.kind = 3) (np : Nat) (s : St) (a v : Nat)
    (hv : v < 256) (hok : coordOk m np (getCoords m a) = true) :
    peek m np (poke m np s a v) a = v := by
  rw [peek_t6 m hw hk, poke_t6 m hw hk]
  unfold t6Byte
  simp only [hok, if_true]
  unfold readPlane writeT6
  rw [packByte_congr_mod 1 8 _ (unpackPix 1 8 v)]
  · exact pack_unpack 1 8 (by decide) v hv
  · intro t ht
    rw [setGroup_in _ _ _ _ _ _ t ht]
    simp only [Nat.pow_one]
    rw [t6_bit _ _ _ (Nat.mod_lt _ (by omega))]
    · unfold unpackPix; simp only [Nat.pow_one]; omega
    · unfold unpackPix; simp only [Nat.pow_one]; omega



/-- the two bytes of a pair (even address, next odd address) cover the same 8 pixels -/
theorem t6_pair_coords (m : Mode) (hw : wfMode m = true) (hk : m.kind = 3) (a : Nat) (ha : a % 2 = 0) :
    getCoords m (a + 1) = getCoords m a := by
  obtain ⟨hR, hB, hil, hP⟩ := wf_basic m hw
  obtain ⟨hR2, hB2, _⟩ := wf_kind3 m hw hk
  obtain ⟨_, _, hg⟩ := t6_factor m hk
  -- parity of the offset in the bank
  have hrel : rel m a % 2 = 0 := by unfold rel; push_cast; omega
  have hdvd : (2 : Int) ∣ (m.bankSize : Int) := by
    refine ⟨((m.bankSize / 2 : Nat) : Int), ?_⟩
    have : m.bankSize = 2 * (m.bankSize / 2) := by omega
    exact_mod_cast this
  have hmm : rel m a % (m.bankSize : Int) % 2 = rel m a % 2 := Int.emod_emod_of_dvd _ hdvd
  have hnn : 0 ≤ rel m a % (m.bankSize : Int) := Int.emod_nonneg _ (by omega)
  have hlt : rel m a % (m.bankSize : Int) < (m.bankSize : Int) := Int.emod_lt_of_pos _ (by omega)
  obtain ⟨off, hoff⟩ := Int.eq_ofNat_of_zero_le hnn
  have hoffev : off % 2 = 0 := by
    have : ((off : Int)) % 2 = 0 := by rw [← hoff, hmm, hrel]
    omega
  have hoffB : off < m.bankSize := by rw [hoff] at hlt; exact_mod_cast hlt
  have htn : (rel m a % (m.bankSize : Int)).toNat = off := by rw [hoff]; exact Int.toNat_natCast _
  have hmodR : off % m.bytesPerRow % 2 = 0 := by
    have := Nat.mod_mod_of_dvd off (show 2 ∣ m.bytesPerRow from Nat.dvd_of_mod_eq_zero hR2)
    omega
  have hmlt := Nat.mod_lt off hR
  have hd := decomp_step m.pageSize m.bankSize m.bytesPerRow m.interleave hB hR hil hP (rel m a) 1
    (by rw [htn]; omega) (by rw [htn]; omega)
  have hcol : (decomp m.pageSize m.bankSize m.bytesPerRow (rel m a)).col % 2 = 0 := by
    have hb := bank_offset m.pageSize m.bankSize m.interleave hB hil hP (rel m a)
    show (rel m a % (m.pageSize : Int)).toNat % m.bankSize % m.bytesPerRow % 2 = 0
    rw [← hb, htn]; exact hmodR
  rw [getCoords_decomp m hw hg, getCoords_decomp m hw hg, rel_add]
  have : ((1 : Nat) : Int) = 1 := rfl
  rw [hd]
  simp only [xOf, hk]
  simp
  omega

theorem t6_bit_other (old b pl q : Nat) (hpl : pl < 2) (hq : q < 2) (hne : q ≠ pl) :
    ((b * 2 ^ pl % 256) &&& 2 ^ pl ||| old &&& (255 - 2 ^ pl)) / 2 ^ q % 2 = old / 2 ^ q % 2 := by
  have c1 : ∀ i < 8, Nat.testBit 1 i = decide (i = 0) := by decide
  have c2 : ∀ i < 8, Nat.testBit 2 i = decide (i = 1) := by decide
  have c253 : ∀ i < 8, Nat.testBit 253 i = decide (i ≠ 1) := by decide
  have c254 : ∀ i < 8, Nat.testBit 254 i = decide (i ≠ 0) := by decide
  have hpl' : pl = 0 ∨ pl = 1 := by omega
  have hq' : q = 0 ∨ q = 1 := by omega
  rw [div_mod_testBit, div_mod_testBit, Nat.testBit_or, Nat.testBit_and, Nat.testBit_and]
  rcases hpl' with rfl | rfl <;> rcases hq' with rfl | rfl <;>
    first | (exact absurd rfl hne) | simp [c1, c2, c253, c254]

/-- a POKE on one plane of a byte pair leaves the byte of the other plane as it was -/
theorem t6_planes_independent (m : Mode) (hw : wfMode m = true) (hk : m.kind = 3) (np : Nat) (s : St)
    (a a' v : Nat) (hc : getCoords m a' = getCoords m a) (hpar : a' % 2 ≠ a % 2) :
    peek m np (poke m np s a v) a' = peek m np s a' := by
  rw [peek_t6 m hw hk, peek_t6 m hw hk, poke_t6 m hw hk]
  unfold t6Byte
  rw [hc]
  by_cases hok : coordOk m np (getCoords m a) = true
  · simp only [hok, if_true]
    unfold readPlane writeT6
    apply packByte_congr_mod
    intro t ht
    rw [setGroup_in _ _ _ _ _ _ t ht]
    simp only [Nat.pow_one]
    exact t6_bit_other _ _ _ _ (Nat.mod_lt _ (by omega)) (Nat.mod_lt _ (by omega)) hpar
  · simp [hok]


end PcbV.VideoMem
