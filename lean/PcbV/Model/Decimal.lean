import PcbV.Basic
import PcbV.Gen.Errors
import PcbV.Gen.DecConsts
import PcbV.Model.Mbf
/-
  Decimal layer of `pcbasic/basic/values/numbers.py` and `values.py` (reusable: C07, C08, C24):

  * `Float.to_decimal` with its helpers `_div10_den`, `_mul10_den`, `_apply_carry_den`, `_abs_gt_den`,
    `_just_under` and the limit constants `_lim_top` / `_lim_bot` (in `Mbf.Fmt`);
  * `Float.to_str` (notation choice), `_scientific_notation`, `_decimal_notation`, `_group_thousands`,
    `_get_digits`; `Integer.to_str`;
  * `str_to_decimal` (the scanner), `Float.from_decimal`, `Integer.from_str`, `Values.from_repr`
    (integer first, then float) and `values.to_repr`.

  Text is `Bytes` (ASCII codes).  The two `while` loops of `to_decimal` run on fuel; running out of
  fuel yields `none` (the Python loop would go on; the driver then answers `nofuel`, which the
  correspondence check would report — termination within the fuel is not proved).
-/
namespace PcbV.Decimal
open PcbV PcbV.Mbf

/-! ### text constants -/

structure NumFmt where
  fmt : Fmt
  sigil : Nat
  expSign : Nat

def sng : NumFmt := ⟨single, PcbV.Gen.DecConsts.singleSigil, PcbV.Gen.DecConsts.singleExpSign⟩
def dbl : NumFmt := ⟨double, PcbV.Gen.DecConsts.doubleSigil, PcbV.Gen.DecConsts.doubleExpSign⟩

def isBlank (c : Nat) : Bool := PcbV.Gen.DecConsts.blanks.contains c
def isSeparator (c : Nat) : Bool := PcbV.Gen.DecConsts.separators.contains c
def isDigit (c : Nat) : Bool := decide (48 ≤ c ∧ c ≤ 57)

/-! ### `b'%d' % n`, `_get_digits`, `rstrip(b'0')` -/

def digitsAux : Nat → Nat → Bytes → Bytes
  | 0, _, acc => acc
  | fuel + 1, n, acc =>
    if n < 10 then (48 + n) :: acc else digitsAux fuel (n / 10) ((48 + n % 10) :: acc)

/-- `b'%d' % n` for `n ≥ 0` -/
def decStr (n : Nat) : Bytes := digitsAux (n + 1) n []

/-- `b'%d' % n` -/
def intStr (n : Int) : Bytes := if n < 0 then 45 :: decStr n.natAbs else decStr n.natAbs

/-- `s.rjust(k, b'0')` -/
def rjust0 (s : Bytes) (k : Nat) : Bytes := List.replicate (k - s.length) 48 ++ s

/-- `_get_digits(mantissa, min_digits)` -/
def getDigits (mantissa : Int) (minDigits : Nat) : Bytes := rjust0 (decStr mantissa.natAbs) minDigits

/-- `s.rstrip(b'0')` -/
def rstrip0 (s : Bytes) : Bytes := (s.reverse.dropWhile (· == 48)).reverse

/-! ### denormalised helpers used only by the decimal conversions -/

/-- `_apply_carry_den` -/
def applyCarryDen (f : Fmt) (d : Den) : Den :=
  let man := if d.man % 256 > 127 then d.man + 256 else d.man
  let exp := if man ≥ f.denUpper then d.exp + 1 else d.exp
  let man := if man ≥ f.denUpper then man / 2 else man
  { exp := exp, man := man - man % 256, neg := d.neg }

/-- `_abs_gt_den` -/
def absGtDen (l r : Den) : Bool :=
  if l.exp ≠ r.exp then decide (l.exp > r.exp) else decide (l.man > r.man)

/-- `_div10_den`: `_div_den` by ten, then shift the quotient up to the normalised position -/
def div10Den (f : Fmt) (d : Den) : Den :=
  let q := divDen f d (denorm f f.ten)
  let (e, m) := shiftUp (f.w + 10) f.denMask q.exp q.man
  { exp := e, man := m, neg := q.neg }

/-- `_mul10_den`: `10x = 2(x + 4x)` -/
def mul10Den (f : Fmt) (d : Den) : Den :=
  addDen f { d with exp := d.exp + 1 } { d with exp := d.exp + 3 }

def unFR : FR → F
  | .ok x => x
  | .error (_, x) => x

/-- `_just_under` -/
def justUnder (f : Fmt) (x : F) : F :=
  let d := denorm f x
  unFR (normalise f d.exp (d.man - 256) d.neg)

/-- the pair `(lim_top, lim_bot)` chosen by `to_decimal(digits)` -/
def limits (f : Fmt) (digits : Int) : F × F :=
  if digits ≥ f.digits then (f.limTop, f.limBot)
  else if digits > 0 then
    (justUnder f (unFR (fromInt f (10 ^ digits.toNat))),
     justUnder f (unFR (fromInt f (10 ^ (digits.toNat - 1)))))
  else (justUnder f (unFR (fromInt f 1)), unFR (fromInt f 0))

/-- first loop: `while abs_gt_den(den, tden): den = div10(den); exp10 += 1` -/
def divLoop10 (f : Fmt) (t : Den) : Nat → Den → Int → Option (Den × Int)
  | 0, _, _ => none
  | fuel + 1, d, e =>
    if absGtDen d t then divLoop10 f t fuel (div10Den f d) (e + 1) else some (d, e)

/-- second loop: `while abs_gt_den(bden, den): den = mul10(den); exp10 -= 1` -/
def mulLoop10 (f : Fmt) (b : Den) : Nat → Den → Int → Option (Den × Int)
  | 0, _, _ => none
  | fuel + 1, d, e =>
    if absGtDen b d then mulLoop10 f b fuel (mul10Den f d) (e - 1) else some (d, e)

/-- the tail of `to_decimal`: shift to the units position, round half up, apply the sign -/
def roundDen (f : Fmt) (d : Den) : Int :=
  let exp := d.exp - f.bias
  let man := if exp > 0 then d.man * 2 ^ exp.toNat else d.man / 2 ^ (-exp).toNat
  let man := if man / 128 % 2 = 1 then man + 128 else man
  if d.neg then -((man / 256 : Nat) : Int) else ((man / 256 : Nat) : Int)

def loopFuel : Nat := 200

/-- `to_decimal` from a denormalised value with explicit limits -/
def toDecimalDen (f : Fmt) (t b : Den) (d : Den) : Option (Int × Int) :=
  match divLoop10 f t loopFuel d 0 with
  | none => none
  | some (d1, e1) =>
    match mulLoop10 f b loopFuel (applyCarryDen f d1) e1 with
    | none => none
    | some (d2, e2) => some (roundDen f (applyCarryDen f d2), e2)

/-- `Float.to_decimal(digits)` as it was BEFORE the repair of the extra-digit carry (defect found by
    C07): for doubles `lim_top` is `10^16 - 0.25`, which the final half-up rounding turns into `10^16`,
    a 17-digit mantissa that `to_str` then misreads by a factor ten. -/
def toDecimalOld (f : Fmt) (x : F) (digits : Int) : Option (Int × Int) :=
  let (top, bot) := limits f digits
  toDecimalDen f (denorm f top) (denorm f bot) (denorm f x)

/-- the repair: `if digits >= self.digits and num >= 10**self.digits: num //= 10; exp10 += 1` -/
def carryDigit (f : Fmt) (digits : Int) (r : Int × Int) : Int × Int :=
  if digits ≥ f.digits ∧ r.1.natAbs ≥ 10 ^ f.digits then
    ((if r.1 < 0 then -((r.1.natAbs / 10 : Nat) : Int) else ((r.1.natAbs / 10 : Nat) : Int)), r.2 + 1)
  else r

/-- `Float.to_decimal(digits)` → `(mantissa, exp10)` -/
def toDecimal (f : Fmt) (x : F) (digits : Int) : Option (Int × Int) :=
  (toDecimalOld f x digits).map (carryDigit f digits)

/-! ### notations -/

/-- `_group_thousands` -/
def groupThousands (s : Bytes) : Bytes :=
  let first := s.length % 3
  let rec chunks : Nat → Bytes → List Bytes
    | 0, _ => []
    | fuel + 1, r => if r.isEmpty then [] else r.take 3 :: chunks fuel (r.drop 3)
  let rest := chunks s.length (s.drop first)
  let all := if first ≠ 0 then s.take first :: rest else rest
  (all.intersperse [44]).flatten

/-- `_scientific_notation(digitstr, exp10, digits_to_dot, force_dot)` -/
def scientificNotation (nf : NumFmt) (digitstr : Bytes) (exp10 : Int) (digitsToDot : Nat)
    (forceDot : Bool) : Bytes :=
  let v := digitstr.take digitsToDot
  let v := if digitstr.length > digitsToDot then v ++ [46] ++ digitstr.drop digitsToDot
           else if digitstr.length = digitsToDot ∧ forceDot then v ++ [46] else v
  let exponent : Int := exp10 - digitsToDot + 1
  v ++ [nf.expSign] ++ [if exponent < 0 then 45 else 43] ++ getDigits exponent 2

/-- `_decimal_notation(digitstr, exp10, type_sign, force_dot, group_thousands)` -/
def decimalNotation (nf : NumFmt) (digitstr : Bytes) (exp10 : Int) (typeSign forceDot group : Bool) :
    Bytes :=
  let ts : Bytes := if typeSign then [nf.sigil] else []
  let e := exp10 + 1
  let v : Bytes :=
    if e ≥ digitstr.length then
      let v := digitstr ++ List.replicate (e.toNat - digitstr.length) 48
      let v := if group then groupThousands v else v
      if forceDot then v ++ [46] else v
    else if e > 0 then
      let v := digitstr.take e.toNat
      let v := if group then groupThousands v else v
      v ++ [46] ++ digitstr.drop e.toNat
    else [46] ++ List.replicate (-e).toNat 48 ++ digitstr
  if !v.contains 46 || ts == [35] then v ++ ts else v

/-- `Float.to_str(leading_space, type_sign)` over a given `to_decimal`; `none` only if that ran out of fuel -/
def floatToStrWith (toDec : Fmt → F → Int → Option (Int × Int)) (nf : NumFmt) (x : F)
    (leadingSpace typeSign : Bool) : Option Bytes :=
  let f := nf.fmt
  if x.isZero then
    some ((if leadingSpace then [32] else []) ++ [48] ++ (if typeSign then [nf.sigil] else []))
  else
    let sign : Bytes := if isNeg f x then [45] else if leadingSpace then [32] else []
    match toDec f x f.digits with
    | none => none
    | some (mantissa, exp10) =>
      let digitstr := rstrip0 (getDigits mantissa f.digits)
      let exp10 := exp10 + f.digits - 1
      if exp10 > (f.digits : Int) - 1 ∨ (digitstr.length : Int) - exp10 > f.digits + 1 then
        some (sign ++ scientificNotation nf digitstr exp10 1 false)
      else
        some (sign ++ decimalNotation nf digitstr exp10 typeSign false false)

def floatToStr := floatToStrWith toDecimal
def floatToStrOld := floatToStrWith toDecimalOld

/-- 16-bit pattern → signed value (`struct.unpack('<h')`) -/
def s16 (w : Nat) : Int := if w % 65536 ≥ 32768 then (w % 65536 : Nat) - 65536 else (w % 65536 : Nat)

/-- `Integer.to_str(leading_space, type_sign)` (the type sign is never shown) -/
def integerToStr (w : Nat) (leadingSpace : Bool) : Bytes :=
  let s := intStr (s16 w)
  if leadingSpace ∧ s.head? ≠ some 45 then 32 :: s else s

/-! ### values -/

inductive Num where
  | int (w : Nat)        -- 16-bit pattern
  | sgl (x : F)
  | dbl (x : F)
deriving DecidableEq, Repr

/-- `values.to_repr(inp, leading_space, type_sign)` for numbers -/
def toRepr (v : Num) (leadingSpace typeSign : Bool) : Option Bytes :=
  match v with
  | .int w => some (integerToStr w leadingSpace)
  | .sgl x => floatToStr sng x leadingSpace typeSign
  | .dbl x => floatToStr dbl x leadingSpace typeSign

/-! ### the scanner `str_to_decimal` -/

structure Scan where
  foundSign : Bool := false
  foundPoint : Bool := false
  foundExp : Bool := false
  foundExpSign : Bool := false
  expNeg : Bool := false
  neg : Bool := false
  exp10 : Int := 0
  exponent : Nat := 0
  mantissa : Nat := 0
  digits : Nat := 0
  zeros : Nat := 0
  isDouble : Bool := false
  isSingle : Bool := false
deriving DecidableEq, Repr

inductive Step where
  | cont (s : Scan)     -- `continue`
  | stop (s : Scan)     -- `break`
  | zero                -- `return False, 0, 0`
  | nonnum              -- `raise ValueError`

def upper (c : Nat) : Nat := if 97 ≤ c ∧ c ≤ 122 then c - 32 else c

/-- the digit / non-digit tail shared by the two exponent branches -/
def stepExpDigit (allowNonnum : Bool) (s : Scan) (c : Nat) : Step :=
  if isDigit c then .cont { s with exponent := s.exponent * 10 + (c - 48) }
  else if allowNonnum then .stop s else .nonnum

/-- one iteration of the `for c in s` loop -/
def step (allowNonnum : Bool) (s : Scan) (c : Nat) : Step :=
  if isBlank c then .cont s
  else if isSeparator c then .zero
  else
    -- determine sign
    let signHere := !s.foundSign && (c == 43 || c == 45)
    let s1 : Scan := if !s.foundSign then { s with foundSign := true } else s
    if signHere then .cont { s1 with neg := c == 45 }
    else if !s1.foundExp then
      if isDigit c then
        let mantissa := s1.mantissa * 10 + (c - 48)
        let exp10 := if s1.foundPoint then s1.exp10 - 1 else s1.exp10
        if mantissa ≠ 0 then
          .cont { s1 with mantissa := mantissa, exp10 := exp10, digits := s1.digits + 1,
                          zeros := if s1.foundPoint ∧ c = 48 then s1.zeros + 1 else 0 }
        else .cont { s1 with mantissa := mantissa, exp10 := exp10 }
      else if c = 46 then .cont { s1 with foundPoint := true }
      else if upper c = 68 ∨ upper c = 69 then
        .cont { s1 with foundExp := true, isDouble := upper c == 68 }
      else if c = 33 then .stop { s1 with isSingle := true }
      else if c = 35 then .stop { s1 with isDouble := true }
      else if allowNonnum then .stop s1 else .nonnum
    else if !s1.foundExpSign then
      let s2 : Scan := { s1 with foundExpSign := true }
      if c = 43 ∨ c = 45 then .cont { s2 with expNeg := c == 45 }
      else stepExpDigit allowNonnum s2 c
    else stepExpDigit allowNonnum s1 c

inductive ScanEnd where
  | fin (s : Scan)
  | zero
  | nonnum

def scanLoop (allowNonnum : Bool) : Bytes → Scan → ScanEnd
  | [], s => .fin s
  | c :: rest, s =>
    match step allowNonnum s c with
    | .cont s' => scanLoop allowNonnum rest s'
    | .stop s' => .fin s'
    | .zero => .zero
    | .nonnum => .nonnum

/-- what the code after the loop returns: `(is_double, mantissa, exp10)` -/
def finish (s : Scan) : Bool × Int × Int :=
  let exp10 := if s.expNeg then s.exp10 - s.exponent else s.exp10 + s.exponent
  let isDouble := if s.digits - s.zeros > 7 ∧ !s.isSingle then true else s.isDouble
  -- NB `digits - zeros` is an int subtraction in Python; zeros ≤ digits always (each counted zero is a counted digit)
  (isDouble, if s.neg then -(s.mantissa : Int) else s.mantissa, exp10)

/-- `str_to_decimal(s, allow_nonnum)`; `none` = ValueError -/
def strToDecimal (s : Bytes) (allowNonnum : Bool) : Option (Bool × Int × Int) :=
  match scanLoop allowNonnum s {} with
  | .fin st => some (finish st)
  | .zero => some (false, 0, 0)
  | .nonnum => none

/-! ### `from_decimal` -/

def iter (g : Den → Den) : Nat → Den → Den
  | 0, d => d
  | n + 1, d => iter g n (g d)

/-- `Float.from_decimal(mantissa, exp10)` as it was BEFORE the repair of the zero-mantissa defect found by
    C07 (`0E1` became 1.469368E-38: `_mul10_den` of the denormalised zero `(0, den_mask)` adds
    `(1, man)` and `(3, man)`, neither of which `_add_den` recognises as zero) -/
def fromDecimalOld (f : Fmt) (mantissa exp10 : Int) : FR :=
  match fromInt f mantissa with
  | .error e => .error e
  | .ok x =>
    let d := denorm f x
    let d := if exp10 < 0 then iter (div10Den f) (-exp10).toNat d else iter (mul10Den f) exp10.toNat d
    normD f d

/-- `Float.from_decimal(mantissa, exp10)` -/
def fromDecimal (f : Fmt) (mantissa exp10 : Int) : FR :=
  if mantissa = 0 then .ok zero else
  match fromInt f mantissa with
  | .error e => .error e
  | .ok x =>
    let d := denorm f x
    let d := if exp10 < 0 then iter (div10Den f) (-exp10).toNat d else iter (mul10Den f) exp10.toNat d
    normD f d

/-! ### `Integer.from_str`, `from_hex`, `from_oct`, `Values.from_repr` -/

def lstrip (p : Nat → Bool) (s : Bytes) : Bytes := s.dropWhile p
def strip (p : Nat → Bool) (s : Bytes) : Bytes := ((s.dropWhile p).reverse.dropWhile p).reverse

def digitsVal (base : Nat) (s : Bytes) : Nat :=
  s.foldl (fun acc c => acc * base + (if c ≥ 65 then c - 55 else c - 48)) 0

inductive IntParse where
  | ok (w : Nat)
  | notInt            -- ValueError
  | overflow

/-- `Integer.from_str(dec_repr)` -/
def integerFromStr (s : Bytes) : IntParse :=
  let v := strip isBlank s
  if !v.all isDigit then .notInt
  else if v.isEmpty then .notInt               -- int(b'') raises ValueError
  else
    let n := digitsVal 10 v
    if n ≤ 32767 then .ok n else .overflow

inductive Parsed where
  | val (v : Num)
  | softErr (code : Nat) (v : Num)     -- float error: BASIC error number and the value supplied instead
  | err (code : Nat)
  | unmodelled                          -- `&` literals that are not plain digit strings (Python `int()` rules)
deriving DecidableEq, Repr

def isHexDigit (c : Nat) : Bool := isDigit c || decide (65 ≤ c ∧ c ≤ 70)
def isOctDigit (c : Nat) : Bool := decide (48 ≤ c ∧ c ≤ 55)

/-- `from_int(val, unsigned=True)` for `val ≥ 0` -/
def unsignedInt (n : Nat) : Parsed :=
  if n ≤ 65535 then .val (.int n) else .err PcbV.Gen.E.overflow

def ofFR (mk : F → Num) : FR → Parsed
  | .ok x => .val (mk x)
  | .error (c, x) => .softErr c (mk x)

/-- `Values.from_repr(word, allow_nonnum)` for a numeric `typechar` (or none) -/
def fromRepr (word : Bytes) (allowNonnum : Bool) : Parsed :=
  let w := (lstrip (fun c => c == 32 || c == 10) word).map upper
  if w.isEmpty then .val (.int 0)
  else if w.take 2 = [38, 72] then
    let h := w.drop 2
    if h.all isHexDigit then unsignedInt (digitsVal 16 h) else .unmodelled
  else if w.take 1 = [38] then
    let o := if (w.drop 1).take 1 = [79] then w.drop 2 else w.drop 1
    let o := o.filter (fun c => !isBlank c)      -- octal digits may be interrupted by blanks
    if o.all isOctDigit then unsignedInt (digitsVal 8 o) else .unmodelled
  else
    match integerFromStr w with
    | .ok n => .val (.int n)
    | _ =>
      match strToDecimal w allowNonnum with
      | none => .err PcbV.Gen.E.ifc
      | some (isDouble, mantissa, exp10) =>
        if isDouble then ofFR .dbl (fromDecimal double mantissa exp10)
        else ofFR .sgl (fromDecimal single mantissa exp10)

end PcbV.Decimal
