import PcbV.Lemmas.HeapMono
/-
  Proofs of the collector / check_free / store theorems of PcbV.Props.C10 (kept here so that the
  statement-level lemmas can use them).
-/
namespace PcbV.Heap
open PcbV

theorem collect_total_lem (s : Heap) (hs : WF s) : ∃ s', collect s = .ok s' := by
  obtain ⟨es, he⟩ := entriesOf_total s hs (rootLocs s)
  obtain ⟨tmp, h⟩ := collect_shape s es he
  exact ⟨_, h⟩


theorem gc_preserves_lem (s s' : Heap) (hs : WF s) (h : collect s = .ok s') :
    WF s' ∧ absScalars s' = absScalars s ∧ absArrays s' = absArrays s ∧ absStack s' = absStack s := by
  obtain ⟨t, last, hr, hsh, e1, e2, e3, e4, e5, e6, e7, e8, e9, e10, _, _⟩ := collect_facts s s' hs h
  obtain ⟨hb, hl, hv⟩ := hr.final
  have hg : ∀ l, getLoc s' l = getLoc t l := getLoc_congr s' t e8 e9 e10
  have hd : ∀ p, deref s' p = deref t p := fun p => deref_congr t s' p e5 e6 e7 e1
  refine ⟨⟨?_, ?_⟩, ?_⟩
  · rw [e2, e1, top_congr s' t e3 e4]; exact hb
  · intro l p hp h0 hvs
    rw [hg] at hp
    rw [e5] at hvs
    obtain ⟨b, hb1, hb2⟩ := hl l p hp h0 hvs
    exact ⟨b, by rw [e1]; exact hb1, hb2⟩
  · apply abs_eq_of_cells
    · exact ⟨by rw [e8]; exact hsh.sc, by rw [e9]; exact hsh.ar, by rw [e10]; exact hsh.st⟩
    · intro l
      rw [hg, ← hv l]
      cases getLoc t l with
      | none => rfl
      | some p => simp [hd]


theorem gc_never_loses_space_lem (s s' : Heap) (hs : WF s) (h : collect s = .ok s') :
    s.current ≤ s'.current ∧ free s ≤ free s' := by
  obtain ⟨t, last, hr, _, _, e2, _, _, e5, _, _, _, _, _, e11, e12⟩ := collect_facts s s' hs h
  have := hr.current_ge hs
  refine ⟨by omega, ?_⟩
  unfold free used
  rw [e2, e5, hr.vs, e11, e12]
  omega


theorem fre_accounting_lem (s s' : Heap) (hs : WF s) (h : collect s = .ok s') :
    s'.top = s.top ∧ used s' = used s ∧ s'.current + sumLen s'.strs = s'.top ∧
    (used s' ≤ s'.current → free s' + used s' + sumLen s'.strs = s'.top) := by
  obtain ⟨t, last, hr, _, e1, e2, e3, e4, e5, _, _, _, _, _, e11, e12⟩ := collect_facts s s' hs h
  have htop : s'.top = s.top := by rw [top_congr s' t e3 e4, top_congr t s hr.tot hr.stk]
  have hfill : s'.current + sumLen s'.strs = s'.top := by rw [e2, e1, htop]; exact hr.fill
  have hused : used s' = used s := by unfold used; rw [e5, hr.vs, e11, e12]
  refine ⟨htop, hused, hfill, fun hu => ?_⟩
  unfold free
  omega


theorem checkFree_sound_lem (size err : Nat) (s : Heap) (hs : WF s) :
    match checkFree size err s with
    | .ok s' => WF s' ∧ lowMem s' size = false ∧
        absScalars s' = absScalars s ∧ absArrays s' = absArrays s ∧ absStack s' = absStack s
    | .error (e, s') => e = err ∧ collect s = .ok s' ∧ lowMem s' size = true ∧ WF s' ∧
        absScalars s' = absScalars s ∧ absArrays s' = absArrays s ∧ absStack s' = absStack s := by
  unfold checkFree
  by_cases hlow : lowMem s size = true
  · rw [if_pos hlow]
    obtain ⟨s1, h1⟩ := collect_total_lem s hs
    rw [h1]
    simp only
    obtain ⟨hw, ha⟩ := gc_preserves_lem s s1 hs h1
    by_cases hlow1 : lowMem s1 size = true
    · rw [if_pos hlow1]; exact ⟨rfl, rfl, hlow1, hw, ha⟩
    · rw [if_neg hlow1]; exact ⟨hw, by simpa using hlow1, ha⟩
  · rw [if_neg hlow]
    exact ⟨hs, by simpa using hlow, rfl, rfl, rfl⟩


theorem oom_only_when_needed_lem (size err e : Nat) (s s' : Heap) (hs : WF s)
    (h : checkFree size err s = .error (e, s')) :
    e = err ∧ collect s = .ok s' ∧ free s' ≤ size ∧ s'.current + sumLen s'.strs = s'.top := by
  have := checkFree_sound_lem size err s hs
  rw [h] at this
  obtain ⟨h1, h2, h3, _⟩ := this
  refine ⟨h1, h2, ?_, (fre_accounting_lem s s' hs h2).2.2.1⟩
  unfold lowMem at h3
  unfold free
  simp at h3
  omega


theorem allocPush_sound_lem (b : Bytes) (s : Heap) (hs : WF s) :
    match allocPush b s with
    | .ok s' => WF s' ∧ absScalars s' = absScalars s ∧ absArrays s' = absArrays s ∧
        absStack s' = absStack s ++ [b]
    | .error (_, s') => WF s' ∧ absScalars s' = absScalars s ∧ absArrays s' = absArrays s ∧
        absStack s' = absStack s := by
  unfold allocPush
  by_cases hlen : b.length > 255
  · rw [if_pos hlen]; exact ⟨hs, rfl, rfl, rfl⟩
  · rw [if_neg hlen]
    have hc := checkFree_sound_lem b.length Gen.E.out_of_string_space s hs
    cases hcf : checkFree b.length Gen.E.out_of_string_space s with
    | error x =>
      obtain ⟨e, s1⟩ := x
      rw [hcf] at hc
      exact ⟨hc.2.2.2.1, hc.2.2.2.2⟩
    | ok s1 =>
      rw [hcf] at hc
      obtain ⟨hw, hlow, ha1, ha2, ha3⟩ := hc
      simp only
      unfold lowMem used at hlow
      simp at hlow
      have hn : b.length ≤ s1.current := by omega
      have hv : s1.varStart ≤ s1.current - b.length + 1 := by omega
      have hwf := hw.storeRaw_push b hn hv
      have hd : ∀ l p, getLoc s1 l = some p →
          deref (push (storeRaw s1 b).1 (.own (storeRaw s1 b).2)) p = deref s1 p := by
        intro l p hp
        rw [← deref_storeRaw s1 b p hw.blocks hn (hw.live l p hp)]
        exact deref_congr _ _ p rfl rfl rfl rfl
      refine ⟨hwf, ?_, ?_, ?_⟩
      · rw [← ha1]
        refine absScalars_eq (s := s1) (show _ = _ from rfl) ?_
        intro i
        rw [getLoc_push_v, getLoc_storeRaw]
        cases hp : getLoc s1 (.v (.sc i)) with
        | none => rfl
        | some p => simp [hd _ p hp]
      · rw [← ha2]
        refine absArrays_eq (s := s1) (show _ = _ from rfl) ?_
        intro a i
        rw [getLoc_push_v, getLoc_storeRaw]
        cases hp : getLoc s1 (.v (.el a i)) with
        | none => rfl
        | some p => simp [hd _ p hp]
      · rw [← ha3]
        show ((storeRaw s1 b).1.stack ++ [Item.own (storeRaw s1 b).2]).map _ = _
        rw [List.map_append]
        congr 1
        · apply List.map_congr_left
          intro it hit
          obtain ⟨k, hk⟩ := List.getElem?_of_mem hit
          cases it with
          | own p =>
            have : getLoc s1 (.s k) = some p := by
              simp only [getLoc]
              have : s1.stack[k]? = some (Item.own p) := hk
              rw [this]
            exact hd _ p this
          | ref l =>
            simp only [itemVal, itemPtr]
            have hgv : getV (push (storeRaw s1 b).1 (.own (storeRaw s1 b).2)) l = getV s1 l := by
              have := getLoc_push_v (storeRaw s1 b).1 (.own (storeRaw s1 b).2) l
              rw [getLoc_storeRaw] at this
              exact this
            rw [hgv]
            cases hp : getV s1 l with
            | none => simp; rw [deref_zero _ _ rfl, deref_zero _ _ rfl]
            | some p => simp; exact hd (.v l) p hp
        · simp only [List.map, itemVal, itemPtr]
          congr 1
          by_cases h0 : b.length = 0
          · rw [deref_zero _ _ (by exact h0)]
            exact (List.length_eq_zero_iff.mp h0).symm
          · apply deref_live _ _ _ (by exact h0)
            · exact hv
            · show lookup (storeRaw s1 b).1.strs _ = some b
              rw [(storeRaw_fields s1 b).2.1, if_pos (by omega)]
              exact lookup_cons_self _ _ _


end PcbV.Heap
