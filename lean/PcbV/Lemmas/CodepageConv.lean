import PcbV.Model.Codepage
/-
  Lemmas about the Converter state machine of `PcbV.Model.Codepage` (used by Props/C41).
-/
namespace PcbV.Codepage

/-- reachable buffer shapes: without box protection at most a pending lead byte; with it
    0..2 bytes while no box set is active, and 0 or 2 bytes while one is -/
def Wf (box : Bool) (s : St) : Prop :=
  if box then
    (s.bset = none → s.buf.length ≤ 2) ∧ (s.bset ≠ none → s.buf.length = 0 ∨ s.buf.length = 2)
  else s.buf.length ≤ 1

/-- every emitted sequence is one or two bytes long -/
def Short (out : List Bytes) : Prop := ∀ q ∈ out, q.length = 1 ∨ q.length = 2

theorem Short.nil : Short [] := by intro q h; cases h

theorem Short.append {a b : List Bytes} (ha : Short a) (hb : Short b) : Short (a ++ b) := by
  intro q h
  rcases List.mem_append.mp h with h | h
  · exact ha q h
  · exact hb q h

theorem wf_init (box : Bool) : Wf box {} := by
  cases box <;> simp [Wf]

/-- one `_process` call: the shape invariant is kept, emitted ++ buffer = old buffer ++ [c],
    and the emitted sequences are short -/
theorem process_inv (p : Preds) (box : Bool) (s : St) (c : Nat) (h : Wf box s) :
    Wf box (process p box s c).1 ∧
    (process p box s c).2.flatten ++ (process p box s c).1.buf = s.buf ++ [c] ∧
    Short (process p box s c).2 := by
  obtain ⟨buf, bset, last⟩ := s
  cases box
  · -- no box protection
    simp only [Wf, Bool.false_eq_true, if_false] at h ⊢
    rcases buf with _ | ⟨a, _ | ⟨b, r⟩⟩
    · simp only [process, Bool.false_eq_true, if_false, processNobox, flush, flushN]
      by_cases hp : p.preserve c = true <;> by_cases hl : p.lead c = true <;>
        simp [hp, hl, Short]
    · simp only [process, Bool.false_eq_true, if_false, processNobox, flush, flushN]
      by_cases hp : p.preserve c = true <;> by_cases ht : p.trail c = true <;>
        by_cases hl : p.lead c = true <;> simp [hp, hl, ht, Short]
    · simp at h
  · -- box protection
    simp only [Wf, if_true] at h ⊢
    by_cases hp : p.preserve c = true
    · rcases buf with _ | ⟨a, _ | ⟨b, _ | ⟨x, r⟩⟩⟩ <;>
        simp [process, processBox, hp, flush, flushN, Short]
      cases bset <;> simp at h
    · cases bset with
      | none =>
        rcases buf with _ | ⟨a, _ | ⟨b, _ | ⟨x, r⟩⟩⟩
        · by_cases hl : p.lead c = true <;>
            simp [process, processBox, hp, case0, hl, Short]
        · by_cases ht : p.trail c = true
          · by_cases h0 : connects p (some a) c 0 = true
            · simp [process, processBox, hp, case1, ht, whole, h0, Short]
            · by_cases h1 : connects p (some a) c 1 = true <;>
                simp [process, processBox, hp, case1, ht, whole, h0, h1, Short]
          · simp [process, processBox, hp, case1, ht, flush, flushN, Short]
        · by_cases hl : p.lead c = true
          · by_cases h0 : connects p (some b) c 0 = true
            · simp [process, processBox, hp, case2, hl, h0, flushN, Short]
            · by_cases h1 : connects p (some b) c 1 = true <;>
                simp [process, processBox, hp, case2, hl, h0, h1, flush, flushN, Short]
          · simp [process, processBox, hp, case2, hl, flush, flushN, Short]
        · simp at h
      | some bs =>
        rcases buf with _ | ⟨a, _ | ⟨b, _ | ⟨x, r⟩⟩⟩
        · by_cases hl : p.lead c = true
          · by_cases h0 : connects p last c bs = true <;>
              simp [process, processBox, hp, case4, hl, h0, Short]
          · simp [process, processBox, hp, case4, hl, Short]
        · simp at h
        · by_cases hl : p.lead c = true
          · by_cases h0 : connects p (some b) c bs = true <;>
              simp [process, processBox, hp, case3, hl, h0, flush, flushN, Short]
          · simp [process, processBox, hp, case3, hl, flush, flushN, Short]
        · simp at h

theorem flush_inv (box : Bool) (s : St) (h : Wf box s) :
    Wf box (flush s).1 ∧ (flush s).2.flatten ++ (flush s).1.buf = s.buf ∧ (flush s).1.buf = [] ∧
    Short (flush s).2 := by
  obtain ⟨buf, bset, last⟩ := s
  cases box
  · simp only [Wf, Bool.false_eq_true, if_false] at h ⊢
    rcases buf with _ | ⟨a, _ | ⟨b, r⟩⟩ <;> simp [flush, flushN, Short] at h ⊢
  · simp only [Wf, if_true] at h ⊢
    rcases buf with _ | ⟨a, _ | ⟨b, _ | ⟨x, r⟩⟩⟩ <;> simp [flush, flushN, Short] at h ⊢
    all_goals (cases bset <;> simp at h)

theorem feed_inv (p : Preds) (box : Bool) (l : Bytes) : ∀ (s : St), Wf box s →
    Wf box (feed p box s l).1 ∧
    (feed p box s l).2.flatten ++ (feed p box s l).1.buf = s.buf ++ l ∧
    Short (feed p box s l).2 := by
  induction l with
  | nil => intro s h; simp [feed, h, Short]
  | cons c r ih =>
    intro s h
    obtain ⟨h1, h2, h3⟩ := process_inv p box s c h
    obtain ⟨i1, i2, i3⟩ := ih (process p box s c).1 h1
    refine ⟨by simpa [feed] using i1, ?_, ?_⟩
    · simp only [feed, List.flatten_append, List.append_assoc]
      rw [i2, ← List.append_assoc, h2]
      simp
    · simpa [feed] using Short.append h3 i3

theorem feed_append (p : Preds) (box : Bool) (a b : Bytes) : ∀ (s : St),
    feed p box s (a ++ b) =
      ((feed p box (feed p box s a).1 b).1, (feed p box s a).2 ++ (feed p box (feed p box s a).1 b).2) := by
  induction a with
  | nil => intro s; simp [feed]
  | cons c r ih => intro s; simp [feed, ih, List.append_assoc]

/-- invariant of a whole Converter: in a single-byte codepage the buffer is never touched -/
def Inv (dbcs box : Bool) (s : St) : Prop := if dbcs then Wf box s else s.buf = []

theorem inv_init (dbcs box : Bool) : Inv dbcs box {} := by
  cases dbcs <;> simp [Inv, wf_init]

theorem mark_inv (p : Preds) (dbcs box : Bool) (s : St) (l : Bytes) (fl : Bool) (h : Inv dbcs box s) :
    Inv dbcs box (mark p dbcs box s l fl).1 ∧
    (mark p dbcs box s l fl).2.flatten ++ (mark p dbcs box s l fl).1.buf = s.buf ++ l ∧
    Short (mark p dbcs box s l fl).2 ∧
    (fl = true → (mark p dbcs box s l fl).1.buf = []) := by
  cases dbcs
  · simp only [Inv, Bool.false_eq_true, if_false] at h ⊢
    simp only [mark, Bool.not_false, if_true]
    refine ⟨h, ?_, ?_, fun _ => h⟩
    · rw [h]
      induction l with
      | nil => simp
      | cons c r ih => simpa using ih
    · intro q hq
      simp at hq
      obtain ⟨c, _, rfl⟩ := hq
      simp
  · simp only [Inv, if_true] at h ⊢
    obtain ⟨h1, h2, h3⟩ := feed_inv p box l s h
    cases fl
    · simp [mark, h1, h2, h3]
    · obtain ⟨f1, f2, f3, f4⟩ := flush_inv box (feed p box s l).1 h1
      simp only [mark, Bool.not_true, Bool.false_eq_true, if_false, if_true]
      refine ⟨f1, ?_, Short.append h3 f4, fun _ => f3⟩
      rw [List.flatten_append, List.append_assoc, f2, h2]

theorem convert_inv (p : Preds) (dbcs box : Bool) (hist : List (Bytes × Bool)) : ∀ (s : St),
    Inv dbcs box s →
    Inv dbcs box (convert p dbcs box s hist).1 ∧
    (convert p dbcs box s hist).2.flatten ++ (convert p dbcs box s hist).1.buf
      = s.buf ++ (hist.map Prod.fst).flatten ∧
    Short (convert p dbcs box s hist).2 := by
  induction hist with
  | nil => intro s h; simp [convert, h, Short]
  | cons e r ih =>
    intro s h
    obtain ⟨ch, fl⟩ := e
    obtain ⟨h1, h2, h3, _⟩ := mark_inv p dbcs box s ch fl h
    obtain ⟨i1, i2, i3⟩ := ih (mark p dbcs box s ch fl).1 h1
    refine ⟨by simpa [convert] using i1, ?_, ?_⟩
    · simp only [convert, List.flatten_append, List.append_assoc, List.map_cons, List.flatten_cons]
      rw [i2, ← List.append_assoc, h2]
      simp
    · simpa [convert] using Short.append h3 i3

theorem convert_append (p : Preds) (dbcs box : Bool) (a b : List (Bytes × Bool)) : ∀ (s : St),
    convert p dbcs box s (a ++ b) =
      ((convert p dbcs box (convert p dbcs box s a).1 b).1,
       (convert p dbcs box s a).2 ++ (convert p dbcs box (convert p dbcs box s a).1 b).2) := by
  induction a with
  | nil => intro s; simp [convert]
  | cons e r ih => intro s; obtain ⟨ch, fl⟩ := e; simp [convert, ih, List.append_assoc]

/-- chunks fed without flushing are the same as the concatenation fed at once -/
theorem convert_noflush (p : Preds) (dbcs box : Bool) (chunks : List Bytes) : ∀ (s : St),
    convert p dbcs box s (chunks.map fun c => (c, false)) = mark p dbcs box s chunks.flatten false := by
  induction chunks with
  | nil => intro s; cases dbcs <;> simp [convert, mark, feed]
  | cons c r ih =>
    intro s
    simp only [List.map_cons, convert, ih, List.flatten_cons]
    cases dbcs
    · simp [mark]
    · simp [mark, feed_append]

/-! ### without box protection the converter is the greedy lead/trail parse -/

theorem greedy_single (p : Preds) (c : Nat) (r : Bytes) (h : (!p.preserve c && p.lead c) = false) :
    greedy p (c :: r) = [c] :: greedy p r := by
  cases r with
  | nil => simp [greedy]
  | cons d r' => rw [greedy]; simp [h]

theorem greedy_pair (p : Preds) (c d : Nat) (r : Bytes) (h : (!p.preserve c && p.lead c) = true)
    (h2 : (!p.preserve d && p.trail d) = true) : greedy p (c :: d :: r) = [c, d] :: greedy p r := by
  rw [greedy]
  simp only [Bool.and_eq_true] at h h2
  simp [h.1, h.2, h2.1, h2.2]

theorem greedy_nopair (p : Preds) (c d : Nat) (r : Bytes) (h2 : (!p.preserve d && p.trail d) = false) :
    greedy p (c :: d :: r) = [c] :: greedy p (d :: r) := by
  rw [greedy]
  have : (!p.preserve c && p.lead c && !p.preserve d && p.trail d) = false := by
    rw [Bool.and_assoc, h2]; simp
  simp [this]

/-- the buffer of a Converter without box protection: empty or one non-preserved lead byte -/
def PendingLead (p : Preds) (s : St) : Prop :=
  s.buf = [] ∨ ∃ l, s.buf = [l] ∧ p.preserve l = false ∧ p.lead l = true

theorem nobox_step (p : Preds) (s : St) (c : Nat) (r : Bytes) (h : PendingLead p s) :
    PendingLead p (processNobox p s c).1 ∧
    (processNobox p s c).2 ++ greedy p ((processNobox p s c).1.buf ++ r) = greedy p (s.buf ++ c :: r) := by
  obtain ⟨buf, bset, last⟩ := s
  rcases h with h | ⟨l, h, hpl, hll⟩
  · simp only at h
    subst h
    by_cases hp : p.preserve c = true
    · simp [processNobox, hp, flush, flushN, PendingLead, greedy_single]
    · by_cases hl : p.lead c = true
      · simp [processNobox, hp, hl, PendingLead]
      · simp [processNobox, hp, hl, PendingLead, greedy_single]
  · simp only at h
    subst h
    by_cases hp : p.preserve c = true
    · have e1 : greedy p (l :: c :: r) = [l] :: greedy p (c :: r) := greedy_nopair p l c r (by simp [hp])
      have e2 : greedy p (c :: r) = [c] :: greedy p r := greedy_single p c r (by simp [hp])
      simp [processNobox, hp, flush, flushN, PendingLead, e1, e2]
    · by_cases ht : p.trail c = true
      · have e1 : greedy p (l :: c :: r) = [l, c] :: greedy p r :=
          greedy_pair p l c r (by simp [hpl, hll]) (by simp [hp, ht])
        simp [processNobox, hp, ht, flush, flushN, PendingLead, e1]
      · have e1 : greedy p (l :: c :: r) = [l] :: greedy p (c :: r) := greedy_nopair p l c r (by simp [ht])
        by_cases hl : p.lead c = true
        · simp [processNobox, hp, ht, hl, flush, flushN, PendingLead, e1]
        · have e2 : greedy p (c :: r) = [c] :: greedy p r := greedy_single p c r (by simp [hl])
          simp [processNobox, hp, ht, hl, flush, flushN, PendingLead, e1, e2]

theorem nobox_feed (p : Preds) (l : Bytes) : ∀ (s : St), PendingLead p s →
    (feed p false s l).2 ++ (flush (feed p false s l).1).2 = greedy p (s.buf ++ l) := by
  induction l with
  | nil =>
    intro s h
    obtain ⟨buf, bset, last⟩ := s
    rcases h with h | ⟨l, h, _, _⟩ <;> simp only at h <;> subst h <;> simp [feed, flush, flushN, greedy]
  | cons c r ih =>
    intro s h
    obtain ⟨h1, h2⟩ := nobox_step p s c r h
    have := ih (processNobox p s c).1 h1
    simp only [feed, process, Bool.false_eq_true, if_false, List.append_assoc]
    rw [this, h2]

end PcbV.Codepage
