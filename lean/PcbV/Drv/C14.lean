import PcbV.Model.Renum
namespace PcbV.Drv.C14
open PcbV PcbV.Program PcbV.Renum

def optNat (w : String) : Option (Option Nat) :=
  if w == "-" then some none else w.toNat?.map some

def parseRec (w : String) : Option Rec :=
  match w.splitOn ":" with
  | [n, body] => do
      let n ← n.toNat?
      let b ← ofHex body
      pure (n, b)
  | _ => none

def parseProg (w : String) : Option (List Rec) :=
  if w == "-" then some [] else (w.splitOn ";").mapM parseRec

def parseNats (w : String) : Option (List Nat) :=
  if w == "-" then some [] else (w.splitOn ",").mapM String.toNat?

def showProg (rs : List Rec) : String :=
  if rs.isEmpty then "-" else ";".intercalate (rs.map (fun r => toString r.1 ++ ":" ++ toHex r.2))

def showPairs (l : List (Nat × Nat)) : String :=
  if l.isEmpty then "-" else ";".intercalate (l.map (fun e => toString e.1 ++ ":" ++ toString e.2))

/-- `renum new old step traps prog` (each of new/old/step a number or `-`) →
    `ok prog' | old:new;… | jump:line;… | traps'`  or  `err n` -/
def handle : List String → String
  | ["renum", new, old, step, traps, prog] =>
    match optNat new, optNat old, optNat step, parseNats traps, parseProg prog with
    | some new, some old, some step, some traps, some rs =>
      match renumCmd rs new old step with
      | .ok r => "ok " ++ showProg r.prog ++ " | " ++ showPairs r.map ++ " | " ++ showPairs r.reports ++
          " | " ++ showNats (traps.map (trapAfter r.map))
      | .error e => "err " ++ toString e
    | _, _, _, _, _ => "bad-op"
  | ["refs", body] =>
    match ofHex body with
    | some b => "ok " ++ showNats (refsBody b)
    | none => "bad-op"
  | ["old", new, hdr, body] =>
    -- the unrepaired rewrite of one body with every reference mapped to `new`
    match new.toNat?, ofHex hdr, ofHex body with
    | some n, some h, some b => "ok " ++ toHex (renumBodyOld (fun _ => n) h b)
    | _, _, _ => "bad-op"
  | _ => "bad-op"

end PcbV.Drv.C14
